import Model.VecEnv
import Gen.VecEnvGen
import Proofs.VecEnvWrap

/-!
  Proofs/VecEnvGenEq.lean — the definitions GENERATED from the source text of
  `agilerl/wrappers/pettingzoo_wrappers.py`, `agilerl/vector/pz_vec_env.py` and `agilerl/vector/pz_async_vec_env.py`
  (`Gen/VecEnvGen.lean`, written by `harness/py2lean_vecenv.py` on every run) agree with the hand-written model
  `Model/VecEnv.lean`.

  The generated code speaks the PettingZoo API: five dicts keyed by agent (`PyDict`, position = agent index,
  `none` = key absent), lookups that can raise (`Option`), an opaque observation type with the three container
  constructors of `get_placeholder_value`.  The model works on one record per agent (`AgentOut`) and lists of
  member chunks.  `toPy` presents a model `Env` through the API, `chunkCtor` reads observations as chunk lists,
  `genP e` is the placeholder the source builds (`-1` entries, reward `0`, terminated, not truncated, info `{}`),
  `outDicts` / `encode` are the five dicts of a model-level result.  Every theorem says: on well-shaped inputs
  (stated: `ActsOK` — every agent has one action per sub-environment; `EnvAgents` — the environment's dicts
  contain possible agents only; both shown satisfiable below) the generated function does not raise and returns
  the encoding of the model function's result.  Assumed about the runtime calls: `int(x)` keeps the value of an
  integer action (`hint`), `np.array(x).squeeze()` keeps the value (`hsq`).

    gen_wrapper_reset_eq, gen_wrapper_step_eq            Wrapper.reset / .step      = E.reset / wrapperStep .repaired
    gen_all_or_eq, gen_all_bitor_eq                      the two auto-reset tests   = presentDone
    gen_placeholder_observation_eq                       placeholder observation    = phObs (genP e)
    gen_process_transition_{step_gen,reset}_eq           process_transition         = fill / fillReset (`filled`)
    gen_worker_reset_eq, gen_worker_step_eq              _async_worker branches     = reset + fillReset / workerStep .repaired
    gen_reset_messages_eq                                reset / reset_async        = ("reset", seed + i, options) to worker i
    gen_step_async_eq, gen_step_messages_eq              step / step_async          = ("step", column i of the actions)
    gen_dispatch_step, gen_dispatch_reset                worker_branch              : the command sent selects the branch
    gen_vec_step_eq, gen_vec_reset_eq, gen_run_spec      one step / reset / any action sequence of all workers

  If the source changes its behaviour these proofs stop checking; the C12 theorems are restated over the
  generated definitions in `Props/C12.lean` (`C12_source_translation_*`).  Core Lean only.
-/

namespace VecEnv
open VecEnvGen

section prelude
variable {β γ : Type}

theorem pyGet_map (f : β → γ) (d : PyDict β) (k : Nat) :
    pyGet (d.map (Option.map f)) k = (pyGet d k).map f := by
  unfold pyGet
  rw [List.getElem?_map]
  cases d[k]? with
  | none => rfl
  | some x => cases x <;> rfl

theorem pyGet_map_some (l : List β) (k : Nat) : pyGet (l.map some) k = l[k]? := by
  unfold pyGet
  rw [List.getElem?_map]
  cases l[k]? <;> rfl

theorem mem_pyKeys (d : PyDict β) (k : Nat) : k ∈ pyKeys d ↔ (pyGet d k).isSome = true := by
  unfold pyKeys
  rw [List.mem_filter, List.mem_range]
  constructor
  · exact fun h => h.2
  · intro h
    refine ⟨?_, h⟩
    by_contra hk
    have : d[k]? = none := List.getElem?_eq_none (by omega)
    simp [pyGet, this] at h

theorem pyKeys_contains (d : PyDict β) (k : Nat) : (pyKeys d).contains k = (pyGet d k).isSome := by
  rw [Bool.eq_iff_iff, List.contains_iff_mem, mem_pyKeys]

theorem pySeq_map_some (l : List γ) (f : γ → Option β) (g : γ → β) (h : ∀ x ∈ l, f x = some (g x)) :
    pySeq (l.map f) = some (l.map g) := by
  induction l with
  | nil => rfl
  | cons x r ih =>
    simp only [List.map_cons, h x List.mem_cons_self, pySeq]
    rw [ih (fun y hy => h y (List.mem_cons_of_mem _ hy))]
    rfl

theorem pyAllGen_map_some (l : List γ) (f : γ → Option Bool) (g : γ → Bool) (h : ∀ x ∈ l, f x = some (g x)) :
    pyAllGen (l.map f) = some (l.all g) := by
  induction l with
  | nil => rfl
  | cons x r ih =>
    have ih' := ih (fun y hy => h y (List.mem_cons_of_mem _ hy))
    simp only [List.map_cons, h x List.mem_cons_self, List.all_cons]
    cases hg : g x
    · simp [pyAllGen]
    · simp [pyAllGen, ih']

theorem pyAllList_map_some (l : List γ) (f : γ → Option Bool) (g : γ → Bool) (h : ∀ x ∈ l, f x = some (g x)) :
    pyAllList (l.map f) = some (l.all g) := by
  unfold pyAllList
  rw [pySeq_map_some l f g h]
  simp [List.all_map, Function.comp_def]

theorem pySet_length (d : PyDict β) (v : β) : pySet d d.length v = d ++ [some v] := by
  unfold pySet
  simp

theorem foldl_pySet_range' (g : Nat → β) : ∀ (n k : Nat) (acc : PyDict β), acc.length = k →
    ((List.range' k n).map (fun a => (a, g a))).foldl (fun d p => pySet d p.1 p.2) acc =
      acc ++ (List.range' k n).map (fun a => some (g a)) := by
  intro n
  induction n with
  | zero => intro k acc _; simp
  | succ n ih =>
    intro k acc hk
    rw [List.range'_succ]
    simp only [List.map_cons, List.foldl_cons]
    rw [← hk, pySet_length, ih (acc.length + 1) _ (by simp)]
    simp [hk]

/-- `{a: g(a) for a in range(n)}` has exactly the keys `0 … n-1` -/
theorem pyDictOfPairs_range (g : Nat → β) (n : Nat) :
    pyDictOfPairs ((List.range n).map (fun a => (a, g a))) = (List.range n).map (fun a => some (g a)) := by
  unfold pyDictOfPairs
  rw [List.range_eq_range']
  simpa using foldl_pySet_range' g n 0 [] rfl

theorem foldl_pySet_zipIdx (f : γ → β) : ∀ (l : List γ) (k : Nat) (acc : PyDict β), acc.length = k →
    (((l.zipIdx k).map (fun p => (p.2, p.1))).map (fun v => (v.1, f v.2))).foldl (fun d p => pySet d p.1 p.2) acc =
      acc ++ l.map (fun x => some (f x)) := by
  intro l
  induction l with
  | nil => intro k acc _; simp
  | cons x r ih =>
    intro k acc hk
    rw [List.zipIdx_cons]
    simp only [List.map_cons, List.foldl_cons]
    rw [← hk, pySet_length, ih (acc.length + 1) _ (by simp)]
    simp

/-- `{k: f(v) for k, v in enumerate(l)}` -/
theorem pyDictOfPairs_enumerate (f : γ → β) (l : List γ) :
    pyDictOfPairs ((pyEnumerate l).map (fun v => (v.1, f v.2))) = l.map (fun x => some (f x)) := by
  unfold pyDictOfPairs pyEnumerate
  simpa using foldl_pySet_zipIdx f l 0 [] rfl

theorem getElem?_pyEnumerate (l : List β) (j : Nat) : (pyEnumerate l)[j]? = l[j]?.map (fun x => (j, x)) := by
  unfold pyEnumerate
  rw [List.getElem?_map, List.getElem?_zipIdx]
  cases l[j]? <;> simp

theorem pyValues_map_some (l : List β) : pyValues (l.map some) = l := by
  unfold pyValues
  induction l with
  | nil => rfl
  | cons x r ih => simp

theorem pyValues_map_some' (g : γ → β) (l : List γ) : pyValues (l.map (fun x => some (g x))) = l.map g := by
  rw [show (fun x => some (g x)) = some ∘ g from rfl, ← List.map_map, pyValues_map_some]

end prelude

/-! ### the model's environment as a `PyEnv`, observations as lists of member chunks -/
section conv
variable {S A α R I Ω : Type}

def members : PySpace → List Nat
  | .dict ms => ms
  | .tuple ms => ms
  | .box n => [n]

/-- an observation is the list of its member chunks: a Dict observation is its values in key order, a Tuple
    observation its members, an array the single chunk -/
def chunkCtor : ObsCtor α (List (List α)) := ⟨fun d => pyValues d, id, fun c => [c]⟩

/-- the `Env` of the hand model seen through the PettingZoo API: five dicts keyed by agent position -/
def toPy (spaces : List PySpace) (E : Env S A α R I) : PyEnv S A (List (List α)) R I Ω where
  reset st seed _ :=
    ((E.reset st seed).1, ((E.reset st seed).2.map (fun x => some x.1), (E.reset st seed).2.map (fun x => some x.2)))
  step st d :=
    ((E.step st (pyValues d)).1,
      ((E.step st (pyValues d)).2.map (Option.map (·.obs)), (E.step st (pyValues d)).2.map (Option.map (·.rew)),
       (E.step st (pyValues d)).2.map (Option.map (·.term)), (E.step st (pyValues d)).2.map (Option.map (·.trunc)),
       (E.step st (pyValues d)).2.map (Option.map (·.info))))
  observation_space a := spaces.getD a (.box 0)

/-- the placeholder `get_placeholder_value` builds: observation entries `-1`, reward `0`, info `{}` -/
def genP [Neg α] [OfNat α 1] [OfNat R 0] (e : I) : Placeholder α R I := ⟨-1, 0, e⟩

/-- the five dicts a worker sends / writes for a list of per-agent outputs -/
def outDicts (outs : List (AgentOut α R I)) :
    PyDict (List (List α)) × PyDict R × PyDict Bool × PyDict Bool × PyDict I :=
  (outs.map (fun o => some o.obs), outs.map (fun o => some o.rew), outs.map (fun o => some o.term),
   outs.map (fun o => some o.trunc), outs.map (fun o => some o.info))

/-! ### the auto-reset test -/

theorem keys_all_present (out : List (Option (AgentOut α R I))) (g : Nat → Bool)
    (hg : ∀ k o, out[k]? = some (some o) → g k = (o.term || o.trunc)) :
    (pyKeys (out.map (Option.map (·.term)))).all g = presentDone out := by
  rw [Bool.eq_iff_iff, List.all_eq_true, presentDone_iff]
  constructor
  · intro h o ho
    obtain ⟨k, hk⟩ := List.getElem?_of_mem ho
    have hmem : k ∈ pyKeys (out.map (Option.map (·.term))) := by
      rw [mem_pyKeys, pyGet_map]; simp [pyGet, hk]
    have := h k hmem
    rw [hg k o hk] at this
    simpa using this
  · intro h k hk
    rw [mem_pyKeys, pyGet_map] at hk
    cases hx : out[k]? with
    | none => simp [pyGet, hx] at hk
    | some x =>
      cases x with
      | none => simp [pyGet, hx] at hk
      | some o =>
        rw [hg k o hx]
        have := h o (List.mem_of_getElem? hx)
        simpa using this

/-- `all(terminations[a] or truncations[a] for a in terminations.keys())` -/
theorem gen_all_or_eq (out : List (Option (AgentOut α R I))) :
    pyAllGen ((pyKeys (out.map (Option.map (·.term)))).map (fun k =>
      pyOr (pyGet (out.map (Option.map (·.term))) k) (pyGet (out.map (Option.map (·.trunc))) k))) =
      some (presentDone out) := by
  rw [pyAllGen_map_some _ _ (fun k => match out[k]? with | some (some o) => o.term || o.trunc | _ => true)]
  · rw [keys_all_present]
    intro k o hk; simp [hk]
  · intro k hk
    rw [mem_pyKeys, pyGet_map] at hk
    rw [pyGet_map, pyGet_map]
    cases hx : out[k]? with
    | none => simp [pyGet, hx] at hk
    | some x =>
      cases x with
      | none => simp [pyGet, hx] at hk
      | some o =>
        have hg : pyGet out k = some o := by simp [pyGet, hx]
        simp only [hg, Option.map_some]
        cases o.term <;> simp [pyOr]

/-- `all([terminated[a] | truncated[a] for a in terminated.keys()])` -/
theorem gen_all_bitor_eq (out : List (Option (AgentOut α R I))) :
    pyAllList ((pyKeys (out.map (Option.map (·.term)))).map (fun k =>
      pyBitOr (pyGet (out.map (Option.map (·.term))) k) (pyGet (out.map (Option.map (·.trunc))) k))) =
      some (presentDone out) := by
  rw [pyAllList_map_some _ _ (fun k => match out[k]? with | some (some o) => o.term || o.trunc | _ => true)]
  · rw [keys_all_present]
    intro k o hk; simp [hk]
  · intro k hk
    rw [mem_pyKeys, pyGet_map] at hk
    rw [pyGet_map, pyGet_map]
    cases hx : out[k]? with
    | none => simp [pyGet, hx] at hk
    | some x =>
      cases x with
      | none => simp [pyGet, hx] at hk
      | some o =>
        have hg : pyGet out k = some o := by simp [pyGet, hx]
        simp [hg, pyBitOr]


/-! ### the wrapper -/

/-- the five dicts `PettingZooAutoResetParallelWrapper.step` returns, read off the model's `WrapOut` -/
def wrapDicts (w : WrapOut α R I) :
    PyDict (List (List α)) × PyDict R × PyDict Bool × PyDict Bool × PyDict I :=
  (w.obsInfo.map (Option.map (·.1)), w.rest.map (Option.map (·.1)), w.rest.map (Option.map (·.2.1)),
   w.rest.map (Option.map (·.2.2)), w.obsInfo.map (Option.map (·.2)))

theorem gen_wrapper_reset_eq (spaces : List PySpace) (E : Env S A α R I) (s : S) (seed : Option Nat) (o : Option Ω) :
    Wrapper.reset (toPy spaces E : PyEnv S A (List (List α)) R I Ω) s seed o =
      ((E.reset s seed).1, ((E.reset s seed).2.map (fun x => some x.1), (E.reset s seed).2.map (fun x => some x.2))) :=
  rfl

theorem gen_wrapper_step_eq (spaces : List PySpace) (E : Env S A α R I) (s : S) (acts : List A) :
    Wrapper.step (toPy spaces E : PyEnv S A (List (List α)) R I Ω) s (acts.map some) =
      some ((wrapperStep .repaired E s acts).1, wrapDicts (wrapperStep .repaired E s acts).2) := by
  unfold Wrapper.step
  simp only [toPy, pyValues_map_some]
  rw [gen_all_or_eq]
  cases hp : presentDone (E.step s acts).2
  · rw [wrapperStep_repaired_pass E s acts hp]
    simp [wrapDicts, Function.comp_def]
  · rw [wrapperStep_repaired_reset E s acts hp]
    simp [wrapDicts, Function.comp_def]


/-! ### placeholders and `process_transition` -/

/-- `observation_space = {agent: env.observation_space(agent) for agent in agents}` in the worker -/
def spaceDict (spaces : List PySpace) : PyDict PySpace :=
  (List.range spaces.length).map (fun a => some (spaces.getD a (.box 0)))

theorem pyGet_spaceDict (spaces : List PySpace) (a : Nat) (ha : a < spaces.length) :
    pyGet (spaceDict spaces) a = some (spaces.getD a (.box 0)) := by
  simp [spaceDict, pyGet, List.getElem?_map, List.getElem?_range ha]

theorem pyNeg_npOnes [Neg α] [OfNat α 1] (n : Nat) : pyNeg (npOnes n : List α) = List.replicate n (-1) := by
  simp [pyNeg, npOnes]

/-- `get_placeholder_value(agent, "observation", obs_spaces)`: one chunk of `-1` per member of the agent's space -/
theorem gen_placeholder_observation_eq [Neg α] [OfNat α 1] [OfNat R 0] (e : I) (d : PyDict PySpace) (a : Nat)
    (sp : PySpace) (h : pyGet d a = some sp) :
    get_placeholder_value_observation (chunkCtor : ObsCtor α _) a (some d) =
      some (phObs (genP e : Placeholder α R I) (members sp)) := by
  unfold get_placeholder_value_observation
  simp only [h]
  cases sp with
  | dict ms =>
    simp only [PySpace.isDict, PySpace.items, if_true]
    rw [pyDictOfPairs_enumerate (fun n => pyNeg (npOnes n : List α))]
    simp [chunkCtor, pyValues_map_some', members, phObs, genP, pyNeg_npOnes]
  | tuple ms =>
    simp [PySpace.isDict, PySpace.isTuple, PySpace.iter, chunkCtor, members, phObs, genP, pyNeg_npOnes]
  | box n =>
    simp [PySpace.isDict, PySpace.isTuple, PySpace.shape, chunkCtor, members, phObs, genP, pyNeg_npOnes]

/-- one iteration of the unrolled loop of `process_transition`: `{agent: d[agent] if agent in d.keys() else ph}` -/
theorem gen_fill_field {β : Type} (d : PyDict β) (ph? : Nat → Option β) (ph : Nat → β) (n : Nat)
    (h : ∀ a, a < n → ph? a = some (ph a)) :
    pySeq ((List.range n).map (fun a =>
      Option.bind (if (pyKeys d).contains a then pyGet d a else ph? a) (fun r => some (a, r)))) =
      some ((List.range n).map (fun a => (a, (pyGet d a).getD (ph a)))) := by
  apply pySeq_map_some
  intro a ha
  rw [pyKeys_contains, h a (List.mem_range.1 ha)]
  cases pyGet d a <;> rfl

theorem fill_field {β : Type} (P : Placeholder α R I) (sizes : List (List Nat)) (out : List (Option (AgentOut α R I)))
    (f : AgentOut α R I → β) :
    (fill P sizes out).map (fun o => some (f o)) =
      (List.range sizes.length).map (fun a =>
        some ((pyGet (out.map (Option.map f)) a).getD (f (phOut P (sizes.getD a []))))) := by
  apply List.ext_getElem?
  intro i
  rw [List.getElem?_map, getElem?_fill, List.getElem?_map]
  by_cases hi : i < sizes.length
  · rw [List.getElem?_range hi, List.getElem?_eq_getElem hi]
    simp only [Option.map_some, Option.some.injEq, pyGet_map]
    rw [List.getD_eq_getElem?_getD, List.getElem?_eq_getElem hi]
    simp only [Option.getD_some, pyGet]
    cases hx : out[i]? with
    | none => rfl
    | some x => cases x <;> rfl
  · have h1 : sizes[i]? = none := List.getElem?_eq_none (by omega)
    have h2 : (List.range sizes.length)[i]? = none := List.getElem?_eq_none (by simp; omega)
    rw [h1, h2]; rfl

theorem fillReset_field {β : Type} (P : Placeholder α R I) (sizes : List (List Nat)) (q : List (List (List α) × I))
    (f : List (List α) × I → β) :
    (fillReset P sizes q).map (fun x => some (f x)) =
      (List.range sizes.length).map (fun a =>
        some ((pyGet (q.map (fun x => some (f x))) a).getD (f (phObs P (sizes.getD a []), P.info)))) := by
  apply List.ext_getElem?
  intro i
  rw [List.getElem?_map, getElem?_fillReset, List.getElem?_map]
  by_cases hi : i < sizes.length
  · rw [List.getElem?_range hi, List.getElem?_eq_getElem hi]
    simp only [Option.map_some, Option.some.injEq]
    rw [List.getD_eq_getElem?_getD, List.getElem?_eq_getElem hi]
    simp only [Option.getD_some, pyGet, List.getElem?_map]
    cases hx : q[i]? <;> rfl
  · have h1 : sizes[i]? = none := List.getElem?_eq_none (by omega)
    have h2 : (List.range sizes.length)[i]? = none := List.getElem?_eq_none (by simp; omega)
    rw [h1, h2]; rfl

theorem sizes_getD (spaces : List PySpace) (a : Nat) (ha : a < spaces.length) :
    (spaces.map members).getD a [] = members (spaces.getD a (.box 0)) := by
  simp [List.getD_eq_getElem?_getD, List.getElem?_eq_getElem ha]

/-- what `{agent: d[agent] if agent in d.keys() else ph(agent) for agent in range(n)}` is -/
def filled {β : Type} (n : Nat) (d : PyDict β) (ph : Nat → β) : PyDict β :=
  (List.range n).map (fun a => some ((pyGet d a).getD (ph a)))

/-- `process_transition(…, ["observation", "reward", "terminated", "truncated", "info"], agents)` on any five dicts -/
theorem gen_process_transition_step_gen [Neg α] [OfNat α 1] [OfNat R 0] (e : I) (spaces : List PySpace)
    (d0 : PyDict (List (List α))) (d1 : PyDict R) (d2 d3 : PyDict Bool) (d4 : PyDict I) :
    process_transition_observation_reward_terminated_truncated_info e chunkCtor (d0, d1, d2, d3, d4)
      (spaceDict spaces) (List.range spaces.length) =
      some (filled spaces.length d0 (fun a => phObs (genP e : Placeholder α R I) ((spaces.map members).getD a [])),
            filled spaces.length d1 (fun _ => 0), filled spaces.length d2 (fun _ => true),
            filled spaces.length d3 (fun _ => false), filled spaces.length d4 (fun _ => e)) := by
  unfold process_transition_observation_reward_terminated_truncated_info
  simp only [get_placeholder_value_reward, get_placeholder_value_terminated, get_placeholder_value_truncated,
    get_placeholder_value_info]
  rw [gen_fill_field _ _ (fun a => phObs (genP e : Placeholder α R I) ((spaces.map members).getD a [])),
    gen_fill_field _ _ (fun _ => (0 : R)) _ (fun _ _ => rfl),
    gen_fill_field _ _ (fun _ => true) _ (fun _ _ => rfl),
    gen_fill_field _ _ (fun _ => false) _ (fun _ _ => rfl),
    gen_fill_field _ _ (fun _ => e) _ (fun _ _ => rfl)]
  · simp only [pyDictOfPairs_range, filled]
  · intro a ha
    rw [gen_placeholder_observation_eq (R := R) e _ a _ (pyGet_spaceDict spaces a ha), sizes_getD spaces a ha]

theorem outDicts_fill [Neg α] [OfNat α 1] [OfNat R 0] (e : I) (spaces : List PySpace)
    (out : List (Option (AgentOut α R I))) :
    outDicts (fill (genP e) (spaces.map members) out) =
      (filled spaces.length (out.map (Option.map (·.obs)))
         (fun a => phObs (genP e : Placeholder α R I) ((spaces.map members).getD a [])),
       filled spaces.length (out.map (Option.map (·.rew))) (fun _ => 0),
       filled spaces.length (out.map (Option.map (·.term))) (fun _ => true),
       filled spaces.length (out.map (Option.map (·.trunc))) (fun _ => false),
       filled spaces.length (out.map (Option.map (·.info))) (fun _ => e)) := by
  unfold outDicts filled
  rw [fill_field _ _ _ (·.obs), fill_field _ _ _ (·.rew), fill_field _ _ _ (·.term), fill_field _ _ _ (·.trunc),
    fill_field _ _ _ (·.info)]
  simp [phOut, genP]

theorem fillReset_filled [Neg α] [OfNat α 1] [OfNat R 0] (e : I) (spaces : List PySpace)
    (q : List (List (List α) × I)) :
    (fillReset (genP e : Placeholder α R I) (spaces.map members) q).map (fun x => some x.1) =
        filled spaces.length (q.map (fun x => some x.1))
          (fun a => phObs (genP e : Placeholder α R I) ((spaces.map members).getD a [])) ∧
    (fillReset (genP e : Placeholder α R I) (spaces.map members) q).map (fun x => some x.2) =
        filled spaces.length (q.map (fun x => some x.2)) (fun _ => e) := by
  unfold filled
  rw [fillReset_field _ _ _ (·.1), fillReset_field _ _ _ (·.2)]
  simp [genP]

/-- the dicts of a resetting step: observation and info of the reset, the rest of the finished step -/
theorem outDicts_showReset (P : Placeholder α R I) (sizes : List (List Nat)) (out : List (Option (AgentOut α R I)))
    (q : List (List (List α) × I)) :
    outDicts (showReset (fill P sizes out) (fillReset P sizes q)) =
      ((fillReset P sizes q).map (fun x => some x.1), (fill P sizes out).map (fun o => some o.rew),
       (fill P sizes out).map (fun o => some o.term), (fill P sizes out).map (fun o => some o.trunc),
       (fillReset P sizes q).map (fun x => some x.2)) := by
  have key : ∀ {β : Type} (f : AgentOut α R I → β) (g : AgentOut α R I → List (List α) × I → β),
      (∀ o x, f (showResetAt o (some x)) = g o x) → ∀ i : Nat,
      ((showReset (fill P sizes out) (fillReset P sizes q)).map (fun o => some (f o)))[i]? =
        (sizes[i]?.map (fun ks => some (g (fillAt P ks out[i]?) (fillResetAt P ks q[i]?)))) := by
    intro β f g hfg i
    rw [List.getElem?_map, getElem?_showReset, getElem?_fill, getElem?_fillReset]
    cases sizes[i]? with
    | none => rfl
    | some ks => simp [hfg]
  unfold outDicts
  refine Prod.ext ?_ (Prod.ext ?_ (Prod.ext ?_ (Prod.ext ?_ ?_))) <;> apply List.ext_getElem? <;> intro i
  · rw [key (·.obs) (fun _ x => x.1) (fun _ _ => rfl), List.getElem?_map, getElem?_fillReset]
    cases sizes[i]? <;> rfl
  · rw [key (·.rew) (fun o _ => o.rew) (fun _ _ => rfl), List.getElem?_map, getElem?_fill]
    cases sizes[i]? <;> rfl
  · rw [key (·.term) (fun o _ => o.term) (fun _ _ => rfl), List.getElem?_map, getElem?_fill]
    cases sizes[i]? <;> rfl
  · rw [key (·.trunc) (fun o _ => o.trunc) (fun _ _ => rfl), List.getElem?_map, getElem?_fill]
    cases sizes[i]? <;> rfl
  · rw [key (·.info) (fun _ x => x.2) (fun _ _ => rfl), List.getElem?_map, getElem?_fillReset]
    cases sizes[i]? <;> rfl

/-- `process_transition(…, ["observation", "info"], agents)` = `fillReset` -/
theorem gen_process_transition_reset_eq [Neg α] [OfNat α 1] [OfNat R 0] (e : I) (spaces : List PySpace)
    (q : List (List (List α) × I)) :
    process_transition_observation_info e chunkCtor
      (q.map (fun x => some x.1), q.map (fun x => some x.2)) (spaceDict spaces) (List.range spaces.length) =
      some ((fillReset (genP e : Placeholder α R I) (spaces.map members) q).map (fun x => some x.1),
            (fillReset (genP e : Placeholder α R I) (spaces.map members) q).map (fun x => some x.2)) := by
  unfold process_transition_observation_info
  simp only [get_placeholder_value_info]
  rw [gen_fill_field _ _ (fun a => phObs (genP e : Placeholder α R I) ((spaces.map members).getD a [])),
    gen_fill_field _ _ (fun _ => e) _ (fun _ _ => rfl)]
  · simp only [pyDictOfPairs_range]
    rw [fillReset_field _ _ _ (·.1), fillReset_field _ _ _ (·.2)]
    simp [genP]
  · intro a ha
    rw [gen_placeholder_observation_eq (R := R) e _ a _ (pyGet_spaceDict spaces a ha), sizes_getD spaces a ha]


/-! ### the worker -/

theorem spaceDict_of_toPy (spaces : List PySpace) (E : Env S A α R I) :
    pyDictOfPairs ((List.range spaces.length).map
      (fun v0 => (v0, (toPy spaces E : PyEnv S A (List (List α)) R I Ω).observation_space v0))) = spaceDict spaces := by
  rw [pyDictOfPairs_range]; rfl

/-- `_async_worker`, command "reset" = reset the sub-environment with the given seed and complete with placeholders -/
theorem gen_worker_reset_eq [Neg α] [OfNat α 1] [OfNat R 0] (e : I) (spaces : List PySpace) (E : Env S A α R I)
    (i : Nat) (s : S) (seed : Option Nat) (o : Option Ω) :
    worker_reset e chunkCtor (toPy spaces E : PyEnv S A (List (List α)) R I Ω) i (List.range spaces.length) s (seed, o) =
      some ((E.reset s seed).1,
        ((i, (fillReset (genP e : Placeholder α R I) (spaces.map members) (E.reset s seed).2).map (fun x => some x.1)),
         (fillReset (genP e : Placeholder α R I) (spaces.map members) (E.reset s seed).2).map (fun x => some x.2))) := by
  unfold worker_reset
  simp only [spaceDict_of_toPy]
  simp only [toPy]
  rw [gen_process_transition_reset_eq (R := R)]

/-- the action dict the worker builds from the list it received -/
theorem gen_worker_actions_eq (isint : A → Bool) (sq : A → A) (hsq : ∀ x, sq x = x) (acts : List A) (n : Nat)
    (hn : acts.length = n) :
    pySeq ((pyEnumerate (List.range n)).map (fun v2 =>
      Option.bind (pyIdx acts v2.1) (fun r0 =>
        Option.bind (if (!(isint r0)) then Option.bind (pyIdx acts v2.1) (fun r1 => some (sq r1)) else pyIdx acts v2.1)
          (fun r3 => some (v2.2, r3))))) = some (pyEnumerate acts) := by
  have h : ∀ (l : List (Nat × A)) (m : List (Option (Nat × A))), m = l.map some → pySeq m = some l := by
    intro l m hm; subst hm
    simpa using pySeq_map_some l some id (fun _ _ => rfl)
  apply h
  apply List.ext_getElem?
  intro j
  rw [List.getElem?_map, List.getElem?_map, getElem?_pyEnumerate, getElem?_pyEnumerate]
  by_cases hj : j < n
  · have hx : acts[j]? = some acts[j] := List.getElem?_eq_getElem (by omega)
    rw [List.getElem?_range hj, hx]
    simp only [Option.map_some, pyIdx, hx, Option.bind_some, hsq]
    cases isint acts[j] <;> rfl
  · rw [List.getElem?_eq_none (by simp; omega), List.getElem?_eq_none (l := acts) (by omega)]; rfl

theorem pyDictOfPairs_pyEnumerate {β : Type} (l : List β) : pyDictOfPairs (pyEnumerate l) = l.map some := by
  have := pyDictOfPairs_enumerate (fun x : β => x) l
  simpa using this

/-- `_async_worker`, command "step" = the model's repaired `workerStep` -/
theorem gen_worker_step_eq [Neg α] [OfNat α 1] [OfNat R 0] (isint : A → Bool) (sq : A → A) (hsq : ∀ x, sq x = x)
    (e : I) (spaces : List PySpace) (E : Env S A α R I) (i : Nat) (s : S) (acts : List A)
    (hacts : acts.length = spaces.length) (hout : (E.step s acts).2.length = spaces.length) :
    worker_step isint sq e chunkCtor (toPy spaces E : PyEnv S A (List (List α)) R I Ω) i (List.range spaces.length) s acts =
      some ((workerStep .repaired (genP e) (spaces.map members) E s acts).1,
        ((i, (outDicts (workerStep .repaired (genP e) (spaces.map members) E s acts).2).1),
         (outDicts (workerStep .repaired (genP e) (spaces.map members) E s acts).2).2)) := by
  unfold worker_step
  simp only [spaceDict_of_toPy]
  rw [gen_worker_actions_eq isint sq hsq acts _ hacts]
  simp only [pyDictOfPairs_pyEnumerate, toPy, pyValues_map_some]
  rw [gen_all_bitor_eq]
  simp only []
  have hcond : allDone (fill (genP e : Placeholder α R I) (spaces.map members) (E.step s acts).2) =
      presentDone (E.step s acts).2 := allDone_fill _ _ _ (by simpa using hout)
  simp only [workerStep, hcond]
  cases hp : presentDone (E.step s acts).2
  · simp only [Bool.false_eq_true, if_false]
    rw [gen_process_transition_step_gen (R := R), outDicts_fill]
  · simp only [if_true]
    rw [gen_process_transition_step_gen (R := R), outDicts_showReset, (fillReset_filled (R := R) e spaces _).1,
      (fillReset_filled (R := R) e spaces _).2]
    have := outDicts_fill (R := R) e spaces (E.step s acts).2
    simp only [outDicts, Prod.mk.injEq] at this
    rw [this.2.1, this.2.2.1, this.2.2.2.1]


/-! ### the parent: seeds, messages, de-batching of the actions -/

theorem zip_range_map {β : Type} (f : Nat → β) (n : Nat) :
    List.zip (List.range n) ((List.range n).map f) = (List.range n).map (fun i => (i, f i)) := by
  apply List.ext_getElem?
  intro i
  rw [List.getElem?_map]
  by_cases hi : i < n
  · have h1 : (List.range n)[i]? = some i := List.getElem?_range hi
    have h2 : ((List.range n).map f)[i]? = some (f i) := by rw [List.getElem?_map, h1]; rfl
    rw [h1]
    exact List.getElem?_zip_eq_some.2 ⟨h1, h2⟩
  · rw [List.getElem?_eq_none (by simp [List.length_zip]; omega), List.getElem?_eq_none (by simp; omega)]; rfl

/-- `reset(seed, options)`: worker `i` is sent `("reset", {"seed": seed + i, "options": options})` -/
theorem gen_reset_messages_eq (n : Nat) (seed : Option Nat) (o : Option Ω) :
    AsyncPettingZooVecEnv.reset n seed o =
      some ((List.range n).map (fun i => (i, reset_async_command, (seed.map (· + i), o)))) := by
  unfold AsyncPettingZooVecEnv.reset AsyncPettingZooVecEnv.reset_async reset_async_command
  cases seed with
  | none =>
    simp only [List.length_map, List.length_range, beq_self_eq_true, Bool.not_true, Bool.false_eq_true, if_false]
    rw [zip_range_map (fun _ => (none : Option Nat))]
    simp
  | some v =>
    simp only [List.length_map, List.length_range, beq_self_eq_true, Bool.not_true, Bool.false_eq_true, if_false,
      List.map_map]
    rw [zip_range_map (some ∘ fun v1 => v + v1)]
    simp

/-- `step_async(actions)`: worker `i` is sent `("step", actions[i])` -/
theorem gen_step_async_eq (n : Nat) (passed : List (List A)) (h : passed.length = n) :
    AsyncPettingZooVecEnv.step_async n passed =
      (List.range n).map (fun i => (i, step_async_command, passed.getD i [])) := by
  unfold AsyncPettingZooVecEnv.step_async step_async_command
  have : passed = (List.range n).map (fun i => passed.getD i []) := by
    apply List.ext_getElem?
    intro i
    rw [List.getElem?_map]
    by_cases hi : i < n
    · rw [List.getElem?_range hi]
      simp [List.getD_eq_getElem?_getD, List.getElem?_eq_getElem (show i < passed.length by omega)]
    · rw [List.getElem?_eq_none (by omega), List.getElem?_eq_none (by simp; omega)]; rfl
  conv => lhs; rw [this]
  rw [zip_range_map]
  simp

section actions
variable (isI : A → Bool) (toInt : A → A) (hint : ∀ x, isI x = true → toInt x = x)
variable (dA : A) (acts : List (List A)) (agents : List Nat) (num_envs : Nat)

/-- the action of agent `a` for sub-environment `i` -/
def cell (dA : A) (acts : List (List A)) (a i : Nat) : A := (acts.getD a []).getD i dA

include hint in
theorem step_loop1_spec (i : Nat) (hrow : ∀ row ∈ acts, i < row.length) :
    ∀ (ags : List Nat) (acc : List (List A)), (∀ a ∈ ags, a < acts.length) → i < acc.length →
      PettingZooVecEnv.step_loop1 isI toInt agents num_envs (acts.map some) i ags acc =
        some (acc.set i (acc.getD i [] ++ ags.map (fun a => cell dA acts a i))) := by
  intro ags
  induction ags with
  | nil =>
    intro acc _ hi
    simp only [PettingZooVecEnv.step_loop1, List.map_nil, List.append_nil, Option.some.injEq]
    rw [List.getD_eq_getElem?_getD, List.getElem?_eq_getElem hi]; simp
  | cons a r ih =>
    intro acc ha hi
    have hal : a < acts.length := ha a List.mem_cons_self
    have hil : i < acts[a].length := hrow _ (List.getElem_mem hal)
    have hx : cell dA acts a i = acts[a][i] := by
      simp [cell, List.getD_eq_getElem?_getD, List.getElem?_eq_getElem hal, List.getElem?_eq_getElem hil]
    simp only [PettingZooVecEnv.step_loop1, pyGet_map_some, List.getElem?_eq_getElem hal, pyIdx,
      List.getElem?_eq_getElem hil]
    have hj : (if isI acts[a][i] = true then toInt acts[a][i] else acts[a][i]) = acts[a][i] := by
      by_cases hb : isI acts[a][i] = true
      · rw [if_pos hb, hint _ hb]
      · rw [if_neg hb]
    simp only [hj, pyAppendAt, List.getElem?_eq_getElem hi, Option.map_some]
    rw [ih _ (fun b hb => ha b (List.mem_cons_of_mem _ hb)) (by simpa using hi)]
    simp [List.getD_eq_getElem?_getD, List.getElem?_eq_getElem hi, hx, List.getElem?_set_self hi]

include hint in
theorem step_loop0_spec (n : Nat) (hrow : ∀ row ∈ acts, row.length = n) (hag : ∀ a ∈ agents, a < acts.length) :
    ∀ (l : List (Nat × A)) (k m : Nat) (acc : List (List A)), l.map (·.1) = List.range' k m → acc.length = n →
      k + m ≤ n →
      ∃ res, PettingZooVecEnv.step_loop0 isI toInt agents num_envs (acts.map some) l acc = some res ∧
        res.length = n ∧
        ∀ i, res[i]? = if k ≤ i ∧ i < k + m then some (acc.getD i [] ++ agents.map (fun a => cell dA acts a i))
                       else acc[i]? := by
  intro l
  induction l with
  | nil =>
    intro k m acc hl hacc _
    have hm : m = 0 := by
      cases m with
      | zero => rfl
      | succ m => simp [List.range'_succ] at hl
    subst hm
    exact ⟨acc, rfl, hacc, fun i => by rw [if_neg (by omega)]⟩
  | cons p r ih =>
    intro k m acc hl hacc hkm
    cases m with
    | zero => simp at hl
    | succ m =>
      rw [List.range'_succ, List.map_cons, List.cons.injEq] at hl
      obtain ⟨hp, hr⟩ := hl
      have hk : k < n := by omega
      simp only [PettingZooVecEnv.step_loop0, hp]
      rw [step_loop1_spec isI toInt hint dA acts agents num_envs k (fun row h => by rw [hrow row h]; exact hk)
        agents acc hag (by omega)]
      dsimp only
      obtain ⟨res, h1, h2, h3⟩ := ih (k + 1) m
        (acc.set k (acc.getD k [] ++ agents.map (fun a => cell dA acts a k))) hr (by simpa using hacc) (by omega)
      refine ⟨res, h1, h2, fun i => ?_⟩
      rw [h3 i]
      by_cases hik : i = k
      · subst hik
        simp [hacc, hk]
        intro h; omega
      · have hne : ¬ (k = i) := fun h => hik h.symm
        by_cases hc : k + 1 ≤ i ∧ i < k + 1 + m
        · rw [if_pos hc, if_pos (by omega)]
          simp [List.getD_eq_getElem?_getD, hne]
        · rw [if_neg hc, if_neg (by omega)]
          simp [hne]

theorem cells_eq_col (i : Nat) :
    (List.range acts.length).map (fun a => cell dA acts a i) = col dA acts i := by
  apply List.ext_getElem?
  intro a
  simp only [col, List.getElem?_map]
  by_cases ha : a < acts.length
  · simp [List.getElem?_range ha, cell, List.getD_eq_getElem?_getD, List.getElem?_eq_getElem ha]
  · rw [List.getElem?_eq_none (by simp; omega), List.getElem?_eq_none (l := acts) (by omega)]; rfl

include hint in
/-- `PettingZooVecEnv.step`: worker `i` is sent `("step", [actions[agent][i] for agent in agents])` — column `i` of
    the action dict, which is the model's `transposeActs` -/
theorem gen_step_messages_eq (n : Nat) (hne : acts ≠ []) (hrow : ∀ row ∈ acts, row.length = n) :
    PettingZooVecEnv.step isI toInt (List.range acts.length) n (acts.map some) =
      some ((List.range n).map (fun i => (i, step_async_command, (transposeActs dA n acts).getD i []))) := by
  obtain ⟨first, rest, hacts⟩ : ∃ f r, acts = f :: r := by
    cases acts with
    | nil => exact absurd rfl hne
    | cons f r => exact ⟨f, r, rfl⟩
  have hfirst : pyIdx (pyValues (acts.map some)) 0 = some first := by
    rw [pyValues_map_some, hacts]; rfl
  have hfl : first.length = n := hrow first (by rw [hacts]; exact List.mem_cons_self)
  unfold PettingZooVecEnv.step
  simp only [hfirst]
  obtain ⟨res, h1, h2, h3⟩ := step_loop0_spec isI toInt hint dA acts (List.range acts.length) n n hrow
    (fun a ha => List.mem_range.1 ha) (pyEnumerate first) 0 n (first.map (fun _ => []))
    (by
      apply List.ext_getElem?
      intro j
      rw [List.getElem?_map, getElem?_pyEnumerate]
      by_cases hj : j < n
      · rw [List.getElem?_eq_getElem (show j < first.length by omega)]; simp [hj]
      · rw [List.getElem?_eq_none (show first.length ≤ j by omega)]; simp [hj])
    (by simpa using hfl) (by omega)
  rw [h1]
  simp only [h2, beq_self_eq_true, Bool.not_true, Bool.false_eq_true, if_false]
  rw [gen_step_async_eq n res h2]
  congr 1
  apply List.map_congr_left
  intro i hi
  have hi' : i < n := List.mem_range.1 hi
  have : res.getD i [] = (transposeActs dA n acts).getD i [] := by
    rw [List.getD_eq_getElem?_getD, h3 i, if_pos ⟨Nat.zero_le _, by omega⟩, getD_transposeActs dA n acts i hi',
      cells_eq_col]
    have hz : (first.map (fun _ => ([] : List A))).getD i [] = [] := by
      rw [List.getD_eq_getElem?_getD, List.getElem?_map]; cases first[i]? <;> rfl
    rw [hz]; simp
  rw [this]

end actions


/-! ### the pipe boundary: command dispatch, one step / one reset of all workers -/

theorem gen_dispatch_step : worker_branch step_async_command = worker_step_branch := by decide
theorem gen_dispatch_reset : worker_branch reset_async_command = worker_reset_branch := by decide

theorem filterMap_range_eq_mapIdx {β γ : Type} (l : List β) (f : Nat → β → γ) :
    (List.range l.length).filterMap (fun i => l[i]?.map (f i)) = l.mapIdx f := by
  apply List.ext_getElem?
  intro j
  rw [getElem?_filterMap_total, List.getElem?_mapIdx]
  · by_cases hj : j < l.length
    · simp [List.getElem?_range hj]
    · rw [List.getElem?_eq_none (l := l) (by omega), List.getElem?_eq_none (by simp; omega)]; rfl
  · intro x hx; simp [List.getElem?_eq_getElem (List.mem_range.1 hx)]

theorem pySeq_of_eq_map_some {β : Type} (l : List β) (m : List (Option β)) (h : m = l.map some) : pySeq m = some l := by
  subst h
  simpa using pySeq_map_some l some id (fun _ _ => rfl)

/-- what worker `i` writes to shared memory and sends, for a model-level worker result -/
def encode (i : Nat) (r : S × List (AgentOut α R I)) :
    S × (Nat × PyDict (List (List α))) × PyDict R × PyDict Bool × PyDict Bool × PyDict I :=
  (r.1, ((i, (outDicts r.2).1), (outDicts r.2).2))

def encodeReset (i : Nat) (r : S × List (List (List α) × I)) : S × (Nat × PyDict (List (List α))) × PyDict I :=
  (r.1, ((i, r.2.map (fun x => some x.1)), r.2.map (fun x => some x.2)))

/-- the action dicts the theorems talk about: every agent present, one action per sub-environment -/
def ActsOK (nA n : Nat) (acts : List (List A)) : Prop :=
  acts ≠ [] ∧ acts.length = nA ∧ ∀ row ∈ acts, row.length = n

/-- the environment's dicts contain the possible agents only (positions `< nA`) -/
def EnvAgents (nA : Nat) (E : Env S A α R I) : Prop := ∀ s acts, (E.step s acts).2.length = nA

section vec
variable [Neg α] [OfNat α 1] [OfNat R 0]
variable (isint isI : A → Bool) (toInt sq : A → A)
variable (hint : ∀ x, isI x = true → toInt x = x) (hsq : ∀ x, sq x = x)
variable (e : I) (spaces : List PySpace) (E : Nat → Env S A α R I) (dA : A)

include hint hsq in
/-- ONE STEP of the generated vector environment (generated de-batching, messages, dispatch, worker) = the
    model's worker results `stepResults` (what `vecStep` writes and gathers) -/
theorem gen_vec_step_eq (sts : List S) (acts : List (List A)) (hA : ActsOK spaces.length sts.length acts)
    (hE : ∀ i, EnvAgents spaces.length (E i)) :
    vec_step isint isI toInt sq e chunkCtor (fun i => (toPy spaces (E i) : PyEnv S A (List (List α)) R I Ω))
        (List.range spaces.length) sts (acts.map some) =
      some (sts.mapIdx (fun i s =>
        encode i (workerStep .repaired (genP e) (spaces.map members) (E i) s (col dA acts i)))) := by
  rw [← filterMap_range_eq_mapIdx]
  obtain ⟨hne, hlen, hrow⟩ := hA
  unfold vec_step
  rw [← hlen, gen_step_messages_eq isI toInt hint dA acts sts.length hne hrow]
  simp only [List.map_map, Function.comp_def, List.map_id', bne_self_eq_false, Bool.false_eq_true, if_false]
  apply pySeq_of_eq_map_some
  apply List.ext_getElem?
  intro j
  rw [List.getElem?_map, List.getElem?_map]
  by_cases hj : j < sts.length
  · have hs : sts[j]? = some sts[j] := List.getElem?_eq_getElem hj
    have hfm : ((List.range sts.length).filterMap (fun i => sts[i]?.map (fun s =>
        encode i (workerStep .repaired (genP e) (spaces.map members) (E i) s (col dA acts i)))))[j]? =
        some (encode j (workerStep .repaired (genP e) (spaces.map members) (E j) sts[j] (col dA acts j))) := by
      rw [getElem?_filterMap_total]
      · simp [List.getElem?_range hj, hs]
      · intro x hx; simp [List.getElem?_eq_getElem (List.mem_range.1 hx)]
    rw [hfm, List.getElem?_range hj]
    simp only [Option.map_some, hs, gen_dispatch_step, beq_self_eq_true, if_true,
      getD_transposeActs dA _ acts j hj]
    rw [hlen, gen_worker_step_eq isint sq hsq e spaces (E j) j sts[j] (col dA acts j) (by simp [col, hlen])
      (hE j _ _)]
    rfl
  · have hfm : ((List.range sts.length).filterMap (fun i => sts[i]?.map (fun s =>
        encode i (workerStep .repaired (genP e) (spaces.map members) (E i) s (col dA acts i)))))[j]? = none := by
      apply List.getElem?_eq_none
      exact Nat.le_trans (List.length_filterMap_le _ _) (by simp; omega)
    rw [hfm, List.getElem?_eq_none (by simp; omega)]; rfl

/-- `reset(seed, options)` of the generated vector environment: sub-environment `i` is reset with `seed + i` -/
theorem gen_vec_reset_eq (sts : List S) (seed : Option Nat) (o : Option Ω) :
    vec_reset e chunkCtor (fun i => (toPy spaces (E i) : PyEnv S A (List (List α)) R I Ω))
        (List.range spaces.length) sts seed o =
      some (sts.mapIdx (fun i s =>
        encodeReset i (((E i).reset s (seed.map (· + i))).1,
          fillReset (genP e : Placeholder α R I) (spaces.map members) ((E i).reset s (seed.map (· + i))).2))) := by
  rw [← filterMap_range_eq_mapIdx]
  unfold vec_reset
  rw [gen_reset_messages_eq]
  simp only [List.map_map, Function.comp_def, List.map_id', bne_self_eq_false, Bool.false_eq_true, if_false]
  apply pySeq_of_eq_map_some
  apply List.ext_getElem?
  intro j
  rw [List.getElem?_map, List.getElem?_map]
  by_cases hj : j < sts.length
  · have hs : sts[j]? = some sts[j] := List.getElem?_eq_getElem hj
    rw [getElem?_filterMap_total]
    · rw [List.getElem?_range hj]
      simp only [Option.map_some, hs, gen_dispatch_reset, beq_self_eq_true, if_true, Option.bind_some]
      rw [gen_worker_reset_eq (R := R)]
      rfl
    · intro x hx; simp [List.getElem?_eq_getElem (List.mem_range.1 hx)]
  · have hfm : ∀ (f : Nat → Option (S × (Nat × PyDict (List (List α))) × PyDict I)),
        ((List.range sts.length).filterMap f)[j]? = none := fun f =>
      List.getElem?_eq_none (Nat.le_trans (List.length_filterMap_le _ _) (by simp; omega))
    rw [hfm, List.getElem?_eq_none (by simp; omega)]; rfl

/-- the generated vector environment driven by a whole sequence of action dicts: what every worker writes and
    sends at every step (`none` = some call raises) -/
def genRun : List S → List (List (List A)) →
    Option (List (List (S × (Nat × PyDict (List (List α))) × PyDict R × PyDict Bool × PyDict Bool × PyDict I)))
  | _, [] => some []
  | sts, acts :: rest =>
    match vec_step isint isI toInt sq e chunkCtor (fun i => (toPy spaces (E i) : PyEnv S A (List (List α)) R I Ω))
        (List.range spaces.length) sts (acts.map some) with
    | none => none
    | some res => (genRun (res.map (·.1)) rest).map (fun tl => res :: tl)

include hint hsq in
/-- ANY ACTION SEQUENCE: the generated code never raises on well-shaped action dicts, and at every step `t`
    worker `i` writes / sends exactly what sub-environment `i`, run alone under the auto-reset rule (`refRun`) on
    column `i` of the actions, returns at its step `t` -/
theorem gen_run_spec (hE : ∀ i, EnvAgents spaces.length (E i)) :
    ∀ (seq : List (List (List A))) (sts : List S), (∀ acts ∈ seq, ActsOK spaces.length sts.length acts) →
      ∃ L, genRun (Ω := Ω) isint isI toInt sq e spaces E sts seq = some L ∧ L.length = seq.length ∧
        ∀ (i : Nat) (s : S), sts[i]? = some s → ∀ (t : Nat) row, L[t]? = some row →
          ∃ st outs, row[i]? = some (encode i (st, outs)) ∧
            (refRun (genP e) (spaces.map members) (E i) s (seq.map (fun acts => col dA acts i)))[t]? = some outs := by
  intro seq
  induction seq with
  | nil => intro sts _; exact ⟨[], rfl, rfl, fun i s _ t row h => by simp at h⟩
  | cons acts rest ih =>
    intro sts hA
    have h1 := gen_vec_step_eq (Ω := Ω) isint isI toInt sq hint hsq e spaces E dA sts acts
      (hA acts List.mem_cons_self) hE
    set res := sts.mapIdx (fun i s =>
      encode i (workerStep .repaired (genP e) (spaces.map members) (E i) s (col dA acts i))) with hres
    have hlen : (res.map (·.1)).length = sts.length := by simp [hres]
    obtain ⟨L, hL, hLl, hLs⟩ := ih (res.map (·.1))
      (fun a ha => by rw [hlen]; exact hA a (List.mem_cons_of_mem _ ha))
    refine ⟨res :: L, by simp only [genRun, h1, hL, Option.map_some], by simp [hLl], ?_⟩
    intro i s hs t row hrow
    have hri : res[i]? = some (encode i (workerStep .repaired (genP e) (spaces.map members) (E i) s (col dA acts i))) := by
      rw [hres, List.getElem?_mapIdx, hs]; rfl
    rw [workerStep_repaired] at hri
    cases t with
    | zero =>
      simp only [List.getElem?_cons_zero, Option.some.injEq] at hrow
      subst hrow
      exact ⟨(refStep (genP e) (spaces.map members) (E i) s (col dA acts i)).1,
        (refStep (genP e) (spaces.map members) (E i) s (col dA acts i)).2, hri, by simp [refRun]⟩
    | succ t =>
      simp only [List.getElem?_cons_succ] at hrow
      have hs' : (res.map (·.1))[i]? = some (refStep (genP e) (spaces.map members) (E i) s (col dA acts i)).1 := by
        rw [List.getElem?_map, hri]; rfl
      obtain ⟨st, outs, h2, h3⟩ := hLs i _ hs' t row hrow
      exact ⟨st, outs, h2, by simpa [refRun] using h3⟩

end vec

/-! ### the hypotheses are satisfiable -/

/-- the scripted environment of the correspondence harness returns dicts over its possible agents only -/
theorem scripted_envAgents (c : Script) : EnvAgents c.sizes.length (scripted c) := by
  intro s acts; simp [scripted]

example : ActsOK 2 3 [[(0 : Nat), 1, 2], [3, 4, 5]] := ⟨by decide, rfl, by decide⟩

/-- two agents (a Dict and a Box space), two workers, a discrete and a continuous action per worker: the generated
    code sends worker 1 the column `[1, 3]` -/
example : (PettingZooVecEnv.step (fun x : Int => decide (x < 100)) id [0, 1] 2 [some [0, 1], some [200, 3]]) =
    some [(0, "step", [0, 200]), (1, "step", [1, 3])] := by decide

end conv
end VecEnv
