import Mathlib.Data.List.Perm.Basic
import Model.VecEnv

namespace VecEnv
variable {α : Type}

@[simp] theorem length_writeSlice (buf : List α) (s : Nat) (xs : List α) :
    (writeSlice buf s xs).length = buf.length := by simp [writeSlice]

theorem getElem?_writeSlice (buf : List α) (s : Nat) (xs : List α) (k : Nat) :
    (writeSlice buf s xs)[k]? = buf[k]?.map (fun v => if s ≤ k then (xs[k - s]?).getD v else v) := by
  simp [writeSlice, List.getElem?_mapIdx]

theorem getElem?_readRow (buf : List α) (size i j : Nat) :
    (readRow buf size i)[j]? = if j < size then buf[i * size + j]? else none := by
  simp [readRow, List.getElem?_take, List.getElem?_drop]

theorem mul_succ_le {i j sz : Nat} (h : i < j) : i * sz + sz ≤ j * sz := by
  have := Nat.mul_le_mul_right sz (Nat.succ_le_of_lt h)
  simpa [Nat.succ_mul] using this

/-- the slices of two different workers do not overlap -/
theorem slices_disjoint (sz i j k : Nat) (hij : i ≠ j)
    (hi : i * sz ≤ k ∧ k < i * sz + sz) : ¬ (j * sz ≤ k ∧ k < j * sz + sz) := by
  rcases Nat.lt_or_gt_of_ne hij with h | h
  · have := mul_succ_le (sz := sz) h; omega
  · have := mul_succ_le (sz := sz) h; omega

theorem slice_in_bounds (sz n i : Nat) (hi : i < n) : i * sz + sz ≤ n * sz := mul_succ_le hi

theorem readRow_writeSlice_same (buf : List α) (n sz i : Nat) (xs : List α)
    (hlen : buf.length = n * sz) (hi : i < n) (hx : xs.length = sz) :
    readRow (writeSlice buf (i * sz) xs) sz i = xs := by
  apply List.ext_getElem?
  intro j
  rw [getElem?_readRow, getElem?_writeSlice]
  by_cases hj : j < sz
  · have hb := slice_in_bounds sz n i hi
    have hk : i * sz + j < buf.length := by omega
    have hxj : j < xs.length := by omega
    simp [hj, List.getElem?_eq_getElem hk, List.getElem?_eq_getElem hxj]
  · have : xs.length ≤ j := by omega
    simp [hj, List.getElem?_eq_none this]

theorem readRow_writeSlice_other (buf : List α) (sz i j : Nat) (xs : List α)
    (hij : j ≠ i) (hx : xs.length = sz) :
    readRow (writeSlice buf (i * sz) xs) sz j = readRow buf sz j := by
  apply List.ext_getElem?
  intro t
  rw [getElem?_readRow, getElem?_readRow, getElem?_writeSlice]
  by_cases ht : t < sz
  · simp only [ht, if_true]
    cases hb : buf[j * sz + t]? with
    | none => simp
    | some v =>
      simp only [Option.map_some]
      by_cases hle : i * sz ≤ j * sz + t
      · have hnot := slices_disjoint sz j i (j * sz + t) hij ⟨by omega, by omega⟩
        have : xs.length ≤ j * sz + t - i * sz := by omega
        simp [hle, List.getElem?_eq_none this]
      · simp [hle]
  · simp [ht]

/-- two slice writes to disjoint ranges commute -/
theorem writeSlice_comm (buf : List α) (sz i j : Nat) (xs ys : List α) (hij : i ≠ j)
    (hx : xs.length = sz) (hy : ys.length = sz) :
    writeSlice (writeSlice buf (i * sz) xs) (j * sz) ys = writeSlice (writeSlice buf (j * sz) ys) (i * sz) xs := by
  apply List.ext_getElem?
  intro k
  simp only [getElem?_writeSlice, Option.map_map]
  cases hb : buf[k]? with
  | none => simp
  | some v =>
    simp only [Option.map_some, Function.comp]
    congr 1
    by_cases h1 : i * sz ≤ k <;> by_cases h2 : j * sz ≤ k <;> simp only [h1, h2, if_true, if_false]
    by_cases hin : k < i * sz + sz
    · have := slices_disjoint sz i j k hij ⟨h1, hin⟩
      have h3 : ys.length ≤ k - j * sz := by omega
      simp [List.getElem?_eq_none h3]
    · have h3 : xs.length ≤ k - i * sz := by omega
      simp [List.getElem?_eq_none h3]
theorem getElem?_applyOp (m : Mem α) (op : MicroOp α) (a : Nat) :
    (applyOp m op)[a]? = m[a]?.map (fun row =>
      if a = op.agent then
        row.mapIdx (fun k buf => if k = op.key then writeSlice buf (op.env * op.size) op.chunk else buf)
      else row) := by
  simp [applyOp, List.getElem?_mapIdx]

theorem buf_applyOp (m : Mem α) (op : MicroOp α) (a k : Nat) :
    (applyOp m op).buf a k =
      if a = op.agent ∧ k = op.key then writeSlice (m.buf a k) (op.env * op.size) op.chunk else m.buf a k := by
  unfold Mem.buf
  rw [getElem?_applyOp]
  cases hm : m[a]? with
  | none => simp [writeSlice]
  | some row =>
    simp only [Option.map_some, Option.getD_some]
    by_cases ha : a = op.agent
    · simp only [ha, if_true, true_and, List.getElem?_mapIdx]
      cases hr : row[k]? with
      | none => simp [writeSlice]
      | some b => by_cases hk : k = op.key <;> simp [hk]
    · simp [ha]

theorem applyOp_length (m : Mem α) (op : MicroOp α) : (applyOp m op).length = m.length := by
  simp [applyOp]

/-- shape of a memory: the length of every buffer -/
def Mem.shape (m : Mem α) : List (List Nat) := m.map (fun row => row.map List.length)

theorem shape_applyOp (m : Mem α) (op : MicroOp α) : (applyOp m op).shape = m.shape := by
  unfold Mem.shape
  apply List.ext_getElem?
  intro a
  simp only [List.getElem?_map, getElem?_applyOp, Option.map_map]
  cases hm : m[a]? with
  | none => simp
  | some row =>
    simp only [Option.map_some, Function.comp]
    congr 1
    by_cases ha : a = op.agent
    · simp only [ha, if_true]
      apply List.ext_getElem?
      intro k
      simp only [List.getElem?_map, List.getElem?_mapIdx, Option.map_map]
      cases hr : row[k]? with
      | none => simp
      | some b => by_cases hk : k = op.key <;> simp [hk]
    · simp [ha]

/-- a memory is determined by its shape skeleton and its buffers -/
theorem Mem.ext_buf (m₁ m₂ : Mem α) (hs : m₁.shape = m₂.shape)
    (hb : ∀ a k, m₁.buf a k = m₂.buf a k) : m₁ = m₂ := by
  have hlen : m₁.length = m₂.length := by
    have := congrArg List.length hs; simpa [Mem.shape] using this
  apply List.ext_getElem?
  intro a
  by_cases ha : a < m₁.length
  · have ha2 : a < m₂.length := hlen ▸ ha
    rw [List.getElem?_eq_getElem ha, List.getElem?_eq_getElem ha2]
    congr 1
    have hrow : (m₁[a]).map List.length = (m₂[a]).map List.length := by
      have := congrArg (fun l => l[a]?) hs
      simpa [Mem.shape, List.getElem?_map, List.getElem?_eq_getElem ha, List.getElem?_eq_getElem ha2] using this
    have hrl : m₁[a].length = m₂[a].length := by
      have := congrArg List.length hrow; simpa using this
    apply List.ext_getElem?
    intro k
    by_cases hk : k < m₁[a].length
    · have hk2 : k < m₂[a].length := hrl ▸ hk
      have := hb a k
      simp only [Mem.buf, List.getElem?_eq_getElem ha, List.getElem?_eq_getElem ha2, Option.getD_some,
        List.getElem?_eq_getElem hk, List.getElem?_eq_getElem hk2] at this
      rw [List.getElem?_eq_getElem hk, List.getElem?_eq_getElem hk2, this]
    · rw [List.getElem?_eq_none (by omega), List.getElem?_eq_none (by omega)]
  · rw [List.getElem?_eq_none (by omega), List.getElem?_eq_none (by omega)]

/-- an op is well-formed for `sizes` when its chunk has the declared size of its buffer -/
def MicroOp.WF (sizes : List (List Nat)) (op : MicroOp α) : Prop :=
  op.size = sizeAt sizes op.agent op.key ∧ op.chunk.length = op.size

/-- two different workers' writes, or writes to different buffers, commute;
    so do two writes of the same chunk -/
theorem applyOp_comm (sizes : List (List Nat)) (m : Mem α) (x y : MicroOp α)
    (hx : x.WF sizes) (hy : y.WF sizes)
    (hxy : x.agent = y.agent → x.key = y.key → x.env = y.env → x.chunk = y.chunk) :
    applyOp (applyOp m x) y = applyOp (applyOp m y) x := by
  apply Mem.ext_buf
  · simp [shape_applyOp]
  · intro a k
    simp only [buf_applyOp]
    by_cases h1 : a = x.agent ∧ k = x.key
    · by_cases h2 : a = y.agent ∧ k = y.key
      · simp only [if_pos h1, if_pos h2]
        obtain ⟨ha, hk⟩ := h1
        obtain ⟨ha', hk'⟩ := h2
        have hsz : x.size = y.size := by rw [hx.1, hy.1, ← ha, ← hk, ← ha', ← hk']
        by_cases he : x.env = y.env
        · have hc := hxy (ha ▸ ha') (hk ▸ hk') he
          rw [he, hsz, hc]
        · rw [hsz]
          exact writeSlice_comm _ _ _ _ _ _ he (by rw [hx.2, hsz]) hy.2
      · simp only [if_pos h1, if_neg h2]
    · by_cases h2 : a = y.agent ∧ k = y.key
      · simp only [if_neg h1, if_pos h2]
      · simp only [if_neg h1, if_neg h2]

end VecEnv
