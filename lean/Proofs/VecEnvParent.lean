import Proofs.VecEnvSched

namespace VecEnv
variable {α : Type}

theorem mem_envOps (sizes : List (List Nat)) (i : Nat) (obs : List (List (List α))) (op : MicroOp α) :
    op ∈ envOps sizes i obs ↔
      ∃ a keys k chunk, obs[a]? = some keys ∧ keys[k]? = some chunk ∧
        op = ⟨a, k, i, sizeAt sizes a k, chunk⟩ := by
  simp only [envOps, List.mem_flatMap, List.mem_map, Prod.exists, List.mem_zipIdx_iff_getElem?]
  constructor
  · rintro ⟨keys, a, h1, chunk, k, h2, rfl⟩
    exact ⟨a, keys, k, chunk, h1, h2, rfl⟩
  · rintro ⟨a, keys, k, chunk, h1, h2, rfl⟩
    exact ⟨keys, a, h1, chunk, k, h2, rfl⟩

theorem mem_allOps (sizes : List (List Nat)) (obsAll : List (List (List (List α)))) (op : MicroOp α) :
    op ∈ allOps sizes obsAll ↔
      ∃ i obs a keys k chunk, obsAll[i]? = some obs ∧ obs[a]? = some keys ∧ keys[k]? = some chunk ∧
        op = ⟨a, k, i, sizeAt sizes a k, chunk⟩ := by
  simp only [allOps, List.mem_flatMap, Prod.exists, List.mem_zipIdx_iff_getElem?, mem_envOps]
  constructor
  · rintro ⟨obs, i, h1, a, keys, k, chunk, h2, h3, rfl⟩
    exact ⟨i, obs, a, keys, k, chunk, h1, h2, h3, rfl⟩
  · rintro ⟨i, obs, a, keys, k, chunk, h1, h2, h3, rfl⟩
    exact ⟨obs, i, h1, a, keys, k, chunk, h2, h3, rfl⟩

/-- the observation `obs` has the declared member sizes -/
def Conforms (sizes : List (List Nat)) (obs : List (List (List α))) : Prop :=
  obs.map (fun keys => keys.map List.length) = sizes

theorem Conforms.chunk_length {sizes : List (List Nat)} {obs : List (List (List α))} (h : Conforms sizes obs)
    {a k : Nat} {keys : List (List α)} {chunk : List α} (h1 : obs[a]? = some keys) (h2 : keys[k]? = some chunk) :
    chunk.length = sizeAt sizes a k := by
  have := congrArg (fun l => l[a]?) h
  simp only [List.getElem?_map, h1, Option.map_some] at this
  simp [sizeAt, ← this, List.getElem?_map, h2]

theorem Conforms.lookup {sizes : List (List Nat)} {obs : List (List (List α))} (h : Conforms sizes obs)
    {a k : Nat} {ks : List Nat} {sz : Nat} (h1 : sizes[a]? = some ks) (h2 : ks[k]? = some sz) :
    ∃ keys chunk, obs[a]? = some keys ∧ keys[k]? = some chunk ∧ chunk.length = sz := by
  have := congrArg (fun l => l[a]?) h
  simp only [List.getElem?_map, h1] at this
  cases ho : obs[a]? with
  | none => simp [ho] at this
  | some keys =>
    simp only [ho, Option.map_some, Option.some.injEq] at this
    have h3 := congrArg (fun l => l[k]?) this
    simp only [List.getElem?_map, h2] at h3
    cases hk : keys[k]? with
    | none => simp [hk] at h3
    | some chunk => exact ⟨keys, chunk, rfl, hk, by simpa [hk] using h3⟩

theorem allOps_wf (sizes : List (List Nat)) (obsAll : List (List (List (List α))))
    (hconf : ∀ (i : Nat) (obs : List (List (List α))), obsAll[i]? = some obs → Conforms sizes obs) :
    ∀ x ∈ allOps sizes obsAll, x.WF sizes ∧ x.env < obsAll.length := by
  intro x hx
  obtain ⟨i, obs, a, keys, k, chunk, h1, h2, h3, rfl⟩ := (mem_allOps sizes obsAll x).1 hx
  refine ⟨⟨rfl, (hconf i obs h1).chunk_length h2 h3⟩, ?_⟩
  exact (List.getElem?_eq_some_iff.1 h1).1

theorem allOps_consistent (sizes : List (List Nat)) (obsAll : List (List (List (List α)))) :
    Consistent (allOps sizes obsAll) := by
  intro x hx y hy ha hk hi
  obtain ⟨i, obs, a, keys, k, chunk, h1, h2, h3, rfl⟩ := (mem_allOps sizes obsAll x).1 hx
  obtain ⟨i', obs', a', keys', k', chunk', h1', h2', h3', rfl⟩ := (mem_allOps sizes obsAll y).1 hy
  simp only at ha hk hi
  subst ha hk hi
  rw [h1] at h1'; cases h1'
  rw [h2] at h2'; cases h2'
  rw [h3] at h3'; cases h3'
  rfl

/-- after all workers have written (in worker order), the parent reads at position `i` of buffer (a, k)
    exactly member `k` of agent `a`'s observation in sub-environment `i` -/
theorem readRow_writeAll (sizes : List (List Nat)) (m : Mem α) (obsAll : List (List (List (List α))))
    (hm : MemOK m sizes obsAll.length)
    (hconf : ∀ (i : Nat) (obs : List (List (List α))), obsAll[i]? = some obs → Conforms sizes obs)
    {i a k : Nat} {obs : List (List (List α))} {keys : List (List α)} {chunk : List α}
    (h1 : obsAll[i]? = some obs) (h2 : obs[a]? = some keys) (h3 : keys[k]? = some chunk) :
    readRow ((writeAll sizes m obsAll).buf a k) (sizeAt sizes a k) i = chunk := by
  unfold writeAll
  rw [readRow_foldl sizes obsAll.length a k i _ m (allOps_wf sizes obsAll hconf)
    (allOps_consistent sizes obsAll) hm]
  have hmem : (⟨a, k, i, sizeAt sizes a k, chunk⟩ : MicroOp α) ∈ allOps sizes obsAll :=
    (mem_allOps sizes obsAll _).2 ⟨i, obs, a, keys, k, chunk, h1, h2, h3, rfl⟩
  cases hf : List.find? (fun x => decide (x.agent = a ∧ x.key = k ∧ x.env = i)) (allOps sizes obsAll) with
  | none =>
    have := List.find?_eq_none.1 hf _ hmem
    simp at this
  | some y =>
    have hy := List.find?_some hf
    have hym := List.mem_of_find?_eq_some hf
    simp only [decide_eq_true_eq] at hy
    simp only
    exact allOps_consistent sizes obsAll y hym _ hmem hy.1 hy.2.1 hy.2.2

theorem parentObs_at (m : Mem α) (sizes : List (List Nat)) (n a k i : Nat) {ks : List Nat} {sz : Nat}
    (h1 : sizes[a]? = some ks) (h2 : ks[k]? = some sz) (hi : i < n) :
    (((parentObs m sizes n)[a]?.bind (·[k]?)).bind (·[i]?)) = some (readRow (m.buf a k) sz i) := by
  simp [parentObs, List.getElem?_mapIdx, h1, h2, List.getElem?_map, List.getElem?_range hi]

theorem sizeAt_eq {sizes : List (List Nat)} {a k : Nat} {ks : List Nat} {sz : Nat}
    (h1 : sizes[a]? = some ks) (h2 : ks[k]? = some sz) : sizeAt sizes a k = sz := by
  simp [sizeAt, h1, h2]

end VecEnv
