import Proofs.VecEnvStep

namespace VecEnv
variable {S A α R I : Type}

/-- what the workers computed in one `vecStep` -/
def stepResults (v : Variant) (P : Placeholder α R I) (sizes : List (List Nat)) (E : Nat → Env S A α R I)
    (dA : A) (sys : Sys S α) (acts : List (List A)) : List (S × List (AgentOut α R I)) :=
  sys.envs.mapIdx (fun i s => workerStep v P sizes (E i) s ((transposeActs dA sys.envs.length acts).getD i []))

theorem getElem?_stepResults (v : Variant) (P : Placeholder α R I) (sizes : List (List Nat))
    (E : Nat → Env S A α R I) (dA : A) (sys : Sys S α) (acts : List (List A)) (i : Nat) :
    (stepResults v P sizes E dA sys acts)[i]? =
      sys.envs[i]?.map (fun s => workerStep v P sizes (E i) s (col dA acts i)) := by
  unfold stepResults
  rw [List.getElem?_mapIdx]
  cases hs : sys.envs[i]? with
  | none => rfl
  | some s =>
    have hi : i < sys.envs.length := (List.getElem?_eq_some_iff.1 hs).1
    simp only [Option.map_some]
    rw [getD_transposeActs dA _ acts i hi]

@[simp] theorem length_stepResults (v : Variant) (P : Placeholder α R I) (sizes : List (List Nat))
    (E : Nat → Env S A α R I) (dA : A) (sys : Sys S α) (acts : List (List A)) :
    (stepResults v P sizes E dA sys acts).length = sys.envs.length := by simp [stepResults]

theorem vecStep_eq (v : Variant) (P : Placeholder α R I) (sizes : List (List Nat)) (E : Nat → Env S A α R I)
    (dA : A) (sys : Sys S α) (acts : List (List A)) :
    vecStep v P sizes E dA sys acts =
      let results := stepResults v P sizes E dA sys acts
      let replies := results.map (·.2)
      let mem' := writeAll sizes sys.mem (replies.map (fun r => r.map (·.obs)))
      (⟨results.map (·.1), mem'⟩,
       { obs := parentObs mem' sizes sys.envs.length,
         rew := gather (·.rew) sizes.length replies,
         term := gather (·.term) sizes.length replies,
         trunc := gather (·.trunc) sizes.length replies,
         info := gather (·.info) sizes.length replies }) := rfl

/-- what position `i` of a returned batch must show, stated field by field -/
def Batch.Shows (B : Batch α R I) (i : Nat) (outs : List (AgentOut α R I)) : Prop :=
  ∀ a o, outs[a]? = some o →
    B.rewAt a i = some o.rew ∧ B.termAt a i = some o.term ∧ B.truncAt a i = some o.trunc ∧
    B.infoAt a i = some o.info ∧ ∀ k c, o.obs[k]? = some c → B.obsAt a k i = some c

/-- ONE STEP: new state of worker `i`, and position `i` of every returned field, are those of
    `workerStep` applied to sub-environment `i` alone with column `i` of the actions -/
theorem vecStep_spec (v : Variant) (P : Placeholder α R I) (sizes : List (List Nat)) (E : Nat → Env S A α R I)
    (dA : A) (sys : Sys S α) (acts : List (List A))
    (hE : ∀ i, EnvWF sizes (E i)) (hm : MemOK sys.mem sizes sys.envs.length) :
    (vecStep v P sizes E dA sys acts).1.envs.length = sys.envs.length ∧
    MemOK (vecStep v P sizes E dA sys acts).1.mem sizes sys.envs.length ∧
    ∀ i s, sys.envs[i]? = some s →
      (vecStep v P sizes E dA sys acts).1.envs[i]? = some (workerStep v P sizes (E i) s (col dA acts i)).1 ∧
      (vecStep v P sizes E dA sys acts).2.Shows i (workerStep v P sizes (E i) s (col dA acts i)).2 := by
  rw [vecStep_eq]
  simp only
  set results := stepResults v P sizes E dA sys acts with hres
  have hlen : results.length = sys.envs.length := by simp [hres]
  set obsAll := (results.map (·.2)).map (fun r => r.map (·.obs)) with hobs
  have hol : obsAll.length = sys.envs.length := by simp [hobs, hlen]
  have hconf : ∀ (j : Nat) (obs : List (List (List α))), obsAll[j]? = some obs → Conforms sizes obs := by
    intro j obs hj
    simp only [hobs, List.getElem?_map, hres, getElem?_stepResults, Option.map_map] at hj
    cases hs : sys.envs[j]? with
    | none => simp [hs] at hj
    | some s =>
      simp only [hs, Option.map_some, Function.comp, Option.some.injEq] at hj
      rw [← hj]
      exact conforms_workerStep v P sizes (E j) (hE j) s _
  refine ⟨by simp [hlen], ?_, ?_⟩
  · unfold writeAll
    exact MemOK.foldl _ hm
  · intro i s hs
    have hi : i < sys.envs.length := (List.getElem?_eq_some_iff.1 hs).1
    have hri : results[i]? = some (workerStep v P sizes (E i) s (col dA acts i)) := by
      rw [hres, getElem?_stepResults, hs]; rfl
    refine ⟨by simp [List.getElem?_map, hri], ?_⟩
    intro a o ho
    have ha : a < sizes.length := by
      have := (List.getElem?_eq_some_iff.1 ho).1
      rwa [length_workerStep] at this
    have hrl : ∀ r ∈ results.map (·.2), a < r.length := by
      intro r hr
      obtain ⟨x, hx, rfl⟩ := List.mem_map.1 hr
      obtain ⟨j, hj⟩ := List.getElem?_of_mem hx
      rw [hres, getElem?_stepResults] at hj
      cases hsj : sys.envs[j]? with
      | none => simp [hsj] at hj
      | some s' =>
        simp only [hsj, Option.map_some, Option.some.injEq] at hj
        rw [← hj, length_workerStep]; exact ha
    have hrep : (results.map (·.2))[i]? = some (workerStep v P sizes (E i) s (col dA acts i)).2 := by
      simp [List.getElem?_map, hri]
    refine ⟨?_, ?_, ?_, ?_, ?_⟩
    · simp only [Batch.rewAt]; rw [gather_at _ _ _ a i ha hrl, hrep]; simp [ho]
    · simp only [Batch.termAt]; rw [gather_at _ _ _ a i ha hrl, hrep]; simp [ho]
    · simp only [Batch.truncAt]; rw [gather_at _ _ _ a i ha hrl, hrep]; simp [ho]
    · simp only [Batch.infoAt]; rw [gather_at _ _ _ a i ha hrl, hrep]; simp [ho]
    · intro k c hc
      have hoi : obsAll[i]? = some ((workerStep v P sizes (E i) s (col dA acts i)).2.map (·.obs)) := by
        simp [hobs, List.getElem?_map, hri]
      have hoa : ((workerStep v P sizes (E i) s (col dA acts i)).2.map (·.obs))[a]? = some o.obs := by
        simp [List.getElem?_map, ho]
      have hcf := hconf i _ hoi
      have hsz : sizes[a]? = some (o.obs.map List.length) := by
        have := congrArg (fun l => l[a]?) hcf
        simp only [List.getElem?_map, ho, Option.map_some] at this
        exact this.symm
      have hk : (o.obs.map List.length)[k]? = some c.length := by simp [List.getElem?_map, hc]
      simp only [Batch.obsAt]
      rw [parentObs_at _ sizes _ a k i hsz hk hi]
      have hrd := readRow_writeAll sizes sys.mem obsAll (hol ▸ hm) hconf hoi hoa hc
      rw [sizeAt_eq hsz hk] at hrd
      rw [hrd]

/-! ### reset of the vector environment -/

def ResetBatch.Shows (B : ResetBatch α I) (i : Nat) (r : List (List (List α) × I)) : Prop :=
  ∀ a x, r[a]? = some x → B.infoAt a i = some x.2 ∧ ∀ k c, x.1[k]? = some c → B.obsAt a k i = some c

theorem vecReset_spec (P : Placeholder α R I) (sizes : List (List Nat)) (E : Nat → Env S A α R I)
    (sys : Sys S α) (seed : Option Nat)
    (hE : ∀ i, EnvWF sizes (E i)) (hm : MemOK sys.mem sizes sys.envs.length) :
    (vecReset P sizes E sys seed).1.envs.length = sys.envs.length ∧
    MemOK (vecReset P sizes E sys seed).1.mem sizes sys.envs.length ∧
    ∀ i s, sys.envs[i]? = some s →
      (vecReset P sizes E sys seed).1.envs[i]? = some ((E i).reset s (seed.map (· + i))).1 ∧
      (vecReset P sizes E sys seed).2.Shows i (fillReset P sizes ((E i).reset s (seed.map (· + i))).2) := by
  unfold vecReset
  simp only
  set results := sys.envs.mapIdx (fun i s =>
    (((E i).reset s (seed.map (· + i))).1, fillReset P sizes ((E i).reset s (seed.map (· + i))).2)) with hres
  have hlen : results.length = sys.envs.length := by simp [hres]
  have hget : ∀ j, results[j]? = sys.envs[j]?.map (fun s =>
      (((E j).reset s (seed.map (· + j))).1, fillReset P sizes ((E j).reset s (seed.map (· + j))).2)) := by
    intro j; simp [hres, List.getElem?_mapIdx]
  set obsAll := (results.map (·.2)).map (fun r => r.map (·.1)) with hobs
  have hol : obsAll.length = sys.envs.length := by simp [hobs, hlen]
  have hconf : ∀ (j : Nat) (obs : List (List (List α))), obsAll[j]? = some obs → Conforms sizes obs := by
    intro j obs hj
    simp only [hobs, List.getElem?_map, hget, Option.map_map] at hj
    cases hs : sys.envs[j]? with
    | none => simp [hs] at hj
    | some s =>
      simp only [hs, Option.map_some, Function.comp, Option.some.injEq] at hj
      rw [← hj]
      exact conforms_fillReset P sizes (E j) (hE j) s _
  refine ⟨by simp [hlen], ?_, ?_⟩
  · unfold writeAll
    exact MemOK.foldl _ hm
  · intro i s hs
    have hi : i < sys.envs.length := (List.getElem?_eq_some_iff.1 hs).1
    have hri := hget i
    rw [hs] at hri
    simp only [Option.map_some] at hri
    refine ⟨by simp [List.getElem?_map, hri], ?_⟩
    intro a x hx
    have ha : a < sizes.length := by
      have := (List.getElem?_eq_some_iff.1 hx).1
      rwa [length_fillReset] at this
    have hrl : ∀ r ∈ results.map (·.2), a < r.length := by
      intro r hr
      obtain ⟨y, hy, rfl⟩ := List.mem_map.1 hr
      obtain ⟨j, hj⟩ := List.getElem?_of_mem hy
      rw [hget] at hj
      cases hsj : sys.envs[j]? with
      | none => simp [hsj] at hj
      | some s' =>
        simp only [hsj, Option.map_some, Option.some.injEq] at hj
        rw [← hj, length_fillReset]; exact ha
    have hrep : (results.map (·.2))[i]? = some (fillReset P sizes ((E i).reset s (seed.map (· + i))).2) := by
      simp [List.getElem?_map, hri]
    refine ⟨?_, ?_⟩
    · simp only [ResetBatch.infoAt]; rw [gather_at _ _ _ a i ha hrl, hrep]; simp [hx]
    · intro k c hc
      have hoi : obsAll[i]? = some ((fillReset P sizes ((E i).reset s (seed.map (· + i))).2).map (·.1)) := by
        simp [hobs, List.getElem?_map, hri]
      have hoa : ((fillReset P sizes ((E i).reset s (seed.map (· + i))).2).map (·.1))[a]? = some x.1 := by
        simp [List.getElem?_map, hx]
      have hcf := hconf i _ hoi
      have hsz : sizes[a]? = some (x.1.map List.length) := by
        have := congrArg (fun l => l[a]?) hcf
        simp only [List.getElem?_map, hx, Option.map_some] at this
        exact this.symm
      have hk : (x.1.map List.length)[k]? = some c.length := by simp [List.getElem?_map, hc]
      simp only [ResetBatch.obsAt]
      rw [parentObs_at _ sizes _ a k i hsz hk hi]
      have hrd := readRow_writeAll sizes sys.mem obsAll (hol ▸ hm) hconf hoi hoa hc
      rw [sizeAt_eq hsz hk] at hrd
      rw [hrd]

/-! ### whole action sequences -/

theorem length_vecRun (v : Variant) (P : Placeholder α R I) (sizes : List (List Nat)) (E : Nat → Env S A α R I)
    (dA : A) : ∀ (seq : List (List (List A))) (sys : Sys S α), (vecRun v P sizes E dA sys seq).length = seq.length := by
  intro seq
  induction seq with
  | nil => intro sys; rfl
  | cons acts rest ih => intro sys; simp [vecRun, ih]

theorem length_refRun (P : Placeholder α R I) (sizes : List (List Nat)) (E : Env S A α R I) :
    ∀ (seq : List (List A)) (s : S), (refRun P sizes E s seq).length = seq.length := by
  intro seq
  induction seq with
  | nil => intro s; rfl
  | cons acts rest ih => intro s; simp [refRun, ih]

/-- ANY ACTION SEQUENCE: at every step, position `i` of the batch shows what sub-environment `i`, run
    alone from its own state with its own column of the actions, returns at that step -/
theorem vecRun_spec (P : Placeholder α R I) (sizes : List (List Nat)) (E : Nat → Env S A α R I) (dA : A)
    (hE : ∀ i, EnvWF sizes (E i)) :
    ∀ (seq : List (List (List A))) (sys : Sys S α), MemOK sys.mem sizes sys.envs.length →
      ∀ (i : Nat) (s : S), sys.envs[i]? = some s → ∀ (t : Nat) (B : Batch α R I),
        (vecRun .repaired P sizes E dA sys seq)[t]? = some B →
        ∃ outs, (refRun P sizes (E i) s (seq.map (fun acts => col dA acts i)))[t]? = some outs ∧
          B.Shows i outs := by
  intro seq
  induction seq with
  | nil => intro sys _ i s _ t B hB; simp [vecRun] at hB
  | cons acts rest ih =>
    intro sys hm i s hs t B hB
    obtain ⟨hl, hm', hstep⟩ := vecStep_spec .repaired P sizes E dA sys acts hE hm
    obtain ⟨hs', hshow⟩ := hstep i s hs
    rw [workerStep_repaired] at hs' hshow
    cases t with
    | zero =>
      simp only [vecRun, List.getElem?_cons_zero, Option.some.injEq] at hB
      subst hB
      exact ⟨_, by simp [refRun], hshow⟩
    | succ t' =>
      simp only [vecRun, List.getElem?_cons_succ] at hB
      have := ih (vecStep .repaired P sizes E dA sys acts).1 (hl ▸ hm') i _ hs' t' B hB
      simpa [refRun] using this

end VecEnv
