import Proofs.VecEnvMem

namespace VecEnv
variable {α : Type}

/-- writes that target the same slice carry the same chunk -/
def Consistent (ops : List (MicroOp α)) : Prop :=
  ∀ x ∈ ops, ∀ y ∈ ops, x.agent = y.agent → x.key = y.key → x.env = y.env → x.chunk = y.chunk

/-- any reordering of well-formed, consistent slice writes produces the same memory -/
theorem foldl_applyOp_perm (sizes : List (List Nat)) (ops₁ ops₂ : List (MicroOp α)) (hp : ops₁.Perm ops₂)
    (hwf : ∀ x ∈ ops₁, x.WF sizes) (hc : Consistent ops₁) (m : Mem α) :
    ops₁.foldl applyOp m = ops₂.foldl applyOp m :=
  List.Perm.foldl_eq' hp
    (fun x hx y hy z => applyOp_comm sizes z x y (hwf x hx) (hwf y hy) (hc x hx y hy)) m

/-- memory allocated for `n` sub-environments: buffer (a, k) has `n * size(a, k)` elements -/
def MemOK (m : Mem α) (sizes : List (List Nat)) (n : Nat) : Prop :=
  m.shape = sizes.map (fun ks => ks.map (fun sz => n * sz))

theorem MemOK.buf_length {m : Mem α} {sizes : List (List Nat)} {n : Nat} (h : MemOK m sizes n) (a k : Nat) :
    (m.buf a k).length = n * sizeAt sizes a k := by
  have h1 := congrArg (fun l => l[a]?) h
  simp only [Mem.shape, List.getElem?_map] at h1
  unfold Mem.buf sizeAt
  cases hm : m[a]? with
  | none =>
    cases hs : sizes[a]? with
    | none => simp
    | some ks => simp [hm, hs] at h1
  | some row =>
    cases hs : sizes[a]? with
    | none => simp [hm, hs] at h1
    | some ks =>
      simp only [hm, hs, Option.map_some, Option.some.injEq] at h1
      have h2 := congrArg (fun l => l[k]?) h1
      simp only [List.getElem?_map] at h2
      simp only [Option.getD_some]
      cases hr : row[k]? with
      | none =>
        cases hk : ks[k]? with
        | none => simp
        | some sz => simp [hr, hk] at h2
      | some b =>
        cases hk : ks[k]? with
        | none => simp [hr, hk] at h2
        | some sz => simpa [hr, hk] using h2

theorem MemOK.applyOp {m : Mem α} {sizes : List (List Nat)} {n : Nat} (h : MemOK m sizes n) (op : MicroOp α) :
    MemOK (applyOp m op) sizes n := by
  unfold MemOK; rw [shape_applyOp]; exact h

theorem MemOK.foldl {sizes : List (List Nat)} {n : Nat} (ops : List (MicroOp α)) :
    ∀ {m : Mem α}, MemOK m sizes n → MemOK (ops.foldl VecEnv.applyOp m) sizes n := by
  induction ops with
  | nil => intro m h; exact h
  | cons x rest ih => intro m h; exact ih (h.applyOp x)

theorem MemOK.alloc (z : α) (sizes : List (List Nat)) (n : Nat) : MemOK (Mem.alloc z sizes n) sizes n := by
  simp [MemOK, Mem.shape, Mem.alloc, Function.comp_def]

/-- after any sequence of writes, slice `i` of buffer (a, k) holds the chunk of the first (equivalently:
    any) write aimed at it, and its old content if there is none -/
theorem readRow_foldl (sizes : List (List Nat)) (n : Nat) (a k i : Nat) :
    ∀ (ops : List (MicroOp α)) (m : Mem α), (∀ x ∈ ops, x.WF sizes ∧ x.env < n) → Consistent ops →
      MemOK m sizes n →
      readRow ((ops.foldl applyOp m).buf a k) (sizeAt sizes a k) i =
        match ops.find? (fun x => decide (x.agent = a ∧ x.key = k ∧ x.env = i)) with
        | some x => x.chunk
        | none => readRow (m.buf a k) (sizeAt sizes a k) i := by
  intro ops
  induction ops with
  | nil => intro m _ _ _; simp
  | cons x rest ih =>
    intro m hwf hc hm
    have hwf' : ∀ y ∈ rest, y.WF sizes ∧ y.env < n := fun y hy => hwf y (List.mem_cons_of_mem _ hy)
    have hc' : Consistent rest := fun y hy z hz => hc y (List.mem_cons_of_mem _ hy) z (List.mem_cons_of_mem _ hz)
    have ih' := ih (applyOp m x) hwf' hc' (hm.applyOp x)
    rw [List.foldl_cons, ih']
    obtain ⟨⟨hxs, hxl⟩, hxn⟩ := hwf x List.mem_cons_self
    by_cases hp : x.agent = a ∧ x.key = k ∧ x.env = i
    · have hfx : List.find? (fun x => decide (x.agent = a ∧ x.key = k ∧ x.env = i)) (x :: rest) = some x := by
        simp [hp]
      rw [hfx]
      obtain ⟨ha, hk, hi⟩ := hp
      cases hf : List.find? (fun x => decide (x.agent = a ∧ x.key = k ∧ x.env = i)) rest with
      | some y =>
        have hy := List.find?_some hf
        have hym := List.mem_of_find?_eq_some hf
        simp only [decide_eq_true_eq] at hy
        simp only
        exact (hc x List.mem_cons_self y (List.mem_cons_of_mem _ hym)
          (ha.trans hy.1.symm) (hk.trans hy.2.1.symm) (hi.trans hy.2.2.symm)).symm
      | none =>
        simp only
        rw [buf_applyOp, if_pos ⟨ha.symm, hk.symm⟩, ← ha, ← hk, ← hxs, ← hi]
        refine readRow_writeSlice_same _ n _ _ _ ?_ hxn hxl
        rw [hm.buf_length, hxs]
    · have hfx : List.find? (fun x => decide (x.agent = a ∧ x.key = k ∧ x.env = i)) (x :: rest) =
          List.find? (fun x => decide (x.agent = a ∧ x.key = k ∧ x.env = i)) rest := by
        simp [hp]
      rw [hfx]
      cases hf : List.find? (fun x => decide (x.agent = a ∧ x.key = k ∧ x.env = i)) rest with
      | some y => rfl
      | none =>
        simp only
        rw [buf_applyOp]
        by_cases hak : a = x.agent ∧ k = x.key
        · rw [if_pos hak]
          have hne : i ≠ x.env := fun h => hp ⟨hak.1.symm, hak.2.symm, h.symm⟩
          have : sizeAt sizes a k = x.size := by rw [hxs, hak.1, hak.2]
          rw [this]
          exact readRow_writeSlice_other _ _ _ _ _ hne hxl
        · rw [if_neg hak]

end VecEnv
