import Proofs.VecEnvParent

namespace VecEnv
variable {S A α R I : Type}

/-! ### process_transition -/

theorem getElem?_fill (P : Placeholder α R I) (sizes : List (List Nat)) (out : List (Option (AgentOut α R I)))
    (a : Nat) :
    (fill P sizes out)[a]? =
      sizes[a]?.map (fun ks => fillAt P ks out[a]?) := by
  simp [fill, List.getElem?_mapIdx]

@[simp] theorem length_fill (P : Placeholder α R I) (sizes : List (List Nat)) (out : List (Option (AgentOut α R I))) :
    (fill P sizes out).length = sizes.length := by simp [fill]

theorem getElem?_fillReset (P : Placeholder α R I) (sizes : List (List Nat)) (r : List (List (List α) × I))
    (a : Nat) :
    (fillReset P sizes r)[a]? =
      sizes[a]?.map (fun ks => fillResetAt P ks r[a]?) := by
  simp [fillReset, List.getElem?_mapIdx]

@[simp] theorem length_fillReset (P : Placeholder α R I) (sizes : List (List Nat)) (r : List (List (List α) × I)) :
    (fillReset P sizes r).length = sizes.length := by simp [fillReset]

theorem getElem?_showReset (outs : List (AgentOut α R I)) (r : List (List (List α) × I)) (a : Nat) :
    (showReset outs r)[a]? =
      outs[a]?.map (fun o => showResetAt o r[a]?) := by
  simp [showReset, List.getElem?_mapIdx]

@[simp] theorem length_showReset (outs : List (AgentOut α R I)) (r : List (List (List α) × I)) :
    (showReset outs r).length = outs.length := by simp [showReset]

theorem phObs_lengths (P : Placeholder α R I) (ks : List Nat) : (phObs P ks).map List.length = ks := by
  simp [phObs, Function.comp_def]

/-- the sub-environment's observations have the member sizes of its declared observation space -/
def EnvWF (sizes : List (List Nat)) (E : Env S A α R I) : Prop :=
  (∀ (s : S) (acts : List A) (a : Nat) (o : AgentOut α R I) (ks : List Nat),
      (E.step s acts).2[a]? = some (some o) → sizes[a]? = some ks → o.obs.map List.length = ks) ∧
  (∀ (s : S) (seed : Option Nat) (a : Nat) (x : List (List α) × I) (ks : List Nat),
      (E.reset s seed).2[a]? = some x → sizes[a]? = some ks → x.1.map List.length = ks)

theorem conforms_fill (P : Placeholder α R I) (sizes : List (List Nat)) (E : Env S A α R I)
    (hE : EnvWF sizes E) (s : S) (acts : List A) :
    Conforms sizes ((fill P sizes (E.step s acts).2).map (·.obs)) := by
  unfold Conforms
  apply List.ext_getElem?
  intro a
  simp only [List.getElem?_map, getElem?_fill, Option.map_map]
  cases hs : sizes[a]? with
  | none => simp
  | some ks =>
    simp only [Option.map_some, Function.comp, Option.some.injEq]
    cases ho : (E.step s acts).2[a]? with
    | none => simp [fillAt, phOut, phObs_lengths]
    | some x =>
      cases x with
      | none => simp [fillAt, phOut, phObs_lengths]
      | some o => simpa [fillAt] using hE.1 s acts a o ks ho hs

theorem conforms_fillReset (P : Placeholder α R I) (sizes : List (List Nat)) (E : Env S A α R I)
    (hE : EnvWF sizes E) (s : S) (seed : Option Nat) :
    Conforms sizes ((fillReset P sizes (E.reset s seed).2).map (·.1)) := by
  unfold Conforms
  apply List.ext_getElem?
  intro a
  simp only [List.getElem?_map, getElem?_fillReset, Option.map_map]
  cases hs : sizes[a]? with
  | none => simp
  | some ks =>
    simp only [Option.map_some, Function.comp, Option.some.injEq]
    cases ho : (E.reset s seed).2[a]? with
    | none => simp [fillResetAt, phObs_lengths]
    | some x => simpa [fillResetAt] using hE.2 s seed a x ks ho hs

theorem conforms_showReset (sizes : List (List Nat)) (outs : List (AgentOut α R I))
    (r : List (List (List α) × I)) (hl : outs.length = sizes.length)
    (hr : Conforms sizes (r.map (·.1))) :
    Conforms sizes ((showReset outs r).map (·.obs)) := by
  unfold Conforms at *
  apply List.ext_getElem?
  intro a
  have hra := congrArg (fun l => l[a]?) hr
  simp only [List.getElem?_map, Option.map_map] at hra
  simp only [List.getElem?_map, getElem?_showReset, Option.map_map]
  cases ho : outs[a]? with
  | none =>
    have : outs.length ≤ a := List.getElem?_eq_none_iff.1 ho
    rw [show sizes[a]? = none from List.getElem?_eq_none (by omega)]; rfl
  | some o =>
    have ha : a < sizes.length := by
      have := (List.getElem?_eq_some_iff.1 ho).1; omega
    rw [List.getElem?_eq_getElem ha] at hra ⊢
    cases hx : r[a]? with
    | none => simp [hx] at hra
    | some x => simpa [hx, showResetAt] using hra

theorem workerStep_repaired (P : Placeholder α R I) (sizes : List (List Nat)) (E : Env S A α R I)
    (s : S) (acts : List A) : workerStep .repaired P sizes E s acts = refStep P sizes E s acts := by
  unfold workerStep refStep; rfl

/-- whatever the variant, what a worker writes conforms to the declared spaces -/
theorem conforms_workerStep (v : Variant) (P : Placeholder α R I) (sizes : List (List Nat)) (E : Env S A α R I)
    (hE : EnvWF sizes E) (s : S) (acts : List A) :
    Conforms sizes ((workerStep v P sizes E s acts).2.map (·.obs)) := by
  unfold workerStep
  by_cases hd : allDone (fill P sizes (E.step s acts).2) = true
  · simp only [hd, if_true]
    cases v with
    | repaired =>
      exact conforms_showReset sizes _ _ (by simp) (conforms_fillReset P sizes E hE _ _)
    | original => exact conforms_fill P sizes E hE s acts
  · simp only [hd]
    exact conforms_fill P sizes E hE s acts

theorem length_workerStep (v : Variant) (P : Placeholder α R I) (sizes : List (List Nat)) (E : Env S A α R I)
    (s : S) (acts : List A) : (workerStep v P sizes E s acts).2.length = sizes.length := by
  unfold workerStep
  by_cases hd : allDone (fill P sizes (E.step s acts).2) = true
  · simp only [hd, if_true]; cases v <;> simp
  · simp [hd]

/-! ### parent side -/

theorem getD_transposeActs (dA : A) (n : Nat) (acts : List (List A)) (i : Nat) (hi : i < n) :
    (transposeActs dA n acts).getD i [] = col dA acts i := by
  simp [transposeActs, List.getD_eq_getElem?_getD, List.getElem?_map, List.getElem?_range hi]

theorem getElem?_filterMap_total {β γ} (f : β → Option γ) :
    ∀ (l : List β) (i : Nat), (∀ x ∈ l, (f x).isSome) → (l.filterMap f)[i]? = l[i]?.bind f := by
  intro l
  induction l with
  | nil => intro i _; simp
  | cons x rest ih =>
    intro i h
    obtain ⟨y, hy⟩ := Option.isSome_iff_exists.1 (h x List.mem_cons_self)
    rw [List.filterMap_cons_some hy]
    cases i with
    | zero => simp [hy]
    | succ j => simpa using ih j (fun z hz => h z (List.mem_cons_of_mem _ hz))

/-- position `i` of the array gathered for agent `a` is what worker `i` sent for agent `a` -/
theorem gather_at {β γ} (f : β → γ) (nA : Nat) (replies : List (List β)) (a i : Nat) (ha : a < nA)
    (hl : ∀ r ∈ replies, a < r.length) :
    ((gather f nA replies)[a]?.bind (·[i]?)) = replies[i]?.bind (fun r => r[a]?.map f) := by
  simp only [gather, List.getElem?_map, List.getElem?_range ha, Option.map_some, Option.bind_some]
  apply getElem?_filterMap_total
  intro r hr
  have := hl r hr
  simp [List.getElem?_eq_getElem this]

end VecEnv
