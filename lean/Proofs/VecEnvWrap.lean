import Proofs.VecEnvRun

namespace VecEnv
variable {S A α R I : Type}

/-! ### reset condition: worker and wrapper -/

theorem presentDone_iff (out : List (Option (AgentOut α R I))) :
    presentDone out = true ↔ ∀ o, some o ∈ out → o.term = true ∨ o.trunc = true := by
  simp only [presentDone, List.all_eq_true]
  constructor
  · intro h o ho
    have := h (some o) ho
    simpa using this
  · intro h x hx
    cases x with
    | none => rfl
    | some o => simpa using h o hx

theorem allDone_iff (outs : List (AgentOut α R I)) :
    allDone outs = true ↔ ∀ o ∈ outs, o.term = true ∨ o.trunc = true := by
  simp [allDone, List.all_eq_true]

/-- the worker (which decides on the dicts completed with placeholders) and the wrapper (which decides on
    the dicts as returned) use the same condition -/
theorem allDone_fill (P : Placeholder α R I) (sizes : List (List Nat)) (out : List (Option (AgentOut α R I)))
    (hl : out.length = sizes.length) : allDone (fill P sizes out) = presentDone out := by
  rw [Bool.eq_iff_iff, allDone_iff, presentDone_iff]
  constructor
  · intro h o ho
    obtain ⟨a, ha⟩ := List.getElem?_of_mem ho
    have hlt : a < sizes.length := hl ▸ (List.getElem?_eq_some_iff.1 ha).1
    have : (fill P sizes out)[a]? = some o := by
      rw [getElem?_fill, List.getElem?_eq_getElem hlt, ha]; rfl
    exact h o (List.mem_of_getElem? this)
  · intro h o ho
    obtain ⟨a, ha⟩ := List.getElem?_of_mem ho
    rw [getElem?_fill] at ha
    cases hs : sizes[a]? with
    | none => simp [hs] at ha
    | some ks =>
      simp only [hs, Option.map_some, Option.some.injEq] at ha
      cases hx : out[a]? with
      | none => rw [hx] at ha; subst ha; simp [fillAt, phOut]
      | some x =>
        cases x with
        | none => rw [hx] at ha; subst ha; simp [fillAt, phOut]
        | some o' =>
          rw [hx] at ha
          simp only [fillAt] at ha
          subst ha
          exact h _ (List.mem_of_getElem? hx)

theorem wrapperStep_repaired_reset (E : Env S A α R I) (s : S) (acts : List A)
    (h : presentDone (E.step s acts).2 = true) :
    wrapperStep .repaired E s acts =
      ((E.reset (E.step s acts).1 none).1,
       ⟨(E.reset (E.step s acts).1 none).2.map some,
        (E.step s acts).2.map (Option.map (fun o => (o.rew, o.term, o.trunc)))⟩) := by
  simp [wrapperStep, h]

theorem wrapperStep_repaired_pass (E : Env S A α R I) (s : S) (acts : List A)
    (h : presentDone (E.step s acts).2 = false) :
    wrapperStep .repaired E s acts =
      ((E.step s acts).1,
       ⟨(E.step s acts).2.map (Option.map (fun o => (o.obs, o.info))),
        (E.step s acts).2.map (Option.map (fun o => (o.rew, o.term, o.trunc)))⟩) := by
  simp [wrapperStep, h]

/-! ### the scripted environment conforms to its declared sizes -/

theorem length_chunkVals (e p t a k z n : Nat) : (chunkVals e p t a k z n).length = n := by
  simp [chunkVals]

theorem obsOf_lengths (c : Script) (s : EState) (a : Nat) :
    (c.obsOf s a).map List.length = c.sizes.getD a [] := by
  unfold Script.obsOf
  apply List.ext_getElem?
  intro k
  simp only [List.getElem?_map, List.getElem?_mapIdx, Option.map_map]
  cases h : (c.sizes.getD a [])[k]? with
  | none => rfl
  | some n => simp [length_chunkVals]

theorem scripted_wf (c : Script) : EnvWF c.sizes (scripted c) := by
  constructor
  · intro s acts a o ks h hs
    simp only [scripted, List.getElem?_map] at h
    have ha : a < c.sizes.length := (List.getElem?_eq_some_iff.1 hs).1
    rw [List.getElem?_range ha] at h
    simp only [Option.map_some, Option.some.injEq] at h
    split at h
    · cases h
    · simp only [Option.some.injEq] at h
      subst h
      simp only
      rw [obsOf_lengths, List.getD_eq_getElem?_getD, hs]; rfl
  · intro s seed a x ks h hs
    simp only [scripted, List.getElem?_map] at h
    have ha : a < c.sizes.length := (List.getElem?_eq_some_iff.1 hs).1
    rw [List.getElem?_range ha] at h
    simp only [Option.map_some, Option.some.injEq] at h
    subst h
    simp only
    rw [obsOf_lengths, List.getD_eq_getElem?_getD, hs]; rfl

end VecEnv
