import Gen.VecProtoGen
import Proofs.VecProtoPrompt
/-!
  Proofs/VecProtoGenEq.lean — the transition functions generated from the source of
  `AsyncPettingZooVecEnv` (Gen/VecProtoGen.lean, by harness/py2lean_vecproto.py), instantiated with the
  scripted workers of `Model/VecProto.lean` as the pipes oracle (`sysM`), equal the model's parent-side
  transitions for the variant `fixed = true`, `fix2 = true` — the code /repo HEAD implements
  (fixes/C13-close-after-worker-death.diff and fixes/C13-close-timeout-and-interrupt.diff applied).

  `Agree g m`: same outcome (ok / the same error class / never returns) and, unless the call never returns,
  the same parent state and the same workers / pipes / error queue.  (After a call that never returns the two
  descriptions may differ in how far the bookkeeping got: `_raise_if_errors` pops the queue entry by entry where
  the model checks its length first; `close_extras` closes all pipes before the joins, the model closes worker by
  worker.)  Invariant used: `WellIdx` — worker `i` sits at position `i` (`reach_wellIdx`).

  Per entry point: `gen_reset_async_eq`, `gen_step_async_eq`, `gen_call_async_eq` (= `asyncOp`),
  `gen_reset_wait_eq`, `gen_step_wait_eq`, `gen_call_wait_eq` (= `waitOp`, for every timeout value),
  `gen_set_attr_eq` (= `setAttrOp`), `gen_reset_eq`, `gen_step_eq_sync`, `gen_call_eq` (= `syncOp`),
  `gen_get_attr_is_call`, `gen_render_is_call`, `gen_close_extras_eq`, `gen_close_eq`, `gen_del_eq` (= `closeOp`);
  `gen_step_eq` collects them.  Helpers: `poll_eq` (`_poll_pipe_envs`), `raise_if_errors_eq` (`_raise_if_errors`),
  `assert_running_eq`, the loop lemmas (`forEach_idx`, `mapUntilL_sim`, `send_loop`, `recv_loop`, `step_recv_loop`,
  `raise_loop`, `sendclose_loop`, `recvclose_loop`, `terminate_loop`, `closepipes_loop`, `join_loop`).
-/
set_option linter.unusedSimpArgs false
set_option linter.unusedVariables false

namespace VecProto
open VecProtoGen (ErrClass Res Ctl Parent Sys St Stmt AsyncState)

/-! ### vocabulary -/

def excOf : Exc → ErrClass
  | .alreadyPending => .AlreadyPendingCallError
  | .noAsyncCall => .NoAsyncCallError
  | .closedEnv => .ClosedEnvironmentError
  | .timeout => .mp_TimeoutError
  | .eof => .EOFError
  | .brokenPipe => .BrokenPipeError
  | .attributeError => .AttributeError
  | .keyError => .KeyError
  | .typeError => .TypeError
  | .worker t => .other t

def stOf : AState → AsyncState
  | .default => .DEFAULT | .wreset => .WAITING_RESET | .wstep => .WAITING_STEP | .wcall => .WAITING_CALL

def resOf : Outcome → Res Unit
  | .ok => .ok ()
  | .err x => .raise (excOf x)
  | .hang => .hang

/-- how a loop over the workers goes on after a body with this outcome -/
def ctlOf {ρ : Type} : Option Outcome → Ctl ρ
  | none => .next
  | some .ok => .next
  | some (.err x) => .raise (excOf x)
  | some .hang => .hang

/-- everything outside the parent object: the scripted workers (with their ends of the pipes) and the error queue -/
abbrev World := List Worker × ErrQ

def parOf (s : State) : Parent := ⟨stOf s.astate, s.closed⟩
def worldOf (s : State) : World := (s.ws, s.errq)

/-- the command a message string stands for -/
def cmdOfString : String → Option Cmd
  | "reset" => some .reset
  | "step" => some .step
  | "_call" => some .call
  | "_setattr" => some .setattr
  | "close" => some .close
  | _ => none

/-- apply a per-worker loop body of the model to worker `i` -/
def atIdx (f : Worker → StepRes) (i : Nat) (w : World) : World × Option Reply × Option Outcome :=
  match w.1[i]? with
  | none => (w, none, some .hang)
  | some wk => ((w.1.set i (f wk).1, w.2 ++ (f wk).2.1), (f wk).2.2.1, (f wk).2.2.2)

def unitRes : World × Option Reply × Option Outcome → World × Res Unit
  | (w, _, none) => (w, .ok ())
  | (w, _, some .ok) => (w, .ok ())
  | (w, _, some (.err x)) => (w, .raise (excOf x))
  | (w, _, some .hang) => (w, .hang)

def recvRes : World × Option Reply × Option Outcome → World × Res Reply
  | (w, some r, none) => (w, .ok r)
  | (w, some r, some .ok) => (w, .ok r)
  | (w, none, none) => (w, .hang)
  | (w, none, some .ok) => (w, .hang)
  | (w, _, some (.err x)) => (w, .raise (excOf x))
  | (w, _, some .hang) => (w, .hang)

def modAt (g : Worker → Worker) (i : Nat) (w : World) : World :=
  match w.1[i]? with
  | none => w
  | some wk => (w.1.set i (g wk), w.2)

/-- `process.join()`: wakes a finite sleeper (A4), returns iff the process ends (A6) -/
def joinProc (w : Worker) : StepRes :=
  let r := Worker.drain (w.backlog.length + 1) w
  if r.1.st = .exited then (r.1, r.2, none, none) else (r.1, r.2, none, some .hang)

/-- the oracle of the generated code, played by the model's scripted workers (assumptions A1–A9 of the model) -/
def sysM (n : Nat) (isExc : Nat → Bool) : Sys World Reply (Nat × Nat) where
  num_envs := n
  isExc := isExc
  now := fun _ => 0
  pipe_send := fun i c w =>
    match cmdOfString c with
    | some c => unitRes (atIdx (sendOne c) i w)
    | none => (w, .raise .ValueError)
  pipe_recv := fun i w => recvRes (atIdx (recvOne (fun _ => none)) i w)
  pipe_poll := fun i _ w => match w.1[i]? with | some wk => !wk.inbox.isEmpty || wk.st = .exited | none => false
  pipe_is_none := fun i w => match w.1[i]? with | some wk => !wk.pipeOpen | none => true
  pipe_closed := fun i w => match w.1[i]? with | some wk => !wk.pipeOpen | none => true
  pipe_close := fun i w => (modAt (fun wk => { wk with pipeOpen := false }) i w, .ok ())
  pipe_set_none := fun i w => modAt (fun wk => { wk with pipeOpen := false }) i w
  proc_is_alive := fun i w => match w.1[i]? with | some wk => wk.st ≠ .exited | none => false
  proc_terminate := fun i w => (modAt (fun wk => { wk with st := .exited }) i w, .ok ())
  proc_join := fun i t w =>
    match t with
    | some _ => (w, .ok ())
    | none => unitRes (atIdx joinProc i w)
  queue_get := fun w => match w.2 with | [] => (w, .hang) | e :: q => ((w.1, q), .ok e)
  q_index := fun e => e.1
  q_type := fun e => .other e.2
  success := fun r => r != .failR
  decode := fun site r =>
    match site with
    | "reset_wait" => (decodeErr .reset r).map excOf
    | "step_wait" => (decodeErr .step r).map excOf
    | _ => none

theorem sysM_num (n : Nat) (ie : Nat → Bool) : (sysM n ie).num_envs = n := rfl
theorem sysM_success (n : Nat) (ie : Nat → Bool) : (sysM n ie).success = fun r => r != .failR := rfl
theorem sysM_isExc (n : Nat) (ie : Nat → Bool) : (sysM n ie).isExc = ie := rfl
theorem sysM_now (n : Nat) (ie : Nat → Bool) (w : World) : (sysM n ie).now w = 0 := rfl

/-- generated result vs model result: same outcome, and the same state unless the call never returns -/
def Agree (g : Parent × World × Res Unit) (m : State × Outcome) : Prop :=
  g.2.2 = resOf m.2 ∧ (m.2 ≠ .hang → g.1 = parOf m.1 ∧ g.2.1 = worldOf m.1)


/-! ### loops over the workers -/

/-- a loop over the workers whose body may stop it, with loop-carried locals -/
def mapUntilL {L ρ : Type} (f : L → Worker → Worker × ErrQ × L × Ctl ρ) : L → List Worker → List Worker × ErrQ × L × Ctl ρ
  | l, [] => ([], [], l, .next)
  | l, w :: ws =>
    match f l w with
    | (w1, e1, l1, .next) =>
      match mapUntilL f l1 ws with
      | (ws1, e2, l2, c) => (w1 :: ws1, e1 ++ e2, l2, c)
    | (w1, e1, l1, .brk) => (w1 :: ws, e1, l1, .next)
    | (w1, e1, l1, c) => (w1 :: ws, e1, l1, c)

/-- a generated `for i in range(num_envs)` whose body works on worker `i` only is `mapUntilL` -/
theorem forEach_idx {L ρ : Type} (body : Nat → Stmt World L ρ) (f : L → Worker → Worker × ErrQ × L × Ctl ρ)
    (hb : ∀ i (p : Parent) (ws : List Worker) (q : ErrQ) (l : L) (wk : Worker), ws[i]? = some wk →
      body i ⟨p, (ws, q), l⟩ = (⟨p, (ws.set i (f l wk).1, q ++ (f l wk).2.1), (f l wk).2.2.1⟩, (f l wk).2.2.2)) :
    ∀ (suf pre : List Worker) (p : Parent) (q : ErrQ) (l : L),
      VecProtoGen.pyForEach.go body (List.range' pre.length suf.length) ⟨p, (pre ++ suf, q), l⟩ =
        (⟨p, (pre ++ (mapUntilL f l suf).1, q ++ (mapUntilL f l suf).2.1), (mapUntilL f l suf).2.2.1⟩,
          (mapUntilL f l suf).2.2.2) := by
  intro suf
  induction suf with
  | nil => intro pre p q l; simp [VecProtoGen.pyForEach.go, mapUntilL]
  | cons w suf ih =>
    intro pre p q l
    have hget : (pre ++ w :: suf)[pre.length]? = some w := by simp
    have hset : ∀ w1, (pre ++ w :: suf).set pre.length w1 = (pre ++ [w1]) ++ suf := by intro w1; simp
    simp only [List.length_cons, List.range'_succ, VecProtoGen.pyForEach.go]
    rw [hb _ p _ q l w hget, hset]
    rcases hf : f l w with ⟨w1, e1, l1, c⟩
    have hlen : (pre ++ [w1]).length = pre.length + 1 := by simp
    cases c with
    | next =>
      simp only [mapUntilL, hf]
      have := ih (pre ++ [w1]) p (q ++ e1) l1
      rw [hlen] at this
      rw [this]
      simp [List.append_assoc]
    | brk => simp [mapUntilL, hf]
    | ret v => simp [mapUntilL, hf]
    | raise e => simp [mapUntilL, hf]
    | hang => simp [mapUntilL, hf]

theorem forEach_workers {L ρ : Type} (body : Nat → Stmt World L ρ) (f : L → Worker → Worker × ErrQ × L × Ctl ρ)
    (hb : ∀ i (p : Parent) (ws : List Worker) (q : ErrQ) (l : L) (wk : Worker), ws[i]? = some wk →
      body i ⟨p, (ws, q), l⟩ = (⟨p, (ws.set i (f l wk).1, q ++ (f l wk).2.1), (f l wk).2.2.1⟩, (f l wk).2.2.2))
    (n : Nat) (p : Parent) (ws : List Worker) (q : ErrQ) (l : L) (hn : n = ws.length) :
    VecProtoGen.pyForEach (fun _ => List.range n) body ⟨p, (ws, q), l⟩ =
      (⟨p, ((mapUntilL f l ws).1, q ++ (mapUntilL f l ws).2.1), (mapUntilL f l ws).2.2.1⟩, (mapUntilL f l ws).2.2.2) := by
  subst hn
  have := forEach_idx body f hb ws [] p q l
  simpa [VecProtoGen.pyForEach, List.range_eq_range'] using this


/-- a generated loop body that does to worker `w` what the model's body `g` does (and `upd` to the locals when it
    got a reply) runs like the model's `mapUntil g` -/
theorem mapUntilL_sim {L ρ : Type} (f : L → Worker → Worker × ErrQ × L × Ctl ρ) (g : Worker → StepRes) (upd : L → Reply → L)
    (hg : ∀ w, (g w).2.2.2 ≠ some .ok)
    (h : ∀ l w, (f l w).1 = (g w).1 ∧ (f l w).2.1 = (g w).2.1 ∧ (f l w).2.2.2 = ctlOf (g w).2.2.2 ∧
      ((g w).2.2.2 = none → (f l w).2.2.1 = (g w).2.2.1.toList.foldl upd l)) :
    ∀ (ws : List Worker) (l : L), (mapUntilL f l ws).1 = (mapUntil g ws).1 ∧ (mapUntilL f l ws).2.1 = (mapUntil g ws).2.1 ∧
      (mapUntilL f l ws).2.2.2 = ctlOf (mapUntil g ws).2.2.2 ∧
      ((mapUntil g ws).2.2.2 = none → (mapUntilL f l ws).2.2.1 = (mapUntil g ws).2.2.1.foldl upd l) := by
  intro ws
  induction ws with
  | nil => intro l; simp [mapUntilL, mapUntil, ctlOf]
  | cons w ws ih =>
    intro l
    obtain ⟨h1, h2, h3, h4⟩ := h l w
    have hgw := hg w
    rcases hf : f l w with ⟨w1, e1, l1, c⟩
    rcases hgv : g w with ⟨w1', e1', r, o⟩
    rw [hf, hgv] at h1 h2 h3 h4
    rw [hgv] at hgw
    simp only at h1 h2 h3 h4 hgw
    subst h1 h2 h3
    cases o with
    | some o =>
      cases o with
      | ok => exact absurd rfl hgw
      | err x => simp [mapUntilL, mapUntil, hf, hgv, ctlOf]
      | hang => simp [mapUntilL, mapUntil, hf, hgv, ctlOf]
    | none =>
      have hl := h4 rfl
      subst hl
      obtain ⟨i1, i2, i3, i4⟩ := ih (r.toList.foldl upd l)
      rcases hm : mapUntil g ws with ⟨ws1, e2, rs, o2⟩
      rcases hml : mapUntilL f (r.toList.foldl upd l) ws with ⟨ws1', e2', l2, c2⟩
      rw [hm, hml] at i1 i2 i3 i4
      simp only at i1 i2 i3 i4
      subst i1 i2 i3
      simp only [mapUntilL, mapUntil, hf, hgv, ctlOf, hml, hm, true_and]
      intro ho
      rw [i4 ho, List.foldl_append]


theorem mapUntilL_loc {L ρ : Type} (f : L → Worker → Worker × ErrQ × L × Ctl ρ) (h : ∀ l w, (f l w).2.2.1 = l) :
    ∀ (ws : List Worker) (l : L), (mapUntilL f l ws).2.2.1 = l := by
  intro ws
  induction ws with
  | nil => intro l; rfl
  | cons w ws ih =>
    intro l
    have hw := h l w
    rcases hf : f l w with ⟨w1, e1, l1, c⟩
    rw [hf] at hw
    simp only at hw
    subst hw
    cases c <;> simp [mapUntilL, hf, ih]

/-! ### the guards and the `*_async` calls -/
open VecProtoGen (pySeq pySkip pyIf pyAssign pyRaise pyReturn pySys pyCall pyForEach pyRunUnit pyRunOpt pyTry pyFinally
  pyDecode pyIfNone pyIfFalsy pyLet pyBreak)

theorem assert_running_eq {W R Q : Type} (S : Sys W R Q) (p : Parent) (w : W) :
    VecProtoGen._assert_is_running S p w = (p, w, if p.closed then .raise .ClosedEnvironmentError else .ok ()) := by
  cases hc : p.closed <;> simp [VecProtoGen._assert_is_running, pyRunUnit, pyIf, pyRaise, pySkip, hc]

theorem sendOne_ne_ok (c : Cmd) (w : Worker) : (sendOne c w).2.2.2 ≠ some .ok := by
  unfold sendOne
  split
  · simp
  · split
    · simp
    · simp

theorem send_loop {L ρ : Type} (str : String) (c : Cmd) (hc : cmdOfString str = some c) (ie : Nat → Bool) (n : Nat)
    (p : Parent) (ws : List Worker) (q : ErrQ) (l : L) (hn : n = ws.length) :
    pyForEach (ρ := ρ) (fun _ => List.range n)
        (fun i0 => pySys (fun _ => (sysM n ie).pipe_send i0 str) fun _ => pySkip) ⟨p, (ws, q), l⟩ =
      (⟨p, ((mapUntil (sendOne c) ws).1, q ++ (mapUntil (sendOne c) ws).2.1), l⟩, ctlOf (mapUntil (sendOne c) ws).2.2.2) := by
  let f : L → Worker → Worker × ErrQ × L × Ctl ρ := fun l wk => ((sendOne c wk).1, (sendOne c wk).2.1, l, ctlOf (sendOne c wk).2.2.2)
  have hb : ∀ i (p : Parent) (ws : List Worker) (q : ErrQ) (l : L) (wk : Worker), ws[i]? = some wk →
      (fun i0 => pySys (ρ := ρ) (fun _ => (sysM n ie).pipe_send i0 str) fun _ => pySkip) i ⟨p, (ws, q), l⟩ =
        (⟨p, (ws.set i (f l wk).1, q ++ (f l wk).2.1), (f l wk).2.2.1⟩, (f l wk).2.2.2) := by
    intro i p ws q l wk hget
    have hne := sendOne_ne_ok c wk
    simp only [pySys, sysM, hc, atIdx, hget, f]
    rcases hs : sendOne c wk with ⟨w1, e1, r, o⟩
    rw [hs] at hne
    cases o with
    | none => simp [unitRes, ctlOf, pySkip]
    | some o =>
      cases o with
      | ok => exact absurd rfl hne
      | err x => simp [unitRes, ctlOf]
      | hang => simp [unitRes, ctlOf]
  rw [forEach_workers _ f hb n p ws q l hn]
  obtain ⟨h1, h2, h3, h4⟩ := mapUntilL_sim f (sendOne c) (fun l _ => l) (sendOne_ne_ok c) (by
    intro l w
    refine ⟨rfl, rfl, rfl, ?_⟩
    intro _
    cases (sendOne c w).2.2.1 <;> rfl) ws l
  rw [h1, h2, h3]
  have hl : (mapUntilL f l ws).2.2.1 = l := mapUntilL_loc f (fun _ _ => rfl) ws l
  rw [hl]


theorem stOf_ne_default (a : AState) : (stOf a != AsyncState.DEFAULT) = decide (a ≠ .default) := by
  cases a <;> rfl

theorem gen_reset_async_eq (s : State) (ie : Nat → Bool) :
    Agree (VecProtoGen.reset_async (sysM s.ws.length ie) (parOf s) (worldOf s)) (asyncOp s .reset .wreset) := by
  obtain ⟨fx, f2, ast, cl, ws, q⟩ := s
  simp only [VecProtoGen.reset_async, asyncOp, parOf, worldOf, pyRunUnit, pyCall, assert_running_eq]
  cases cl
  · by_cases ha : ast = .default
    · subst ha
      simp only [pySeq, pyIf, stOf, pySkip]
      have hl := send_loop (ρ := Unit) "reset" .reset rfl ie ws.length ⟨.DEFAULT, false⟩ ws q
        (VecProtoGen.reset_async.L.mk (R := Reply)) rfl
      simp only [sysM] at hl ⊢
      simp only [bne_self_eq_false, Bool.false_eq_true, if_false, hl, ne_eq, not_true_eq_false, if_false]
      rcases hm : mapUntil (sendOne .reset) ws with ⟨ws1, e, rs, o⟩
      cases o with
      | none => simp [ctlOf, pyAssign, Agree, resOf, parOf, worldOf, stOf]
      | some o =>
        cases o with
        | ok => exact absurd (by rw [hm]) (mapUntil_stop_ne _ _ ws (fun w _ => sendOne_ne_ok .reset w))
        | err x => simp [ctlOf, Agree, resOf, parOf, worldOf, stOf]
        | hang => simp [ctlOf, Agree, resOf]
    · cases ast <;> first | exact absurd rfl ha | simp [pySeq, pyIf, pyRaise, stOf, Agree, resOf, excOf, parOf, worldOf]
  · simp [Agree, resOf, excOf, parOf, worldOf]

theorem gen_step_async_eq (s : State) (ie : Nat → Bool) :
    Agree (VecProtoGen.step_async (sysM s.ws.length ie) (parOf s) (worldOf s)) (asyncOp s .step .wstep) := by
  obtain ⟨fx, f2, ast, cl, ws, q⟩ := s
  simp only [VecProtoGen.step_async, asyncOp, parOf, worldOf, pyRunUnit, pyCall, assert_running_eq]
  cases cl
  · by_cases ha : ast = .default
    · subst ha
      simp only [pySeq, pyIf, stOf, pySkip]
      have hl := send_loop (ρ := Unit) "step" .step rfl ie ws.length ⟨.DEFAULT, false⟩ ws q
        (VecProtoGen.step_async.L.mk (R := Reply)) rfl
      simp only [sysM] at hl ⊢
      simp only [bne_self_eq_false, Bool.false_eq_true, if_false, hl, ne_eq, not_true_eq_false, if_false]
      rcases hm : mapUntil (sendOne .step) ws with ⟨ws1, e, rs, o⟩
      cases o with
      | none => simp [ctlOf, pyAssign, Agree, resOf, parOf, worldOf, stOf]
      | some o =>
        cases o with
        | ok => exact absurd (by rw [hm]) (mapUntil_stop_ne _ _ ws (fun w _ => sendOne_ne_ok .step w))
        | err x => simp [ctlOf, Agree, resOf, parOf, worldOf, stOf]
        | hang => simp [ctlOf, Agree, resOf]
    · cases ast <;> first | exact absurd rfl ha | simp [pySeq, pyIf, pyRaise, stOf, Agree, resOf, excOf, parOf, worldOf]
  · simp [Agree, resOf, excOf, parOf, worldOf]

theorem gen_call_async_eq (s : State) (ie : Nat → Bool) :
    Agree (VecProtoGen.call_async (sysM s.ws.length ie) (parOf s) (worldOf s)) (asyncOp s .call .wcall) := by
  obtain ⟨fx, f2, ast, cl, ws, q⟩ := s
  simp only [VecProtoGen.call_async, asyncOp, parOf, worldOf, pyRunUnit, pyCall, assert_running_eq]
  cases cl
  · by_cases ha : ast = .default
    · subst ha
      simp only [pySeq, pyIf, stOf, pySkip]
      have hl := send_loop (ρ := Unit) "_call" .call rfl ie ws.length ⟨.DEFAULT, false⟩ ws q
        (VecProtoGen.call_async.L.mk (R := Reply)) rfl
      simp only [sysM] at hl ⊢
      simp only [bne_self_eq_false, Bool.false_eq_true, if_false, hl, ne_eq, not_true_eq_false, if_false]
      rcases hm : mapUntil (sendOne .call) ws with ⟨ws1, e, rs, o⟩
      cases o with
      | none => simp [ctlOf, pyAssign, Agree, resOf, parOf, worldOf, stOf]
      | some o =>
        cases o with
        | ok => exact absurd (by rw [hm]) (mapUntil_stop_ne _ _ ws (fun w _ => sendOne_ne_ok .call w))
        | err x => simp [ctlOf, Agree, resOf, parOf, worldOf, stOf]
        | hang => simp [ctlOf, Agree, resOf]
    · cases ast <;> first | exact absurd rfl ha | simp [pySeq, pyIf, pyRaise, stOf, Agree, resOf, excOf, parOf, worldOf]
  · simp [Agree, resOf, excOf, parOf, worldOf]


/-! ### `_poll_pipe_envs` -/

theorem mapUntilL_readonly {L ρ : Type} (f : L → Worker → Worker × ErrQ × L × Ctl ρ) (P : Worker → Bool) (v : ρ)
    (h : ∀ l w, (f l w).1 = w ∧ (f l w).2.1 = [] ∧ (f l w).2.2.2 = if P w then .next else .ret v) :
    ∀ (ws : List Worker) (l : L), (mapUntilL f l ws).1 = ws ∧ (mapUntilL f l ws).2.1 = [] ∧
      (mapUntilL f l ws).2.2.2 = if ws.all P then .next else .ret v := by
  intro ws
  induction ws with
  | nil => intro l; simp [mapUntilL]
  | cons w ws ih =>
    intro l
    obtain ⟨h1, h2, h3⟩ := h l w
    rcases hf : f l w with ⟨w1, e1, l1, c⟩
    rw [hf] at h1 h2 h3
    simp only at h1 h2 h3
    have h1' := h1.symm
    subst h1' h2
    cases hp : P w
    · rw [hp] at h3; simp at h3; subst h3
      simp [mapUntilL, hf, hp]
    · rw [hp] at h3; simp at h3; subst h3
      obtain ⟨i1, i2, i3⟩ := ih l1
      rcases hm : mapUntilL f l1 ws with ⟨ws1, e2, l2, c2⟩
      rw [hm] at i1 i2 i3
      simp only at i1 i2 i3
      subst i1 i2 i3
      simp [mapUntilL, hf, hm, hp]

theorem poll_eq (ie : Nat → Bool) (t : Option Rat) (p : Parent) (ws : List Worker) (q : ErrQ) :
    VecProtoGen._poll_pipe_envs (sysM ws.length ie) t p (ws, q) =
      (p, (ws, q), if p.closed then .raise .ClosedEnvironmentError
        else .ok (some (!(t.isSome && !pollAll ws)))) := by
  simp only [VecProtoGen._poll_pipe_envs, pyRunOpt, pyCall, assert_running_eq]
  cases hc : p.closed
  · cases t with
    | none => simp [pyIfNone, pyReturn]
    | some t =>
      simp only [pyIfNone, pySeq, pyAssign, Bool.false_eq_true, if_false]
      let f : VecProtoGen._poll_pipe_envs.L Reply → Worker → Worker × ErrQ × VecProtoGen._poll_pipe_envs.L Reply × Ctl Bool :=
        fun l wk => (wk, [], { l with v1 := VecProtoGen.pyMax (l.v0 - 0) (0 : Rat) }, if wk.ready then .next else .ret false)
      have hb : ∀ i (p : Parent) (ws' : List Worker) (q : ErrQ) (l : VecProtoGen._poll_pipe_envs.L Reply) (wk : Worker),
          ws'[i]? = some wk →
          (fun i0 =>
            pySeq (pyAssign fun s => { s with loc := { s.loc with v1 := VecProtoGen.pyMax (s.loc.v0 - (sysM ws.length ie).now s.sys) (0 : Rat) } }) <|
            pySeq (pyIf (fun s => (sysM ws.length ie).pipe_is_none i0 s.sys) (pyReturn fun s => false) (pySkip)) <|
            pyIf (fun s => (((sysM ws.length ie).pipe_closed i0 s.sys) || (!((sysM ws.length ie).pipe_poll i0 s.loc.v1 s.sys))))
              (pyReturn fun s => false) (pySkip)) i ⟨p, (ws', q), l⟩ =
            (⟨p, (ws'.set i (f l wk).1, q ++ (f l wk).2.1), (f l wk).2.2.1⟩, (f l wk).2.2.2) := by
        intro i p ws' q l wk hget
        have hset : ws'.set i wk = ws' := by
          apply List.ext_getElem? ; intro j
          by_cases hj : i = j
          · subst hj; rw [List.getElem?_set_self' ]; simp [hget]
          · rw [List.getElem?_set_ne hj]
        simp only [pySeq, pyAssign, pyIf, pyReturn, pySkip, sysM, hget, f, Worker.ready, hset, List.append_nil]
        by_cases hp : wk.pipeOpen = true
        · by_cases hr : (!wk.inbox.isEmpty || decide (wk.st = WSt.exited)) = true
          · simp [hp, hr, hget]
          · simp [hp, hr, hget]
        · simp [hp, hget]
      have hl := forEach_workers _ f hb ws.length p ws q
        ({ a0 := some t, v0 := (sysM ws.length ie).now (ws, q) + t } : VecProtoGen._poll_pipe_envs.L Reply) rfl
      simp only [sysM] at hl ⊢
      rw [hl]
      obtain ⟨r1, r2, r3⟩ := mapUntilL_readonly f Worker.ready false (fun l w => ⟨rfl, rfl, rfl⟩) ws
        ({ a0 := some t, v0 := 0 + t } : VecProtoGen._poll_pipe_envs.L Reply)
      rw [r1, r2, r3]
      unfold pollAll
      cases ws.all Worker.ready <;> simp [pyReturn]
  · simp


/-! ### receiving the replies -/

theorem recvOne_ne_ok (chk : Reply → Option Exc) (w : Worker) : (recvOne chk w).2.2.2 ≠ some .ok := by
  unfold recvOne
  rcases w.recv with ⟨w1, e1, r⟩
  cases r with
  | got r => simp only; cases chk r <;> simp
  | eof => simp
  | block => simp
  | noPipe => simp

/-- `recvOne` hands a reply to the parent iff it does not stop -/
theorem recvOne_reply (chk : Reply → Option Exc) (w : Worker) :
    ((recvOne chk w).2.2.2 = none → ∃ r, (recvOne chk w).2.2.1 = some r) ∧
    ((recvOne chk w).2.2.2 ≠ none → (recvOne chk w).2.2.1 = none) := by
  unfold recvOne
  rcases w.recv with ⟨w1, e1, r⟩
  cases r with
  | got r =>
    cases hc : chk r with
    | none => simp [hc]
    | some x => simp [hc]
  | eof => simp
  | block => simp
  | noPipe => simp

/-- `[pipe.recv() for pipe in self.parent_pipes]`, the replies appended to a local by `app` -/
theorem recv_loop {L ρ : Type} (app : L → Reply → L) (ie : Nat → Bool) (n : Nat) (p : Parent) (ws : List Worker) (q : ErrQ)
    (l : L) (hn : n = ws.length) :
    ∃ l', pyForEach (ρ := ρ) (fun _ => List.range n)
        (fun i0 => pySys (fun _ => (sysM n ie).pipe_recv i0) fun r => pyAssign fun s => { s with loc := app s.loc r })
        ⟨p, (ws, q), l⟩ =
      (⟨p, ((mapUntil (recvOne (fun _ => none)) ws).1, q ++ (mapUntil (recvOne (fun _ => none)) ws).2.1), l'⟩,
        ctlOf (mapUntil (recvOne (fun _ => none)) ws).2.2.2) ∧
      ((mapUntil (recvOne (fun _ => none)) ws).2.2.2 = none → l' = (mapUntil (recvOne (fun _ => none)) ws).2.2.1.foldl app l) := by
  let g := recvOne (fun _ => none)
  let f : L → Worker → Worker × ErrQ × L × Ctl ρ := fun l wk =>
    ((g wk).1, (g wk).2.1, (g wk).2.2.1.toList.foldl app l, ctlOf (g wk).2.2.2)
  have hb : ∀ i (p : Parent) (ws : List Worker) (q : ErrQ) (l : L) (wk : Worker), ws[i]? = some wk →
      (fun i0 => pySys (ρ := ρ) (fun _ => (sysM n ie).pipe_recv i0) fun r => pyAssign fun s => { s with loc := app s.loc r })
        i ⟨p, (ws, q), l⟩ =
        (⟨p, (ws.set i (f l wk).1, q ++ (f l wk).2.1), (f l wk).2.2.1⟩, (f l wk).2.2.2) := by
    intro i p ws q l wk hget
    have hne := recvOne_ne_ok (fun _ => none) wk
    have hrep := recvOne_reply (fun _ => none) wk
    simp only [pySys, sysM, atIdx, hget, f, g]
    rcases hs : recvOne (fun _ => none) wk with ⟨w1, e1, r, o⟩
    rw [hs] at hne hrep
    cases o with
    | none =>
      obtain ⟨r', hr'⟩ := hrep.1 rfl
      simp only at hr'
      subst hr'
      simp [recvRes, ctlOf, pyAssign]
    | some o =>
      cases o with
      | ok => exact absurd rfl hne
      | err x => have := hrep.2 (by simp); simp only at this; subst this; simp [recvRes, ctlOf]
      | hang => have := hrep.2 (by simp); simp only at this; subst this; simp [recvRes, ctlOf]
  refine ⟨(mapUntilL f l ws).2.2.1, ?_, ?_⟩
  · rw [forEach_workers _ f hb n p ws q l hn]
    obtain ⟨h1, h2, h3, _⟩ := mapUntilL_sim f g app (recvOne_ne_ok _) (fun l w => ⟨rfl, rfl, rfl, fun _ => rfl⟩) ws l
    rw [h1, h2, h3]
  · intro ho
    exact (mapUntilL_sim f g app (recvOne_ne_ok _) (fun l w => ⟨rfl, rfl, rfl, fun _ => rfl⟩) ws l).2.2.2 ho


/-! ### `_raise_if_errors` -/

/-- worker `i` sits at position `i` (true of `mkWorkers`, kept by every transition) -/
def WellIdx (ws : List Worker) : Prop := ∀ i (h : i < ws.length), ws[i].idx = i

theorem WellIdx.closePipe {ws : List Worker} (h : WellIdx ws) (i : Nat) : WellIdx (closePipe i ws) := by
  intro j hj
  have hj' : j < ws.length := by simpa [VecProto.closePipe] using hj
  have := h j hj'
  simp only [VecProto.closePipe, List.getElem_map]
  split <;> simpa using this

theorem modAt_close (ws : List Worker) (q : ErrQ) (h : WellIdx ws) (i : Nat) :
    modAt (fun wk => { wk with pipeOpen := false }) i (ws, q) = (closePipe i ws, q) := by
  unfold modAt
  simp only
  have hext : ∀ (l : List Worker), l.length = ws.length →
      (∀ j (h1 : j < l.length) (h2 : j < ws.length), l[j] = if j = i then { ws[j] with pipeOpen := false } else ws[j]) →
      l = closePipe i ws := by
    intro l hl hj
    apply List.ext_getElem
    · simp [VecProto.closePipe, hl]
    · intro j h1 h2
      have h2' : j < ws.length := by simpa [VecProto.closePipe] using h2
      rw [hj j h1 h2']
      simp only [VecProto.closePipe, List.getElem_map, h j h2']
  cases hg : ws[i]? with
  | none =>
    simp only
    congr 1
    apply hext ws rfl
    intro j h1 _
    have : j ≠ i := by
      intro hji; subst hji
      rw [List.getElem?_eq_none_iff] at hg; omega
    simp [this]
  | some wk =>
    simp only
    congr 1
    obtain ⟨hi, hwk⟩ := List.getElem?_eq_some_iff.mp hg
    apply hext _ (by simp)
    intro j h1 h2
    by_cases hji : j = i
    · subst hji; simp [hwk]
    · have : i ≠ j := fun h => hji h.symm
      simp [List.getElem_set_ne this, hji]

theorem closePipe_idem (i : Nat) (ws : List Worker) : closePipe i (closePipe i ws) = closePipe i ws := by
  simp only [closePipe, List.map_map]
  apply List.map_congr_left
  intro w _
  simp only [Function.comp]
  split <;> simp_all

theorem raise_loop (ie : Nat → Bool) (n : Nat) (succ : List Bool) (K : Int) :
    ∀ (m j : Nat) (p : Parent) (ws : List Worker) (q : ErrQ), WellIdx ws → K = j + m →
      let body : Nat → Stmt World (VecProtoGen._raise_if_errors.L Reply) Unit := fun i0 =>
        pySys (fun s => (sysM n ie).queue_get) fun r0 =>
        pySys (fun s => (sysM n ie).pipe_close ((sysM n ie).q_index r0)) fun _ =>
        pySeq (pyAssign fun s => { s with sys := (sysM n ie).pipe_set_none ((sysM n ie).q_index r0) s.sys }) <|
        pyIf (fun s => ((i0 : Int) == (s.loc.v0 - (1 : Int))))
          (pySeq (pyAssign fun s => { s with par := { s.par with _state := AsyncState.DEFAULT } }) <|
           pyRaise fun s => (sysM n ie).q_type r0)
          (pySkip)
      (q.length < m → ∃ s', VecProtoGen.pyForEach.go body (List.range' j m) ⟨p, (ws, q), ⟨succ, K⟩⟩ = (s', .hang)) ∧
      (0 < m → m ≤ q.length → ∃ i t, (q.take m).getLast? = some (i, t) ∧
        VecProtoGen.pyForEach.go body (List.range' j m) ⟨p, (ws, q), ⟨succ, K⟩⟩ =
          (⟨{ p with _state := .DEFAULT }, (closePipes ((q.take m).map (·.1)) ws, q.drop m), ⟨succ, K⟩⟩, .raise (.other t))) := by
  intro m
  induction m with
  | zero => intro j p ws q _ _; simp
  | succ m ih =>
    intro j p ws q hw hK
    intro body
    cases q with
    | nil =>
      refine ⟨fun _ => ?_, fun _ h => by simp at h⟩
      exact ⟨⟨p, (ws, []), ⟨succ, K⟩⟩, by simp [List.range'_succ, VecProtoGen.pyForEach.go, body, pySys, sysM]⟩
    | cons e q =>
      have hc1 := modAt_close ws q hw e.1
      have hc2 := modAt_close (closePipe e.1 ws) q (hw.closePipe e.1) e.1
      rw [closePipe_idem] at hc2
      by_cases hm : m = 0
      · subst hm
        refine ⟨fun h => by simp at h, fun _ _ => ⟨e.1, e.2, by simp, ?_⟩⟩
        have hK' : ((j : Int) == K - 1) = true := by simp; omega
        simp [List.range'_succ, VecProtoGen.pyForEach.go, body, pySys, sysM, pySeq, pyAssign, pyIf, pyRaise, hc1, hc2, hK',
          closePipes]
      · have hK' : ((j : Int) == K - 1) = false := by simp; omega
        obtain ⟨ih1, ih2⟩ := ih (j + 1) p (closePipe e.1 ws) q (hw.closePipe e.1) (by omega)
        have hgo : VecProtoGen.pyForEach.go body (List.range' j (m + 1)) ⟨p, (ws, e :: q), ⟨succ, K⟩⟩ =
            VecProtoGen.pyForEach.go body (List.range' (j + 1) m) ⟨p, (closePipe e.1 ws, q), ⟨succ, K⟩⟩ := by
          simp [List.range'_succ, VecProtoGen.pyForEach.go, body, pySys, sysM, pySeq, pyAssign, pyIf, pySkip, hc1, hc2, hK']
        rw [hgo]
        refine ⟨fun h => ih1 (by simpa using h), fun _ h => ?_⟩
        obtain ⟨i, t, hl, hgo'⟩ := ih2 (by omega) (by simpa using h)
        refine ⟨i, t, ?_, ?_⟩
        · rw [List.take_succ_cons, List.getLast?_cons_of_ne_nil, hl]
          intro hnil; rw [hnil] at hl; simp at hl
        · rw [hgo']
          simp [closePipes]


theorem sumBool_countFail (rs : List Reply) :
    VecProtoGen.pySumBool (rs.map (fun r => r != .failR)) + countFail rs = rs.length := by
  induction rs with
  | nil => rfl
  | cons r rs ih =>
    simp only [VecProtoGen.pySumBool, countFail, List.map_cons, List.length_cons] at ih ⊢
    cases r <;> simp [List.filter_cons, List.count_cons] <;> omega

theorem pyAll_countFail (rs : List Reply) :
    VecProtoGen.pyAll (rs.map (fun r => r != .failR)) = decide (countFail rs = 0) := by
  induction rs with
  | nil => rfl
  | cons r rs ih =>
    simp only [VecProtoGen.pyAll, countFail, List.map_cons, List.all_cons] at ih ⊢
    cases r with
    | okR k => have hb : (Reply.okR k != Reply.failR) = true := by simp
               simp only [hb, Bool.true_and, id]
               exact ih
    | failR => simp

theorem raise_if_errors_eq (ie : Nat → Bool) (p : Parent) (ws : List Worker) (q : ErrQ) (rs : List Reply)
    (hw : WellIdx ws) (hn : rs.length = ws.length) :
    (countFail rs = 0 →
      VecProtoGen._raise_if_errors (sysM ws.length ie) (rs.map (fun r => r != .failR)) p (ws, q) = (p, (ws, q), .ok ())) ∧
    (0 < countFail rs → q.length < countFail rs →
      (VecProtoGen._raise_if_errors (sysM ws.length ie) (rs.map (fun r => r != .failR)) p (ws, q)).2.2 = .hang) ∧
    (0 < countFail rs → countFail rs ≤ q.length → ∃ i t, (q.take (countFail rs)).getLast? = some (i, t) ∧
      VecProtoGen._raise_if_errors (sysM ws.length ie) (rs.map (fun r => r != .failR)) p (ws, q) =
        ({ p with _state := .DEFAULT }, (closePipes ((q.take (countFail rs)).map (·.1)) ws, q.drop (countFail rs)),
          .raise (.other t))) := by
  have hs := sumBool_countFail rs
  have ha := pyAll_countFail rs
  have hK : (((sysM ws.length ie).num_envs : Int) - (VecProtoGen.pySumBool (rs.map (fun r => r != .failR)) : Int)) =
      (countFail rs : Int) := by
    show ((ws.length : Int) - _) = _
    omega
  refine ⟨fun h0 => ?_, fun hpos hlt => ?_, fun hpos hle => ?_⟩
  · simp [VecProtoGen._raise_if_errors, pyRunUnit, pySeq, pyIf, pyReturn, ha, h0]
  · have hne : countFail rs ≠ 0 := by omega
    obtain ⟨h1, _⟩ := raise_loop ie ws.length (rs.map (fun r => r != .failR)) (countFail rs) (countFail rs) 0 p ws q hw (by simp)
    obtain ⟨s', hs'⟩ := h1 hlt
    simp only [VecProtoGen._raise_if_errors, pyRunUnit, pySeq, pyIf, pyReturn, ha, hne, pyAssign, pySkip, pyForEach, hK,
      decide_false, Bool.false_eq_true, if_false, Int.toNat_natCast, List.range_eq_range']
    have hg : decide ((countFail rs : Int) > 0) = true := by simp; omega
    simp only [hg, Bool.not_true, Bool.false_eq_true, if_false, Int.toNat_natCast]
    dsimp only at hs' ⊢
    rw [hs']
  · have hne : countFail rs ≠ 0 := by omega
    obtain ⟨_, h2⟩ := raise_loop ie ws.length (rs.map (fun r => r != .failR)) (countFail rs) (countFail rs) 0 p ws q hw (by simp)
    obtain ⟨i, t, hl, hgo⟩ := h2 hpos hle
    refine ⟨i, t, hl, ?_⟩
    simp only [VecProtoGen._raise_if_errors, pyRunUnit, pySeq, pyIf, pyReturn, ha, hne, pyAssign, pySkip, pyForEach, hK,
      decide_false, Bool.false_eq_true, if_false, Int.toNat_natCast, List.range_eq_range']
    have hg : decide ((countFail rs : Int) > 0) = true := by simp; omega
    simp only [hg, Bool.not_true, Bool.false_eq_true, if_false, Int.toNat_natCast]
    dsimp only at hgo ⊢
    rw [hgo]


/-! ### the waits -/

theorem decode_loop {L : Type} (ie : Nat → Bool) (n : Nat) (ps : List (Nat × Reply)) (s : St World L) :
    VecProtoGen.pyForEach.go (fun i1 => pyDecode (ρ := Unit) fun _ => (sysM n ie).decode "reset_wait" i1.2) ps s =
      match (ps.map (·.2)).findSome? (decodeErr .reset) with
      | some x => (s, .raise (excOf x))
      | none => (s, .next) := by
  induction ps with
  | nil => rfl
  | cons a ps ih =>
    have hdec : (sysM n ie).decode "reset_wait" a.2 = (decodeErr .reset a.2).map excOf := rfl
    simp only [VecProtoGen.pyForEach.go, pyDecode, hdec, List.map_cons, List.findSome?_cons]
    cases hd : decodeErr .reset a.2 with
    | none => simpa [hd] using ih
    | some x => simp [hd]

theorem enumerate_snd {β : Type} (l : List β) : (VecProtoGen.pyEnumerate l).map (·.2) = l := by
  unfold VecProtoGen.pyEnumerate
  rw [List.map_snd_zip]
  simp

theorem inlineChk_reset : inlineChk .reset = fun _ => none := by unfold inlineChk; simp
theorem inlineChk_call : inlineChk .call = fun _ => none := by unfold inlineChk; simp
theorem inlineChk_setattr : inlineChk .setattr = fun _ => none := by unfold inlineChk; simp
theorem inlineChk_step : inlineChk .step = decodeErr .step := by unfold inlineChk; simp

/-- every worker handed exactly one reply to a receive loop that ran to the end -/
theorem mapUntil_recv_length (chk : Reply → Option Exc) :
    ∀ ws : List Worker, (mapUntil (recvOne chk) ws).2.2.2 = none → (mapUntil (recvOne chk) ws).2.2.1.length = ws.length ∧
      (mapUntil (recvOne chk) ws).1.length = ws.length := by
  intro ws
  induction ws with
  | nil => intro _; simp [mapUntil]
  | cons w ws ih =>
    have hr := recvOne_reply chk w
    unfold mapUntil
    rcases hf : recvOne chk w with ⟨w1, e1, r, o⟩
    rw [hf] at hr
    cases o with
    | some o => simp
    | none =>
      obtain ⟨r', hr'⟩ := hr.1 rfl
      simp only at hr'
      subst hr'
      simp only
      rcases hm : mapUntil (recvOne chk) ws with ⟨ws1, e2, rs, o2⟩
      rw [hm] at ih
      intro h
      simp only at h ih
      have := ih h
      simp [this.1, this.2]

theorem mapUntil_length (f : Worker → StepRes) : ∀ ws : List Worker, (mapUntil f ws).1.length = ws.length := by
  intro ws
  induction ws with
  | nil => simp [mapUntil]
  | cons w ws ih =>
    unfold mapUntil
    rcases f w with ⟨w1, e1, r, o⟩
    cases o with
    | some o => simp
    | none =>
      simp only
      rcases hm : mapUntil f ws with ⟨ws1, e2, rs, o2⟩
      rw [hm] at ih
      simpa using ih


theorem WellIdx.of_map_idx {ws ws' : List Worker} (h : ws'.map Worker.idx = ws.map Worker.idx) (hw : WellIdx ws) :
    WellIdx ws' := by
  have hl : ws'.length = ws.length := by simpa using congrArg List.length h
  intro i hi
  have h1 : (ws'.map Worker.idx)[i]'(by simpa using hi) = (ws.map Worker.idx)[i]'(by simp; omega) := by
    simp only [h]
  simp only [List.getElem_map] at h1
  rw [h1]
  exact hw i (by omega)

theorem WellIdx.mapUntil {ws : List Worker} (hw : WellIdx ws) (f : Worker → StepRes) (hf : Good f) :
    WellIdx (mapUntil f ws).1 :=
  hw.of_map_idx (mapUntil_lstep f hf ws).rel.map_idx

theorem stOf_bne (a b : AState) : (stOf a != stOf b) = decide (a ≠ b) := by
  cases a <;> cases b <;> rfl

theorem gen_reset_wait_eq (s : State) (ie : Nat → Bool) (hf : s.fixed = true) (hw : WellIdx s.ws) (t : Option Rat) :
    Agree (VecProtoGen.reset_wait (sysM s.ws.length ie) t (parOf s) (worldOf s)) (waitOp s .wreset t.isSome) := by
  obtain ⟨fx, f2, ast, cl, ws, q⟩ := s
  simp only at hf hw
  subst hf
  cases cl
  swap
  · simp [VecProtoGen.reset_wait, waitOp, parOf, worldOf, pyRunUnit, pyCall, assert_running_eq, Agree, resOf, excOf]
  by_cases ha : ast = .wreset
  swap
  · have hb : (stOf ast != AsyncState.WAITING_RESET) = true := by
      have := stOf_bne ast .wreset
      rw [show stOf .wreset = AsyncState.WAITING_RESET from rfl] at this
      rw [this]; simpa using ha
    simp [VecProtoGen.reset_wait, waitOp, parOf, worldOf, pyRunUnit, pyCall, assert_running_eq, pySeq, pyIf, pyRaise, hb, ha,
      Agree, resOf, excOf]
  subst ha
  simp only [VecProtoGen.reset_wait, waitOp, parOf, worldOf, pyRunUnit, pyCall, assert_running_eq, poll_eq,
    pySeq, pyIf, pySkip, stOf, bne_self_eq_false, Bool.false_eq_true, if_false, ne_eq, not_true_eq_false,
    cmdOf, waitCore, inlineChk_reset, ↓reduceIte]
  by_cases hto : (t.isSome && !pollAll ws) = true
  · -- the timeout
    simp [VecProtoGen.pyTruthyOptBool, hto, pyAssign, pyRaise, Agree, resOf, excOf, parOf, worldOf, stOf]
  · have hto' : (t.isSome && !pollAll ws) = false := by simpa using hto
    simp only [hto', VecProtoGen.pyTruthyOptBool, Bool.not_false, Bool.not_true, Bool.false_eq_true, if_false, pyAssign,
      sysM_num, sysM_success]
    obtain ⟨l', hloop, hl'⟩ := recv_loop (ρ := Unit)
      (fun (l : VecProtoGen.reset_wait.L Reply) r => { l with c0 := l.c0 ++ [r] }) ie ws.length
      ⟨AsyncState.DEFAULT, false⟩ ws q { a0 := t, c0 := [] } rfl
    rw [hloop]
    have hwi := hw.mapUntil (recvOne (fun _ => none)) (recvOne_good _ rfl)
    have hlen := mapUntil_length (recvOne (fun _ => none)) ws
    have hrl := mapUntil_recv_length (fun _ => none) ws
    rcases hm : mapUntil (recvOne (fun _ => none)) ws with ⟨ws1, e, rs, o⟩
    rw [hm] at hl' hwi hlen hrl
    simp only at hl' hwi hlen hrl
    cases o with
    | some o =>
      cases o with
      | ok => exact absurd (by rw [hm]) (mapUntil_stop_ne _ _ ws (fun w _ => recvOne_ne_ok _ w))
      | err x => simp [ctlOf, Agree, resOf, parOf, worldOf, stOf]
      | hang => simp [ctlOf, Agree, resOf]
    | none =>
      have hl'' := hl' rfl
      subst hl''
      have hc0 : List.foldl (fun (l : VecProtoGen.reset_wait.L Reply) r => { l with c0 := l.c0 ++ [r] })
          ({ a0 := t, c0 := [] } : VecProtoGen.reset_wait.L Reply) rs = { a0 := t, c0 := rs } := by
        have : ∀ (rs acc : List Reply), List.foldl (fun (l : VecProtoGen.reset_wait.L Reply) r => { l with c0 := l.c0 ++ [r] })
            ({ a0 := t, c0 := acc } : VecProtoGen.reset_wait.L Reply) rs = { a0 := t, c0 := acc ++ rs } := by
          intro rs
          induction rs with
          | nil => intro acc; simp
          | cons r rs ih => intro acc; simp [ih]
        simpa using this rs []
      simp only [ctlOf, hc0]
      obtain ⟨r0, r1, r2⟩ := raise_if_errors_eq ie ⟨AsyncState.DEFAULT, false⟩ ws1 (q ++ e) rs hwi ((hrl rfl).1.trans hlen.symm)
      rw [hlen] at r0 r1 r2
      simp only [raiseIfErrors]
      by_cases hcf : countFail rs = 0
      · rw [r0 hcf]
        have hdl := decode_loop (L := VecProtoGen.reset_wait.L Reply) ie ws.length (VecProtoGen.pyEnumerate rs)
        simp only [hcf, if_true, pyForEach, hdl, enumerate_snd]
        cases hfs : List.findSome? (decodeErr Cmd.reset) rs with
        | none => simp [pyReturn, Agree, resOf, parOf, worldOf, stOf]
        | some x => simp [Agree, resOf, parOf, worldOf, stOf]
      · have hpos : 0 < countFail rs := Nat.pos_of_ne_zero hcf
        by_cases hq : (q ++ e).length < countFail rs
        · have := r1 hpos hq
          rcases hr : VecProtoGen._raise_if_errors (sysM ws.length ie) (List.map (fun r => r != Reply.failR) rs)
              ⟨AsyncState.DEFAULT, false⟩ (ws1, q ++ e) with ⟨p', w', res⟩
          rw [hr] at this
          simp only at this
          subst this
          have hq' : q.length + e.length < countFail rs := by simpa using hq
          simp [hcf, hq', Agree, resOf]
        · obtain ⟨i, tt, hlast, hr⟩ := r2 hpos (by omega)
          rw [hr]
          have hq' : ¬ (q.length + e.length < countFail rs) := by simpa using hq
          simp [hcf, hq', hlast, Agree, resOf, excOf, parOf, worldOf, stOf]

theorem gen_call_wait_eq (s : State) (ie : Nat → Bool) (hf : s.fixed = true) (hw : WellIdx s.ws) (t : Option Rat) :
    Agree (VecProtoGen.call_wait (sysM s.ws.length ie) t (parOf s) (worldOf s)) (waitOp s .wcall t.isSome) := by
  obtain ⟨fx, f2, ast, cl, ws, q⟩ := s
  simp only at hf hw
  subst hf
  cases cl
  swap
  · simp [VecProtoGen.call_wait, waitOp, parOf, worldOf, pyRunUnit, pyCall, assert_running_eq, Agree, resOf, excOf]
  by_cases ha : ast = .wcall
  swap
  · have hb : (stOf ast != AsyncState.WAITING_CALL) = true := by
      have := stOf_bne ast .wcall
      rw [show stOf .wcall = AsyncState.WAITING_CALL from rfl] at this
      rw [this]; simpa using ha
    simp [VecProtoGen.call_wait, waitOp, parOf, worldOf, pyRunUnit, pyCall, assert_running_eq, pySeq, pyIf, pyRaise, hb, ha,
      Agree, resOf, excOf]
  subst ha
  simp only [VecProtoGen.call_wait, waitOp, parOf, worldOf, pyRunUnit, pyCall, assert_running_eq, poll_eq,
    pySeq, pyIf, pySkip, stOf, bne_self_eq_false, Bool.false_eq_true, if_false, ne_eq, not_true_eq_false,
    cmdOf, waitCore, inlineChk_call, ↓reduceIte]
  by_cases hto : (t.isSome && !pollAll ws) = true
  · -- the timeout
    simp [VecProtoGen.pyTruthyOptBool, hto, pyAssign, pyRaise, Agree, resOf, excOf, parOf, worldOf, stOf]
  · have hto' : (t.isSome && !pollAll ws) = false := by simpa using hto
    simp only [hto', VecProtoGen.pyTruthyOptBool, Bool.not_false, Bool.not_true, Bool.false_eq_true, if_false, pyAssign,
      sysM_num, sysM_success]
    obtain ⟨l', hloop, hl'⟩ := recv_loop (ρ := Unit)
      (fun (l : VecProtoGen.call_wait.L Reply) r => { l with c0 := l.c0 ++ [r] }) ie ws.length
      ⟨AsyncState.DEFAULT, false⟩ ws q { a0 := t, c0 := [] } rfl
    rw [hloop]
    have hwi := hw.mapUntil (recvOne (fun _ => none)) (recvOne_good _ rfl)
    have hlen := mapUntil_length (recvOne (fun _ => none)) ws
    have hrl := mapUntil_recv_length (fun _ => none) ws
    rcases hm : mapUntil (recvOne (fun _ => none)) ws with ⟨ws1, e, rs, o⟩
    rw [hm] at hl' hwi hlen hrl
    simp only at hl' hwi hlen hrl
    cases o with
    | some o =>
      cases o with
      | ok => exact absurd (by rw [hm]) (mapUntil_stop_ne _ _ ws (fun w _ => recvOne_ne_ok _ w))
      | err x => simp [ctlOf, Agree, resOf, parOf, worldOf, stOf]
      | hang => simp [ctlOf, Agree, resOf]
    | none =>
      have hl'' := hl' rfl
      subst hl''
      have hc0 : List.foldl (fun (l : VecProtoGen.call_wait.L Reply) r => { l with c0 := l.c0 ++ [r] })
          ({ a0 := t, c0 := [] } : VecProtoGen.call_wait.L Reply) rs = { a0 := t, c0 := rs } := by
        have : ∀ (rs acc : List Reply), List.foldl (fun (l : VecProtoGen.call_wait.L Reply) r => { l with c0 := l.c0 ++ [r] })
            ({ a0 := t, c0 := acc } : VecProtoGen.call_wait.L Reply) rs = { a0 := t, c0 := acc ++ rs } := by
          intro rs
          induction rs with
          | nil => intro acc; simp
          | cons r rs ih => intro acc; simp [ih]
        simpa using this rs []
      simp only [ctlOf, hc0]
      obtain ⟨r0, r1, r2⟩ := raise_if_errors_eq ie ⟨AsyncState.DEFAULT, false⟩ ws1 (q ++ e) rs hwi ((hrl rfl).1.trans hlen.symm)
      rw [hlen] at r0 r1 r2
      simp only [raiseIfErrors]
      by_cases hcf : countFail rs = 0
      · rw [r0 hcf]
        simp [hcf, pyReturn, Agree, resOf, parOf, worldOf, stOf]
      · have hpos : 0 < countFail rs := Nat.pos_of_ne_zero hcf
        by_cases hq : (q ++ e).length < countFail rs
        · have := r1 hpos hq
          rcases hr : VecProtoGen._raise_if_errors (sysM ws.length ie) (List.map (fun r => r != Reply.failR) rs)
              ⟨AsyncState.DEFAULT, false⟩ (ws1, q ++ e) with ⟨p', w', res⟩
          rw [hr] at this
          simp only at this
          subst this
          have hq' : q.length + e.length < countFail rs := by simpa using hq
          simp [hcf, hq', Agree, resOf]
        · obtain ⟨i, tt, hlast, hr⟩ := r2 hpos (by omega)
          rw [hr]
          have hq' : ¬ (q.length + e.length < countFail rs) := by simpa using hq
          simp [hcf, hq', hlast, Agree, resOf, excOf, parOf, worldOf, stOf]


/-- `step_wait`'s receive loop: the flag of every reply is appended, the payload of a successful reply is decoded -/
theorem step_recv_loop (ie : Nat → Bool) (n : Nat) (p : Parent) (ws : List Worker) (q : ErrQ)
    (l : VecProtoGen.step_wait.L Reply) (hn : n = ws.length) :
    ∃ l', pyForEach (ρ := Unit) (fun _ => List.range n)
        (fun i0 =>
          pySys (fun s => (sysM n ie).pipe_recv i0) fun r1 =>
          pySeq (pyAssign fun s => { s with loc := { s.loc with v0 := s.loc.v0 ++ [(sysM n ie).success r1] } }) <|
          pyIf (fun s => (sysM n ie).success r1)
            (pySeq (pyDecode fun s => (sysM n ie).decode "step_wait" r1) <|
             pyDecode fun s => (sysM n ie).decode "step_wait" r1)
            (pySkip))
        ⟨p, (ws, q), l⟩ =
      (⟨p, ((mapUntil (recvOne (decodeErr .step)) ws).1, q ++ (mapUntil (recvOne (decodeErr .step)) ws).2.1), l'⟩,
        ctlOf (mapUntil (recvOne (decodeErr .step)) ws).2.2.2) ∧
      ((mapUntil (recvOne (decodeErr .step)) ws).2.2.2 = none →
        l' = (mapUntil (recvOne (decodeErr .step)) ws).2.2.1.foldl (fun l r => { l with v0 := l.v0 ++ [r != .failR] }) l) := by
  let g := recvOne (decodeErr .step)
  let upd : VecProtoGen.step_wait.L Reply → Reply → VecProtoGen.step_wait.L Reply :=
    fun l r => { l with v0 := l.v0 ++ [r != .failR] }
  let f : VecProtoGen.step_wait.L Reply → Worker → Worker × ErrQ × VecProtoGen.step_wait.L Reply × Ctl Unit := fun l wk =>
    ((g wk).1, (g wk).2.1, (recvOne (fun _ => none) wk).2.2.1.toList.foldl upd l, ctlOf (g wk).2.2.2)
  have hb : ∀ i (p : Parent) (ws : List Worker) (q : ErrQ) (l : VecProtoGen.step_wait.L Reply) (wk : Worker), ws[i]? = some wk →
      (fun i0 =>
          pySys (ρ := Unit) (fun s => (sysM n ie).pipe_recv i0) fun r1 =>
          pySeq (pyAssign fun s => { s with loc := { s.loc with v0 := s.loc.v0 ++ [(sysM n ie).success r1] } }) <|
          pyIf (fun s => (sysM n ie).success r1)
            (pySeq (pyDecode fun s => (sysM n ie).decode "step_wait" r1) <|
             pyDecode fun s => (sysM n ie).decode "step_wait" r1)
            (pySkip)) i ⟨p, (ws, q), l⟩ =
        (⟨p, (ws.set i (f l wk).1, q ++ (f l wk).2.1), (f l wk).2.2.1⟩, (f l wk).2.2.2) := by
    intro i p ws q l wk hget
    have hdec : ∀ r, (sysM n ie).decode "step_wait" r = (decodeErr .step r).map excOf := fun _ => rfl
    simp only [pySys, sysM_success, hdec, f, g, upd]
    simp only [sysM, atIdx, hget, recvOne]
    rcases wk.recv with ⟨w1, e1, r⟩
    cases r with
    | got r =>
      cases r with
      | failR => simp [recvRes, ctlOf, pySeq, pyAssign, pyIf, pySkip, decodeErr]
      | okR k =>
        cases hd : decodeErr .step (.okR k) with
        | none => simp [recvRes, ctlOf, pySeq, pyAssign, pyIf, pySkip, pyDecode, hd]
        | some x => simp [recvRes, ctlOf, pySeq, pyAssign, pyIf, pySkip, pyDecode, hd]
    | eof => simp [recvRes, ctlOf]
    | block => simp [recvRes, ctlOf]
    | noPipe => simp [recvRes, ctlOf]
  have hsim := mapUntilL_sim f g upd (recvOne_ne_ok _) (by
    intro l w
    refine ⟨rfl, rfl, rfl, ?_⟩
    intro hnone
    show (recvOne (fun _ => none) w).2.2.1.toList.foldl upd l = (recvOne (decodeErr .step) w).2.2.1.toList.foldl upd l
    have hnone' : (recvOne (decodeErr .step) w).2.2.2 = none := hnone
    unfold recvOne at hnone' ⊢
    rcases hr : w.recv with ⟨w1, e1, r⟩
    rw [hr] at hnone'
    cases r with
    | got r =>
      simp only at hnone' ⊢
      cases hd : decodeErr .step r with
      | none => simp [hd]
      | some x => rw [hd] at hnone'; exact absurd hnone' (by simp)
    | eof => exact absurd hnone' (by simp)
    | block => exact absurd hnone' (by simp)
    | noPipe => exact absurd hnone' (by simp)) ws l
  refine ⟨(mapUntilL f l ws).2.2.1, ?_, ?_⟩
  · rw [forEach_workers _ f hb n p ws q l hn]
    obtain ⟨h1, h2, h3, _⟩ := hsim
    rw [h1, h2, h3]
  · intro ho
    exact hsim.2.2.2 ho


theorem gen_step_wait_eq (s : State) (ie : Nat → Bool) (hf : s.fixed = true) (hw : WellIdx s.ws) (t : Option Rat) :
    Agree (VecProtoGen.step_wait (sysM s.ws.length ie) t (parOf s) (worldOf s)) (waitOp s .wstep t.isSome) := by
  obtain ⟨fx, f2, ast, cl, ws, q⟩ := s
  simp only at hf hw
  subst hf
  cases cl
  swap
  · simp [VecProtoGen.step_wait, waitOp, parOf, worldOf, pyRunUnit, pyCall, assert_running_eq, Agree, resOf, excOf]
  by_cases ha : ast = .wstep
  swap
  · have hb : (stOf ast != AsyncState.WAITING_STEP) = true := by
      have := stOf_bne ast .wstep
      rw [show stOf .wstep = AsyncState.WAITING_STEP from rfl] at this
      rw [this]; simpa using ha
    simp [VecProtoGen.step_wait, waitOp, parOf, worldOf, pyRunUnit, pyCall, assert_running_eq, pySeq, pyIf, pyRaise, hb, ha,
      Agree, resOf, excOf]
  subst ha
  simp only [VecProtoGen.step_wait, waitOp, parOf, worldOf, pyRunUnit, pyCall, assert_running_eq, poll_eq,
    pySeq, pyIf, pySkip, stOf, bne_self_eq_false, Bool.false_eq_true, if_false, ne_eq, not_true_eq_false,
    cmdOf, waitCore, inlineChk_step, ↓reduceIte]
  by_cases hto : (t.isSome && !pollAll ws) = true
  · simp [VecProtoGen.pyTruthyOptBool, hto, pyAssign, pyRaise, Agree, resOf, excOf, parOf, worldOf, stOf]
  · have hto' : (t.isSome && !pollAll ws) = false := by simpa using hto
    simp only [hto', VecProtoGen.pyTruthyOptBool, Bool.not_false, Bool.not_true, Bool.false_eq_true, if_false, pyAssign,
      sysM_num]
    obtain ⟨l', hloop, hl'⟩ := step_recv_loop ie ws.length ⟨AsyncState.DEFAULT, false⟩ ws q { a0 := t, v0 := [] } rfl
    rw [hloop]
    have hwi := hw.mapUntil (recvOne (decodeErr .step)) (recvOne_good _ (decodeErr_fail .step))
    have hlen := mapUntil_length (recvOne (decodeErr .step)) ws
    have hrl := mapUntil_recv_length (decodeErr .step) ws
    rcases hm : mapUntil (recvOne (decodeErr .step)) ws with ⟨ws1, e, rs, o⟩
    rw [hm] at hl' hwi hlen hrl
    simp only at hl' hwi hlen hrl
    cases o with
    | some o =>
      cases o with
      | ok => exact absurd (by rw [hm]) (mapUntil_stop_ne _ _ ws (fun w _ => recvOne_ne_ok _ w))
      | err x => simp [ctlOf, Agree, resOf, parOf, worldOf, stOf]
      | hang => simp [ctlOf, Agree, resOf]
    | none =>
      have hl'' := hl' rfl
      subst hl''
      have hc0 : List.foldl (fun (l : VecProtoGen.step_wait.L Reply) r => { l with v0 := l.v0 ++ [r != .failR] })
          ({ a0 := t, v0 := [] } : VecProtoGen.step_wait.L Reply) rs = { a0 := t, v0 := rs.map (fun r => r != .failR) } := by
        have : ∀ (rs : List Reply) (acc : List Bool),
            List.foldl (fun (l : VecProtoGen.step_wait.L Reply) r => { l with v0 := l.v0 ++ [r != .failR] })
              ({ a0 := t, v0 := acc } : VecProtoGen.step_wait.L Reply) rs = { a0 := t, v0 := acc ++ rs.map (fun r => r != .failR) } := by
          intro rs
          induction rs with
          | nil => intro acc; simp
          | cons r rs ih => intro acc; simp [ih]
        simpa using this rs []
      simp only [ctlOf, hc0]
      obtain ⟨r0, r1, r2⟩ := raise_if_errors_eq ie ⟨AsyncState.DEFAULT, false⟩ ws1 (q ++ e) rs hwi ((hrl rfl).1.trans hlen.symm)
      rw [hlen] at r0 r1 r2
      simp only [raiseIfErrors]
      by_cases hcf : countFail rs = 0
      · rw [r0 hcf]
        simp [hcf, pyReturn, Agree, resOf, parOf, worldOf, stOf]
      · have hpos : 0 < countFail rs := Nat.pos_of_ne_zero hcf
        by_cases hq : (q ++ e).length < countFail rs
        · have := r1 hpos hq
          rcases hr : VecProtoGen._raise_if_errors (sysM ws.length ie) (List.map (fun r => r != Reply.failR) rs)
              ⟨AsyncState.DEFAULT, false⟩ (ws1, q ++ e) with ⟨p', w', res⟩
          rw [hr] at this
          simp only at this
          subst this
          have hq' : q.length + e.length < countFail rs := by simpa using hq
          simp [hcf, hq', Agree, resOf]
        · obtain ⟨i, tt, hlast, hr⟩ := r2 hpos (by omega)
          rw [hr]
          have hq' : ¬ (q.length + e.length < countFail rs) := by simpa using hq
          simp [hcf, hq', hlast, Agree, resOf, excOf, parOf, worldOf, stOf]


theorem gen_set_attr_eq (s : State) (ie : Nat → Bool) (hf : s.fixed = true) (hw : WellIdx s.ws) :
    Agree (VecProtoGen.set_attr (sysM s.ws.length ie) (parOf s) (worldOf s)) (setAttrOp s) := by
  obtain ⟨fx, f2, ast, cl, ws, q⟩ := s
  simp only at hf hw
  subst hf
  cases cl
  swap
  · simp [VecProtoGen.set_attr, setAttrOp, parOf, worldOf, pyRunUnit, pyCall, assert_running_eq, Agree, resOf, excOf]
  by_cases ha : ast = .default
  swap
  · have hb : (stOf ast != AsyncState.DEFAULT) = true := by
      have := stOf_bne ast .default
      rw [show stOf .default = AsyncState.DEFAULT from rfl] at this
      rw [this]; simpa using ha
    simp [VecProtoGen.set_attr, setAttrOp, parOf, worldOf, pyRunUnit, pyCall, assert_running_eq, pySeq, pyIf, pyRaise, hb, ha,
      Agree, resOf, excOf]
  subst ha
  simp only [VecProtoGen.set_attr, setAttrOp, parOf, worldOf, pyRunUnit, pyCall, assert_running_eq,
    pySeq, pyIf, pySkip, stOf, bne_self_eq_false, Bool.false_eq_true, if_false, ne_eq, not_true_eq_false,
    cmdOf, waitCore, inlineChk_setattr, ↓reduceIte, sysM_num, sysM_success, Bool.and_false, Bool.false_and, pyAssign]
  have hsl := send_loop (ρ := Unit) "_setattr" .setattr rfl ie ws.length ⟨.DEFAULT, false⟩ ws q
    (VecProtoGen.set_attr.L.mk (R := Reply) [] []) rfl
  rw [hsl]
  have hwi0 := hw.mapUntil (sendOne .setattr) (sendOne_good _)
  have hlen0 := mapUntil_length (sendOne .setattr) ws
  rcases hm0 : mapUntil (sendOne .setattr) ws with ⟨ws0, e0, rs0, o0⟩
  rw [hm0] at hwi0 hlen0
  simp only at hwi0 hlen0
  cases o0 with
  | some o =>
    cases o with
    | ok => exact absurd (by rw [hm0]) (mapUntil_stop_ne _ _ ws (fun w _ => sendOne_ne_ok _ w))
    | err x => simp [ctlOf, Agree, resOf, parOf, worldOf, stOf]
    | hang => simp [ctlOf, Agree, resOf]
  | none =>
    simp only [ctlOf]
    obtain ⟨l', hloop, hl'⟩ := recv_loop (ρ := Unit)
      (fun (l : VecProtoGen.set_attr.L Reply) r => { l with c0 := l.c0 ++ [r] }) ie ws.length
      ⟨AsyncState.DEFAULT, false⟩ ws0 (q ++ e0) { c0 := [], v0 := [] } hlen0.symm
    rw [hloop]
    have hwi := hwi0.mapUntil (recvOne (fun _ => none)) (recvOne_good _ rfl)
    have hlen := mapUntil_length (recvOne (fun _ => none)) ws0
    have hrl := mapUntil_recv_length (fun _ => none) ws0
    rcases hm : mapUntil (recvOne (fun _ => none)) ws0 with ⟨ws1, e, rs, o⟩
    rw [hm] at hl' hwi hlen hrl
    simp only at hl' hwi hlen hrl
    cases o with
    | some o =>
      cases o with
      | ok => exact absurd (by rw [hm]) (mapUntil_stop_ne _ _ ws0 (fun w _ => recvOne_ne_ok _ w))
      | err x => simp [ctlOf, Agree, resOf, parOf, worldOf, stOf]
      | hang => simp [ctlOf, Agree, resOf]
    | none =>
      have hl'' := hl' rfl
      subst hl''
      have hc0 : List.foldl (fun (l : VecProtoGen.set_attr.L Reply) r => { l with c0 := l.c0 ++ [r] })
          ({ c0 := [], v0 := [] } : VecProtoGen.set_attr.L Reply) rs = { c0 := rs, v0 := [] } := by
        have : ∀ (rs acc : List Reply), List.foldl (fun (l : VecProtoGen.set_attr.L Reply) r => { l with c0 := l.c0 ++ [r] })
            ({ c0 := acc, v0 := [] } : VecProtoGen.set_attr.L Reply) rs = { c0 := acc ++ rs, v0 := [] } := by
          intro rs
          induction rs with
          | nil => intro acc; simp
          | cons r rs ih => intro acc; simp [ih]
        simpa using this rs []
      simp only [ctlOf, hc0]
      obtain ⟨r0, r1, r2⟩ := raise_if_errors_eq ie ⟨AsyncState.DEFAULT, false⟩ ws1 (q ++ e0 ++ e) rs hwi
        ((hrl rfl).1.trans hlen.symm)
      rw [hlen, hlen0] at r0 r1 r2
      simp only [raiseIfErrors]
      by_cases hcf : countFail rs = 0
      · rw [r0 hcf]
        simp [hcf, Agree, resOf, parOf, worldOf, stOf]
      · have hpos : 0 < countFail rs := Nat.pos_of_ne_zero hcf
        by_cases hq : (q ++ e0 ++ e).length < countFail rs
        · have := r1 hpos hq
          rcases hr : VecProtoGen._raise_if_errors (sysM ws.length ie) (List.map (fun r => r != Reply.failR) rs)
              ⟨AsyncState.DEFAULT, false⟩ (ws1, q ++ e0 ++ e) with ⟨p', w', res⟩
          rw [hr] at this
          simp only at this
          subst this
          have hq' : q.length + (e0.length + e.length) < countFail rs := by simpa [Nat.add_assoc] using hq
          simp [hcf, hq', Agree, resOf]
        · obtain ⟨i, tt, hlast, hr⟩ := r2 hpos (by omega)
          rw [hr]
          have hq' : ¬ (q.length + (e0.length + e.length) < countFail rs) := by simpa [Nat.add_assoc] using hq
          rw [List.append_assoc] at hlast
          simp [hcf, hq', hlast, Agree, resOf, excOf, parOf, worldOf, stOf]


/-! ### the synchronous wrappers -/

theorem asyncOp_keeps (s : State) (c : Cmd) (a : AState) (hw : WellIdx s.ws) :
    (asyncOp s c a).1.fixed = s.fixed ∧ (asyncOp s c a).1.fix2 = s.fix2 ∧ (asyncOp s c a).1.ws.length = s.ws.length ∧
      WellIdx (asyncOp s c a).1.ws := by
  unfold asyncOp
  split
  · exact ⟨rfl, rfl, rfl, hw⟩
  · split
    · exact ⟨rfl, rfl, rfl, hw⟩
    · have h1 := mapUntil_length (sendOne c) s.ws
      have h2 := hw.mapUntil (sendOne c) (sendOne_good c)
      rcases hm : mapUntil (sendOne c) s.ws with ⟨ws1, e, rs, o⟩
      rw [hm] at h1 h2
      cases o <;> exact ⟨rfl, rfl, h1, h2⟩

/-- one translated method after another (`self.a(); return self.b()`) -/
def seq2 {W : Type} (gA gW : Parent → W → Parent × W × Res Unit) (p : Parent) (w : W) : Parent × W × Res Unit :=
  match gA p w with
  | (p1, w1, .ok _) =>
    (match gW p1 w1 with
      | (p2, w2, .ok _) => (p2, w2, .ok ())
      | (p2, w2, .raise e) => (p2, w2, .raise e)
      | (p2, w2, .hang) => (p2, w2, .hang))
  | (p1, w1, .raise e) => (p1, w1, .raise e)
  | (p1, w1, .hang) => (p1, w1, .hang)

/-- `X()` = `X_async(); return X_wait()` on both sides -/
theorem sync_agree (s : State) (c : Cmd) (a : AState)
    (gA gW : Parent → World → Parent × World × Res Unit)
    (hA : Agree (gA (parOf s) (worldOf s)) (asyncOp s c a))
    (hW : Agree (gW (parOf (asyncOp s c a).1) (worldOf (asyncOp s c a).1)) (waitOp (asyncOp s c a).1 a false)) :
    Agree
      (seq2 gA gW (parOf s) (worldOf s))
      (syncOp s c a) := by
  unfold syncOp seq2
  rcases hg : gA (parOf s) (worldOf s) with ⟨p1, w1, r1⟩
  rcases hm : asyncOp s c a with ⟨s1, o1⟩
  rw [hg, hm] at hA
  rw [hm] at hW
  obtain ⟨hA1, hA2⟩ := hA
  simp only at hA1 hA2 hW
  cases o1 with
  | ok =>
    obtain ⟨e1, e2⟩ := hA2 (by simp)
    subst e1 e2
    simp only [resOf] at hA1
    subst hA1
    simp only
    rcases hgw : gW (parOf s1) (worldOf s1) with ⟨p2, w2, r2⟩
    rcases hmw : waitOp s1 a false with ⟨s2, o2⟩
    rw [hgw, hmw] at hW
    obtain ⟨hW1, hW2⟩ := hW
    simp only at hW1 hW2
    cases o2 <;> simp only [resOf] at hW1 <;> subst hW1 <;> exact ⟨rfl, hW2⟩
  | err x =>
    simp only [resOf] at hA1
    subst hA1
    exact ⟨rfl, hA2⟩
  | hang =>
    simp only [resOf] at hA1
    subst hA1
    exact ⟨rfl, fun h => absurd rfl h⟩

theorem run_call2 {W L : Type} (gA gW : Parent → W → Parent × W × Res Unit) (l : L) (p : Parent) (w : W) :
    pyRunUnit (pyCall (fun _ => gA) fun _ => pyCall (fun _ => gW) fun _ => pyReturn fun _ => ()) ⟨p, w, l⟩ =
      seq2 gA gW p w := by
  simp only [pyRunUnit, pyCall, pyReturn, seq2]
  rcases gA p w with ⟨p1, w1, r1⟩
  cases r1 with
  | ok a =>
    simp only
    rcases gW p1 w1 with ⟨p2, w2, r2⟩
    cases r2 <;> rfl
  | raise e => rfl
  | hang => rfl

theorem gen_reset_eq (s : State) (ie : Nat → Bool) (hf : s.fixed = true) (hw : WellIdx s.ws) :
    Agree (VecProtoGen.reset (sysM s.ws.length ie) (parOf s) (worldOf s)) (syncOp s .reset .wreset) := by
  obtain ⟨k1, _, k3, k4⟩ := asyncOp_keeps s .reset .wreset hw
  have hW := gen_reset_wait_eq (asyncOp s .reset .wreset).1 ie (k1.trans hf) k4 none
  rw [k3] at hW
  have := sync_agree s .reset .wreset _ _ (gen_reset_async_eq s ie) hW
  unfold VecProtoGen.reset
  rw [run_call2]
  exact this


theorem gen_step_eq_sync (s : State) (ie : Nat → Bool) (hf : s.fixed = true) (hw : WellIdx s.ws) :
    Agree (VecProtoGen.step (sysM s.ws.length ie) (parOf s) (worldOf s)) (syncOp s .step .wstep) := by
  obtain ⟨k1, _, k3, k4⟩ := asyncOp_keeps s .step .wstep hw
  have hW := gen_step_wait_eq (asyncOp s .step .wstep).1 ie (k1.trans hf) k4 none
  rw [k3] at hW
  have := sync_agree s .step .wstep _ _ (gen_step_async_eq s ie) hW
  unfold VecProtoGen.step
  rw [run_call2]
  exact this

theorem gen_call_eq (s : State) (ie : Nat → Bool) (hf : s.fixed = true) (hw : WellIdx s.ws) :
    Agree (VecProtoGen.call (sysM s.ws.length ie) (parOf s) (worldOf s)) (syncOp s .call .wcall) := by
  obtain ⟨k1, _, k3, k4⟩ := asyncOp_keeps s .call .wcall hw
  have hW := gen_call_wait_eq (asyncOp s .call .wcall).1 ie (k1.trans hf) k4 none
  rw [k3] at hW
  have := sync_agree s .call .wcall _ _ (gen_call_async_eq s ie) hW
  unfold VecProtoGen.call
  rw [run_call2]
  exact this

theorem run_call1 {W L : Type} (gA : Parent → W → Parent × W × Res Unit) (l : L) (p : Parent) (w : W) :
    pyRunUnit (pyCall (fun _ => gA) fun _ => pyReturn fun _ => ()) ⟨p, w, l⟩ = gA p w := by
  simp only [pyRunUnit, pyCall, pyReturn]
  rcases gA p w with ⟨p1, w1, r1⟩
  cases r1 <;> rfl

/-- `get_attr(name)` and `render()` are `call(…)` -/
theorem gen_get_attr_is_call {W R Q : Type} (S : Sys W R Q) (p : Parent) (w : W) :
    VecProtoGen.get_attr S p w = VecProtoGen.call S p w := by
  unfold VecProtoGen.get_attr
  rw [run_call1]

theorem gen_render_is_call {W R Q : Type} (S : Sys W R Q) (p : Parent) (w : W) :
    VecProtoGen.render S p w = VecProtoGen.call S p w := by
  unfold VecProtoGen.render
  rw [run_call1]


/-! ### `close_extras` / `close` -/

theorem mapUntilL_map {L ρ : Type} (f : L → Worker → Worker × ErrQ × L × Ctl ρ) (h : Worker → Worker)
    (hf : ∀ l w, f l w = (h w, [], l, .next)) :
    ∀ (ws : List Worker) (l : L), mapUntilL f l ws = (ws.map h, [], l, .next) := by
  intro ws
  induction ws with
  | nil => intro l; rfl
  | cons w ws ih => intro l; simp [mapUntilL, hf, ih]

def killW (w : Worker) : Worker := { w with st := .exited }
def closeW (w : Worker) : Worker := { w with pipeOpen := false }

theorem set_self {α : Type} (l : List α) (i : Nat) (a : α) (h : l[i]? = some a) : l.set i a = l := by
  apply List.ext_getElem?
  intro j
  by_cases hj : i = j
  · subst hj; rw [List.getElem?_set_self']; simp [h]
  · rw [List.getElem?_set_ne hj]

/-- `for process in self.processes: if process.is_alive(): process.terminate()` -/
theorem terminate_loop {L : Type} (ie : Nat → Bool) (n : Nat) (p : Parent) (ws : List Worker) (q : ErrQ) (l : L)
    (hn : n = ws.length) :
    pyForEach (ρ := Unit) (fun _ => List.range n)
        (fun i2 => pyIf (fun s => (sysM n ie).proc_is_alive i2 s.sys)
          (pySys (fun s => (sysM n ie).proc_terminate i2) fun _ => pySkip) (pySkip)) ⟨p, (ws, q), l⟩ =
      (⟨p, (ws.map killW, q), l⟩, .next) := by
  let f : L → Worker → Worker × ErrQ × L × Ctl Unit := fun l wk => (killW wk, [], l, .next)
  rw [forEach_workers _ f ?_ n p ws q l hn, mapUntilL_map f killW (fun _ _ => rfl)]
  · simp
  · intro i p ws q l wk hget
    simp only [pyIf, pySys, pySkip, sysM, hget, modAt, f, List.append_nil]
    by_cases hs : wk.st = .exited
    · have : killW wk = wk := by cases wk; simp_all [killW]
      simp [hs, this, set_self _ _ _ hget]
    · simp [hs, killW]

/-- `for pipe in self.parent_pipes: if pipe is not None: pipe.close()` -/
theorem closepipes_loop {L : Type} (ie : Nat → Bool) (n : Nat) (p : Parent) (ws : List Worker) (q : ErrQ) (l : L)
    (hn : n = ws.length) :
    pyForEach (ρ := Unit) (fun _ => List.range n)
        (fun i3 => pyIf (fun s => !((sysM n ie).pipe_is_none i3 s.sys))
          (pySys (fun s => (sysM n ie).pipe_close i3) fun _ => pySkip) (pySkip)) ⟨p, (ws, q), l⟩ =
      (⟨p, (ws.map closeW, q), l⟩, .next) := by
  let f : L → Worker → Worker × ErrQ × L × Ctl Unit := fun l wk => (closeW wk, [], l, .next)
  rw [forEach_workers _ f ?_ n p ws q l hn, mapUntilL_map f closeW (fun _ _ => rfl)]
  · simp
  · intro i p ws q l wk hget
    simp only [pyIf, pySys, pySkip, sysM, hget, modAt, f, List.append_nil]
    by_cases hs : wk.pipeOpen = true
    · simp [hs, closeW]
    · have hs' : wk.pipeOpen = false := by simpa using hs
      have : closeW wk = wk := by cases wk; simp_all [closeW]
      simp [hs', this, set_self _ _ _ hget]


theorem drain_exited (n : Nat) (w : Worker) (h : w.st = .exited) : Worker.drain n w = (w, []) := by
  cases n with
  | zero => rfl
  | succ n => simp [Worker.drain, h]

theorem joinProc_exited (w : Worker) (h : w.st = .exited) : joinProc w = (w, [], none, none) := by
  simp [joinProc, drain_exited _ w h, h]

theorem joinProc_ne_ok (w : Worker) : (joinProc w).2.2.2 ≠ some .ok := by
  unfold joinProc
  simp only
  split <;> simp

abbrev CL := VecProtoGen.close_extras.L Reply

/-- the body of the last loop of `close_extras`, on one worker -/
def joinF (l : CL) (wk : Worker) : Worker × ErrQ × CL × Ctl Unit :=
  match l.v0 with
  | some _ => (killW wk, [], l, .next)
  | none => ((joinProc wk).1, (joinProc wk).2.1, l, ctlOf (joinProc wk).2.2.2)

theorem join_loop (ie : Nat → Bool) (n : Nat) (p : Parent) (ws : List Worker) (q : ErrQ) (l : CL) (hn : n = ws.length) :
    pyForEach (ρ := Unit) (fun _ => List.range n)
        (fun i4 =>
          pySeq (pyIfNone (fun s => s.loc.v0) (pySkip)
            (fun n2 =>
              pySys (fun s => (sysM n ie).proc_join i4 (some (VecProtoGen.pyMax (n2 - (sysM n ie).now s.sys) (0 : Rat)))) fun _ =>
              pyIf (fun s => (sysM n ie).proc_is_alive i4 s.sys)
                (pySys (fun s => (sysM n ie).proc_terminate i4) fun _ => pySkip) (pySkip))) <|
          pySys (fun s => (sysM n ie).proc_join i4 none) fun _ => pySkip) ⟨p, (ws, q), l⟩ =
      (⟨p, ((mapUntilL joinF l ws).1, q ++ (mapUntilL joinF l ws).2.1), (mapUntilL joinF l ws).2.2.1⟩,
        (mapUntilL joinF l ws).2.2.2) := by
  rw [forEach_workers _ joinF ?_ n p ws q l hn]
  intro i p ws q l wk hget
  have hi : i < ws.length := (List.getElem?_eq_some_iff.mp hget).1
  cases hv0 : l.v0 with
  | none =>
    simp only [pySeq, pyIfNone, hv0, pySkip, pySys, sysM, atIdx, hget, joinF]
    have hne := joinProc_ne_ok wk
    rcases hj : joinProc wk with ⟨w1, e1, r, o⟩
    rw [hj] at hne
    cases o with
    | none => simp [unitRes, ctlOf]
    | some o =>
      cases o with
      | ok => exact absurd rfl hne
      | err x => simp [unitRes, ctlOf]
      | hang => simp [unitRes, ctlOf]
  | some t' =>
    simp only [pySeq, pyIfNone, hv0, pySkip, pySys, pyIf, sysM, hget, modAt, joinF, List.append_nil, atIdx]
    by_cases hs : wk.st = .exited
    · have hk : killW wk = wk := by cases wk; simp_all [killW]
      simp [hs, hk, hget, joinProc_exited wk hs, unitRes, set_self _ _ _ hget]
    · have hk : (killW wk).st = .exited := rfl
      have hg2 : (ws.set i (killW wk))[i]? = some (killW wk) := by rw [List.getElem?_set_self']; simp [hi]
      have hk' : ({ wk with st := WSt.exited } : Worker) = killW wk := rfl
      simp [hs, hk', hg2, joinProc_exited (killW wk) hk, unitRes]

theorem joinF_timed (l : CL) (t : Rat) (hv : l.v0 = some t) (ws : List Worker) :
    mapUntilL joinF l ws = (ws.map killW, [], l, .next) :=
  mapUntilL_map' ws l hv
where
  mapUntilL_map' : ∀ (ws : List Worker) (l : CL), l.v0 = some t → mapUntilL joinF l ws = (ws.map killW, [], l, .next) := by
    intro ws
    induction ws with
    | nil => intro l _; rfl
    | cons w ws ih => intro l hl; simp [mapUntilL, joinF, hl, ih l hl]

theorem joinF_untimed (l : CL) (hv : l.v0 = none) (ws : List Worker) :
    (mapUntilL joinF l ws).1 = (mapUntil joinProc ws).1 ∧ (mapUntilL joinF l ws).2.1 = (mapUntil joinProc ws).2.1 ∧
      (mapUntilL joinF l ws).2.2.2 = ctlOf (mapUntil joinProc ws).2.2.2 ∧ (mapUntilL joinF l ws).2.2.1 = l := by
  have hloc := mapUntilL_loc joinF (by intro l w; unfold joinF; split <;> rfl) ws l
  have hsim : ∀ (ws : List Worker), (mapUntilL joinF l ws).1 = (mapUntil joinProc ws).1 ∧
      (mapUntilL joinF l ws).2.1 = (mapUntil joinProc ws).2.1 ∧
      (mapUntilL joinF l ws).2.2.2 = ctlOf (mapUntil joinProc ws).2.2.2 := by
    intro ws
    induction ws with
    | nil => simp [mapUntilL, mapUntil, ctlOf]
    | cons w ws ih =>
      have hne := joinProc_ne_ok w
      have hjf : joinF l w = ((joinProc w).1, (joinProc w).2.1, l, ctlOf (joinProc w).2.2.2) := by simp [joinF, hv]
      rcases hj : joinProc w with ⟨w1, e1, r, o⟩
      rw [hj] at hne hjf
      simp only at hjf
      cases o with
      | none =>
        simp only [ctlOf] at hjf
        obtain ⟨i1, i2, i3⟩ := ih
        rcases hm : mapUntil joinProc ws with ⟨ws1, e2, rs, o2⟩
        rcases hml : mapUntilL joinF l ws with ⟨ws1', e2', l2, c2⟩
        rw [hm, hml] at i1 i2 i3
        simp only at i1 i2 i3
        subst i1 i2 i3
        simp [mapUntilL, mapUntil, hjf, hj, hml, hm]
      | some o =>
        cases o with
        | ok => exact absurd rfl hne
        | err x => simp only [ctlOf] at hjf; simp [mapUntilL, mapUntil, hjf, hj, ctlOf]
        | hang => simp only [ctlOf] at hjf; simp [mapUntilL, mapUntil, hjf, hj, ctlOf]
  exact ⟨(hsim ws).1, (hsim ws).2.1, (hsim ws).2.2, hloc⟩


/-! closing the parent's end of a pipe does not change what the worker does -/

theorem bump_closeW (w : Worker) (c : Cmd) : (closeW w).bump c = closeW (w.bump c) := by cases c <;> rfl
theorem count_closeW (w : Worker) (c : Cmd) : (closeW w).count c = w.count c := by cases c <;> rfl

theorem run_closeW (w : Worker) (c : Cmd) : (closeW w).run c = (closeW (w.run c).1, (w.run c).2) := by
  cases c
  case close => rfl
  all_goals
    simp only [Worker.run, bump_closeW, count_closeW]
    rw [show (closeW w).faults = w.faults from rfl]
    generalize lookupFault w.faults _ _ = lf
    cases lf with
    | none => rfl
    | some k => cases k <;> rfl

theorem runList_closeW : ∀ (cs : List Cmd) (w : Worker),
    (closeW w).runList cs = (closeW (w.runList cs).1, (w.runList cs).2)
  | [], w => rfl
  | c :: cs, w => by
    unfold Worker.runList
    rw [show (closeW w).st = w.st from rfl]
    cases hs : w.st with
    | alive =>
      simp only [run_closeW]
      rcases hr : w.run c with ⟨w1, e1⟩
      simp only
      rw [show (closeW w1).st = w1.st from rfl]
      cases hs1 : w1.st with
      | alive =>
        simp only [runList_closeW cs w1]
      | hung => simp [closeW, hs1]
      | exited => simp
    | hung => simp
    | exited => simp

theorem wake_closeW (w : Worker) : (closeW w).wake = (closeW w.wake.1, w.wake.2) := by
  unfold Worker.wake
  rw [show (closeW w).backlog = w.backlog from rfl]
  cases hb : w.backlog with
  | nil => simp [closeW]
  | cons c rest =>
    simp only
    exact runList_closeW rest
      ({ w with st := (if c = .close then WSt.exited else WSt.alive), inbox := w.inbox ++ [.okR c], backlog := [] } : Worker)

theorem drain_closeW : ∀ (n : Nat) (w : Worker), Worker.drain n (closeW w) = (closeW (Worker.drain n w).1, (Worker.drain n w).2)
  | 0, w => rfl
  | n + 1, w => by
    unfold Worker.drain
    rw [show (closeW w).st = w.st from rfl, show (closeW w).forever = w.forever from rfl]
    cases hs : w.st with
    | hung =>
      simp only
      by_cases hf : w.forever = true
      · simp [hf]
      · simp only [hf, if_false, wake_closeW]
        rcases hw : w.wake with ⟨w1, e1⟩
        simp only [drain_closeW n w1]
        simp
    | alive => simp
    | exited => simp


theorem joinProc_closeW (w : Worker) :
    joinProc (closeW w) = (closeW (joinProc w).1, (joinProc w).2.1, none, (joinProc w).2.2.2) := by
  unfold joinProc
  rw [show (closeW w).backlog = w.backlog from rfl, drain_closeW]
  simp only
  rw [show (closeW (Worker.drain (w.backlog.length + 1) w).1).st = (Worker.drain (w.backlog.length + 1) w).1.st from rfl]
  split <;> rfl

theorem joinOne_joinProc (w : Worker) :
    (joinOne w).2.1 = (joinProc w).2.1 ∧ (joinOne w).2.2.2 = (joinProc w).2.2.2 ∧
      ((joinProc w).2.2.2 = none → (joinOne w).1 = closeW (joinProc w).1) := by
  unfold joinOne joinProc
  simp only
  rcases Worker.drain (w.backlog.length + 1) w with ⟨w1, e1⟩
  simp only
  split
  · exact ⟨rfl, rfl, fun _ => rfl⟩
  · exact ⟨rfl, rfl, fun h => by simp at h⟩

/-- closing all pipes first and joining afterwards (the code) is joining and closing worker by worker (the model),
    unless a join never returns -/
theorem join_close_rel : ∀ ws : List Worker,
    (mapUntil joinProc (ws.map closeW)).2.1 = (mapUntil joinOne ws).2.1 ∧
    (mapUntil joinProc (ws.map closeW)).2.2.2 = (mapUntil joinOne ws).2.2.2 ∧
    ((mapUntil joinOne ws).2.2.2 = none → (mapUntil joinProc (ws.map closeW)).1 = (mapUntil joinOne ws).1) := by
  intro ws
  induction ws with
  | nil => simp [mapUntil]
  | cons w ws ih =>
    obtain ⟨j1, j2, j3⟩ := joinOne_joinProc w
    have jc := joinProc_closeW w
    simp only [List.map_cons, mapUntil]
    rcases hjo : joinOne w with ⟨a1, a2, a3, a4⟩
    rcases hjp : joinProc w with ⟨b1, b2, b3, b4⟩
    rw [hjo, hjp] at j1 j2 j3
    rw [hjp] at jc
    simp only at j1 j2 j3 jc
    subst j1 j2
    rw [jc]
    cases a4 with
    | some o => simp
    | none =>
      have := j3 rfl
      subst this
      simp only
      obtain ⟨i1, i2, i3⟩ := ih
      rcases hm1 : mapUntil joinProc (ws.map closeW) with ⟨x1, x2, x3, x4⟩
      rcases hm2 : mapUntil joinOne ws with ⟨y1, y2, y3, y4⟩
      rw [hm1, hm2] at i1 i2 i3
      simp only at i1 i2 i3
      subst i1 i2
      simp only [true_and]
      intro h
      rw [i3 h]


theorem sendCloseOne_ne_ok (w : Worker) : (sendCloseOne w).2.2.2 ≠ some .ok := by
  unfold sendCloseOne
  split
  · simp
  · exact sendOne_ne_ok .close w

/-- the first loop of the shutdown handshake: `close` to every open pipe -/
theorem sendclose_loop {L : Type} (ie : Nat → Bool) (n : Nat) (p : Parent) (ws : List Worker) (q : ErrQ) (l : L)
    (hn : n = ws.length) :
    pyForEach (ρ := Unit) (fun _ => List.range n)
        (fun i0 => pyIf (fun s => ((!((sysM n ie).pipe_is_none i0 s.sys)) && (!((sysM n ie).pipe_closed i0 s.sys))))
          (pySys (fun s => (sysM n ie).pipe_send i0 "close") fun _ => pySkip) (pySkip)) ⟨p, (ws, q), l⟩ =
      (⟨p, ((mapUntil sendCloseOne ws).1, q ++ (mapUntil sendCloseOne ws).2.1), l⟩, ctlOf (mapUntil sendCloseOne ws).2.2.2) := by
  let f : L → Worker → Worker × ErrQ × L × Ctl Unit := fun l wk =>
    ((sendCloseOne wk).1, (sendCloseOne wk).2.1, l, ctlOf (sendCloseOne wk).2.2.2)
  rw [forEach_workers _ f ?_ n p ws q l hn]
  · obtain ⟨h1, h2, h3, _⟩ := mapUntilL_sim f sendCloseOne (fun l _ => l) sendCloseOne_ne_ok (by
      intro l w
      refine ⟨rfl, rfl, rfl, ?_⟩
      intro _
      cases (sendCloseOne w).2.2.1 <;> rfl) ws l
    rw [h1, h2, h3, mapUntilL_loc f (fun _ _ => rfl) ws l]
  · intro i p ws q l wk hget
    simp only [pyIf, pySys, pySkip, sysM, hget, f, sendCloseOne, cmdOfString, atIdx]
    by_cases hp : wk.pipeOpen = true
    · have hne := sendOne_ne_ok .close wk
      simp only [hp, Bool.not_true, Bool.not_false, Bool.and_self, if_true, Bool.true_eq_false, if_false]
      rcases hs : sendOne .close wk with ⟨w1, e1, r, o⟩
      rw [hs] at hne
      cases o with
      | none => simp [unitRes, ctlOf]
      | some o =>
        cases o with
        | ok => exact absurd rfl hne
        | err x => simp [unitRes, ctlOf]
        | hang => simp [unitRes, ctlOf]
    · have hp' : wk.pipeOpen = false := by simpa using hp
      simp [hp', ctlOf, set_self _ _ _ hget]

/-- the body of the second loop of the handshake, on one worker -/
def recvF (l : CL) (wk : Worker) : Worker × ErrQ × CL × Ctl Unit :=
  if wk.pipeOpen = false then (wk, [], l, .next)
  else if l.v0.isSome && !(!wk.inbox.isEmpty || wk.st = .exited) then (wk, [], { l with a1 := true }, .brk)
  else ((recvOne (fun _ => none) wk).1, (recvOne (fun _ => none) wk).2.1, l, ctlOf (recvOne (fun _ => none) wk).2.2.2)

theorem recvclose_loop (ie : Nat → Bool) (n : Nat) (p : Parent) (ws : List Worker) (q : ErrQ) (l : CL) (hn : n = ws.length) :
    pyForEach (ρ := Unit) (fun _ => List.range n)
        (fun i1 =>
          pyIf (fun s => ((!((sysM n ie).pipe_is_none i1 s.sys)) && (!((sysM n ie).pipe_closed i1 s.sys))))
            (pySeq (pyIf (fun s => (match s.loc.v0 with | none => false | some n1 => !((sysM n ie).pipe_poll i1 (VecProtoGen.pyMax (n1 - (sysM n ie).now s.sys) (0 : Rat)) s.sys)))
                      (pySeq (pyAssign fun s => { s with loc := { s.loc with a1 := true } }) <|
                       pyBreak)
                      (pySkip)) <|
             pySys (fun s => (sysM n ie).pipe_recv i1) fun _ =>
             pySkip)
            (pySkip)) ⟨p, (ws, q), l⟩ =
      (⟨p, ((mapUntilL recvF l ws).1, q ++ (mapUntilL recvF l ws).2.1), (mapUntilL recvF l ws).2.2.1⟩,
        (mapUntilL recvF l ws).2.2.2) := by
  rw [forEach_workers _ recvF ?_ n p ws q l hn]
  intro i p ws q l wk hget
  simp only [pyIf, pySys, pySkip, pySeq, pyAssign, pyBreak, sysM, hget, recvF, atIdx]
  by_cases hp : wk.pipeOpen = true
  · simp only [hp, Bool.not_true, Bool.not_false, Bool.and_self, if_true, Bool.true_eq_false, if_false]
    have hne := recvOne_ne_ok (fun _ => none) wk
    have hrep := recvOne_reply (fun _ => none) wk
    cases hv : l.v0 with
    | none =>
      simp only [Option.isSome_none, Bool.false_and, Bool.false_eq_true, if_false]
      rcases hs : recvOne (fun _ => none) wk with ⟨w1, e1, r, o⟩
      rw [hs] at hne hrep
      cases o with
      | none => obtain ⟨r', hr'⟩ := hrep.1 rfl; simp only at hr'; subst hr'; simp [recvRes, ctlOf, hget, hs]
      | some o =>
        have := hrep.2 (by simp); simp only at this; subst this
        cases o with
        | ok => exact absurd rfl hne
        | err x => simp [recvRes, ctlOf, hget, hs]
        | hang => simp [recvRes, ctlOf, hget, hs]
    | some t =>
      simp only [Option.isSome_some, Bool.true_and]
      by_cases hr : (!wk.inbox.isEmpty || decide (wk.st = WSt.exited)) = true
      · simp only [hr, Bool.not_true, Bool.false_eq_true, if_false]
        rcases hs : recvOne (fun _ => none) wk with ⟨w1, e1, r, o⟩
        rw [hs] at hne hrep
        cases o with
        | none => obtain ⟨r', hr'⟩ := hrep.1 rfl; simp only at hr'; subst hr'; simp [recvRes, ctlOf, hget, hs]
        | some o =>
          have := hrep.2 (by simp); simp only at this; subst this
          cases o with
          | ok => exact absurd rfl hne
          | err x => simp [recvRes, ctlOf, hget, hs]
          | hang => simp [recvRes, ctlOf, hget, hs]
      · have hr' : (!wk.inbox.isEmpty || decide (wk.st = WSt.exited)) = false := by simpa using hr
        simp [hr', set_self _ _ _ hget]
  · have hp' : wk.pipeOpen = false := by simpa using hp
    simp [hp', set_self _ _ _ hget]


theorem recvCloseOne_ne_ok (w : Worker) : (recvCloseOne w).2.2.2 ≠ some .ok := by
  unfold recvCloseOne
  split
  · simp
  · exact recvOne_ne_ok _ w

/-- without a time budget the second loop of the handshake is the model's `recvCloseOne` loop -/
theorem recvF_untimed (l : CL) (hv : l.v0 = none) : ∀ ws : List Worker,
    (mapUntilL recvF l ws).1 = (mapUntil recvCloseOne ws).1 ∧ (mapUntilL recvF l ws).2.1 = (mapUntil recvCloseOne ws).2.1 ∧
      (mapUntilL recvF l ws).2.2.2 = ctlOf (mapUntil recvCloseOne ws).2.2.2 ∧ (mapUntilL recvF l ws).2.2.1 = l := by
  intro ws
  induction ws with
  | nil => simp [mapUntilL, mapUntil, ctlOf]
  | cons w ws ih =>
    have hne := recvCloseOne_ne_ok w
    have hrf : recvF l w = ((recvCloseOne w).1, (recvCloseOne w).2.1, l, ctlOf (recvCloseOne w).2.2.2) := by
      unfold recvF recvCloseOne
      by_cases hp : w.pipeOpen = false
      · simp [hp, ctlOf]
      · simp [hp, hv]
    rcases hj : recvCloseOne w with ⟨w1, e1, r, o⟩
    rw [hj] at hne hrf
    simp only at hrf
    cases o with
    | none =>
      simp only [ctlOf] at hrf
      obtain ⟨i1, i2, i3, i4⟩ := ih
      rcases hm : mapUntil recvCloseOne ws with ⟨ws1, e2, rs, o2⟩
      rcases hml : mapUntilL recvF l ws with ⟨ws1', e2', l2, c2⟩
      rw [hm, hml] at i1 i2 i3
      rw [hml] at i4
      simp only at i1 i2 i3 i4
      subst i1 i2 i3 i4
      simp [mapUntilL, mapUntil, hrf, hj, hml, hm]
    | some o =>
      cases o with
      | ok => exact absurd rfl hne
      | err x => simp only [ctlOf] at hrf; simp [mapUntilL, mapUntil, hrf, hj, ctlOf]
      | hang => simp only [ctlOf] at hrf; simp [mapUntilL, mapUntil, hrf, hj, ctlOf]

/-- with a time budget it is the model's `recvReadyOne` loop: it ends normally (possibly by `break`, then
    `terminate` is set) or with `EOFError` -/
theorem recvF_timed (t : Rat) : ∀ (ws : List Worker) (l : CL), l.v0 = some t →
    (mapUntilL recvF l ws).1 = (mapUntil recvReadyOne ws).1 ∧ (mapUntilL recvF l ws).2.1 = (mapUntil recvReadyOne ws).2.1 ∧
      ((mapUntilL recvF l ws).2.2.1 = l ∨ (mapUntilL recvF l ws).2.2.1 = { l with a1 := true }) ∧
      ((mapUntilL recvF l ws).2.2.2 = .next ∨ (mapUntilL recvF l ws).2.2.2 = .raise .EOFError) := by
  intro ws
  induction ws with
  | nil => intro l _; simp [mapUntilL, mapUntil]
  | cons w ws ih =>
    intro l hv
    by_cases hp : w.pipeOpen = false
    · have hrf : recvF l w = (w, [], l, .next) := by simp [recvF, hp]
      have hrr : recvReadyOne w = (w, [], none, none) := by simp [recvReadyOne, hp]
      obtain ⟨i1, i2, i3, i4⟩ := ih l hv
      rcases hm : mapUntil recvReadyOne ws with ⟨ws1, e2, rs, o2⟩
      rcases hml : mapUntilL recvF l ws with ⟨ws1', e2', l2, c2⟩
      rw [hm, hml] at i1 i2
      rw [hml] at i3 i4
      simp only at i1 i2 i3 i4
      subst i1 i2
      simp [mapUntilL, mapUntil, hrf, hrr, hml, hm, i3, i4]
    · by_cases hr : w.ready = true
      · have hrdy : (!w.inbox.isEmpty || decide (w.st = WSt.exited)) = true := by
          have hp' : w.pipeOpen = true := by simpa using hp
          simpa [Worker.ready, hp'] using hr
        have hrf : recvF l w = ((recvOne (fun _ => none) w).1, (recvOne (fun _ => none) w).2.1, l,
            ctlOf (recvOne (fun _ => none) w).2.2.2) := by
          simp [recvF, hp, hrdy]
        have hrr : recvReadyOne w = recvOne (fun _ => none) w := by simp [recvReadyOne, hp, hr]
        rcases ready_recv w hr with hok | heof
        · rcases hj : recvOne (fun _ => none) w with ⟨w1, e1, r, o⟩
          rw [hj] at hok hrf
          simp only at hok hrf
          subst hok
          simp only [ctlOf] at hrf
          obtain ⟨i1, i2, i3, i4⟩ := ih l hv
          rcases hm : mapUntil recvReadyOne ws with ⟨ws1, e2, rs, o2⟩
          rcases hml : mapUntilL recvF l ws with ⟨ws1', e2', l2, c2⟩
          rw [hm, hml] at i1 i2
          rw [hml] at i3 i4
          simp only at i1 i2 i3 i4
          subst i1 i2
          simp [mapUntilL, mapUntil, hrf, hrr, hj, hml, hm, i3, i4]
        · rcases hj : recvOne (fun _ => none) w with ⟨w1, e1, r, o⟩
          rw [hj] at heof hrf
          simp only at heof hrf
          subst heof
          simp only [ctlOf, excOf] at hrf
          simp [mapUntilL, mapUntil, hrf, hrr, hj]
      · have hr' : w.ready = false := by simpa using hr
        have hrdy : (!w.inbox.isEmpty || decide (w.st = WSt.exited)) = false := by
          have hp' : w.pipeOpen = true := by simpa using hp
          simpa [Worker.ready, hp'] using hr'
        have hrf : recvF l w = (w, [], { l with a1 := true }, .brk) := by
          simp [recvF, hp, hrdy, hv]
        have hrr : recvReadyOne w = (w, [], none, some (.err .timeout)) := by simp [recvReadyOne, hp, hr']
        simp [mapUntilL, mapUntil, hrf, hrr]


/-! the two parts of `close_extras` (copies of the generated text: `close_extras_split` is by `rfl`) -/

/-- `try: <wait for the pending call> except …` -/
def closeWaitStmt {W R Q : Type} (S : Sys W R Q) : Stmt W (VecProtoGen.close_extras.L R) Unit :=
  pyTry
              (pyIf (fun s => (s.par._state != AsyncState.DEFAULT))
                 (
                  pyLet (fun s => s.par._state) fun r0 =>
                  pySeq (pyIf (fun s => r0 == AsyncState.DEFAULT)
                           (pyRaise fun s => ErrClass.AttributeError)
                           pySkip) <|
                  pyCall (fun s =>
                      match r0 with
                      | AsyncState.DEFAULT => fun p w => (p, w, Res.raise ErrClass.AttributeError)
                      | AsyncState.WAITING_RESET => VecProtoGen.reset_wait S s.loc.a0
                      | AsyncState.WAITING_STEP => VecProtoGen.step_wait S s.loc.a0
                      | AsyncState.WAITING_CALL => VecProtoGen.call_wait S s.loc.a0) fun _ =>
                  pySkip)
                 (pySkip))
              (fun e =>
                if VecProtoGen.pyCatches S.isExc [ErrClass.mp_TimeoutError] e then some
                  ((fun e0 =>
                     pyAssign fun s => { s with loc := { s.loc with a1 := true } }) e)
                else if VecProtoGen.pyCatches S.isExc [ErrClass.EOFError, ErrClass.OSError] e then some
                  ((fun e1 =>
                     pyAssign fun s => { s with loc := { s.loc with a1 := true } }) e)
                else if VecProtoGen.pyCatches S.isExc [ErrClass.BaseException] e then some
                  ((fun e2 =>
                     pySkip) e)
                else none)
              (pySkip)

/-- the shutdown handshake: `try: <send close to every open pipe; receive the acknowledgements> except (EOFError, OSError)` -/
def closeShakeStmt {W R Q : Type} (S : Sys W R Q) : Stmt W (VecProtoGen.close_extras.L R) Unit :=
  pyTry
                 (pySeq (pyForEach (fun s => List.range S.num_envs) fun i0 =>
                           pyIf (fun s => ((!(S.pipe_is_none i0 s.sys)) && (!(S.pipe_closed i0 s.sys))))
                             (pySys (fun s => S.pipe_send i0 "close") fun _ =>
                              pySkip)
                             (pySkip)) <|
                  pyForEach (fun s => List.range S.num_envs) fun i1 =>
                    pyIf (fun s => ((!(S.pipe_is_none i1 s.sys)) && (!(S.pipe_closed i1 s.sys))))
                      (pySeq (pyIf (fun s => (match s.loc.v0 with | none => false | some n1 => !(S.pipe_poll i1 (VecProtoGen.pyMax (n1 - S.now s.sys) (0 : Rat)) s.sys)))
                                (pySeq (pyAssign fun s => { s with loc := { s.loc with a1 := true } }) <|
                                 pyBreak)
                                (pySkip)) <|
                       pySys (fun s => S.pipe_recv i1) fun _ =>
                       pySkip)
                      (pySkip))
                 (fun e =>
                   if VecProtoGen.pyCatches S.isExc [ErrClass.EOFError, ErrClass.OSError] e then some
                     ((fun e3 =>
                        pyAssign fun s => { s with loc := { s.loc with a1 := true } }) e)
                   else none)
                 (pySkip)

/-- terminate if asked to, close the pipes, join -/
def closeEndStmt {W R Q : Type} (S : Sys W R Q) : Stmt W (VecProtoGen.close_extras.L R) Unit :=
     pySeq (pyIf (fun s => s.loc.a1)
              (pyForEach (fun s => List.range S.num_envs) fun i2 =>
                 pyIf (fun s => S.proc_is_alive i2 s.sys)
                   (pySys (fun s => S.proc_terminate i2) fun _ =>
                    pySkip)
                   (pySkip))
              (pySkip)) <|
     pySeq (pyForEach (fun s => List.range S.num_envs) fun i3 =>
              pyIf (fun s => !(S.pipe_is_none i3 s.sys))
                (pySys (fun s => S.pipe_close i3) fun _ =>
                 pySkip)
                (pySkip)) <|
     pyForEach (fun s => List.range S.num_envs) fun i4 =>
       pySeq (pyIfNone (fun s => s.loc.v0)
                (pySkip)
                (fun n2 =>
                  pySys (fun s => S.proc_join i4 (some (VecProtoGen.pyMax (n2 - S.now s.sys) (0 : Rat)))) fun _ =>
                  pyIf (fun s => S.proc_is_alive i4 s.sys)
                    (pySys (fun s => S.proc_terminate i4) fun _ =>
                     pySkip)
                    (pySkip))) <|
       pySys (fun s => S.proc_join i4 none) fun _ =>
       pySkip

/-- everything after the wait: the time budget, the handshake unless `terminate`, the end -/
def closeTailStmt {W R Q : Type} (S : Sys W R Q) : Stmt W (VecProtoGen.close_extras.L R) Unit :=
  pySeq (pyAssign fun s => { s with loc := { s.loc with v0 := (match s.loc.a0 with | none => none | some n0 => some (S.now s.sys + n0)) } }) <|
  pySeq (pyIf (fun s => !s.loc.a1) (closeShakeStmt S) (pySkip)) <|
  closeEndStmt S

theorem close_extras_split {W R Q : Type} (S : Sys W R Q) (a0 : Option Rat) (a1 : Bool) (p : Parent) (w : W) :
    VecProtoGen.close_extras S a0 a1 p w =
      pyRunUnit
        (pySeq (pyAssign fun s => { s with loc := { s.loc with a0 := (if s.loc.a1 then some (0 : Rat) else s.loc.a0) } }) <|
         pySeq (closeWaitStmt S) <| closeTailStmt S)
        ⟨p, w, { a0 := a0, a1 := a1 }⟩ := rfl


theorem terminateAll_eq (ws : List Worker) : terminateAll ws = (ws.map killW).map closeW := by
  simp [terminateAll, killW, closeW, List.map_map, Function.comp_def]

theorem map_kill_kill (ws : List Worker) : (ws.map killW).map killW = ws.map killW := by
  simp [List.map_map, Function.comp_def, killW]

theorem map_kill_close_kill (ws : List Worker) : ((ws.map killW).map closeW).map killW = (ws.map killW).map closeW := by
  simp [List.map_map, Function.comp_def, killW, closeW]

theorem map_close_kill (ws : List Worker) : (ws.map closeW).map killW = (ws.map killW).map closeW := by
  simp [List.map_map, Function.comp_def, killW, closeW]

theorem mapUntil_joinProc_exited : ∀ ws : List Worker, (∀ w ∈ ws, w.st = .exited) →
    mapUntil joinProc ws = (ws, [], [], none) := by
  intro ws
  induction ws with
  | nil => intro _; rfl
  | cons w ws ih =>
    intro h
    have h1 := joinProc_exited w (h w List.mem_cons_self)
    have h2 := ih (fun w' hw' => h w' (List.mem_cons_of_mem _ hw'))
    simp [mapUntil, h1, h2]

/-- the end of `close_extras` with `terminate` set: nobody is left, whatever the time budget -/
theorem close_end_kill (ie : Nat → Bool) (p : Parent) (ws : List Worker) (q : ErrQ) (l : CL) (ha : l.a1 = true) :
    closeEndStmt (sysM ws.length ie) ⟨p, (ws, q), l⟩ = (⟨p, (terminateAll ws, q), l⟩, .next) := by
  unfold closeEndStmt
  simp only [pySeq, pyIf, ha, if_true, sysM_num]
  rw [terminate_loop ie ws.length p ws q l rfl]
  simp only
  rw [closepipes_loop ie ws.length p (ws.map killW) q l (by simp)]
  simp only
  rw [join_loop ie ws.length p ((ws.map killW).map closeW) q l (by simp)]
  cases hv : l.v0 with
  | some t =>
    rw [joinF_timed l t hv]
    simp only [map_kill_close_kill, terminateAll_eq, List.append_nil]
  | none =>
    obtain ⟨h1, h2, h3, h4⟩ := joinF_untimed l hv ((ws.map killW).map closeW)
    have hx := mapUntil_joinProc_exited ((ws.map killW).map closeW) (by
      intro w hw
      simp only [List.mem_map] at hw
      obtain ⟨w1, ⟨w0, _, rfl⟩, rfl⟩ := hw
      rfl)
    rw [hx] at h1 h2 h3
    rcases hm : mapUntilL joinF l ((ws.map killW).map closeW) with ⟨a, b, c, d⟩
    rw [hm] at h1 h2 h3 h4
    simp only at h1 h2 h3 h4
    subst h1 h2 h3 h4
    simp [ctlOf, terminateAll_eq]

/-- … and without `terminate` but with a time budget: the timed joins terminate whoever is still alive -/
theorem close_end_timed (ie : Nat → Bool) (p : Parent) (ws : List Worker) (q : ErrQ) (l : CL) (t : Rat)
    (ha : l.a1 = false) (hv : l.v0 = some t) :
    closeEndStmt (sysM ws.length ie) ⟨p, (ws, q), l⟩ = (⟨p, (terminateAll ws, q), l⟩, .next) := by
  unfold closeEndStmt
  simp only [pySeq, pyIf, ha, Bool.false_eq_true, if_false, pySkip, sysM_num]
  rw [closepipes_loop ie ws.length p ws q l rfl]
  simp only
  rw [join_loop ie ws.length p (ws.map closeW) q l (by simp), joinF_timed l t hv]
  simp only [map_close_kill, terminateAll_eq, List.append_nil]

/-- … and with neither: close every pipe, then wait for every process (the model joins and closes worker by worker) -/
theorem close_end_graceful (ie : Nat → Bool) (p : Parent) (ws : List Worker) (q : ErrQ) (l : CL)
    (ha : l.a1 = false) (hv : l.v0 = none) :
    ((mapUntil joinOne ws).2.2.2 = none →
      closeEndStmt (sysM ws.length ie) ⟨p, (ws, q), l⟩ = (⟨p, ((mapUntil joinOne ws).1, q ++ (mapUntil joinOne ws).2.1), l⟩, .next)) ∧
    ((mapUntil joinOne ws).2.2.2 ≠ none →
      (closeEndStmt (sysM ws.length ie) ⟨p, (ws, q), l⟩).2 = ctlOf (mapUntil joinOne ws).2.2.2) := by
  unfold closeEndStmt
  simp only [pySeq, pyIf, ha, Bool.false_eq_true, if_false, pySkip, sysM_num]
  rw [closepipes_loop ie ws.length p ws q l rfl]
  simp only
  rw [join_loop ie ws.length p (ws.map closeW) q l (by simp)]
  obtain ⟨h1, h2, h3, h4⟩ := joinF_untimed l hv (ws.map closeW)
  obtain ⟨j1, j2, j3⟩ := join_close_rel ws
  rcases hm : mapUntilL joinF l (ws.map closeW) with ⟨a, b, c, d⟩
  rw [hm] at h1 h2 h3 h4
  simp only at h1 h2 h3 h4
  subst h1 h2 h3 h4
  rw [j1, j2]
  constructor
  · intro hn
    rw [j3 hn, hn]
    simp [ctlOf]
  · intro _
    rfl


theorem mapUntil_err_of (f : Worker → StepRes) (P : Exc → Prop) (h : ∀ w x, (f w).2.2.2 = some (.err x) → P x) :
    ∀ (ws : List Worker) (x : Exc), (mapUntil f ws).2.2.2 = some (.err x) → P x := by
  intro ws
  induction ws with
  | nil => intro x hx; simp [mapUntil] at hx
  | cons w ws ih =>
    intro x hx
    unfold mapUntil at hx
    have hw := h w
    rcases hf : f w with ⟨w1, e1, r, o⟩
    rw [hf] at hx hw
    cases o with
    | some o => simp only at hx; exact hw x hx
    | none =>
      simp only at hx
      rcases hm : mapUntil f ws with ⟨ws1, e2, rs, o2⟩
      rw [hm] at hx ih
      exact ih x hx

theorem sendCloseOne_err (w : Worker) (x : Exc) (h : (sendCloseOne w).2.2.2 = some (.err x)) : x = .brokenPipe := by
  unfold sendCloseOne sendOne at h
  by_cases hp : w.pipeOpen = false
  · simp [hp] at h
  · by_cases hs : w.st = .exited
    · simp [hp, hs] at h; exact h.symm
    · simp [hp, hs] at h

theorem recvCloseOne_err (w : Worker) (x : Exc) (h : (recvCloseOne w).2.2.2 = some (.err x)) : x = .eof := by
  unfold recvCloseOne at h
  by_cases hp : w.pipeOpen = false
  · simp [hp] at h
  · simp only [hp, if_false] at h
    unfold recvOne Worker.recv at h
    simp only [hp, if_false] at h
    cases hi : w.inbox with
    | cons r rest => simp [hi] at h
    | nil =>
      simp only [hi] at h
      cases hs : w.st with
      | exited => simp [hs] at h; exact h.symm
      | alive => simp [hs] at h
      | hung =>
        simp only [hs] at h
        by_cases hf : w.forever = true
        · simp [hf] at h
        · simp only [hf, if_false] at h
          rcases hw : w.wake with ⟨w1, e1⟩
          rw [hw] at h
          simp only at h
          cases hi1 : w1.inbox with
          | nil => simp [hi1] at h
          | cons r rest => simp [hi1] at h

theorem catches_eof (ie : Nat → Bool) : VecProtoGen.pyCatches ie [ErrClass.EOFError, ErrClass.OSError] (excOf .eof) = true := by
  simp [VecProtoGen.pyCatches, ErrClass.mro, excOf]
theorem catches_eof' (ie : Nat → Bool) : VecProtoGen.pyCatches ie [ErrClass.EOFError, ErrClass.OSError] ErrClass.EOFError = true := by
  simp [VecProtoGen.pyCatches, ErrClass.mro]
theorem catches_brokenPipe (ie : Nat → Bool) :
    VecProtoGen.pyCatches ie [ErrClass.EOFError, ErrClass.OSError] (excOf .brokenPipe) = true := by
  simp [VecProtoGen.pyCatches, ErrClass.mro, excOf]

/-- the handshake without a time budget -/
theorem shake_untimed (ie : Nat → Bool) (p : Parent) (ws : List Worker) (q : ErrQ) (l : CL) (hv : l.v0 = none) :
    closeShakeStmt (sysM ws.length ie) ⟨p, (ws, q), l⟩ =
      (match mapUntil sendCloseOne ws with
        | (ws1, e1, _, some .hang) => (⟨p, (ws1, q ++ e1), l⟩, .hang)
        | (ws1, e1, _, some _) => (⟨p, (ws1, q ++ e1), { l with a1 := true }⟩, .next)
        | (ws1, e1, _, none) =>
          (match mapUntil recvCloseOne ws1 with
            | (ws2, e2, _, some .hang) => (⟨p, (ws2, q ++ e1 ++ e2), l⟩, .hang)
            | (ws2, e2, _, some _) => (⟨p, (ws2, q ++ e1 ++ e2), { l with a1 := true }⟩, .next)
            | (ws2, e2, _, none) => (⟨p, (ws2, q ++ e1 ++ e2), l⟩, .next))) := by
  unfold closeShakeStmt
  simp only [pyTry, pySeq, sysM_num, sysM_isExc]
  rw [sendclose_loop ie ws.length p ws q l rfl]
  have herr := mapUntil_err_of sendCloseOne (fun x => x = .brokenPipe) sendCloseOne_err ws
  have hlen := mapUntil_length sendCloseOne ws
  rcases hm : mapUntil sendCloseOne ws with ⟨ws1, e1, rs1, o1⟩
  rw [hm] at herr hlen
  simp only at herr hlen
  cases o1 with
  | some o =>
    cases o with
    | ok => exact absurd (by rw [hm]) (mapUntil_stop_ne _ _ ws (fun w _ => sendCloseOne_ne_ok w))
    | hang => simp [ctlOf]
    | err x =>
      have := herr x rfl
      subst this
      simp [ctlOf, catches_brokenPipe, pyAssign]
  | none =>
    simp only [ctlOf]
    rw [← hlen, recvclose_loop ie ws1.length p ws1 (q ++ e1) l rfl]
    obtain ⟨h1, h2, h3, h4⟩ := recvF_untimed l hv ws1
    have herr2 := mapUntil_err_of recvCloseOne (fun x => x = .eof) recvCloseOne_err ws1
    rcases hm2 : mapUntil recvCloseOne ws1 with ⟨ws2, e2, rs2, o2⟩
    rcases hml : mapUntilL recvF l ws1 with ⟨a, b, c, d⟩
    rw [hm2, hml] at h1 h2 h3
    rw [hml] at h4
    rw [hm2] at herr2
    simp only at h1 h2 h3 h4 herr2
    subst h1 h2 h3 h4
    cases o2 with
    | some o =>
      cases o with
      | ok => exact absurd (by rw [hm2]) (mapUntil_stop_ne _ _ ws1 (fun w _ => recvCloseOne_ne_ok w))
      | hang => simp [ctlOf]
      | err x =>
        have := herr2 x rfl
        subst this
        simp [ctlOf, catches_eof, pyAssign, hlen]
    | none => simp [ctlOf, pySkip]


/-- the handshake with a time budget: it always ends; the locals differ from `l` at most in `terminate` -/
theorem shake_timed (ie : Nat → Bool) (p : Parent) (ws : List Worker) (q : ErrQ) (l : CL) (t : Rat) (hv : l.v0 = some t) :
    (∀ ws1 e1 rs1, mapUntil sendCloseOne ws = (ws1, e1, rs1, some .hang) →
      (closeShakeStmt (sysM ws.length ie) ⟨p, (ws, q), l⟩).2 = .hang) ∧
    (∀ ws1 e1 rs1 x, mapUntil sendCloseOne ws = (ws1, e1, rs1, some (.err x)) →
      closeShakeStmt (sysM ws.length ie) ⟨p, (ws, q), l⟩ = (⟨p, (ws1, q ++ e1), { l with a1 := true }⟩, .next)) ∧
    (∀ ws1 e1 rs1, mapUntil sendCloseOne ws = (ws1, e1, rs1, none) →
      ∃ l', (l' = l ∨ l' = { l with a1 := true }) ∧
        closeShakeStmt (sysM ws.length ie) ⟨p, (ws, q), l⟩ =
          (⟨p, ((mapUntil recvReadyOne ws1).1, q ++ e1 ++ (mapUntil recvReadyOne ws1).2.1), l'⟩, .next)) := by
  unfold closeShakeStmt
  simp only [pyTry, pySeq, sysM_num, sysM_isExc]
  rw [sendclose_loop ie ws.length p ws q l rfl]
  have herr := mapUntil_err_of sendCloseOne (fun x => x = .brokenPipe) sendCloseOne_err ws
  have hlen := mapUntil_length sendCloseOne ws
  refine ⟨?_, ?_, ?_⟩
  · intro ws1 e1 rs1 hm
    rw [hm]
    simp [ctlOf]
  · intro ws1 e1 rs1 x hm
    rw [hm] at herr
    have := herr x rfl
    subst this
    rw [hm]
    simp [ctlOf, catches_brokenPipe, pyAssign]
  · intro ws1 e1 rs1 hm
    rw [hm] at hlen
    simp only at hlen
    rw [hm]
    simp only [ctlOf]
    rw [← hlen, recvclose_loop ie ws1.length p ws1 (q ++ e1) l rfl]
    obtain ⟨h1, h2, h3, h4⟩ := recvF_timed t ws1 l hv
    rcases hml : mapUntilL recvF l ws1 with ⟨a, b, c, d⟩
    rw [hml] at h1 h2 h3 h4
    simp only at h1 h2 h3 h4
    subst h1 h2
    rcases h4 with h4 | h4
    · subst h4
      exact ⟨c, h3, by simp [pySkip]⟩
    · subst h4
      refine ⟨{ c with a1 := true }, ?_, by simp [catches_eof', pyAssign]⟩
      rcases h3 with h3 | h3 <;> subst h3 <;> simp


theorem terminateAll_length (ws : List Worker) : (terminateAll ws).length = ws.length := by simp [terminateAll]

/-- everything after the wait for the pending call, against the model's `closeTail` (repaired variant) -/
theorem close_tail_eq (f2a : Bool) (ast : AState) (cl : Bool) (ws : List Worker) (q : ErrQ) (ie : Nat → Bool) (p : Parent)
    (a0 : Option Rat) (a1 : Bool) (v : Option Rat) :
    let s : State := { fixed := true, fix2 := true, astate := ast, closed := cl, ws := ws, errq := q }
    let r := closeTailStmt (sysM ws.length ie) ⟨p, (ws, q), ⟨a0, a1, v⟩⟩
    let m := closeTail s a0.isSome a1
    (m.2 = .hang ∧ r.2 = .hang) ∨
      (m.2 = .ok ∧ r.2 = .next ∧ r.1.par = p ∧ r.1.sys = (m.1.ws, m.1.errq) ∧
        m.1 = { s with ws := m.1.ws, errq := m.1.errq, closed := true }) := by
  intro s r m
  have _ := f2a
  cases a1 with
  | true =>
    right
    have hr : r = (⟨p, (terminateAll ws, q), ⟨a0, true, (match a0 with | none => none | some n0 => some (0 + n0))⟩⟩, .next) := by
      show closeTailStmt (sysM ws.length ie) ⟨p, (ws, q), ⟨a0, true, v⟩⟩ = _
      unfold closeTailStmt
      simp only [pySeq, pyAssign, pyIf, Bool.not_true, Bool.false_eq_true, if_false, pySkip, sysM_now]
      rw [close_end_kill ie p ws q _ rfl]
    have hm : m = ({ s with ws := terminateAll ws, closed := true }, .ok) := by
      show closeTail s a0.isSome true = _
      simp [closeTail, s]
    rw [hr, hm]
    refine ⟨?_, ?_, ?_, ?_, ?_⟩ <;> first | rfl | trivial
  | false =>
    cases a0 with
    | none =>
      have hr : r = pySeq (closeShakeStmt (sysM ws.length ie)) (closeEndStmt (sysM ws.length ie))
          ⟨p, (ws, q), ⟨none, false, none⟩⟩ := rfl
      have hm : m = closeTail s false false := rfl
      rw [hr, hm]
      simp only [pySeq]
      rw [shake_untimed ie p ws q ⟨none, false, none⟩ rfl]
      simp only [closeTail, s, Bool.false_eq_true, if_false, Bool.false_and]
      have hlen1 := mapUntil_length sendCloseOne ws
      rcases hm1 : mapUntil sendCloseOne ws with ⟨ws1, e1, rs1, o1⟩
      rw [hm1] at hlen1
      simp only at hlen1
      cases o1 with
      | some o =>
        cases o with
        | hang => left; simp [closeFail]
        | ok => exact absurd (by rw [hm1]) (mapUntil_stop_ne _ _ ws (fun w _ => sendCloseOne_ne_ok w))
        | err x =>
          right
          simp only [closeFail, if_true]
          rw [← hlen1, close_end_kill ie p ws1 (q ++ e1) _ rfl]
          refine ⟨?_, ?_, ?_, ?_, ?_⟩ <;> first | rfl | trivial
      | none =>
        simp only
        have hlen2 := mapUntil_length recvCloseOne ws1
        rcases hm2 : mapUntil recvCloseOne ws1 with ⟨ws2, e2, rs2, o2⟩
        rw [hm2] at hlen2
        simp only at hlen2
        cases o2 with
        | some o =>
          cases o with
          | hang => left; simp [closeFail]
          | ok => exact absurd (by rw [hm2]) (mapUntil_stop_ne _ _ ws1 (fun w _ => recvCloseOne_ne_ok w))
          | err x =>
            right
            simp only [closeFail, if_true]
            rw [← hlen1, ← hlen2, close_end_kill ie p ws2 (q ++ e1 ++ e2) _ rfl]
            refine ⟨?_, ?_, ?_, ?_, ?_⟩ <;> first | rfl | trivial
        | none =>
          simp only
          obtain ⟨g1, g2⟩ := close_end_graceful ie p ws2 (q ++ e1 ++ e2) ⟨none, false, none⟩ rfl rfl
          rw [hlen2, hlen1] at g1 g2
          rcases hm3 : mapUntil joinOne ws2 with ⟨ws3, e3, rs3, o3⟩
          rw [hm3] at g1 g2
          simp only at g1 g2
          cases o3 with
          | none =>
            right
            rw [g1 rfl]
            refine ⟨?_, ?_, ?_, ?_, ?_⟩ <;> first | rfl | trivial
          | some o =>
            have hg := g2 (by simp)
            have hjo : o = .hang := by
              have := mapUntil_err_of joinOne (fun _ => False) (by
                intro w x hx
                unfold joinOne at hx
                simp only at hx
                split at hx <;> simp at hx) ws2
              rw [hm3] at this
              cases o with
              | hang => rfl
              | ok =>
                exact absurd (by rw [hm3]) (mapUntil_stop_ne joinOne .ok ws2 (fun w _ => by
                  unfold joinOne; simp only; split <;> simp))
              | err x => exact (this x rfl).elim
            subst hjo
            left
            exact ⟨rfl, by rw [hg]; rfl⟩
    | some t =>
      have hr : r = pySeq (closeShakeStmt (sysM ws.length ie)) (closeEndStmt (sysM ws.length ie))
          ⟨p, (ws, q), ⟨some t, false, some (0 + t)⟩⟩ := rfl
      have hm : m = closeTail s true false := rfl
      rw [hr, hm]
      simp only [pySeq]
      obtain ⟨k1, k2, k3⟩ := shake_timed ie p ws q ⟨some t, false, some (0 + t)⟩ (0 + t) rfl
      simp only [closeTail, s, Bool.false_eq_true, if_false, Bool.and_self, if_true]
      have hlen1 := mapUntil_length sendCloseOne ws
      rcases hm1 : mapUntil sendCloseOne ws with ⟨ws1, e1, rs1, o1⟩
      rw [hm1] at hlen1
      simp only at hlen1
      cases o1 with
      | some o =>
        cases o with
        | hang =>
          left
          have := k1 ws1 e1 rs1 hm1
          rcases hcs : closeShakeStmt (sysM ws.length ie) ⟨p, (ws, q), ⟨some t, false, some (0 + t)⟩⟩ with ⟨s1, c1⟩
          rw [hcs] at this
          simp only at this
          subst this
          simp [closeFail]
        | ok => exact absurd (by rw [hm1]) (mapUntil_stop_ne _ _ ws (fun w _ => sendCloseOne_ne_ok w))
        | err x =>
          right
          rw [k2 ws1 e1 rs1 x hm1]
          simp only [closeFail, if_true]
          rw [← hlen1, close_end_kill ie p ws1 (q ++ e1) _ rfl]
          refine ⟨?_, ?_, ?_, ?_, ?_⟩ <;> first | rfl | trivial
      | none =>
        obtain ⟨l', hl', hsh⟩ := k3 ws1 e1 rs1 hm1
        rw [hsh]
        simp only
        have hlen2 := mapUntil_length recvReadyOne ws1
        have hnh := mapUntil_stop_ne recvReadyOne .hang ws1 (fun w _ => recvReadyOne_no_hang w)
        rcases hm2 : mapUntil recvReadyOne ws1 with ⟨ws2, e2, rs2, o2⟩
        rw [hm2] at hlen2 hnh
        simp only at hlen2 hnh
        right
        have hend : closeEndStmt (sysM ws.length ie) ⟨p, (ws2, q ++ e1 ++ e2), l'⟩ =
            (⟨p, (terminateAll ws2, q ++ e1 ++ e2), l'⟩, .next) := by
          rw [← hlen1, ← hlen2]
          rcases hl' with hl' | hl'
          · subst hl'; exact close_end_timed ie p ws2 _ _ (0 + t) rfl rfl
          · subst hl'; exact close_end_kill ie p ws2 _ _ rfl
        rw [hend]
        cases o2 with
        | none => refine ⟨?_, ?_, ?_, ?_, ?_⟩ <;> first | rfl | trivial
        | some o =>
          cases o with
          | hang => exact absurd rfl hnh
          | ok => refine ⟨?_, ?_, ?_, ?_, ?_⟩ <;> first | rfl | trivial
          | err x => refine ⟨?_, ?_, ?_, ?_, ?_⟩ <;> first | rfl | trivial


theorem waitOp_pending (s : State) (a : AState) (timed : Bool) (hc : s.closed = false) (ha : s.astate = a) :
    waitOp s a timed = waitCore s (cmdOf a) timed := by
  simp [waitOp, hc, ha]

/-- `getattr(self, f"{self._state.value}_wait")(timeout)` with a call pending is the model's `waitCore` -/
theorem wait_dispatch (s : State) (ie : Nat → Bool) (hf : s.fixed = true) (hw : WellIdx s.ws) (hc : s.closed = false)
    (ha : s.astate ≠ .default) (t : Option Rat) :
    Agree
      ((match stOf s.astate with
        | AsyncState.DEFAULT => fun p w => (p, w, Res.raise ErrClass.AttributeError)
        | AsyncState.WAITING_RESET => VecProtoGen.reset_wait (sysM s.ws.length ie) t
        | AsyncState.WAITING_STEP => VecProtoGen.step_wait (sysM s.ws.length ie) t
        | AsyncState.WAITING_CALL => VecProtoGen.call_wait (sysM s.ws.length ie) t) (parOf s) (worldOf s))
      (waitCore s (cmdOf s.astate) t.isSome) := by
  cases hast : s.astate with
  | default => exact absurd hast ha
  | wreset => rw [← waitOp_pending s .wreset _ hc hast]; exact gen_reset_wait_eq s ie hf hw t
  | wstep => rw [← waitOp_pending s .wstep _ hc hast]; exact gen_step_wait_eq s ie hf hw t
  | wcall => rw [← waitOp_pending s .wcall _ hc hast]; exact gen_call_wait_eq s ie hf hw t

theorem closePipes_length : ∀ (is : List Nat) (ws : List Worker), (closePipes is ws).length = ws.length := by
  intro is
  induction is with
  | nil => intro ws; rfl
  | cons i is ih => intro ws; simp [closePipes, List.foldl_cons] at ih ⊢; rw [ih]; simp [closePipe]

theorem WellIdx.closePipes : ∀ (is : List Nat) {ws : List Worker}, WellIdx ws → WellIdx (closePipes is ws) := by
  intro is
  induction is with
  | nil => intro ws h; exact h
  | cons i is ih => intro ws h; simp only [VecProto.closePipes, List.foldl_cons] at ih ⊢; exact ih (h.closePipe i)

theorem raiseIfErrors_keeps (s : State) (rs : List Reply) (hw : WellIdx s.ws) :
    (raiseIfErrors s rs).1.fixed = s.fixed ∧ (raiseIfErrors s rs).1.fix2 = s.fix2 ∧
      (raiseIfErrors s rs).1.closed = s.closed ∧ (raiseIfErrors s rs).1.ws.length = s.ws.length ∧
      WellIdx (raiseIfErrors s rs).1.ws := by
  unfold raiseIfErrors
  simp only
  split
  · exact ⟨rfl, rfl, rfl, rfl, hw⟩
  · split
    · exact ⟨rfl, rfl, rfl, rfl, hw⟩
    · split
      · exact ⟨rfl, rfl, rfl, closePipes_length _ _, hw.closePipes _⟩
      · exact ⟨rfl, rfl, rfl, rfl, hw⟩

theorem waitCore_keeps (s : State) (c : Cmd) (timed : Bool) (hf : s.fixed = true) (hw : WellIdx s.ws) :
    (waitCore s c timed).1.fixed = true ∧ (waitCore s c timed).1.fix2 = s.fix2 ∧
      (waitCore s c timed).1.closed = s.closed ∧ (waitCore s c timed).1.ws.length = s.ws.length ∧
      WellIdx (waitCore s c timed).1.ws := by
  obtain ⟨fx, f2, ast, cl, ws, q⟩ := s
  simp only at hf hw
  subst hf
  unfold waitCore
  simp only [↓reduceIte]
  split
  · exact ⟨rfl, rfl, rfl, rfl, hw⟩
  · have hgood : Good (recvOne (inlineChk c)) := recvOne_good _ (inlineChk_fail c)
    have h1 := mapUntil_length (recvOne (inlineChk c)) ws
    have h2 := hw.mapUntil (recvOne (inlineChk c)) hgood
    rcases hm : mapUntil (recvOne (inlineChk c)) ws with ⟨ws1, e, rs, o⟩
    rw [hm] at h1 h2
    simp only at h1 h2
    cases o with
    | some o => exact ⟨rfl, rfl, rfl, h1, h2⟩
    | none =>
      simp only
      obtain ⟨r1, r2, r3, r4, r5⟩ := raiseIfErrors_keeps
        { fixed := true, fix2 := f2, astate := .default, closed := cl, ws := ws1, errq := q ++ e } rs h2
      rcases hr : raiseIfErrors
        { fixed := true, fix2 := f2, astate := .default, closed := cl, ws := ws1, errq := q ++ e } rs with ⟨s2, o2⟩
      rw [hr] at r1 r2 r3 r4 r5
      simp only at r1 r2 r3 r4 r5
      cases o2 with
      | ok =>
        simp only
        split
        · exact ⟨r1, r2, r3, r4.trans h1, r5⟩
        · exact ⟨r1, r2, r3, r4.trans h1, r5⟩
      | err x => exact ⟨r1, r2, r3, r4.trans h1, r5⟩
      | hang => exact ⟨r1, r2, r3, r4.trans h1, r5⟩


/-- does the outcome of the pending call force `terminate`? (`except mp.TimeoutError`, `except (EOFError, OSError)`) -/
def termOf : Outcome → Bool
  | .err .timeout => true
  | .err .eof => true
  | .err .brokenPipe => true
  | _ => false

theorem close_wait_idle (ie : Nat → Bool) (n : Nat) (cl : Bool) (w : World) (l : CL) :
    closeWaitStmt (sysM n ie) ⟨⟨AsyncState.DEFAULT, cl⟩, w, l⟩ = (⟨⟨AsyncState.DEFAULT, cl⟩, w, l⟩, .next) := by
  simp [closeWaitStmt, pyTry, pyIf, pySkip]

theorem close_wait_pending (s : State) (ie : Nat → Bool) (hf : s.fixed = true) (hw : WellIdx s.ws) (hc : s.closed = false)
    (ha : s.astate ≠ .default) (l : CL) :
    ((waitCore s (cmdOf s.astate) l.a0.isSome).2 = .hang →
      (closeWaitStmt (sysM s.ws.length ie) ⟨parOf s, worldOf s, l⟩).2 = .hang) ∧
    ((waitCore s (cmdOf s.astate) l.a0.isSome).2 ≠ .hang →
      closeWaitStmt (sysM s.ws.length ie) ⟨parOf s, worldOf s, l⟩ =
        (⟨parOf (waitCore s (cmdOf s.astate) l.a0.isSome).1, worldOf (waitCore s (cmdOf s.astate) l.a0.isSome).1,
          { l with a1 := l.a1 || termOf (waitCore s (cmdOf s.astate) l.a0.isSome).2 }⟩, .next)) := by
  have hd := wait_dispatch s ie hf hw hc ha l.a0
  -- the three pending states are treated alike
  have key : ∀ (g : Parent → World → Parent × World × Res Unit),
      Agree (g (parOf s) (worldOf s)) (waitCore s (cmdOf s.astate) l.a0.isSome) →
      closeWaitStmt (sysM s.ws.length ie) ⟨parOf s, worldOf s, l⟩ =
        pyTry (pyCall (fun _ => g) fun _ => pySkip)
          (fun e =>
            if VecProtoGen.pyCatches ie [ErrClass.mp_TimeoutError] e then some
              (pyAssign fun s => { s with loc := { s.loc with a1 := true } })
            else if VecProtoGen.pyCatches ie [ErrClass.EOFError, ErrClass.OSError] e then some
              (pyAssign fun s => { s with loc := { s.loc with a1 := true } })
            else if VecProtoGen.pyCatches ie [ErrClass.BaseException] e then some pySkip
            else none)
          pySkip ⟨parOf s, worldOf s, l⟩ →
      ((waitCore s (cmdOf s.astate) l.a0.isSome).2 = .hang →
        (closeWaitStmt (sysM s.ws.length ie) ⟨parOf s, worldOf s, l⟩).2 = .hang) ∧
      ((waitCore s (cmdOf s.astate) l.a0.isSome).2 ≠ .hang →
        closeWaitStmt (sysM s.ws.length ie) ⟨parOf s, worldOf s, l⟩ =
          (⟨parOf (waitCore s (cmdOf s.astate) l.a0.isSome).1, worldOf (waitCore s (cmdOf s.astate) l.a0.isSome).1,
            { l with a1 := l.a1 || termOf (waitCore s (cmdOf s.astate) l.a0.isSome).2 }⟩, .next)) := by
    intro g hag hunf
    rw [hunf]
    simp only [pyTry, pyCall]
    rcases hg : g (parOf s) (worldOf s) with ⟨p1, w1, res⟩
    rw [hg] at hag
    rcases hm : waitCore s (cmdOf s.astate) l.a0.isSome with ⟨s1, o⟩
    rw [hm] at hag
    obtain ⟨hd1, hd2⟩ := hag
    simp only at hd1 hd2
    constructor
    · intro ho
      simp only at ho
      subst ho
      simp only [resOf] at hd1
      subst hd1
      rfl
    · intro ho
      simp only at ho
      obtain ⟨e1, e2⟩ := hd2 ho
      subst e1 e2
      cases o with
      | hang => exact absurd rfl ho
      | ok =>
        simp only [resOf] at hd1
        subst hd1
        simp [termOf, pySkip]
      | err x =>
        simp only [resOf] at hd1
        subst hd1
        cases x <;> simp [termOf, excOf, VecProtoGen.pyCatches, ErrClass.mro, pyAssign, pySkip]
        all_goals (cases ie _ <;> simp [pySkip])
  cases hast : s.astate with
  | default => exact absurd hast ha
  | wreset =>
    rw [hast] at hd key
    simp only [stOf] at hd
    exact key _ hd (by simp [closeWaitStmt, pyTry, pyCall, pyIf, pyLet, pySeq, pySkip, pyRaise, parOf, hast, stOf, sysM_isExc]; rfl)
  | wstep =>
    rw [hast] at hd key
    simp only [stOf] at hd
    exact key _ hd (by simp [closeWaitStmt, pyTry, pyCall, pyIf, pyLet, pySeq, pySkip, pyRaise, parOf, hast, stOf, sysM_isExc]; rfl)
  | wcall =>
    rw [hast] at hd key
    simp only [stOf] at hd
    exact key _ hd (by simp [closeWaitStmt, pyTry, pyCall, pyIf, pyLet, pySeq, pySkip, pyRaise, parOf, hast, stOf, sysM_isExc]; rfl)


theorem closeTail_terminate (s : State) (t t' : Bool) : closeTail s t true = closeTail s t' true := by
  simp [closeTail]

/-- `close_extras` against the model's `closeOp` on an environment that is not closed yet -/
theorem gen_close_extras_eq (s : State) (ie : Nat → Bool) (hf : s.fixed = true) (hf2 : s.fix2 = true) (hw : WellIdx s.ws)
    (hc : s.closed = false) (a0 : Option Rat) (a1 : Bool) :
    ((closeOp s a0.isSome a1).2 = .hang ∧
      (VecProtoGen.close_extras (sysM s.ws.length ie) a0 a1 (parOf s) (worldOf s)).2.2 = .hang) ∨
    ((closeOp s a0.isSome a1).2 = .ok ∧
      VecProtoGen.close_extras (sysM s.ws.length ie) a0 a1 (parOf s) (worldOf s) =
        (⟨stOf (closeOp s a0.isSome a1).1.astate, false⟩, worldOf (closeOp s a0.isSome a1).1, .ok ()) ∧
      (closeOp s a0.isSome a1).1.closed = true) := by
  rw [close_extras_split]
  simp only [pyRunUnit, pySeq, pyAssign]
  -- the time budget handed to the pending wait and to the handshake
  have ha0 : (if a1 = true then some (0 : Rat) else a0).isSome = (a0.isSome || a1) := by
    cases a1 <;> cases a0 <;> rfl
  by_cases hd : s.astate = .default
  · -- nothing pending
    obtain ⟨fx, f2, ast, cl, ws, q⟩ := s
    simp only at hf hf2 hw hc hd
    subst hf hf2 hc hd
    simp only [parOf, stOf, worldOf]
    rw [close_wait_idle]
    simp only
    have ht := close_tail_eq true .default false ws q ie ⟨AsyncState.DEFAULT, false⟩ (if a1 = true then some (0 : Rat) else a0) a1 none
    simp only [ha0] at ht
    have hco : closeOp { fixed := true, fix2 := true, astate := .default, closed := false, ws := ws, errq := q } a0.isSome a1 =
        closeTail { fixed := true, fix2 := true, astate := .default, closed := false, ws := ws, errq := q } (a0.isSome || a1) a1 := by
      simp only [closeOp, Bool.false_eq_true, if_false, if_true]
      cases a1
      · simp
      · exact closeTail_terminate _ _ _
    rw [hco]
    rcases hr : closeTailStmt (sysM ws.length ie) ⟨⟨AsyncState.DEFAULT, false⟩, (ws, q),
      ⟨if a1 = true then some (0 : Rat) else a0, a1, none⟩⟩ with ⟨s1, c1⟩
    rw [hr] at ht
    rcases ht with ⟨h1, h2⟩ | ⟨h1, h2, h3, h4, h5⟩
    · left
      simp only at h2
      subst h2
      exact ⟨h1, rfl⟩
    · right
      simp only at h2 h3 h4
      subst h2
      refine ⟨h1, ?_, by rw [h5]⟩
      rw [h5]
      simp only [h3, h4, worldOf, stOf]
  · -- a call is pending: wait for it first
    obtain ⟨w1, w2⟩ := close_wait_pending s ie hf hw hc hd ⟨if a1 = true then some (0 : Rat) else a0, a1, none⟩
    simp only [ha0] at w1 w2
    obtain ⟨k1, k2, k3, k4, k5⟩ := waitCore_keeps s (cmdOf s.astate) (a0.isSome || a1) hf hw
    have hco : closeOp s a0.isSome a1 =
        (match waitCore s (cmdOf s.astate) (a0.isSome || a1) with
          | (s1, .hang) => (s1, .hang)
          | (s1, o) => closeTail s1 (a0.isSome || a1 || termOf o) (a1 || termOf o)) := by
      simp only [closeOp, hc, Bool.false_eq_true, if_false, hd, hf, if_true]
      rcases waitCore s (cmdOf s.astate) (a0.isSome || a1) with ⟨s1, o⟩
      cases o with
      | hang => rfl
      | ok => cases a1 <;> simp [termOf, closeTail_terminate s1 a0.isSome true]
      | err x =>
        cases x <;> cases a1 <;> simp [termOf] <;> first | rfl | exact closeTail_terminate _ _ _
    rw [hco]
    rcases hm : waitCore s (cmdOf s.astate) (a0.isSome || a1) with ⟨s1, o⟩
    rw [hm] at w1 w2 k1 k2 k3 k4 k5
    simp only at w1 w2 k1 k2 k3 k4 k5
    by_cases ho : o = .hang
    · subst ho
      left
      have := w1 rfl
      rcases hr : closeWaitStmt (sysM s.ws.length ie) ⟨parOf s, worldOf s, ⟨if a1 = true then some (0 : Rat) else a0, a1, none⟩⟩
        with ⟨s2, c2⟩
      rw [hr] at this
      simp only at this
      subst this
      exact ⟨rfl, rfl⟩
    · rw [w2 ho]
      have hmatch : (match (s1, o) with
          | (s1, Outcome.hang) => (s1, Outcome.hang)
          | (s1, o) => closeTail s1 (a0.isSome || a1 || termOf o) (a1 || termOf o)) =
          closeTail s1 (a0.isSome || a1 || termOf o) (a1 || termOf o) := by
        cases o with
        | hang => exact absurd rfl ho
        | ok => rfl
        | err x => rfl
      rw [hmatch]
      obtain ⟨fx, f2, ast1, cl1, ws1, q1⟩ := s1
      simp only at k1 k2 k3 k4
      rw [hf2] at k2
      rw [hc] at k3
      subst k1 k2 k3
      simp only [parOf, worldOf]
      have ht := close_tail_eq true ast1 false ws1 q1 ie ⟨stOf ast1, false⟩ (if a1 = true then some (0 : Rat) else a0)
        (a1 || termOf o) none
      rw [k4] at ht
      have hta : closeTail { fixed := true, fix2 := true, astate := ast1, closed := false, ws := ws1, errq := q1 }
            (if a1 = true then some (0 : Rat) else a0).isSome (a1 || termOf o) =
          closeTail { fixed := true, fix2 := true, astate := ast1, closed := false, ws := ws1, errq := q1 }
            (a0.isSome || a1 || termOf o) (a1 || termOf o) := by
        rw [ha0]
        cases hto : termOf o
        · simp
        · simp only [Bool.or_true]
          exact closeTail_terminate _ _ _
      simp only [hta] at ht
      rcases hr : closeTailStmt (sysM s.ws.length ie) ⟨⟨stOf ast1, false⟩, (ws1, q1),
        ⟨if a1 = true then some (0 : Rat) else a0, a1 || termOf o, none⟩⟩ with ⟨s2, c2⟩
      rw [hr] at ht
      rcases ht with ⟨h1, h2⟩ | ⟨h1, h2, h3, h4, h5⟩
      · left
        simp only at h2
        subst h2
        exact ⟨h1, rfl⟩
      · right
        simp only at h2 h3 h4
        subst h2
        refine ⟨h1, ?_, by rw [h5]⟩
        rw [h5]
        simp only [h3, h4, worldOf]


/-- `close(timeout=…, terminate=…)` -/
theorem gen_close_eq (s : State) (ie : Nat → Bool) (hf : s.fixed = true) (hf2 : s.fix2 = true) (hw : WellIdx s.ws)
    (a0 : Option Rat) (a1 : Bool) :
    Agree (VecProtoGen.close (sysM s.ws.length ie) a0 a1 (parOf s) (worldOf s)) (closeOp s a0.isSome a1) := by
  cases hc : s.closed with
  | true =>
    rw [closeOp_closed s _ _ hc]
    simp [VecProtoGen.close, pyRunUnit, pySeq, pyIf, pyReturn, parOf, hc, Agree, resOf]
  | false =>
    have hx := gen_close_extras_eq s ie hf hf2 hw hc a0 a1
    simp only [VecProtoGen.close, pyRunUnit, pySeq, pyIf, pySkip, pyCall, pyAssign, parOf, hc, Bool.false_eq_true, if_false]
    simp only [parOf, hc] at hx
    rcases hx with ⟨h1, h2⟩ | ⟨h1, h2, h3⟩
    · rcases hr : VecProtoGen.close_extras (sysM s.ws.length ie) a0 a1 ⟨stOf s.astate, false⟩ (worldOf s) with ⟨p1, w1, r1⟩
      rw [hr] at h2
      simp only at h2
      subst h2
      exact ⟨by rw [h1]; rfl, fun h => absurd h1 h⟩
    · rw [h2]
      refine ⟨by rw [h1]; rfl, fun _ => ⟨?_, rfl⟩⟩
      simp [parOf, h3]

/-- garbage collection of an environment that was not closed: `close(terminate=True)` -/
theorem gen_del_eq (s : State) (ie : Nat → Bool) (hf : s.fixed = true) (hf2 : s.fix2 = true) (hw : WellIdx s.ws) :
    Agree (VecProtoGen.dunder_del (sysM s.ws.length ie) (parOf s) (worldOf s)) (closeOp s false true) := by
  have hcl := gen_close_eq s ie hf hf2 hw none true
  cases hc : s.closed with
  | true =>
    rw [closeOp_closed s _ _ hc]
    simp [VecProtoGen.dunder_del, pyRunUnit, pySeq, pyIf, pySkip, parOf, hc, Agree, resOf]
  | false =>
    simp only [VecProtoGen.dunder_del, pyRunUnit, pySeq, pyIf, pySkip, pyCall, parOf, hc, Bool.not_false, Bool.and_self, if_true]
    simp only [parOf, hc] at hcl
    rcases hr : VecProtoGen.close (sysM s.ws.length ie) none true ⟨stOf s.astate, false⟩ (worldOf s) with ⟨p1, w1, r1⟩
    rw [hr] at hcl
    cases r1 <;> exact hcl

/-! ### one public call: the generated entry point for every `Op` of the model -/

/-- the timeout a `timed` call is made with (any value gives the same transition: see `gen_step_timeout_irrelevant`) -/
def tmoOf (timed : Bool) : Option Rat := if timed then some 0 else none

/-- the generated method an `Op` of the model stands for (any oracle) -/
def genCall {W R Q : Type} (S : Sys W R Q) (tmo : Bool → Option Rat) : Op → Parent → W → Parent × W × Res Unit
  | .resetAsync => VecProtoGen.reset_async S
  | .stepAsync => VecProtoGen.step_async S
  | .callAsync => VecProtoGen.call_async S
  | .resetWait t => VecProtoGen.reset_wait S (tmo t)
  | .stepWait t => VecProtoGen.step_wait S (tmo t)
  | .callWait t => VecProtoGen.call_wait S (tmo t)
  | .setAttr => VecProtoGen.set_attr S
  | .close t k => VecProtoGen.close S (tmo t) k
  | .resetSync => VecProtoGen.reset S
  | .stepSync => VecProtoGen.step S
  | .callSync => VecProtoGen.call S

/-- … with the model's scripted workers as the oracle -/
abbrev genStep (ie : Nat → Bool) (n : Nat) (tmo : Bool → Option Rat) : Op → Parent → World → Parent × World × Res Unit :=
  genCall (sysM n ie) tmo

/-- EVERY generated entry point equals the model's transition (repaired variant; any timeout value for a timed call) -/
theorem gen_step_eq (s : State) (ie : Nat → Bool) (hf : s.fixed = true) (hf2 : s.fix2 = true) (hw : WellIdx s.ws)
    (tmo : Bool → Option Rat) (htmo : ∀ b, (tmo b).isSome = b) (op : Op) :
    Agree (genStep ie s.ws.length tmo op (parOf s) (worldOf s)) (s.step op) := by
  cases op with
  | resetAsync => exact gen_reset_async_eq s ie
  | stepAsync => exact gen_step_async_eq s ie
  | callAsync => exact gen_call_async_eq s ie
  | resetWait t => have := gen_reset_wait_eq s ie hf hw (tmo t); rwa [htmo] at this
  | stepWait t => have := gen_step_wait_eq s ie hf hw (tmo t); rwa [htmo] at this
  | callWait t => have := gen_call_wait_eq s ie hf hw (tmo t); rwa [htmo] at this
  | setAttr => exact gen_set_attr_eq s ie hf hw
  | close t k => have := gen_close_eq s ie hf hf2 hw (tmo t) k; rwa [htmo] at this
  | resetSync => exact gen_reset_eq s ie hf hw
  | stepSync => exact gen_step_eq_sync s ie hf hw
  | callSync => exact gen_call_eq s ie hf hw


/-! ### worker `i` stays at position `i` -/

theorem mapUntil_idx (f : Worker → StepRes) (hf : Good f) (ws : List Worker) :
    (mapUntil f ws).1.map Worker.idx = ws.map Worker.idx :=
  (mapUntil_lstep f hf ws).rel.map_idx

theorem closePipes_idx : ∀ (is : List Nat) (ws : List Worker), (closePipes is ws).map Worker.idx = ws.map Worker.idx := by
  intro is
  induction is with
  | nil => intro ws; rfl
  | cons i is ih =>
    intro ws
    simp only [closePipes, List.foldl_cons] at ih ⊢
    rw [ih]
    simp only [closePipe, List.map_map]
    apply List.map_congr_left
    intro w _
    simp only [Function.comp]
    split <;> rfl

theorem raiseIfErrors_idx (s : State) (rs : List Reply) : (raiseIfErrors s rs).1.ws.map Worker.idx = s.ws.map Worker.idx := by
  unfold raiseIfErrors
  simp only
  split
  · rfl
  · split
    · rfl
    · split
      · exact closePipes_idx _ _
      · rfl

theorem waitCore_idx (s : State) (c : Cmd) (timed : Bool) : (waitCore s c timed).1.ws.map Worker.idx = s.ws.map Worker.idx := by
  unfold waitCore
  split
  · rfl
  · have hgood : Good (recvOne (inlineChk c)) := recvOne_good _ (inlineChk_fail c)
    have hs0 : (if s.fixed = true then { s with astate := AState.default } else s).ws = s.ws := by split <;> rfl
    simp only
    rw [hs0]
    have h1 := mapUntil_idx _ hgood s.ws
    rcases hm : mapUntil (recvOne (inlineChk c)) s.ws with ⟨ws1, e, rs, o⟩
    rw [hm] at h1
    simp only at h1
    cases o with
    | some o => exact h1
    | none =>
      simp only
      have h2 := raiseIfErrors_idx
        { fixed := (if s.fixed = true then { s with astate := AState.default } else s).fixed,
          fix2 := (if s.fixed = true then { s with astate := AState.default } else s).fix2,
          astate := (if s.fixed = true then { s with astate := AState.default } else s).astate,
          closed := (if s.fixed = true then { s with astate := AState.default } else s).closed,
          ws := ws1, errq := (if s.fixed = true then { s with astate := AState.default } else s).errq ++ e } rs
      rcases hr : raiseIfErrors
        { fixed := (if s.fixed = true then { s with astate := AState.default } else s).fixed,
          fix2 := (if s.fixed = true then { s with astate := AState.default } else s).fix2,
          astate := (if s.fixed = true then { s with astate := AState.default } else s).astate,
          closed := (if s.fixed = true then { s with astate := AState.default } else s).closed,
          ws := ws1, errq := (if s.fixed = true then { s with astate := AState.default } else s).errq ++ e } rs with ⟨s2, o2⟩
      rw [hr] at h2
      simp only at h2
      cases o2 with
      | ok => simp only; split <;> exact h2.trans h1
      | err x => exact h2.trans h1
      | hang => exact h2.trans h1

theorem asyncOp_idx (s : State) (c : Cmd) (a : AState) : (asyncOp s c a).1.ws.map Worker.idx = s.ws.map Worker.idx := by
  unfold asyncOp
  split
  · rfl
  · split
    · rfl
    · have h1 := mapUntil_idx _ (sendOne_good c) s.ws
      rcases hm : mapUntil (sendOne c) s.ws with ⟨ws1, e, rs, o⟩
      rw [hm] at h1
      cases o <;> exact h1

theorem waitOp_idx (s : State) (a : AState) (t : Bool) : (waitOp s a t).1.ws.map Worker.idx = s.ws.map Worker.idx := by
  unfold waitOp
  split
  · rfl
  · split
    · rfl
    · exact waitCore_idx s _ t

theorem terminateAll_idx (ws : List Worker) : (terminateAll ws).map Worker.idx = ws.map Worker.idx := by
  simp [terminateAll, List.map_map, Function.comp_def]

theorem closeFail_idx (s : State) (o : Outcome) : (closeFail s o).1.ws.map Worker.idx = s.ws.map Worker.idx := by
  unfold closeFail
  cases o with
  | hang => rfl
  | ok => simp only; split <;> first | exact terminateAll_idx _ | rfl
  | err x => simp only; split <;> first | exact terminateAll_idx _ | rfl

theorem closeTail_idx (s : State) (t k : Bool) : (closeTail s t k).1.ws.map Worker.idx = s.ws.map Worker.idx := by
  unfold closeTail
  split
  · exact terminateAll_idx _
  · have h1 := mapUntil_idx _ sendCloseOne_good s.ws
    rcases hm1 : mapUntil sendCloseOne s.ws with ⟨ws1, e1, rs1, o1⟩
    rw [hm1] at h1
    simp only at h1
    cases o1 with
    | some o => exact (closeFail_idx _ o).trans h1
    | none =>
      simp only
      split
      · have h2 := mapUntil_idx _ recvReadyOne_good ws1
        rcases hm2 : mapUntil recvReadyOne ws1 with ⟨ws2, e2, rs2, o2⟩
        rw [hm2] at h2
        simp only at h2
        cases o2 with
        | none => exact (terminateAll_idx _).trans (h2.trans h1)
        | some o =>
          cases o with
          | hang => exact h2.trans h1
          | ok => exact (terminateAll_idx _).trans (h2.trans h1)
          | err x => exact (terminateAll_idx _).trans (h2.trans h1)
      · have h2 := mapUntil_idx _ recvCloseOne_good ws1
        rcases hm2 : mapUntil recvCloseOne ws1 with ⟨ws2, e2, rs2, o2⟩
        rw [hm2] at h2
        simp only at h2
        cases o2 with
        | some o => exact (closeFail_idx _ o).trans (h2.trans h1)
        | none =>
          simp only
          have h3 := mapUntil_idx _ joinOne_good ws2
          rcases hm3 : mapUntil joinOne ws2 with ⟨ws3, e3, rs3, o3⟩
          rw [hm3] at h3
          simp only at h3
          cases o3 <;> exact h3.trans (h2.trans h1)

theorem step_idx (s : State) (op : Op) : (s.step op).1.ws.map Worker.idx = s.ws.map Worker.idx := by
  cases op with
  | resetAsync => exact asyncOp_idx s _ _
  | stepAsync => exact asyncOp_idx s _ _
  | callAsync => exact asyncOp_idx s _ _
  | resetWait t => exact waitOp_idx s _ t
  | stepWait t => exact waitOp_idx s _ t
  | callWait t => exact waitOp_idx s _ t
  | setAttr =>
    show (setAttrOp s).1.ws.map Worker.idx = _
    unfold setAttrOp
    split
    · rfl
    · split
      · rfl
      · have h1 := mapUntil_idx _ (sendOne_good .setattr) s.ws
        rcases hm : mapUntil (sendOne .setattr) s.ws with ⟨ws1, e, rs, o⟩
        rw [hm] at h1
        cases o with
        | some o => exact h1
        | none => exact (waitCore_idx _ _ _).trans h1
  | close t k =>
    show (closeOp s t k).1.ws.map Worker.idx = _
    unfold closeOp
    split
    · rfl
    · split
      · exact closeTail_idx s t k
      · have h1 := waitCore_idx s (cmdOf s.astate) (t || k)
        rcases hm : waitCore s (cmdOf s.astate) (t || k) with ⟨s1, o⟩
        rw [hm] at h1
        simp only at h1
        cases o with
        | ok => exact (closeTail_idx _ _ _).trans h1
        | hang => exact h1
        | err x =>
          cases x <;> simp only <;> first
            | exact (closeTail_idx _ _ _).trans h1
            | (split <;> first | exact (closeTail_idx _ _ _).trans h1 | exact h1)
  | resetSync =>
    show (syncOp s _ _).1.ws.map Worker.idx = _
    unfold syncOp
    have h1 := asyncOp_idx s .reset .wreset
    rcases hm : asyncOp s .reset .wreset with ⟨s1, o⟩
    rw [hm] at h1
    cases o <;> first | exact (waitOp_idx _ _ _).trans h1 | exact h1
  | stepSync =>
    show (syncOp s _ _).1.ws.map Worker.idx = _
    unfold syncOp
    have h1 := asyncOp_idx s .step .wstep
    rcases hm : asyncOp s .step .wstep with ⟨s1, o⟩
    rw [hm] at h1
    cases o <;> first | exact (waitOp_idx _ _ _).trans h1 | exact h1
  | callSync =>
    show (syncOp s _ _).1.ws.map Worker.idx = _
    unfold syncOp
    have h1 := asyncOp_idx s .call .wcall
    rcases hm : asyncOp s .call .wcall with ⟨s1, o⟩
    rw [hm] at h1
    cases o <;> first | exact (waitOp_idx _ _ _).trans h1 | exact h1

theorem runOps_idx : ∀ (ops : List Op) (s : State), (s.runOps ops).1.ws.map Worker.idx = s.ws.map Worker.idx := by
  intro ops
  induction ops with
  | nil => intro s; rfl
  | cons op ops ih =>
    intro s
    unfold State.runOps
    have h1 := step_idx s op
    rcases hm : s.step op with ⟨s1, o⟩
    rw [hm] at h1
    cases o with
    | hang => exact h1
    | ok => simp only; rcases hr : s1.runOps ops with ⟨s2, os⟩; have := ih s1; rw [hr] at this; exact this.trans h1
    | err x => simp only; rcases hr : s1.runOps ops with ⟨s2, os⟩; have := ih s1; rw [hr] at this; exact this.trans h1

theorem wellIdx_of_range {ws : List Worker} (h : ws.map Worker.idx = List.range ws.length) : WellIdx ws := by
  intro i hi
  have : (ws.map Worker.idx)[i]'(by simpa using hi) = (List.range ws.length)[i]'(by simpa using hi) := by simp only [h]
  simpa using this

/-- every configuration reachable from a fresh environment has worker `i` at position `i` -/
theorem reach_wellIdx (fixed : Bool) (n : Nat) (script : List (Nat × FaultAt)) (ops : List Op) (fix2 : Bool) :
    WellIdx ((init fixed n script fix2).runOps ops).1.ws := by
  have h0 : (init fixed n script fix2).ws.map Worker.idx = List.range n := mkWorkers_idx n script
  have h1 := runOps_idx ops (init fixed n script fix2)
  apply wellIdx_of_range
  rw [h1, h0]
  have : ((init fixed n script fix2).runOps ops).1.ws.length = n := by
    have := congrArg List.length (h1.trans h0)
    simpa using this
  rw [this]

end VecProto
