import Mathlib.Data.List.Nodup
import Proofs.VecProtoLoop
/-!
  Proofs/VecProtoInv.lean — the protocol invariant of the repaired code and its preservation.
-/
namespace VecProto

/-- bookkeeping that every reachable configuration satisfies (either variant of the code) -/
structure Base (ws : List Worker) (q : ErrQ) : Prop where
  nodup : (ws.map Worker.idx).Nodup
  pipe : ∀ w ∈ ws, w.pipeOpen = false → w.st = .exited
  hb : ∀ w ∈ ws, w.st = .hung → w.backlog ≠ []
  fails : totalFail ws ≤ q.length
  errs : ∀ p ∈ q, ∃ w ∈ ws, w.idx = p.1 ∧ w.st = .exited

theorem Base.step {ws ws' : List Worker} {q e : ErrQ} {k : Nat} (hb : Base ws q) (hl : LStep ws ws' e k) :
    Base ws' (q ++ e) ∧ totalFail ws' + k ≤ (q ++ e).length := by
  have hlen : totalFail ws' + k ≤ (q ++ e).length := by
    have := hl.fails; have := hb.fails; simp only [List.length_append]; omega
  refine ⟨⟨?_, ?_, ?_, by omega, ?_⟩, hlen⟩
  · rw [hl.rel.map_idx]; exact hb.nodup
  · intro w1 hw1 hp
    obtain ⟨w, hw, hr⟩ := hl.rel.mem_right w1 hw1
    rcases hr.2.2.1 hp with h | h
    · exact hr.2.1 (hb.pipe w hw h)
    · exact h
  · intro w1 hw1
    obtain ⟨w, hw, hr⟩ := hl.rel.mem_right w1 hw1
    exact hr.2.2.2 (hb.hb w hw)
  · intro p hp
    rcases List.mem_append.mp hp with hp | hp
    · obtain ⟨w, hw, hi, hs⟩ := hb.errs p hp
      obtain ⟨w1, hw1, hr⟩ := hl.rel.mem_left w hw
      exact ⟨w1, hw1, hr.1.trans hi, hr.2.1 hs⟩
    · exact hl.errs p hp

theorem Base.mono {ws : List Worker} {q q' : ErrQ} (hb : Base ws q) (hsub : ∀ p ∈ q', p ∈ q)
    (hlen : totalFail ws ≤ q'.length) : Base ws q' :=
  ⟨hb.nodup, hb.pipe, hb.hb, hlen, fun p hp => hb.errs p (hsub p hp)⟩

/-- the worker with a given index is unique -/
theorem Base.unique {ws : List Worker} {q : ErrQ} (hb : Base ws q) {a b : Worker} (ha : a ∈ ws) (hb' : b ∈ ws)
    (h : a.idx = b.idx) : a = b :=
  List.inj_on_of_nodup_map hb.nodup ha hb' h

/-! ### pointwise updates (`terminate()`, `pipe.close()`) -/

theorem Rel.map_mem (g : Worker → Worker) : ∀ ws : List Worker, (∀ w ∈ ws, R w (g w)) → Rel ws (ws.map g)
  | [], _ => trivial
  | w :: ws, h => ⟨h w List.mem_cons_self, Rel.map_mem g ws (fun w' hw' => h w' (List.mem_cons_of_mem _ hw'))⟩

theorem totalFail_map_mem (g : Worker → Worker) :
    ∀ ws : List Worker, (∀ w ∈ ws, (g w).inbox = w.inbox) → totalFail (ws.map g) = totalFail ws
  | [], _ => rfl
  | w :: ws, h => by
    simp [totalFail, h w List.mem_cons_self,
      totalFail_map_mem g ws (fun w' hw' => h w' (List.mem_cons_of_mem _ hw'))]

theorem lstep_map (g : Worker → Worker) (ws : List Worker) (h : ∀ w ∈ ws, R w (g w) ∧ (g w).inbox = w.inbox) :
    LStep ws (ws.map g) [] 0 :=
  ⟨Rel.map_mem g ws (fun w hw => (h w hw).1), by rw [totalFail_map_mem g ws (fun w hw => (h w hw).2)]; simp, by simp⟩

theorem terminateAll_lstep (ws : List Worker) : LStep ws (terminateAll ws) [] 0 := by
  unfold terminateAll
  exact lstep_map _ ws (fun w _ => ⟨⟨rfl, fun _ => rfl, fun _ => Or.inr rfl, fun _ h => by simp at h⟩, rfl⟩)

theorem terminateAll_exited (ws : List Worker) : ∀ w ∈ terminateAll ws, w.st = .exited := by
  intro w hw
  unfold terminateAll at hw
  obtain ⟨w0, _, rfl⟩ := List.mem_map.mp hw
  rfl

theorem closePipe_lstep {ws : List Worker} {q : ErrQ} (hb : Base ws q) (i : Nat)
    (hi : ∃ w ∈ ws, w.idx = i ∧ w.st = .exited) : LStep ws (closePipe i ws) [] 0 := by
  unfold closePipe
  refine lstep_map _ ws (fun w hw => ?_)
  obtain ⟨w0, hw0, hi0, hs0⟩ := hi
  by_cases h : w.idx = i
  · have : w = w0 := hb.unique hw hw0 (h.trans hi0.symm)
    subst this
    rw [if_pos h]
    exact ⟨⟨rfl, id, fun _ => Or.inr hs0, id⟩, rfl⟩
  · rw [if_neg h]
    exact ⟨R.refl w, rfl⟩

theorem closePipes_lstep : ∀ (is : List Nat) {ws : List Worker} {q : ErrQ}, Base ws q →
    (∀ i ∈ is, ∃ w ∈ ws, w.idx = i ∧ w.st = .exited) → LStep ws (closePipes is ws) [] 0
  | [], ws, _, _, _ => LStep.refl ws
  | i :: is, ws, q, hb, h => by
    have h1 := closePipe_lstep hb i (h i List.mem_cons_self)
    have hb1 := (hb.step h1).1
    have h2 : ∀ j ∈ is, ∃ w ∈ closePipe i ws, w.idx = j ∧ w.st = .exited := by
      intro j hj
      obtain ⟨w, hw, hwi, hws⟩ := h j (List.mem_cons_of_mem _ hj)
      obtain ⟨w1, hw1, hr⟩ := h1.rel.mem_left w hw
      exact ⟨w1, hw1, hr.1.trans hwi, hr.2.1 hws⟩
    have := h1.trans (closePipes_lstep is hb1 h2)
    simpa [closePipes] using this

/-! ### no worker sleeps for good -/

/-- no worker is (or can get) stuck for good: no script contains a `stuck` fault -/
def NS (ws : List Worker) : Prop := ∀ w ∈ ws, NoStuck w

theorem NS.mapUntil {f : Worker → StepRes} (hf : KeepsNoStuck f) {ws : List Worker} (h : NS ws) :
    NS (mapUntil f ws).1 := mapUntil_preserves f NoStuck hf ws h

theorem NS.map {ws : List Worker} (h : NS ws) (g : Worker → Worker)
    (hg : ∀ w, (g w).forever = w.forever ∧ (g w).faults = w.faults) : NS (ws.map g) := by
  intro w1 hw1
  obtain ⟨w, hw, rfl⟩ := List.mem_map.mp hw1
  have := h w hw
  exact ⟨by rw [(hg w).1]; exact this.1, by rw [(hg w).2]; exact this.2⟩

theorem NS.terminateAll {ws : List Worker} (h : NS ws) : NS (terminateAll ws) :=
  h.map _ (fun _ => ⟨rfl, rfl⟩)

theorem NS.closePipe {ws : List Worker} (h : NS ws) (i : Nat) : NS (closePipe i ws) :=
  h.map _ (fun w => by by_cases hi : w.idx = i <;> simp [hi])

theorem NS.closePipes : ∀ (is : List Nat) {ws : List Worker}, NS ws → NS (closePipes is ws)
  | [], _, h => h
  | i :: is, _, h => by
    have := NS.closePipes is (h.closePipe i)
    simpa [VecProto.closePipes] using this

theorem raiseIfErrors_ns (s : State) (rs : List Reply) (h : NS s.ws) : NS (raiseIfErrors s rs).1.ws := by
  unfold raiseIfErrors
  dsimp only
  split
  · exact h
  · split
    · exact h
    · split
      · exact NS.closePipes _ h
      · exact h

/-! ### `_raise_if_errors` -/

theorem raiseIfErrors_spec (s : State) (rs : List Reply) (hb : Base s.ws s.errq)
    (hlen : totalFail s.ws + countFail rs ≤ s.errq.length) :
    (raiseIfErrors s rs).2 ≠ .hang ∧ Base (raiseIfErrors s rs).1.ws (raiseIfErrors s rs).1.errq ∧
    (raiseIfErrors s rs).1.fixed = s.fixed ∧ (raiseIfErrors s rs).1.closed = s.closed ∧
    ((raiseIfErrors s rs).2 = .ok → (raiseIfErrors s rs).1 = s) ∧
    ((raiseIfErrors s rs).2 ≠ .ok → (raiseIfErrors s rs).1.astate = .default) := by
  unfold raiseIfErrors
  simp only
  by_cases h0 : countFail rs = 0
  · simp [h0, hb]
  · have h1 : ¬ s.errq.length < countFail rs := by omega
    simp only [h0, h1, if_false]
    have hne : (s.errq.take (countFail rs)) ≠ [] := by
      intro h
      have := congrArg List.length h
      simp only [List.length_take, List.length_nil] at this
      omega
    cases hgl : (s.errq.take (countFail rs)).getLast? with
    | none => exact absurd (List.getLast?_eq_none_iff.mp hgl) hne
    | some p =>
      simp only
      have hl := closePipes_lstep ((s.errq.take (countFail rs)).map (·.1)) hb (by
        intro i hi
        obtain ⟨p', hp', rfl⟩ := List.mem_map.mp hi
        exact hb.errs p' (List.mem_of_mem_take hp'))
      have hb1 := (hb.step hl).1
      rw [List.append_nil] at hb1
      have hf := hl.fails
      refine ⟨by simp, ?_, trivial, trivial, by simp, by simp⟩
      refine hb1.mono (fun p' hp' => List.mem_of_mem_drop hp') ?_
      simp only [List.length_drop]
      simp only [List.length_nil] at hf
      omega

/-! ### waits -/

/-- every pipe is open and every live worker has a reply waiting -/
def Replied (ws : List Worker) : Prop := ∀ w ∈ ws, w.pipeOpen = true ∧ (w.st = .alive → w.inbox ≠ [])

theorem waitCore_ns (s : State) (c : Cmd) (timed : Bool) (h : NS s.ws) : NS (waitCore s c timed).1.ws := by
  unfold waitCore
  split
  · exact h
  · dsimp only
    have h0 : NS (if s.fixed = true then { s with astate := .default } else s).ws := by
      split <;> exact h
    generalize (if s.fixed = true then { s with astate := .default } else s) = s0 at h0 ⊢
    have h1 := NS.mapUntil (recvOne_nostuck (inlineChk c)) h0
    rcases hm : mapUntil (recvOne (inlineChk c)) s0.ws with ⟨ws1, e, rs, o⟩
    rw [hm] at h1
    cases o with
    | some o => exact h1
    | none =>
      dsimp only
      have h2 := raiseIfErrors_ns { s0 with ws := ws1, errq := s0.errq ++ e } rs h1
      rcases hr : raiseIfErrors { s0 with ws := ws1, errq := s0.errq ++ e } rs with ⟨s2, o2⟩
      rw [hr] at h2
      cases o2 with
      | ok => dsimp only; split <;> exact h2
      | err x => exact h2
      | hang => exact h2

theorem waitCore_spec (s : State) (c : Cmd) (timed : Bool) (hf : s.fixed = true) (hb : Base s.ws s.errq)
    (hpre : Replied s.ws) (hns : NS s.ws) :
    (waitCore s c timed).2 ≠ .hang ∧ Base (waitCore s c timed).1.ws (waitCore s c timed).1.errq ∧
    (waitCore s c timed).1.astate = .default ∧ (waitCore s c timed).1.fixed = true ∧
    (waitCore s c timed).1.closed = s.closed := by
  unfold waitCore
  split
  · simp [hb, hf]
  · skip
    dsimp only
    rcases hm : mapUntil (recvOne (inlineChk c)) s.ws with ⟨ws1, e, rs, o⟩
    have hl := mapUntil_lstep _ (recvOne_good _ (inlineChk_fail c)) s.ws
    have hnh := mapUntil_stop_ne (recvOne (inlineChk c)) .hang s.ws
      (fun w hw => recvOne_no_hang _ w (hpre w hw).1 (hpre w hw).2 (hb.hb w hw) (hns w hw).1)
    rw [hm] at hl hnh
    obtain ⟨hb1, hlen⟩ := hb.step hl
    dsimp only at hb1 hlen hnh
    cases o with
    | some o =>
      dsimp only
      exact ⟨fun h => hnh (by rw [h]), hb1, rfl, hf, rfl⟩
    | none =>
      dsimp only
      have hsp := raiseIfErrors_spec { s with astate := .default, ws := ws1, errq := s.errq ++ e } rs hb1 hlen
      rcases hr : raiseIfErrors { s with astate := .default, ws := ws1, errq := s.errq ++ e } rs with ⟨s2, o2⟩
      rw [hr] at hsp
      obtain ⟨h1, h2, h3, h4, h5, h6⟩ := hsp
      dsimp only at h1 h2 h3 h4 h5 h6
      cases o2 with
      | ok =>
        dsimp only
        have := h5 rfl
        subst this
        split
        · exact ⟨by simp, h2, rfl, hf, rfl⟩
        · exact ⟨by simp, h2, rfl, hf, rfl⟩
      | err x => exact ⟨by simp, h2, h6 (by simp), h3.trans hf, h4⟩
      | hang => exact absurd rfl h1

/-! ### the invariant -/

structure Inv (s : State) : Prop where
  fixed : s.fixed = true
  base : Base s.ws s.errq
  waiting : s.closed = false → s.astate ≠ .default → Replied s.ws
  closed : s.closed = true → ∀ w ∈ s.ws, w.st = .exited
  ns : NS s.ws

theorem sendOne_no_hang (c : Cmd) (w : Worker) : (sendOne c w).2.2.2 ≠ some .hang := by
  unfold sendOne
  split
  · simp
  · split <;> simp

theorem sendCloseOne_no_hang (w : Worker) : (sendCloseOne w).2.2.2 ≠ some .hang := by
  unfold sendCloseOne
  split
  · simp
  · exact sendOne_no_hang _ w

theorem sendAll_replied (c : Cmd) (ws : List Worker) (h : (mapUntil (sendOne c) ws).2.2.2 = none) :
    Replied (mapUntil (sendOne c) ws).1 :=
  mapUntil_all_of_none (sendOne c) (fun _ => True) _ (fun w _ hn => sendOne_none c w hn) ws (fun _ _ => trivial) h

theorem asyncOp_spec (s : State) (c : Cmd) (t : AState) (hi : Inv s) :
    Inv (asyncOp s c t).1 ∧ (asyncOp s c t).2 ≠ .hang := by
  unfold asyncOp
  split
  · exact ⟨hi, by simp⟩
  · split
    · exact ⟨hi, by simp⟩
    · rename_i hc hd
      have hd' : s.astate = .default := by simpa using hd
      have hc' : s.closed = false := by simpa using hc
      rcases hm : mapUntil (sendOne c) s.ws with ⟨ws1, e, rs, o⟩
      have hl := mapUntil_lstep _ (sendOne_good c) s.ws
      have hnh := mapUntil_stop_ne (sendOne c) .hang s.ws (fun w _ => sendOne_no_hang c w)
      have hrep := sendAll_replied c s.ws
      have hns1 := NS.mapUntil (sendOne_nostuck c) hi.ns
      rw [hm] at hl hnh hrep hns1
      obtain ⟨hb1, _⟩ := hi.base.step hl
      cases o with
      | some o =>
        dsimp only
        refine ⟨⟨hi.fixed, hb1, fun _ h => absurd hd' h, fun h => ?_, hns1⟩, fun h => hnh (by rw [h])⟩
        rw [hc'] at h; cases h
      | none =>
        dsimp only
        refine ⟨⟨hi.fixed, hb1, fun _ _ => hrep rfl, fun h => ?_, hns1⟩, by simp⟩
        rw [hc'] at h; cases h

theorem waitOp_spec (s : State) (a : AState) (timed : Bool) (hi : Inv s) (hne : a ≠ .default) :
    Inv (waitOp s a timed).1 ∧ (waitOp s a timed).2 ≠ .hang := by
  unfold waitOp
  split
  · exact ⟨hi, by simp⟩
  · split
    · exact ⟨hi, by simp⟩
    · rename_i hc hd
      have hc' : s.closed = false := by simpa using hc
      have hd' : s.astate = a := by simpa using hd
      have hrep := hi.waiting hc' (hd' ▸ hne)
      obtain ⟨h1, h2, h3, h4, h5⟩ := waitCore_spec s (cmdOf a) timed hi.fixed hi.base hrep hi.ns
      refine ⟨⟨h4, h2, fun _ h => absurd h3 h, fun h => ?_, waitCore_ns s _ timed hi.ns⟩, h1⟩
      rw [h5, hc'] at h; cases h

theorem setAttrOp_spec (s : State) (hi : Inv s) : Inv (setAttrOp s).1 ∧ (setAttrOp s).2 ≠ .hang := by
  unfold setAttrOp
  split
  · exact ⟨hi, by simp⟩
  · split
    · exact ⟨hi, by simp⟩
    · rename_i hc hd
      have hd' : s.astate = .default := by simpa using hd
      have hc' : s.closed = false := by simpa using hc
      rcases hm : mapUntil (sendOne .setattr) s.ws with ⟨ws1, e, rs, o⟩
      have hl := mapUntil_lstep _ (sendOne_good .setattr) s.ws
      have hnh := mapUntil_stop_ne (sendOne .setattr) .hang s.ws (fun w _ => sendOne_no_hang _ w)
      have hrep := sendAll_replied .setattr s.ws
      have hns1 := NS.mapUntil (sendOne_nostuck .setattr) hi.ns
      rw [hm] at hl hnh hrep hns1
      obtain ⟨hb1, _⟩ := hi.base.step hl
      cases o with
      | some o =>
        dsimp only
        refine ⟨⟨hi.fixed, hb1, fun _ h => absurd hd' h, fun h => ?_, hns1⟩, fun h => hnh (by rw [h])⟩
        rw [hc'] at h; cases h
      | none =>
        dsimp only
        obtain ⟨h1, h2, h3, h4, h5⟩ := waitCore_spec { s with ws := ws1, errq := s.errq ++ e } .setattr false
          hi.fixed hb1 (hrep rfl) hns1
        refine ⟨⟨h4, h2, fun _ h => absurd h3 h, fun h => ?_,
          waitCore_ns { s with ws := ws1, errq := s.errq ++ e } .setattr false hns1⟩, h1⟩
        rw [h5] at h; dsimp only at h; rw [hc'] at h; cases h

/-! ### close -/

theorem mapUntil_none_of_all (f : Worker → StepRes) :
    ∀ ws, (∀ w ∈ ws, (f w).2.2.2 = none) → (mapUntil f ws).2.2.2 = none := by
  intro ws
  induction ws with
  | nil => intro _; rfl
  | cons w ws ih =>
    intro h
    unfold mapUntil
    have hw := h w List.mem_cons_self
    rcases hfw : f w with ⟨w0, e1, r, o⟩
    rw [hfw] at hw
    dsimp only at hw
    subst hw
    dsimp only
    rcases hm : mapUntil f ws with ⟨ws1, e2, rs, o2⟩
    have := ih (fun w' hw' => h w' (List.mem_cons_of_mem _ hw'))
    rw [hm] at this
    exact this

/-- what `close()` must achieve -/
structure Closed (s s' : State) (o : Outcome) : Prop where
  ok : o = .ok
  closed : s'.closed = true
  dead : ∀ w ∈ s'.ws, w.st = .exited
  base : Base s'.ws s'.errq
  fixed : s'.fixed = s.fixed
  astate : s'.astate = s.astate
  ns : NS s'.ws

theorem terminate_closed (s : State) (hb : Base s.ws s.errq) (hns : NS s.ws) :
    Closed s { s with ws := terminateAll s.ws, closed := true } .ok := by
  have := (hb.step (terminateAll_lstep s.ws)).1
  rw [List.append_nil] at this
  exact ⟨rfl, rfl, terminateAll_exited s.ws, this, rfl, rfl, hns.terminateAll⟩

theorem closeFail_closed (s : State) (o : Outcome) (hf : s.fixed = true) (hb : Base s.ws s.errq) (ho : o ≠ .hang)
    (hns : NS s.ws) : Closed s (closeFail s o).1 (closeFail s o).2 := by
  unfold closeFail
  cases o with
  | hang => exact absurd rfl ho
  | ok => dsimp only; rw [if_pos hf]; exact terminate_closed s hb hns
  | err x => dsimp only; rw [if_pos hf]; exact terminate_closed s hb hns

theorem Closed.transfer {s s' x : State} {o : Outcome} (h : Closed s' x o) (hf : s'.fixed = s.fixed)
    (ha : s'.astate = s.astate) : Closed s x o :=
  ⟨h.ok, h.closed, h.dead, h.base, h.fixed.trans hf, h.astate.trans ha, h.ns⟩

theorem ready_recv (w : Worker) (hr : w.ready = true) :
    (recvOne (fun _ => none) w).2.2.2 = none ∨ (recvOne (fun _ => none) w).2.2.2 = some (.err .eof) := by
  unfold Worker.ready at hr
  have hp : w.pipeOpen = true := by
    cases h : w.pipeOpen <;> simp [h] at hr ⊢
  unfold recvOne Worker.recv
  simp only [hp, Bool.true_eq_false, if_false]
  cases hi : w.inbox with
  | cons r rest => exact Or.inl rfl
  | nil =>
    have : w.st = .exited := by simpa [hp, hi] using hr
    simp [this]

theorem recvReadyOne_no_hang (w : Worker) : (recvReadyOne w).2.2.2 ≠ some .hang := by
  unfold recvReadyOne
  split
  · simp
  · split
    · simp
    · rename_i _ hr
      have hr' : w.ready = true := by simpa using hr
      rcases ready_recv w hr' with h | h <;> rw [h] <;> simp

theorem recvReadyOne_good : Good recvReadyOne := by
  intro w
  unfold recvReadyOne
  split
  · simpa using WStep.refl w
  · split
    · simpa using WStep.refl w
    · exact recvOne_good _ rfl w

theorem recvReadyOne_nostuck : KeepsNoStuck recvReadyOne := by
  intro w h
  unfold recvReadyOne
  split
  · exact h
  · split
    · exact h
    · exact recvOne_nostuck _ w h

theorem closeTail_spec (s : State) (timed terminate : Bool) (hf : s.fixed = true) (hb : Base s.ws s.errq)
    (hns : NS s.ws) : Closed s (closeTail s timed terminate).1 (closeTail s timed terminate).2 := by
  unfold closeTail
  split
  · exact terminate_closed s hb hns
  · -- send `close`
    rcases hm1 : mapUntil sendCloseOne s.ws with ⟨ws1, e1, rs1, o1⟩
    have hl1 := mapUntil_lstep _ sendCloseOne_good s.ws
    have hnh1 := mapUntil_stop_ne sendCloseOne .hang s.ws (fun w _ => sendCloseOne_no_hang w)
    have hjr1 := mapUntil_all_of_none sendCloseOne (fun w => w.pipeOpen = false → w.st = .exited) JoinReady
      (fun w hp hn => sendCloseOne_none w hp hn) s.ws hb.pipe
    have hns1 := NS.mapUntil sendCloseOne_nostuck hns
    rw [hm1] at hl1 hnh1 hjr1 hns1
    obtain ⟨hb1, _⟩ := hb.step hl1
    dsimp only at hb1 hnh1 hjr1 hns1
    cases o1 with
    | some o =>
      dsimp only
      exact (closeFail_closed { s with ws := ws1, errq := s.errq ++ e1 } o hf hb1
        (fun h => hnh1 (by rw [h])) hns1).transfer rfl rfl
    | none =>
      dsimp only
      have hjr1 := hjr1 rfl
      split
      · -- `fix2` with a timeout: poll before every recv, whoever is left is terminated
        rcases hm2 : mapUntil recvReadyOne ws1 with ⟨ws2, e2, rs2, o2⟩
        have hl2 := mapUntil_lstep _ recvReadyOne_good ws1
        have hnh2 := mapUntil_stop_ne recvReadyOne .hang ws1 (fun w _ => recvReadyOne_no_hang w)
        have hns2 := NS.mapUntil recvReadyOne_nostuck hns1
        rw [hm2] at hl2 hnh2 hns2
        obtain ⟨hb2, _⟩ := hb1.step hl2
        dsimp only at hb2 hnh2 hns2
        have key := (terminate_closed { s with ws := ws2, errq := s.errq ++ e1 ++ e2 }
          hb2 hns2).transfer (s := s) rfl rfl
        cases o2 with
        | none => exact key
        | some o =>
          cases o with
          | hang => exact absurd rfl hnh2
          | ok => exact key
          | err x => exact key
      · -- receive the replies
        rcases hm2 : mapUntil recvCloseOne ws1 with ⟨ws2, e2, rs2, o2⟩
        have hl2 := mapUntil_lstep _ recvCloseOne_good ws1
        have hnh2 := mapUntil_stop_ne recvCloseOne .hang ws1
          (fun w hw => (recvCloseOne_joinReady w (hns1 w hw) (hjr1 w hw)).2)
        have hjr2 := mapUntil_preserves recvCloseOne (fun w => NoStuck w ∧ JoinReady w)
          (fun w hw => ⟨recvCloseOne_nostuck w hw.1, (recvCloseOne_joinReady w hw.1 hw.2).1⟩) ws1
          (fun w hw => ⟨hns1 w hw, hjr1 w hw⟩)
        rw [hm2] at hl2 hnh2 hjr2
        obtain ⟨hb2, _⟩ := hb1.step hl2
        dsimp only at hb2 hnh2 hjr2
        cases o2 with
        | some o =>
          dsimp only
          exact (closeFail_closed { s with ws := ws2, errq := s.errq ++ e1 ++ e2 } o hf hb2
            (fun h => hnh2 (by rw [h])) (fun w hw => (hjr2 w hw).1)).transfer rfl rfl
        | none =>
          dsimp only
          -- join
          rcases hm3 : mapUntil joinOne ws2 with ⟨ws3, e3, rs3, o3⟩
          have hl3 := mapUntil_lstep _ joinOne_good ws2
          have hn3 := mapUntil_none_of_all joinOne ws2
            (fun w hw => (joinOne_joinReady w (hjr2 w hw).1 (hjr2 w hw).2).1)
          have hall := mapUntil_none_all joinOne ws2 hn3
          have hns3 := NS.mapUntil joinOne_nostuck (fun w hw => (hjr2 w hw).1)
          rw [hm3] at hl3 hn3 hall hns3
          obtain ⟨hb3, _⟩ := hb2.step hl3
          dsimp only at hb3 hn3 hall hns3
          subst hn3
          dsimp only
          refine ⟨rfl, rfl, ?_, hb3, rfl, rfl, hns3⟩
          intro w3 hw3
          obtain ⟨w2, hw2, rfl, _⟩ := hall w3 hw3
          exact (joinOne_joinReady w2 (hjr2 w2 hw2).1 (hjr2 w2 hw2).2).2.1

theorem Closed.inv {s s' : State} {o : Outcome} (h : Closed s s' o) (hf : s.fixed = true) : Inv s' :=
  ⟨h.fixed.trans hf, h.base, fun hc _ => (by rw [h.closed] at hc; cases hc), fun _ => h.dead, h.ns⟩

/-- the repaired `close()` on an open environment: returns, marks it closed, no worker is left -/
theorem closeOp_spec (s : State) (timed terminate : Bool) (hi : Inv s) (hc : s.closed = false) :
    (closeOp s timed terminate).2 = .ok ∧ (closeOp s timed terminate).1.closed = true ∧
    (∀ w ∈ (closeOp s timed terminate).1.ws, w.st = .exited) ∧ Inv (closeOp s timed terminate).1 := by
  unfold closeOp
  rw [if_neg (by simp [hc])]
  split
  · have h := closeTail_spec s timed terminate hi.fixed hi.base hi.ns
    exact ⟨h.ok, h.closed, h.dead, h.inv hi.fixed⟩
  · rename_i hd
    obtain ⟨h1, h2, h3, h4, h5⟩ := waitCore_spec s (cmdOf s.astate) (timed || terminate) hi.fixed hi.base
      (hi.waiting hc hd) hi.ns
    have hns1 := waitCore_ns s (cmdOf s.astate) (timed || terminate) hi.ns
    rcases hw : waitCore s (cmdOf s.astate) (timed || terminate) with ⟨s1, o⟩
    rw [hw] at h1 h2 h3 h4 h5 hns1
    dsimp only at h1 h2 h3 h4 h5 hns1
    have key : ∀ k : Bool, (closeTail s1 timed k).2 = .ok ∧ (closeTail s1 timed k).1.closed = true ∧
        (∀ w ∈ (closeTail s1 timed k).1.ws, w.st = .exited) ∧ Inv (closeTail s1 timed k).1 := by
      intro k
      have h := closeTail_spec s1 timed k h4 h2 hns1
      exact ⟨h.ok, h.closed, h.dead, h.inv h4⟩
    cases o with
    | ok => exact key terminate
    | hang => exact absurd rfl h1
    | err x =>
      cases x with
      | timeout => exact key true
      | alreadyPending => dsimp only; rw [if_pos hi.fixed]; exact key _
      | noAsyncCall => dsimp only; rw [if_pos hi.fixed]; exact key _
      | closedEnv => dsimp only; rw [if_pos hi.fixed]; exact key _
      | eof => dsimp only; rw [if_pos hi.fixed]; exact key _
      | brokenPipe => dsimp only; rw [if_pos hi.fixed]; exact key _
      | attributeError => dsimp only; rw [if_pos hi.fixed]; exact key _
      | keyError => dsimp only; rw [if_pos hi.fixed]; exact key _
      | typeError => dsimp only; rw [if_pos hi.fixed]; exact key _
      | worker t => dsimp only; rw [if_pos hi.fixed]; exact key _

theorem closeOp_closed (s : State) (timed terminate : Bool) (hc : s.closed = true) :
    closeOp s timed terminate = (s, .ok) := by
  unfold closeOp; simp [hc]

theorem syncOp_spec (s : State) (c : Cmd) (a : AState) (hi : Inv s) (hne : a ≠ .default) :
    Inv (syncOp s c a).1 ∧ (syncOp s c a).2 ≠ .hang := by
  obtain ⟨h1, h2⟩ := asyncOp_spec s c a hi
  unfold syncOp
  rcases hr : asyncOp s c a with ⟨s1, o⟩
  rw [hr] at h1 h2
  cases o with
  | ok => exact waitOp_spec s1 a false h1 hne
  | err x => exact ⟨h1, by simp⟩
  | hang => exact absurd rfl h2

/-- the invariant is preserved by every call, and no call blocks forever -/
theorem step_inv (s : State) (op : Op) (hi : Inv s) : Inv (s.step op).1 ∧ (s.step op).2 ≠ .hang := by
  cases op with
  | resetAsync => exact asyncOp_spec s _ _ hi
  | stepAsync => exact asyncOp_spec s _ _ hi
  | callAsync => exact asyncOp_spec s _ _ hi
  | resetWait t => exact waitOp_spec s _ t hi (by simp)
  | stepWait t => exact waitOp_spec s _ t hi (by simp)
  | callWait t => exact waitOp_spec s _ t hi (by simp)
  | setAttr => exact setAttrOp_spec s hi
  | close t k =>
    show Inv (closeOp s t k).1 ∧ (closeOp s t k).2 ≠ .hang
    cases hc : s.closed with
    | true => rw [closeOp_closed s t k hc]; exact ⟨hi, by simp⟩
    | false =>
      obtain ⟨h1, _, _, h4⟩ := closeOp_spec s t k hi hc
      exact ⟨h4, by rw [h1]; simp⟩
  | resetSync => exact syncOp_spec s _ _ hi (by simp)
  | stepSync => exact syncOp_spec s _ _ hi (by simp)
  | callSync => exact syncOp_spec s _ _ hi (by simp)

theorem mkWorkers_idx (n : Nat) (script : List (Nat × FaultAt)) :
    (mkWorkers n script).map Worker.idx = List.range n := by
  unfold mkWorkers
  rw [List.map_map]
  conv => rhs; rw [← List.map_id (List.range n)]
  rfl

theorem totalFail_zero : ∀ ws : List Worker, (∀ w ∈ ws, w.inbox = []) → totalFail ws = 0
  | [], _ => rfl
  | w :: ws, h => by
    simp [totalFail, h w List.mem_cons_self, totalFail_zero ws (fun w' hw' => h w' (List.mem_cons_of_mem _ hw'))]

/-- no `stuck` fault anywhere in the script -/
def NoStuckScript (script : List (Nat × FaultAt)) : Prop := ∀ p ∈ script, p.2.kind ≠ .stuck

theorem init_base (f f2 : Bool) (n : Nat) (script : List (Nat × FaultAt)) :
    Base (init f n script f2).ws (init f n script f2).errq := by
  have hall : ∀ w ∈ mkWorkers n script, w.st = .alive ∧ w.pipeOpen = true ∧ w.inbox = [] := by
    intro w hw
    unfold mkWorkers at hw
    obtain ⟨i, _, rfl⟩ := List.mem_map.mp hw
    exact ⟨rfl, rfl, rfl⟩
  refine ⟨?_, ?_, ?_, ?_, ?_⟩
  · show ((mkWorkers n script).map Worker.idx).Nodup
    rw [mkWorkers_idx]; exact List.nodup_range
  · intro w hw hp; rw [(hall w hw).2.1] at hp; cases hp
  · intro w hw hh; rw [(hall w hw).1] at hh; cases hh
  · show totalFail (mkWorkers n script) ≤ 0
    rw [totalFail_zero _ (fun w hw => (hall w hw).2.2)]; exact Nat.le_refl 0
  · intro p hp; cases hp

theorem init_inv (n : Nat) (script : List (Nat × FaultAt)) (hs : NoStuckScript script) (f2 : Bool := true) :
    Inv (init true n script f2) := by
  have hall : ∀ w ∈ mkWorkers n script, w.st = .alive ∧ w.pipeOpen = true ∧ w.inbox = [] := by
    intro w hw
    unfold mkWorkers at hw
    obtain ⟨i, _, rfl⟩ := List.mem_map.mp hw
    exact ⟨rfl, rfl, rfl⟩
  have hns : NS (mkWorkers n script) := by
    intro w hw
    unfold mkWorkers at hw
    obtain ⟨i, _, rfl⟩ := List.mem_map.mp hw
    refine ⟨rfl, ?_⟩
    intro f hf
    obtain ⟨p, hp, rfl⟩ := List.mem_map.mp hf
    exact hs p (List.mem_filter.mp hp).1
  refine ⟨rfl, ⟨?_, ?_, ?_, ?_, ?_⟩, fun _ h => absurd rfl h, fun h => (by cases h), hns⟩
  · show ((mkWorkers n script).map Worker.idx).Nodup
    rw [mkWorkers_idx]; exact List.nodup_range
  · intro w hw hp; rw [(hall w hw).2.1] at hp; cases hp
  · intro w hw hh; rw [(hall w hw).1] at hh; cases hh
  · show totalFail (mkWorkers n script) ≤ 0
    rw [totalFail_zero _ (fun w hw => (hall w hw).2.2)]; exact Nat.le_refl 0
  · intro p hp; cases hp

/-- every configuration reachable from a fresh environment satisfies the invariant, and no call
    on the way blocks forever -/
theorem runOps_inv (ops : List Op) : ∀ s : State, Inv s →
    Inv (s.runOps ops).1 ∧ Outcome.hang ∉ (s.runOps ops).2 := by
  induction ops with
  | nil => intro s hi; exact ⟨hi, by simp [State.runOps]⟩
  | cons op ops ih =>
    intro s hi
    obtain ⟨h1, h2⟩ := step_inv s op hi
    unfold State.runOps
    rcases hs : s.step op with ⟨s1, o⟩
    rw [hs] at h1 h2
    dsimp only at h1 h2
    cases o with
    | hang => exact absurd rfl h2
    | ok =>
      dsimp only
      obtain ⟨h3, h4⟩ := ih s1 h1
      exact ⟨h3, by simp [h4]⟩
    | err x =>
      dsimp only
      obtain ⟨h3, h4⟩ := ih s1 h1
      exact ⟨h3, by simp [h4]⟩
