import Mathlib.Data.List.Nodup
import Proofs.VecProtoLoop
/-!
  Proofs/VecProtoInv.lean — the protocol invariant of the repaired code and its preservation.
-/
namespace VecProto

/-- bookkeeping that every reachable configuration satisfies (either variant of the code) -/
structure Base (ws : List Worker) (q : ErrQ) : Prop where
  nodup : (ws.map Worker.idx).Nodup
  pipe : ∀ w ∈ ws, w.pipeOpen = false → w.st = .exited
  hb : ∀ w ∈ ws, w.st = .hung → w.backlog ≠ []
  fails : totalFail ws ≤ q.length
  errs : ∀ p ∈ q, ∃ w ∈ ws, w.idx = p.1 ∧ w.st = .exited

theorem Base.step {ws ws' : List Worker} {q e : ErrQ} {k : Nat} (hb : Base ws q) (hl : LStep ws ws' e k) :
    Base ws' (q ++ e) ∧ totalFail ws' + k ≤ (q ++ e).length := by
  have hlen : totalFail ws' + k ≤ (q ++ e).length := by
    have := hl.fails; have := hb.fails; simp only [List.length_append]; omega
  refine ⟨⟨?_, ?_, ?_, by omega, ?_⟩, hlen⟩
  · rw [hl.rel.map_idx]; exact hb.nodup
  · intro w1 hw1 hp
    obtain ⟨w, hw, hr⟩ := hl.rel.mem_right w1 hw1
    rcases hr.2.2.1 hp with h | h
    · exact hr.2.1 (hb.pipe w hw h)
    · exact h
  · intro w1 hw1
    obtain ⟨w, hw, hr⟩ := hl.rel.mem_right w1 hw1
    exact hr.2.2.2 (hb.hb w hw)
  · intro p hp
    rcases List.mem_append.mp hp with hp | hp
    · obtain ⟨w, hw, hi, hs⟩ := hb.errs p hp
      obtain ⟨w1, hw1, hr⟩ := hl.rel.mem_left w hw
      exact ⟨w1, hw1, hr.1.trans hi, hr.2.1 hs⟩
    · exact hl.errs p hp

theorem Base.mono {ws : List Worker} {q q' : ErrQ} (hb : Base ws q) (hsub : ∀ p ∈ q', p ∈ q)
    (hlen : totalFail ws ≤ q'.length) : Base ws q' :=
  ⟨hb.nodup, hb.pipe, hb.hb, hlen, fun p hp => hb.errs p (hsub p hp)⟩

/-- the worker with a given index is unique -/
theorem Base.unique {ws : List Worker} {q : ErrQ} (hb : Base ws q) {a b : Worker} (ha : a ∈ ws) (hb' : b ∈ ws)
    (h : a.idx = b.idx) : a = b :=
  List.inj_on_of_nodup_map hb.nodup ha hb' h

/-! ### pointwise updates (`terminate()`, `pipe.close()`) -/

theorem Rel.map_mem (g : Worker → Worker) : ∀ ws : List Worker, (∀ w ∈ ws, R w (g w)) → Rel ws (ws.map g)
  | [], _ => trivial
  | w :: ws, h => ⟨h w List.mem_cons_self, Rel.map_mem g ws (fun w' hw' => h w' (List.mem_cons_of_mem _ hw'))⟩

theorem totalFail_map_mem (g : Worker → Worker) :
    ∀ ws : List Worker, (∀ w ∈ ws, (g w).inbox = w.inbox) → totalFail (ws.map g) = totalFail ws
  | [], _ => rfl
  | w :: ws, h => by
    simp [totalFail, h w List.mem_cons_self,
      totalFail_map_mem g ws (fun w' hw' => h w' (List.mem_cons_of_mem _ hw'))]

theorem lstep_map (g : Worker → Worker) (ws : List Worker) (h : ∀ w ∈ ws, R w (g w) ∧ (g w).inbox = w.inbox) :
    LStep ws (ws.map g) [] 0 :=
  ⟨Rel.map_mem g ws (fun w hw => (h w hw).1), by rw [totalFail_map_mem g ws (fun w hw => (h w hw).2)]; simp, by simp⟩

theorem terminateAll_lstep (ws : List Worker) : LStep ws (terminateAll ws) [] 0 := by
  unfold terminateAll
  exact lstep_map _ ws (fun w _ => ⟨⟨rfl, fun _ => rfl, fun _ => Or.inr rfl, fun _ h => by simp at h⟩, rfl⟩)

theorem terminateAll_exited (ws : List Worker) : ∀ w ∈ terminateAll ws, w.st = .exited := by
  intro w hw
  unfold terminateAll at hw
  obtain ⟨w0, _, rfl⟩ := List.mem_map.mp hw
  rfl

theorem closePipe_lstep {ws : List Worker} {q : ErrQ} (hb : Base ws q) (i : Nat)
    (hi : ∃ w ∈ ws, w.idx = i ∧ w.st = .exited) : LStep ws (closePipe i ws) [] 0 := by
  unfold closePipe
  refine lstep_map _ ws (fun w hw => ?_)
  obtain ⟨w0, hw0, hi0, hs0⟩ := hi
  by_cases h : w.idx = i
  · have : w = w0 := hb.unique hw hw0 (h.trans hi0.symm)
    subst this
    rw [if_pos h]
    exact ⟨⟨rfl, id, fun _ => Or.inr hs0, id⟩, rfl⟩
  · rw [if_neg h]
    exact ⟨R.refl w, rfl⟩

theorem closePipes_lstep : ∀ (is : List Nat) {ws : List Worker} {q : ErrQ}, Base ws q →
    (∀ i ∈ is, ∃ w ∈ ws, w.idx = i ∧ w.st = .exited) → LStep ws (closePipes is ws) [] 0
  | [], ws, _, _, _ => LStep.refl ws
  | i :: is, ws, q, hb, h => by
    have h1 := closePipe_lstep hb i (h i List.mem_cons_self)
    have hb1 := (hb.step h1).1
    have h2 : ∀ j ∈ is, ∃ w ∈ closePipe i ws, w.idx = j ∧ w.st = .exited := by
      intro j hj
      obtain ⟨w, hw, hwi, hws⟩ := h j (List.mem_cons_of_mem _ hj)
      obtain ⟨w1, hw1, hr⟩ := h1.rel.mem_left w hw
      exact ⟨w1, hw1, hr.1.trans hwi, hr.2.1 hws⟩
    have := h1.trans (closePipes_lstep is hb1 h2)
    simpa [closePipes] using this

/-! ### `_raise_if_errors` -/

theorem raiseIfErrors_spec (s : State) (rs : List Reply) (hb : Base s.ws s.errq)
    (hlen : totalFail s.ws + countFail rs ≤ s.errq.length) :
    (raiseIfErrors s rs).2 ≠ .hang ∧ Base (raiseIfErrors s rs).1.ws (raiseIfErrors s rs).1.errq ∧
    (raiseIfErrors s rs).1.fixed = s.fixed ∧ (raiseIfErrors s rs).1.closed = s.closed ∧
    ((raiseIfErrors s rs).2 = .ok → (raiseIfErrors s rs).1 = s) ∧
    ((raiseIfErrors s rs).2 ≠ .ok → (raiseIfErrors s rs).1.astate = .default) := by
  unfold raiseIfErrors
  simp only
  by_cases h0 : countFail rs = 0
  · simp [h0, hb]
  · have h1 : ¬ s.errq.length < countFail rs := by omega
    simp only [h0, h1, if_false]
    have hne : (s.errq.take (countFail rs)) ≠ [] := by
      intro h
      have := congrArg List.length h
      simp only [List.length_take, List.length_nil] at this
      omega
    cases hgl : (s.errq.take (countFail rs)).getLast? with
    | none => exact absurd (List.getLast?_eq_none_iff.mp hgl) hne
    | some p =>
      simp only
      have hl := closePipes_lstep ((s.errq.take (countFail rs)).map (·.1)) hb (by
        intro i hi
        obtain ⟨p', hp', rfl⟩ := List.mem_map.mp hi
        exact hb.errs p' (List.mem_of_mem_take hp'))
      have hb1 := (hb.step hl).1
      rw [List.append_nil] at hb1
      have hf := hl.fails
      refine ⟨by simp, ?_, trivial, trivial, by simp, by simp⟩
      refine hb1.mono (fun p' hp' => List.mem_of_mem_drop hp') ?_
      simp only [List.length_drop]
      simp only [List.length_nil] at hf
      omega

/-! ### waits -/

/-- every pipe is open and every live worker has a reply waiting -/
def Replied (ws : List Worker) : Prop := ∀ w ∈ ws, w.pipeOpen = true ∧ (w.st = .alive → w.inbox ≠ [])

theorem waitCore_spec (s : State) (c : Cmd) (timed : Bool) (hf : s.fixed = true) (hb : Base s.ws s.errq)
    (hpre : Replied s.ws) :
    (waitCore s c timed).2 ≠ .hang ∧ Base (waitCore s c timed).1.ws (waitCore s c timed).1.errq ∧
    (waitCore s c timed).1.astate = .default ∧ (waitCore s c timed).1.fixed = true ∧
    (waitCore s c timed).1.closed = s.closed := by
  unfold waitCore
  split
  · simp [hb, hf]
  · skip
    dsimp only
    rcases hm : mapUntil (recvOne (inlineChk c)) s.ws with ⟨ws1, e, rs, o⟩
    have hl := mapUntil_lstep _ (recvOne_good _ (inlineChk_fail c)) s.ws
    have hnh := mapUntil_stop_ne (recvOne (inlineChk c)) .hang s.ws
      (fun w hw => recvOne_no_hang _ w (hpre w hw).1 (hpre w hw).2 (hb.hb w hw))
    rw [hm] at hl hnh
    obtain ⟨hb1, hlen⟩ := hb.step hl
    dsimp only at hb1 hlen hnh
    cases o with
    | some o =>
      dsimp only
      exact ⟨fun h => hnh (by rw [h]), hb1, rfl, hf, rfl⟩
    | none =>
      dsimp only
      have hsp := raiseIfErrors_spec { s with astate := .default, ws := ws1, errq := s.errq ++ e } rs hb1 hlen
      rcases hr : raiseIfErrors { s with astate := .default, ws := ws1, errq := s.errq ++ e } rs with ⟨s2, o2⟩
      rw [hr] at hsp
      obtain ⟨h1, h2, h3, h4, h5, h6⟩ := hsp
      dsimp only at h1 h2 h3 h4 h5 h6
      cases o2 with
      | ok =>
        dsimp only
        have := h5 rfl
        subst this
        split
        · exact ⟨by simp, h2, rfl, hf, rfl⟩
        · exact ⟨by simp, h2, rfl, hf, rfl⟩
      | err x => exact ⟨by simp, h2, h6 (by simp), h3.trans hf, h4⟩
      | hang => exact absurd rfl h1

/-! ### the invariant -/

structure Inv (s : State) : Prop where
  fixed : s.fixed = true
  base : Base s.ws s.errq
  waiting : s.closed = false → s.astate ≠ .default → Replied s.ws
  closed : s.closed = true → ∀ w ∈ s.ws, w.st = .exited

theorem sendOne_no_hang (c : Cmd) (w : Worker) : (sendOne c w).2.2.2 ≠ some .hang := by
  unfold sendOne
  split
  · simp
  · split <;> simp

theorem sendCloseOne_no_hang (w : Worker) : (sendCloseOne w).2.2.2 ≠ some .hang := by
  unfold sendCloseOne
  split
  · simp
  · exact sendOne_no_hang _ w

theorem sendAll_replied (c : Cmd) (ws : List Worker) (h : (mapUntil (sendOne c) ws).2.2.2 = none) :
    Replied (mapUntil (sendOne c) ws).1 :=
  mapUntil_all_of_none (sendOne c) (fun _ => True) _ (fun w _ hn => sendOne_none c w hn) ws (fun _ _ => trivial) h

theorem asyncOp_spec (s : State) (c : Cmd) (t : AState) (hi : Inv s) :
    Inv (asyncOp s c t).1 ∧ (asyncOp s c t).2 ≠ .hang := by
  unfold asyncOp
  split
  · exact ⟨hi, by simp⟩
  · split
    · exact ⟨hi, by simp⟩
    · rename_i hc hd
      have hd' : s.astate = .default := by simpa using hd
      have hc' : s.closed = false := by simpa using hc
      rcases hm : mapUntil (sendOne c) s.ws with ⟨ws1, e, rs, o⟩
      have hl := mapUntil_lstep _ (sendOne_good c) s.ws
      have hnh := mapUntil_stop_ne (sendOne c) .hang s.ws (fun w _ => sendOne_no_hang c w)
      have hrep := sendAll_replied c s.ws
      rw [hm] at hl hnh hrep
      obtain ⟨hb1, _⟩ := hi.base.step hl
      cases o with
      | some o =>
        dsimp only
        refine ⟨⟨hi.fixed, hb1, fun _ h => absurd hd' h, fun h => ?_⟩, fun h => hnh (by rw [h])⟩
        rw [hc'] at h; cases h
      | none =>
        dsimp only
        refine ⟨⟨hi.fixed, hb1, fun _ _ => hrep rfl, fun h => ?_⟩, by simp⟩
        rw [hc'] at h; cases h

theorem waitOp_spec (s : State) (a : AState) (timed : Bool) (hi : Inv s) (hne : a ≠ .default) :
    Inv (waitOp s a timed).1 ∧ (waitOp s a timed).2 ≠ .hang := by
  unfold waitOp
  split
  · exact ⟨hi, by simp⟩
  · split
    · exact ⟨hi, by simp⟩
    · rename_i hc hd
      have hc' : s.closed = false := by simpa using hc
      have hd' : s.astate = a := by simpa using hd
      have hrep := hi.waiting hc' (hd' ▸ hne)
      obtain ⟨h1, h2, h3, h4, h5⟩ := waitCore_spec s (cmdOf a) timed hi.fixed hi.base hrep
      refine ⟨⟨h4, h2, fun _ h => absurd h3 h, fun h => ?_⟩, h1⟩
      rw [h5, hc'] at h; cases h

theorem setAttrOp_spec (s : State) (hi : Inv s) : Inv (setAttrOp s).1 ∧ (setAttrOp s).2 ≠ .hang := by
  unfold setAttrOp
  split
  · exact ⟨hi, by simp⟩
  · split
    · exact ⟨hi, by simp⟩
    · rename_i hc hd
      have hd' : s.astate = .default := by simpa using hd
      have hc' : s.closed = false := by simpa using hc
      rcases hm : mapUntil (sendOne .setattr) s.ws with ⟨ws1, e, rs, o⟩
      have hl := mapUntil_lstep _ (sendOne_good .setattr) s.ws
      have hnh := mapUntil_stop_ne (sendOne .setattr) .hang s.ws (fun w _ => sendOne_no_hang _ w)
      have hrep := sendAll_replied .setattr s.ws
      rw [hm] at hl hnh hrep
      obtain ⟨hb1, _⟩ := hi.base.step hl
      cases o with
      | some o =>
        dsimp only
        refine ⟨⟨hi.fixed, hb1, fun _ h => absurd hd' h, fun h => ?_⟩, fun h => hnh (by rw [h])⟩
        rw [hc'] at h; cases h
      | none =>
        dsimp only
        obtain ⟨h1, h2, h3, h4, h5⟩ := waitCore_spec { s with ws := ws1, errq := s.errq ++ e } .setattr false
          hi.fixed hb1 (hrep rfl)
        refine ⟨⟨h4, h2, fun _ h => absurd h3 h, fun h => ?_⟩, h1⟩
        rw [h5] at h; dsimp only at h; rw [hc'] at h; cases h

/-! ### close -/

theorem mapUntil_none_of_all (f : Worker → StepRes) :
    ∀ ws, (∀ w ∈ ws, (f w).2.2.2 = none) → (mapUntil f ws).2.2.2 = none := by
  intro ws
  induction ws with
  | nil => intro _; rfl
  | cons w ws ih =>
    intro h
    unfold mapUntil
    have hw := h w List.mem_cons_self
    rcases hfw : f w with ⟨w0, e1, r, o⟩
    rw [hfw] at hw
    dsimp only at hw
    subst hw
    dsimp only
    rcases hm : mapUntil f ws with ⟨ws1, e2, rs, o2⟩
    have := ih (fun w' hw' => h w' (List.mem_cons_of_mem _ hw'))
    rw [hm] at this
    exact this

/-- what `close()` must achieve -/
structure Closed (s s' : State) (o : Outcome) : Prop where
  ok : o = .ok
  closed : s'.closed = true
  dead : ∀ w ∈ s'.ws, w.st = .exited
  base : Base s'.ws s'.errq
  fixed : s'.fixed = s.fixed
  astate : s'.astate = s.astate

theorem terminate_closed (s : State) (hb : Base s.ws s.errq) :
    Closed s { s with ws := terminateAll s.ws, closed := true } .ok := by
  have := (hb.step (terminateAll_lstep s.ws)).1
  rw [List.append_nil] at this
  exact ⟨rfl, rfl, terminateAll_exited s.ws, this, rfl, rfl⟩

theorem closeFail_closed (s : State) (o : Outcome) (hf : s.fixed = true) (hb : Base s.ws s.errq) (ho : o ≠ .hang) :
    Closed s (closeFail s o).1 (closeFail s o).2 := by
  unfold closeFail
  cases o with
  | hang => exact absurd rfl ho
  | ok => dsimp only; rw [if_pos hf]; exact terminate_closed s hb
  | err x => dsimp only; rw [if_pos hf]; exact terminate_closed s hb

theorem Closed.transfer {s s' x : State} {o : Outcome} (h : Closed s' x o) (hf : s'.fixed = s.fixed)
    (ha : s'.astate = s.astate) : Closed s x o :=
  ⟨h.ok, h.closed, h.dead, h.base, h.fixed.trans hf, h.astate.trans ha⟩

theorem closeTail_spec (s : State) (terminate : Bool) (hf : s.fixed = true) (hb : Base s.ws s.errq) :
    Closed s (closeTail s terminate).1 (closeTail s terminate).2 := by
  unfold closeTail
  split
  · exact terminate_closed s hb
  · -- send `close`
    rcases hm1 : mapUntil sendCloseOne s.ws with ⟨ws1, e1, rs1, o1⟩
    have hl1 := mapUntil_lstep _ sendCloseOne_good s.ws
    have hnh1 := mapUntil_stop_ne sendCloseOne .hang s.ws (fun w _ => sendCloseOne_no_hang w)
    have hjr1 := mapUntil_all_of_none sendCloseOne (fun w => w.pipeOpen = false → w.st = .exited) JoinReady
      (fun w hp hn => sendCloseOne_none w hp hn) s.ws hb.pipe
    rw [hm1] at hl1 hnh1 hjr1
    obtain ⟨hb1, _⟩ := hb.step hl1
    dsimp only at hb1 hnh1 hjr1
    cases o1 with
    | some o =>
      dsimp only
      exact (closeFail_closed { s with ws := ws1, errq := s.errq ++ e1 } o hf hb1
        (fun h => hnh1 (by rw [h]))).transfer rfl rfl
    | none =>
      dsimp only
      have hjr1 := hjr1 rfl
      -- receive the replies
      rcases hm2 : mapUntil recvCloseOne ws1 with ⟨ws2, e2, rs2, o2⟩
      have hl2 := mapUntil_lstep _ recvCloseOne_good ws1
      have hnh2 := mapUntil_stop_ne recvCloseOne .hang ws1 (fun w hw => (recvCloseOne_joinReady w (hjr1 w hw)).2)
      have hjr2 := mapUntil_preserves recvCloseOne JoinReady (fun w hw => (recvCloseOne_joinReady w hw).1) ws1 hjr1
      rw [hm2] at hl2 hnh2 hjr2
      obtain ⟨hb2, _⟩ := hb1.step hl2
      dsimp only at hb2 hnh2 hjr2
      cases o2 with
      | some o =>
        dsimp only
        exact (closeFail_closed { s with ws := ws2, errq := s.errq ++ e1 ++ e2 } o hf hb2
          (fun h => hnh2 (by rw [h]))).transfer rfl rfl
      | none =>
        dsimp only
        -- join
        rcases hm3 : mapUntil joinOne ws2 with ⟨ws3, e3, rs3, o3⟩
        have hl3 := mapUntil_lstep _ joinOne_good ws2
        have hn3 := mapUntil_none_of_all joinOne ws2 (fun w hw => (joinOne_joinReady w (hjr2 w hw)).1)
        have hall := mapUntil_none_all joinOne ws2 hn3
        rw [hm3] at hl3 hn3 hall
        obtain ⟨hb3, _⟩ := hb2.step hl3
        dsimp only at hb3 hn3 hall
        subst hn3
        dsimp only
        refine ⟨rfl, rfl, ?_, hb3, rfl, rfl⟩
        intro w3 hw3
        obtain ⟨w2, hw2, rfl, _⟩ := hall w3 hw3
        exact (joinOne_joinReady w2 (hjr2 w2 hw2)).2.1

theorem Closed.inv {s s' : State} {o : Outcome} (h : Closed s s' o) (hf : s.fixed = true) : Inv s' :=
  ⟨h.fixed.trans hf, h.base, fun hc _ => (by rw [h.closed] at hc; cases hc), fun _ => h.dead⟩

/-- the repaired `close()` on an open environment: returns, marks it closed, no worker is left -/
theorem closeOp_spec (s : State) (timed terminate : Bool) (hi : Inv s) (hc : s.closed = false) :
    (closeOp s timed terminate).2 = .ok ∧ (closeOp s timed terminate).1.closed = true ∧
    (∀ w ∈ (closeOp s timed terminate).1.ws, w.st = .exited) ∧ Inv (closeOp s timed terminate).1 := by
  unfold closeOp
  rw [if_neg (by simp [hc])]
  split
  · have h := closeTail_spec s terminate hi.fixed hi.base
    exact ⟨h.ok, h.closed, h.dead, h.inv hi.fixed⟩
  · rename_i hd
    obtain ⟨h1, h2, h3, h4, h5⟩ := waitCore_spec s (cmdOf s.astate) (timed || terminate) hi.fixed hi.base
      (hi.waiting hc hd)
    rcases hw : waitCore s (cmdOf s.astate) (timed || terminate) with ⟨s1, o⟩
    rw [hw] at h1 h2 h3 h4 h5
    dsimp only at h1 h2 h3 h4 h5
    have key : ∀ k : Bool, (closeTail s1 k).2 = .ok ∧ (closeTail s1 k).1.closed = true ∧
        (∀ w ∈ (closeTail s1 k).1.ws, w.st = .exited) ∧ Inv (closeTail s1 k).1 := by
      intro k
      have h := closeTail_spec s1 k h4 h2
      exact ⟨h.ok, h.closed, h.dead, h.inv h4⟩
    cases o with
    | ok => exact key terminate
    | hang => exact absurd rfl h1
    | err x =>
      cases x with
      | timeout => exact key true
      | alreadyPending => dsimp only; rw [if_pos hi.fixed]; exact key _
      | noAsyncCall => dsimp only; rw [if_pos hi.fixed]; exact key _
      | closedEnv => dsimp only; rw [if_pos hi.fixed]; exact key _
      | eof => dsimp only; rw [if_pos hi.fixed]; exact key _
      | brokenPipe => dsimp only; rw [if_pos hi.fixed]; exact key _
      | attributeError => dsimp only; rw [if_pos hi.fixed]; exact key _
      | keyError => dsimp only; rw [if_pos hi.fixed]; exact key _
      | typeError => dsimp only; rw [if_pos hi.fixed]; exact key _
      | worker t => dsimp only; rw [if_pos hi.fixed]; exact key _

theorem closeOp_closed (s : State) (timed terminate : Bool) (hc : s.closed = true) :
    closeOp s timed terminate = (s, .ok) := by
  unfold closeOp; simp [hc]

/-- the invariant is preserved by every call, and no call blocks forever -/
theorem step_inv (s : State) (op : Op) (hi : Inv s) : Inv (s.step op).1 ∧ (s.step op).2 ≠ .hang := by
  cases op with
  | resetAsync => exact asyncOp_spec s _ _ hi
  | stepAsync => exact asyncOp_spec s _ _ hi
  | callAsync => exact asyncOp_spec s _ _ hi
  | resetWait t => exact waitOp_spec s _ t hi (by simp)
  | stepWait t => exact waitOp_spec s _ t hi (by simp)
  | callWait t => exact waitOp_spec s _ t hi (by simp)
  | setAttr => exact setAttrOp_spec s hi
  | close t k =>
    show Inv (closeOp s t k).1 ∧ (closeOp s t k).2 ≠ .hang
    cases hc : s.closed with
    | true => rw [closeOp_closed s t k hc]; exact ⟨hi, by simp⟩
    | false =>
      obtain ⟨h1, _, _, h4⟩ := closeOp_spec s t k hi hc
      exact ⟨h4, by rw [h1]; simp⟩

theorem mkWorkers_idx (n : Nat) (script : List (Nat × FaultAt)) :
    (mkWorkers n script).map Worker.idx = List.range n := by
  unfold mkWorkers
  rw [List.map_map]
  conv => rhs; rw [← List.map_id (List.range n)]
  rfl

theorem totalFail_zero : ∀ ws : List Worker, (∀ w ∈ ws, w.inbox = []) → totalFail ws = 0
  | [], _ => rfl
  | w :: ws, h => by
    simp [totalFail, h w List.mem_cons_self, totalFail_zero ws (fun w' hw' => h w' (List.mem_cons_of_mem _ hw'))]

theorem init_inv (n : Nat) (script : List (Nat × FaultAt)) : Inv (init true n script) := by
  have hall : ∀ w ∈ mkWorkers n script, w.st = .alive ∧ w.pipeOpen = true ∧ w.inbox = [] := by
    intro w hw
    unfold mkWorkers at hw
    obtain ⟨i, _, rfl⟩ := List.mem_map.mp hw
    exact ⟨rfl, rfl, rfl⟩
  refine ⟨rfl, ⟨?_, ?_, ?_, ?_, ?_⟩, fun _ h => absurd rfl h, fun h => by cases h⟩
  · show ((mkWorkers n script).map Worker.idx).Nodup
    rw [mkWorkers_idx]; exact List.nodup_range
  · intro w hw hp; rw [(hall w hw).2.1] at hp; cases hp
  · intro w hw hh; rw [(hall w hw).1] at hh; cases hh
  · show totalFail (mkWorkers n script) ≤ 0
    rw [totalFail_zero _ (fun w hw => (hall w hw).2.2)]; exact Nat.le_refl 0
  · intro p hp; cases hp

/-- every configuration reachable from a fresh environment satisfies the invariant, and no call
    on the way blocks forever -/
theorem runOps_inv (ops : List Op) : ∀ s : State, Inv s →
    Inv (s.runOps ops).1 ∧ Outcome.hang ∉ (s.runOps ops).2 := by
  induction ops with
  | nil => intro s hi; exact ⟨hi, by simp [State.runOps]⟩
  | cons op ops ih =>
    intro s hi
    obtain ⟨h1, h2⟩ := step_inv s op hi
    unfold State.runOps
    rcases hs : s.step op with ⟨s1, o⟩
    rw [hs] at h1 h2
    dsimp only at h1 h2
    cases o with
    | hang => exact absurd rfl h2
    | ok =>
      dsimp only
      obtain ⟨h3, h4⟩ := ih s1 h1
      exact ⟨h3, by simp [h4]⟩
    | err x =>
      dsimp only
      obtain ⟨h3, h4⟩ := ih s1 h1
      exact ⟨h3, by simp [h4]⟩
