import Proofs.VecProtoLoop
/-!
  Proofs/VecProtoLegal.lean — what a matching async/wait pair does on an idle environment:
  all replies arrive (legal use), or a scripted `raise T` reaches the caller as `T`.
-/
namespace VecProto

/-- a loop whose bodies all run through is a `map` -/
theorem mapUntil_all (f : Worker → StepRes) (g : Worker → Worker) (e : Worker → ErrQ) (r : Worker → Option Reply) :
    ∀ ws : List Worker, (∀ w ∈ ws, f w = (g w, e w, r w, none)) →
      mapUntil f ws = (ws.map g, ws.flatMap e, ws.filterMap r, none)
  | [], _ => rfl
  | w :: ws, h => by
    unfold mapUntil
    rw [h w List.mem_cons_self]
    dsimp only
    rw [mapUntil_all f g e r ws (fun w' hw' => h w' (List.mem_cons_of_mem _ hw'))]
    cases hr : r w <;> simp [hr, List.filterMap_cons]

/-- idle: alive, pipe open, nothing to read, nothing queued -/
def Idle (w : Worker) : Prop := w.st = .alive ∧ w.pipeOpen = true ∧ w.inbox = [] ∧ w.backlog = []

instance (w : Worker) : Decidable (Idle w) := by unfold Idle; exact inferInstance

/-- the fault (if any) the next command `c` triggers in worker `w` -/
def due (w : Worker) (c : Cmd) : Option Fault := lookupFault w.faults c (w.count c)

theorem sendOne_idle (c : Cmd) (w : Worker) (h : Idle w) :
    sendOne c w = ((w.run c).1, (w.run c).2, none, none) := by
  unfold sendOne Worker.deliver
  simp [h.1, h.2.1]

/-- the worker after an uneventful command: one reply waiting -/
def afterOk (w : Worker) (c : Cmd) : Worker := { w.bump c with inbox := [.okR c] }
/-- the worker after a scripted `raise`: process over, `(None, False)` waiting -/
def afterRaise (w : Worker) (c : Cmd) : Worker := { w.bump c with st := .exited, inbox := [.failR] }

theorem run_quiet (c : Cmd) (hc : c ≠ .close) (w : Worker) (h : Idle w) (hd : due w c = none) :
    w.run c = (afterOk w c, []) := by
  unfold due at hd
  unfold Worker.run afterOk
  cases c <;> simp_all [Idle]

theorem run_raise (c : Cmd) (hc : c ≠ .close) (w : Worker) (h : Idle w) (t : Nat) (hd : due w c = some (.raise t)) :
    w.run c = (afterRaise w c, [(w.idx, t)]) := by
  unfold due at hd
  unfold Worker.run afterRaise
  cases c <;> simp_all [Idle]

theorem recvOne_single (chk : Reply → Option Exc) (w : Worker) (x : Reply) (hp : w.pipeOpen = true)
    (hi : w.inbox = [x]) (hx : chk x = none) :
    recvOne chk w = ({ w with inbox := [] }, [], some x, none) := by
  unfold recvOne Worker.recv
  simp [hp, hi, hx]

theorem afterOk_idle (c : Cmd) (w : Worker) (h : Idle w) : Idle { afterOk w c with inbox := [] } := by
  unfold afterOk Idle at *
  simp [h.1, h.2.1, h.2.2.2]

theorem inlineChk_same (c : Cmd) : inlineChk c (.okR c) = none := by
  unfold inlineChk
  split
  · rename_i h; subst h; simp [decodeErr]
  · rfl

theorem decodeErr_same (c : Cmd) : decodeErr c (.okR c) = none := by simp [decodeErr]

theorem pollAll_of_inbox (ws : List Worker) (h : ∀ w ∈ ws, w.pipeOpen = true ∧ w.inbox ≠ []) : pollAll ws = true := by
  unfold pollAll
  rw [List.all_eq_true]
  intro w hw
  obtain ⟨h1, h2⟩ := h w hw
  unfold Worker.ready
  cases hi : w.inbox with
  | nil => exact absurd hi h2
  | cons r rest => simp [h1]

theorem flatMap_nil (ws : List Worker) : ws.flatMap (fun _ => ([] : ErrQ)) = [] := by
  induction ws with
  | nil => rfl
  | cons w ws ih => simp

theorem filterMap_none (ws : List Worker) : ws.filterMap (fun _ => (none : Option Reply)) = [] := by
  induction ws with
  | nil => rfl
  | cons w ws ih => simp

/-- a wait whose replies have all arrived and are all of the awaited kind returns normally -/
theorem waitCore_all_ok (s : State) (c : Cmd) (timed : Bool) (ws2 : List Worker) (rs : List Reply)
    (hpoll : pollAll s.ws = true)
    (hrecv : mapUntil (recvOne (inlineChk c)) s.ws = (ws2, [], rs, none))
    (hrs : ∀ x ∈ rs, x = .okR c) :
    waitCore s c timed = ({ s with ws := ws2, astate := .default }, .ok) := by
  have hcf : countFail rs = 0 := by
    unfold countFail
    rw [List.count_eq_zero]
    intro h; have := hrs _ h; cases this
  have hdec : rs.findSome? (decodeErr c) = none := by
    rw [List.findSome?_eq_none_iff]
    intro x hx; rw [hrs x hx]; exact decodeErr_same c
  have hnone : (if c = .reset then rs.findSome? (decodeErr .reset) else none) = none := by
    split
    · rename_i h; subst h; exact hdec
    · rfl
  unfold waitCore
  rw [hpoll]
  simp only [Bool.not_true, Bool.and_false, Bool.false_eq_true, if_false]
  cases hf : s.fixed
  · simp only [Bool.false_eq_true, if_false, hrecv, raiseIfErrors, hcf, if_true, List.append_nil, hnone]
    rw [hf]
  · simp only [if_true, hrecv, raiseIfErrors, hcf, List.append_nil, hnone]
    try rw [hf]

/-- on an idle environment without a due fault, `X_async` then `X_wait` (timed or not) both return
    normally, and the environment is idle again -/
theorem legal_pair (s : State) (c : Cmd) (a : AState) (hca : cmdOf a = c) (ha : a ≠ .default)
    (hc : s.closed = false) (hd : s.astate = .default)
    (hidle : ∀ w ∈ s.ws, Idle w ∧ due w c = none) (timed : Bool) :
    (asyncOp s c a).2 = .ok ∧ (asyncOp s c a).1.astate = a ∧
    (waitOp (asyncOp s c a).1 a timed).2 = .ok ∧
    (waitOp (asyncOp s c a).1 a timed).1 =
      { s with ws := s.ws.map (fun w => { afterOk w c with inbox := [] }) } := by
  have hcc : c ≠ .close := by subst hca; cases a <;> simp [cmdOf] at ha ⊢
  have hsend : mapUntil (sendOne c) s.ws = (s.ws.map (afterOk · c), [], [], none) := by
    have := mapUntil_all (sendOne c) (afterOk · c) (fun _ => []) (fun _ => none) s.ws (by
      intro w hw
      rw [sendOne_idle c w (hidle w hw).1, run_quiet c hcc w (hidle w hw).1 (hidle w hw).2])
    rw [this, flatMap_nil, filterMap_none]
  have hasync : asyncOp s c a = ({ s with ws := s.ws.map (afterOk · c), astate := a }, .ok) := by
    unfold asyncOp
    simp [hc, hd, hsend]
  rw [hasync]
  refine ⟨rfl, rfl, ?_⟩
  have hrecv := mapUntil_all (recvOne (inlineChk c)) (fun w => { w with inbox := [] }) (fun _ => [])
      (fun _ => some (Reply.okR c)) (s.ws.map (afterOk · c)) (by
        intro w' hw'
        obtain ⟨w, hw, rfl⟩ := List.mem_map.mp hw'
        exact recvOne_single _ _ _ (by simp [afterOk, (hidle w hw).1.2.1]) rfl (inlineChk_same c))
  rw [flatMap_nil] at hrecv
  have hpoll : pollAll (s.ws.map (afterOk · c)) = true := by
    apply pollAll_of_inbox
    intro w' hw'
    obtain ⟨w, hw, rfl⟩ := List.mem_map.mp hw'
    exact ⟨by simp [afterOk, (hidle w hw).1.2.1], by simp [afterOk]⟩
  have hw := waitCore_all_ok { s with ws := s.ws.map (afterOk · c), astate := a } c timed _ _ hpoll hrecv (by
    intro x hx
    obtain ⟨_, _, h⟩ := List.mem_filterMap.mp hx
    exact (Option.some.inj h).symm)
  unfold waitOp
  rw [if_neg (by simp [hc]), if_neg (by simp), hca, hw]
  simp [hd, List.map_map, Function.comp_def]

/-! ### a scripted `raise T` reaches the caller as `T` -/

theorem raiseIfErrors_all (s : State) (rs : List Reply) (t : Nat) (hn : countFail rs = s.errq.length)
    (hne : s.errq ≠ []) (ht : ∀ p ∈ s.errq, p.2 = t) :
    (raiseIfErrors s rs).2 = .err (.worker t) ∧ (raiseIfErrors s rs).1.astate = .default ∧
    (raiseIfErrors s rs).1.closed = s.closed ∧ (raiseIfErrors s rs).1.fixed = s.fixed := by
  unfold raiseIfErrors
  have hpos : s.errq.length ≠ 0 := by
    intro h; exact hne (List.length_eq_zero_iff.mp h)
  simp only [hn, hpos, if_false, Nat.lt_irrefl, List.take_length]
  cases hgl : s.errq.getLast? with
  | none => exact absurd (List.getLast?_eq_none_iff.mp hgl) hne
  | some p =>
    have hp := ht p (List.mem_of_getLast? hgl)
    obtain ⟨i, t'⟩ := p
    simp only at hp
    subst hp
    exact ⟨rfl, rfl, rfl, rfl⟩

/-- idle workers whose due fault (if any) is `raise t` -/
def IdleOrRaise (c : Cmd) (t : Nat) (w : Worker) : Prop :=
  Idle w ∧ (due w c = none ∨ due w c = some (.raise t))

instance (c : Cmd) (t : Nat) (w : Worker) : Decidable (IdleOrRaise c t w) := by
  unfold IdleOrRaise; exact inferInstance

theorem run_idleOrRaise (c : Cmd) (hc : c ≠ .close) (t : Nat) (w : Worker) (h : IdleOrRaise c t w) :
    (w.run c).1.pipeOpen = true ∧
    (((w.run c).1.inbox = [.okR c] ∧ (w.run c).2 = []) ∨
     ((w.run c).1.inbox = [.failR] ∧ (w.run c).2 = [(w.idx, t)])) := by
  rcases h.2 with hd | hd
  · rw [run_quiet c hc w h.1 hd]
    exact ⟨by simp [afterOk, h.1.2.1], Or.inl ⟨rfl, rfl⟩⟩
  · rw [run_raise c hc w h.1 t hd]
    exact ⟨by simp [afterRaise, h.1.2.1], Or.inr ⟨rfl, rfl⟩⟩

theorem raise_counts (c : Cmd) (hc : c ≠ .close) (t : Nat) : ∀ ws : List Worker, (∀ w ∈ ws, IdleOrRaise c t w) →
    countFail ((ws.map (fun w => (w.run c).1)).filterMap (fun w' => w'.inbox.head?)) =
      (ws.flatMap (fun w => (w.run c).2)).length ∧
    (∀ p ∈ ws.flatMap (fun w => (w.run c).2), p.2 = t) ∧
    ((∃ w ∈ ws, due w c = some (.raise t)) → ws.flatMap (fun w => (w.run c).2) ≠ [])
  | [], _ => ⟨rfl, by simp, by simp⟩
  | w :: ws, h => by
    obtain ⟨ih1, ih2, ih3⟩ := raise_counts c hc t ws (fun w' hw' => h w' (List.mem_cons_of_mem _ hw'))
    have hw := h w List.mem_cons_self
    rcases hw.2 with hd | hd
    · have hr := run_quiet c hc w hw.1 hd
      refine ⟨?_, ?_, ?_⟩
      · have hh : (afterOk w c).inbox.head? = some (.okR c) := rfl
        simp only [List.map_cons, List.flatMap_cons, hr, List.filterMap_cons, hh, countFail_cons_ok, List.nil_append]
        exact ih1
      · simpa [List.flatMap_cons, hr] using ih2
      · rintro ⟨w', hw', hd'⟩
        rcases List.mem_cons.mp hw' with rfl | hw'
        · rw [hd] at hd'; cases hd'
        · simpa [List.flatMap_cons, hr] using ih3 ⟨w', hw', hd'⟩
    · have hr := run_raise c hc w hw.1 t hd
      refine ⟨?_, ?_, ?_⟩
      · have hh : (afterRaise w c).inbox.head? = some .failR := rfl
        simp only [List.map_cons, List.flatMap_cons, hr, List.filterMap_cons, hh, countFail_cons_fail,
          List.length_append, List.length_cons, List.length_nil]
        rw [ih1]; omega
      · intro p hp
        simp only [List.flatMap_cons, hr, List.mem_append, List.mem_singleton] at hp
        rcases hp with rfl | hp
        · rfl
        · exact ih2 p hp
      · intro _; simp [List.flatMap_cons, hr]

/-- a wait all of whose replies have arrived, at least one of them a failure, all queued errors of
    type `t`: the caller gets `t`, and the state is DEFAULT -/
theorem waitCore_all_raise (s : State) (c : Cmd) (timed : Bool) (ws2 : List Worker) (rs : List Reply) (t : Nat)
    (hpoll : pollAll s.ws = true)
    (hrecv : mapUntil (recvOne (inlineChk c)) s.ws = (ws2, [], rs, none))
    (hn : countFail rs = s.errq.length) (hne : s.errq ≠ []) (ht : ∀ p ∈ s.errq, p.2 = t) :
    (waitCore s c timed).2 = .err (.worker t) ∧ (waitCore s c timed).1.astate = .default ∧
    (waitCore s c timed).1.closed = s.closed := by
  obtain ⟨f, f2, ast, cl, ws, q⟩ := s
  dsimp only at hpoll hrecv hn hne ht
  unfold waitCore
  dsimp only
  rw [hpoll]
  simp only [Bool.not_true, Bool.and_false, Bool.false_eq_true, if_false]
  cases f
  · simp only [Bool.false_eq_true, if_false, hrecv, List.append_nil]
    obtain ⟨r1, r2, r3, _⟩ := raiseIfErrors_all { fixed := false, fix2 := f2, astate := ast, closed := cl, ws := ws2, errq := q }
      rs t hn hne ht
    rcases hr : raiseIfErrors { fixed := false, fix2 := f2, astate := ast, closed := cl, ws := ws2, errq := q } rs with ⟨s2, o2⟩
    rw [hr] at r1 r2 r3
    dsimp only at r1 r2 r3
    subst r1
    exact ⟨rfl, r2, r3⟩
  · simp only [if_true, hrecv, List.append_nil]
    obtain ⟨r1, r2, r3, _⟩ := raiseIfErrors_all { fixed := true, fix2 := f2, astate := .default, closed := cl, ws := ws2, errq := q }
      rs t hn hne ht
    rcases hr : raiseIfErrors { fixed := true, fix2 := f2, astate := .default, closed := cl, ws := ws2, errq := q } rs with ⟨s2, o2⟩
    rw [hr] at r1 r2 r3
    dsimp only at r1 r2 r3
    subst r1
    exact ⟨rfl, r2, r3⟩

/-- `X_async` on an idle environment in which some sub-environments raise `t` at this command,
    then `X_wait` (timed or not): the caller gets `t` and the state is DEFAULT again -/
theorem exception_propagates (s : State) (c : Cmd) (a : AState) (hca : cmdOf a = c) (ha : a ≠ .default)
    (hc : s.closed = false) (hd : s.astate = .default) (hq : s.errq = []) (t : Nat)
    (hidle : ∀ w ∈ s.ws, IdleOrRaise c t w) (hex : ∃ w ∈ s.ws, due w c = some (.raise t)) (timed : Bool) :
    (asyncOp s c a).2 = .ok ∧
    (waitOp (asyncOp s c a).1 a timed).2 = .err (.worker t) ∧
    (waitOp (asyncOp s c a).1 a timed).1.astate = .default ∧
    (waitOp (asyncOp s c a).1 a timed).1.closed = false := by
  have hcc : c ≠ .close := by subst hca; cases a <;> simp [cmdOf] at ha ⊢
  have hsend := mapUntil_all (sendOne c) (fun w => (w.run c).1) (fun w => (w.run c).2) (fun _ => none) s.ws
    (fun w hw => sendOne_idle c w (hidle w hw).1)
  rw [filterMap_none] at hsend
  have hasync : asyncOp s c a =
      ({ s with ws := s.ws.map (fun w => (w.run c).1), errq := s.ws.flatMap (fun w => (w.run c).2), astate := a },
        .ok) := by
    unfold asyncOp
    simp [hc, hd, hsend, hq]
  rw [hasync]
  refine ⟨rfl, ?_⟩
  have hrecv := mapUntil_all (recvOne (inlineChk c)) (fun w => { w with inbox := [] }) (fun _ => [])
      (fun w' => w'.inbox.head?) (s.ws.map (fun w => (w.run c).1)) (by
        intro w' hw'
        obtain ⟨w, hw, rfl⟩ := List.mem_map.mp hw'
        obtain ⟨hp, h | h⟩ := run_idleOrRaise c hcc t w (hidle w hw)
        · rw [recvOne_single _ _ _ hp h.1 (inlineChk_same c), h.1]; rfl
        · rw [recvOne_single _ _ _ hp h.1 (inlineChk_fail c), h.1]; rfl)
  rw [flatMap_nil] at hrecv
  have hpoll : pollAll (s.ws.map (fun w => (w.run c).1)) = true := by
    apply pollAll_of_inbox
    intro w' hw'
    obtain ⟨w, hw, rfl⟩ := List.mem_map.mp hw'
    obtain ⟨hp, h | h⟩ := run_idleOrRaise c hcc t w (hidle w hw)
    · exact ⟨hp, by rw [h.1]; simp⟩
    · exact ⟨hp, by rw [h.1]; simp⟩
  obtain ⟨h1, h2, h3⟩ := raise_counts c hcc t s.ws hidle
  have hw := waitCore_all_raise
    { s with ws := s.ws.map (fun w => (w.run c).1), errq := s.ws.flatMap (fun w => (w.run c).2), astate := a }
    c timed _ _ t hpoll hrecv h1 (h3 hex) h2
  unfold waitOp
  rw [if_neg (by simp [hc]), if_neg (by simp), hca]
  exact ⟨hw.1, hw.2.1, hw.2.2.trans hc⟩
