import Proofs.VecProtoWorker
/-!
  Proofs/VecProtoLoop.lean — list-level consequences of `mapUntil f` for a good loop body `f`.
-/
namespace VecProto

/-- what any step preserves about one worker -/
def R (w w1 : Worker) : Prop :=
  w1.idx = w.idx ∧ (w.st = .exited → w1.st = .exited) ∧
    (w1.pipeOpen = false → w.pipeOpen = false ∨ w1.st = .exited) ∧
    ((w.st = .hung → w.backlog ≠ []) → w1.st = .hung → w1.backlog ≠ [])

theorem R.refl (w : Worker) : R w w := ⟨rfl, id, fun h => Or.inl h, id⟩

theorem R.trans {a b c : Worker} (h1 : R a b) (h2 : R b c) : R a c := by
  refine ⟨h2.1.trans h1.1, fun h => h2.2.1 (h1.2.1 h), fun h => ?_, fun h => h2.2.2.2 (h1.2.2.2 h)⟩
  rcases h2.2.2.1 h with h' | h'
  · rcases h1.2.2.1 h' with h'' | h''
    · exact Or.inl h''
    · exact Or.inr (h2.2.1 h'')
  · exact Or.inr h'

theorem WStep.toR {w w1 : Worker} {e : ErrQ} {k : Nat} (h : WStep w w1 e k) : R w w1 :=
  ⟨h.idx, h.exited, h.pipe, h.hb⟩

def Rel : List Worker → List Worker → Prop
  | [], [] => True
  | a :: as, b :: bs => R a b ∧ Rel as bs
  | _, _ => False

theorem Rel.refl : ∀ ws : List Worker, Rel ws ws
  | [] => trivial
  | w :: ws => ⟨R.refl w, Rel.refl ws⟩

theorem Rel.trans : ∀ {as bs cs : List Worker}, Rel as bs → Rel bs cs → Rel as cs
  | [], [], [], _, _ => trivial
  | a :: as, b :: bs, c :: cs, h1, h2 => ⟨h1.1.trans h2.1, Rel.trans h1.2 h2.2⟩
  | [], _ :: _, _, h, _ => h.elim
  | _ :: _, [], _, h, _ => h.elim
  | _, [], _ :: _, _, h => h.elim
  | _, _ :: _, [], _, h => h.elim

theorem Rel.mem_right : ∀ {as bs : List Worker}, Rel as bs → ∀ b ∈ bs, ∃ a ∈ as, R a b
  | [], [], _, b, hb => by cases hb
  | a :: as, b' :: bs, h, b, hb => by
    rcases List.mem_cons.mp hb with rfl | hb
    · exact ⟨a, List.mem_cons_self, h.1⟩
    · obtain ⟨a', ha', hr⟩ := Rel.mem_right h.2 b hb
      exact ⟨a', List.mem_cons_of_mem _ ha', hr⟩
  | [], _ :: _, h, _, _ => h.elim
  | _ :: _, [], h, _, _ => h.elim

theorem Rel.mem_left : ∀ {as bs : List Worker}, Rel as bs → ∀ a ∈ as, ∃ b ∈ bs, R a b
  | [], [], _, a, ha => by cases ha
  | a' :: as, b :: bs, h, a, ha => by
    rcases List.mem_cons.mp ha with rfl | ha
    · exact ⟨b, List.mem_cons_self, h.1⟩
    · obtain ⟨b', hb', hr⟩ := Rel.mem_left h.2 a ha
      exact ⟨b', List.mem_cons_of_mem _ hb', hr⟩
  | [], _ :: _, h, _, _ => h.elim
  | _ :: _, [], h, _, _ => h.elim

theorem Rel.map_idx : ∀ {as bs : List Worker}, Rel as bs → bs.map Worker.idx = as.map Worker.idx
  | [], [], _ => rfl
  | a :: as, b :: bs, h => by simp [h.1.1, Rel.map_idx h.2]
  | [], _ :: _, h => h.elim
  | _ :: _, [], h => h.elim

def totalFail : List Worker → Nat
  | [] => 0
  | w :: ws => countFail w.inbox + totalFail ws

structure LStep (ws ws' : List Worker) (e : ErrQ) (k : Nat) : Prop where
  rel : Rel ws ws'
  fails : totalFail ws' + k ≤ totalFail ws + e.length
  errs : ∀ p ∈ e, ∃ w1 ∈ ws', w1.idx = p.1 ∧ w1.st = .exited

theorem LStep.refl (ws : List Worker) : LStep ws ws [] 0 := ⟨Rel.refl ws, by simp, by simp⟩

theorem LStep.trans {a b c : List Worker} {e1 e2 : ErrQ} {k1 k2 : Nat}
    (h1 : LStep a b e1 k1) (h2 : LStep b c e2 k2) : LStep a c (e1 ++ e2) (k1 + k2) := by
  refine ⟨h1.rel.trans h2.rel, ?_, ?_⟩
  · have := h1.fails; have := h2.fails; simp only [List.length_append]; omega
  · intro p hp
    rcases List.mem_append.mp hp with hp | hp
    · obtain ⟨w1, hw1, hi, hs⟩ := h1.errs p hp
      obtain ⟨w2, hw2, hr⟩ := h2.rel.mem_left w1 hw1
      exact ⟨w2, hw2, hr.1.trans hi, hr.2.1 hs⟩
    · exact h2.errs p hp

theorem mapUntil_lstep (f : Worker → StepRes) (hf : Good f) :
    ∀ ws, LStep ws (mapUntil f ws).1 (mapUntil f ws).2.1 (countFail (mapUntil f ws).2.2.1) := by
  intro ws
  induction ws with
  | nil => exact LStep.refl []
  | cons w ws ih =>
    have hw := hf w
    unfold mapUntil
    rcases hfw : f w with ⟨w1, e1, r, o⟩
    rw [hfw] at hw
    cases o with
    | some o =>
      simp only
      refine ⟨⟨hw.toR, Rel.refl ws⟩, ?_, ?_⟩
      · have := hw.fails; simp only [totalFail]; simp only at this; omega
      · intro p hp
        exact ⟨w1, List.mem_cons_self, (hw.errs p hp).1 ▸ hw.idx, (hw.errs p hp).2⟩
    | none =>
      simp only
      rcases hm : mapUntil f ws with ⟨ws1, e2, rs, o2⟩
      rw [hm] at ih
      simp only
      refine ⟨⟨hw.toR, ih.rel⟩, ?_, ?_⟩
      · have h1 := hw.fails; have h2 := ih.fails
        simp only [totalFail, countFail_append, List.length_append]
        simp only at h1 h2
        omega
      · intro p hp
        rcases List.mem_append.mp hp with hp | hp
        · exact ⟨w1, List.mem_cons_self, (hw.errs p hp).1 ▸ hw.idx, (hw.errs p hp).2⟩
        · obtain ⟨w2, hw2, h⟩ := ih.errs p hp
          exact ⟨w2, List.mem_cons_of_mem _ hw2, h⟩

/-- if the loop ran to the end, every resulting worker is the image of a worker whose body did not stop -/
theorem mapUntil_none_all (f : Worker → StepRes) :
    ∀ ws, (mapUntil f ws).2.2.2 = none → ∀ w1 ∈ (mapUntil f ws).1, ∃ w ∈ ws, (f w).1 = w1 ∧ (f w).2.2.2 = none := by
  intro ws
  induction ws with
  | nil => intro _ w1 h; simp [mapUntil] at h
  | cons w ws ih =>
    intro h w1 hw1
    unfold mapUntil at h hw1
    rcases hfw : f w with ⟨w0, e1, r, o⟩
    rw [hfw] at h hw1
    cases o with
    | some o => simp at h
    | none =>
      simp only at h hw1
      rcases hm : mapUntil f ws with ⟨ws1, e2, rs, o2⟩
      rw [hm] at h hw1 ih
      simp only at h hw1 ih
      rcases List.mem_cons.mp hw1 with rfl | hw1
      · exact ⟨w, List.mem_cons_self, by rw [hfw], by rw [hfw]⟩
      · obtain ⟨w', hw', h'⟩ := ih h w1 hw1
        exact ⟨w', List.mem_cons_of_mem _ hw', h'⟩

/-- a loop none of whose bodies stops with `o` does not stop with `o` -/
theorem mapUntil_stop_ne (f : Worker → StepRes) (o : Outcome) :
    ∀ ws, (∀ w ∈ ws, (f w).2.2.2 ≠ some o) → (mapUntil f ws).2.2.2 ≠ some o := by
  intro ws
  induction ws with
  | nil => intro _; simp [mapUntil]
  | cons w ws ih =>
    intro h
    unfold mapUntil
    have hw := h w List.mem_cons_self
    rcases hfw : f w with ⟨w0, e1, r, o'⟩
    rw [hfw] at hw
    cases o' with
    | some o' => simpa using hw
    | none =>
      simp only
      rcases hm : mapUntil f ws with ⟨ws1, e2, rs, o2⟩
      have := ih (fun w' hw' => h w' (List.mem_cons_of_mem _ hw'))
      rw [hm] at this
      exact this

/-- a property that every body establishes (given a precondition) holds of every worker the loop
    has passed when it ran to the end -/
theorem mapUntil_all_of_none (f : Worker → StepRes) (P Q : Worker → Prop)
    (hf : ∀ w, P w → (f w).2.2.2 = none → Q (f w).1) (ws : List Worker) (hP : ∀ w ∈ ws, P w)
    (h : (mapUntil f ws).2.2.2 = none) : ∀ w1 ∈ (mapUntil f ws).1, Q w1 := by
  intro w1 hw1
  obtain ⟨w, hw, rfl, hn⟩ := mapUntil_none_all f ws h w1 hw1
  exact hf w (hP w hw) hn

/-- a property preserved by every body (stopping or not) is preserved by the loop -/
theorem mapUntil_preserves (f : Worker → StepRes) (P : Worker → Prop) (hf : ∀ w, P w → P (f w).1) :
    ∀ ws, (∀ w ∈ ws, P w) → ∀ w1 ∈ (mapUntil f ws).1, P w1 := by
  intro ws
  induction ws with
  | nil => intro _ w1 h; simp [mapUntil] at h
  | cons w ws ih =>
    intro hP w1 hw1
    unfold mapUntil at hw1
    have hw := hf w (hP w List.mem_cons_self)
    rcases hfw : f w with ⟨w0, e1, r, o⟩
    rw [hfw] at hw1 hw
    cases o with
    | some o =>
      simp only at hw1
      rcases List.mem_cons.mp hw1 with rfl | hw1
      · exact hw
      · exact hP w1 (List.mem_cons_of_mem _ hw1)
    | none =>
      simp only at hw1
      rcases hm : mapUntil f ws with ⟨ws1, e2, rs, o2⟩
      rw [hm] at hw1 ih
      rcases List.mem_cons.mp hw1 with rfl | hw1
      · exact hw
      · exact ih (fun w' hw' => hP w' (List.mem_cons_of_mem _ hw')) w1 hw1

theorem totalFail_map (g : Worker → Worker) (hg : ∀ w, (g w).inbox = w.inbox) :
    ∀ ws, totalFail (ws.map g) = totalFail ws
  | [] => rfl
  | w :: ws => by simp [totalFail, hg, totalFail_map g hg ws]

theorem Rel.map (g : Worker → Worker) (hg : ∀ w, R w (g w)) : ∀ ws, Rel ws (ws.map g)
  | [] => trivial
  | w :: ws => ⟨hg w, Rel.map g hg ws⟩
