import Proofs.VecProtoInv
/-!
  Proofs/VecProtoPrompt.lean — what holds for EVERY fault script, including sub-environments that are
  stuck for good: the bookkeeping invariant `Base` is preserved by every call (whatever it returns,
  even if it never returns), a wait with a timeout never blocks, and — in the repaired code —
  `close` with a timeout or with `terminate=True` always returns and leaves nobody alive.
-/
namespace VecProto

/-- bookkeeping + "closed ⇒ nobody is alive" -/
structure Inv0 (s : State) : Prop where
  base : Base s.ws s.errq
  dead : s.closed = true → ∀ w ∈ s.ws, w.st = .exited

theorem raiseIfErrors_fix2 (s : State) (rs : List Reply) : (raiseIfErrors s rs).1.fix2 = s.fix2 := by
  unfold raiseIfErrors
  dsimp only
  split
  · rfl
  · split
    · rfl
    · split <;> rfl

/-- the wait body keeps the bookkeeping and the flags, whatever its outcome -/
theorem waitCore_base (s : State) (c : Cmd) (timed : Bool) (hb : Base s.ws s.errq) :
    Base (waitCore s c timed).1.ws (waitCore s c timed).1.errq ∧
    (waitCore s c timed).1.closed = s.closed ∧ (waitCore s c timed).1.fixed = s.fixed ∧
    (waitCore s c timed).1.fix2 = s.fix2 := by
  unfold waitCore
  split
  · exact ⟨hb, rfl, rfl, rfl⟩
  · dsimp only
    have h0 : Base (if s.fixed = true then { s with astate := .default } else s).ws
        (if s.fixed = true then { s with astate := .default } else s).errq ∧
        (if s.fixed = true then { s with astate := .default } else s).closed = s.closed ∧
        (if s.fixed = true then { s with astate := .default } else s).fixed = s.fixed ∧
        (if s.fixed = true then { s with astate := .default } else s).fix2 = s.fix2 := by
      split <;> exact ⟨hb, rfl, rfl, rfl⟩
    generalize (if s.fixed = true then { s with astate := .default } else s) = s0 at h0 ⊢
    obtain ⟨hb0, hc0, hf0, hg0⟩ := h0
    have hl := mapUntil_lstep _ (recvOne_good _ (inlineChk_fail c)) s0.ws
    rcases hm : mapUntil (recvOne (inlineChk c)) s0.ws with ⟨ws1, e, rs, o⟩
    rw [hm] at hl
    obtain ⟨hb1, hlen⟩ := hb0.step hl
    dsimp only at hb1 hlen
    cases o with
    | some o => exact ⟨hb1, hc0, hf0, hg0⟩
    | none =>
      dsimp only
      have hsp := raiseIfErrors_spec { s0 with ws := ws1, errq := s0.errq ++ e } rs hb1 hlen
      have hg := raiseIfErrors_fix2 { s0 with ws := ws1, errq := s0.errq ++ e } rs
      rcases hr : raiseIfErrors { s0 with ws := ws1, errq := s0.errq ++ e } rs with ⟨s2, o2⟩
      rw [hr] at hsp hg
      obtain ⟨_, h2, h3, h4, _, _⟩ := hsp
      dsimp only at h2 h3 h4 hg
      cases o2 with
      | ok => dsimp only; split <;> exact ⟨h2, h4.trans hc0, h3.trans hf0, hg.trans hg0⟩
      | err x => exact ⟨h2, h4.trans hc0, h3.trans hf0, hg.trans hg0⟩
      | hang => exact ⟨h2, h4.trans hc0, h3.trans hf0, hg.trans hg0⟩

theorem recvOne_ready_no_hang (chk : Reply → Option Exc) (w : Worker) (hr : w.ready = true) :
    (recvOne chk w).2.2.2 ≠ some .hang := by
  unfold Worker.ready at hr
  have hp : w.pipeOpen = true := by
    cases h : w.pipeOpen <;> simp [h] at hr ⊢
  unfold recvOne Worker.recv
  simp only [hp, Bool.true_eq_false, if_false]
  cases hi : w.inbox with
  | cons r rest => dsimp only; cases chk r <;> simp
  | nil =>
    have : w.st = .exited := by simpa [hp, hi] using hr
    simp [this]

/-- a wait with a timeout (0.25 s, 0 or anything else) never blocks: it polls first, and what it then
    reads is there — for every fault script, stuck sub-environments included -/
theorem waitCore_timed_no_hang (s : State) (c : Cmd) (hb : Base s.ws s.errq) : (waitCore s c true).2 ≠ .hang := by
  unfold waitCore
  split
  · simp
  · rename_i hpoll
    have hall : ∀ w ∈ s.ws, w.ready = true := by
      have : pollAll s.ws = true := by simpa using hpoll
      unfold pollAll at this
      exact List.all_eq_true.mp this
    dsimp only
    have h0 : Base (if s.fixed = true then { s with astate := .default } else s).ws
        (if s.fixed = true then { s with astate := .default } else s).errq ∧
        (if s.fixed = true then { s with astate := .default } else s).ws = s.ws := by
      split <;> exact ⟨hb, rfl⟩
    generalize (if s.fixed = true then { s with astate := .default } else s) = s0 at h0 ⊢
    obtain ⟨hb0, hw0⟩ := h0
    have hl := mapUntil_lstep _ (recvOne_good _ (inlineChk_fail c)) s0.ws
    have hnh := mapUntil_stop_ne (recvOne (inlineChk c)) .hang s0.ws
      (fun w hw => recvOne_ready_no_hang _ w (hall w (hw0 ▸ hw)))
    rcases hm : mapUntil (recvOne (inlineChk c)) s0.ws with ⟨ws1, e, rs, o⟩
    rw [hm] at hl hnh
    obtain ⟨hb1, hlen⟩ := hb0.step hl
    dsimp only at hb1 hlen hnh
    cases o with
    | some o => dsimp only; exact fun h => hnh (by rw [h])
    | none =>
      dsimp only
      have hsp := raiseIfErrors_spec { s0 with ws := ws1, errq := s0.errq ++ e } rs hb1 hlen
      rcases hr : raiseIfErrors { s0 with ws := ws1, errq := s0.errq ++ e } rs with ⟨s2, o2⟩
      rw [hr] at hsp
      cases o2 with
      | ok => dsimp only; split <;> simp
      | err x => simp
      | hang => exact absurd rfl hsp.1

theorem asyncOp_inv0 (s : State) (c : Cmd) (a : AState) (hi : Inv0 s) : Inv0 (asyncOp s c a).1 := by
  unfold asyncOp
  split
  · exact hi
  · split
    · exact hi
    · rename_i hc _
      have hc' : s.closed = false := by simpa using hc
      have hl := mapUntil_lstep _ (sendOne_good c) s.ws
      rcases hm : mapUntil (sendOne c) s.ws with ⟨ws1, e, rs, o⟩
      rw [hm] at hl
      obtain ⟨hb1, _⟩ := hi.base.step hl
      cases o with
      | some o => exact ⟨hb1, fun h => by rw [hc'] at h; cases h⟩
      | none => exact ⟨hb1, fun h => by rw [hc'] at h; cases h⟩

theorem waitOp_inv0 (s : State) (a : AState) (timed : Bool) (hi : Inv0 s) : Inv0 (waitOp s a timed).1 := by
  unfold waitOp
  split
  · exact hi
  · split
    · exact hi
    · rename_i hc _
      have hc' : s.closed = false := by simpa using hc
      obtain ⟨h1, h2, _, _⟩ := waitCore_base s (cmdOf a) timed hi.base
      exact ⟨h1, fun h => by rw [h2, hc'] at h; cases h⟩

theorem syncOp_inv0 (s : State) (c : Cmd) (a : AState) (hi : Inv0 s) : Inv0 (syncOp s c a).1 := by
  have h1 := asyncOp_inv0 s c a hi
  unfold syncOp
  rcases hr : asyncOp s c a with ⟨s1, o⟩
  rw [hr] at h1
  cases o with
  | ok => exact waitOp_inv0 s1 a false h1
  | err x => exact h1
  | hang => exact h1

theorem setAttrOp_inv0 (s : State) (hi : Inv0 s) : Inv0 (setAttrOp s).1 := by
  unfold setAttrOp
  split
  · exact hi
  · split
    · exact hi
    · rename_i hc _
      have hc' : s.closed = false := by simpa using hc
      have hl := mapUntil_lstep _ (sendOne_good .setattr) s.ws
      rcases hm : mapUntil (sendOne .setattr) s.ws with ⟨ws1, e, rs, o⟩
      rw [hm] at hl
      obtain ⟨hb1, _⟩ := hi.base.step hl
      cases o with
      | some o => exact ⟨hb1, fun h => by rw [hc'] at h; cases h⟩
      | none =>
        dsimp only
        obtain ⟨h1, h2, _, _⟩ := waitCore_base { s with ws := ws1, errq := s.errq ++ e } .setattr false hb1
        exact ⟨h1, fun h => by rw [h2] at h; dsimp only at h; rw [hc'] at h; cases h⟩

/-! ### close -/

theorem terminate_inv0 (s : State) (hb : Base s.ws s.errq) :
    Inv0 { s with ws := terminateAll s.ws, closed := true } := by
  have := (hb.step (terminateAll_lstep s.ws)).1
  rw [List.append_nil] at this
  exact ⟨this, fun _ => terminateAll_exited s.ws⟩

theorem closeFail_inv0 (s : State) (o : Outcome) (hb : Base s.ws s.errq) (hc : s.closed = false) :
    Inv0 (closeFail s o).1 := by
  unfold closeFail
  cases o with
  | hang => exact ⟨hb, fun h => by rw [hc] at h; cases h⟩
  | ok => dsimp only; split
          · exact terminate_inv0 s hb
          · exact ⟨hb, fun h => by rw [hc] at h; cases h⟩
  | err x => dsimp only; split
             · exact terminate_inv0 s hb
             · exact ⟨hb, fun h => by rw [hc] at h; cases h⟩

theorem closeTail_inv0 (s : State) (timed terminate : Bool) (hb : Base s.ws s.errq) (hc : s.closed = false) :
    Inv0 (closeTail s timed terminate).1 := by
  have nc : ∀ (ws : List Worker) (q : ErrQ), Base ws q → Inv0 { s with ws := ws, errq := q } :=
    fun ws q h => ⟨h, fun h' => by dsimp only at h'; rw [hc] at h'; cases h'⟩
  unfold closeTail
  split
  · exact terminate_inv0 s hb
  · have hl1 := mapUntil_lstep _ sendCloseOne_good s.ws
    rcases hm1 : mapUntil sendCloseOne s.ws with ⟨ws1, e1, rs1, o1⟩
    rw [hm1] at hl1
    obtain ⟨hb1, _⟩ := hb.step hl1
    dsimp only at hb1
    cases o1 with
    | some o => exact closeFail_inv0 { s with ws := ws1, errq := s.errq ++ e1 } o hb1 hc
    | none =>
      dsimp only
      split
      · have hl2 := mapUntil_lstep _ recvReadyOne_good ws1
        rcases hm2 : mapUntil recvReadyOne ws1 with ⟨ws2, e2, rs2, o2⟩
        rw [hm2] at hl2
        obtain ⟨hb2, _⟩ := hb1.step hl2
        dsimp only at hb2
        have key := terminate_inv0 { s with ws := ws2, errq := s.errq ++ e1 ++ e2 } hb2
        cases o2 with
        | none => exact key
        | some o =>
          cases o with
          | hang => exact nc _ _ hb2
          | ok => exact key
          | err x => exact key
      · have hl2 := mapUntil_lstep _ recvCloseOne_good ws1
        rcases hm2 : mapUntil recvCloseOne ws1 with ⟨ws2, e2, rs2, o2⟩
        rw [hm2] at hl2
        obtain ⟨hb2, _⟩ := hb1.step hl2
        dsimp only at hb2
        cases o2 with
        | some o => exact closeFail_inv0 { s with ws := ws2, errq := s.errq ++ e1 ++ e2 } o hb2 hc
        | none =>
          dsimp only
          have hl3 := mapUntil_lstep _ joinOne_good ws2
          have hall := mapUntil_none_all joinOne ws2
          rcases hm3 : mapUntil joinOne ws2 with ⟨ws3, e3, rs3, o3⟩
          rw [hm3] at hl3 hall
          obtain ⟨hb3, _⟩ := hb2.step hl3
          dsimp only at hb3 hall
          cases o3 with
          | some o => exact nc _ _ hb3
          | none =>
            refine ⟨hb3, fun _ w3 hw3 => ?_⟩
            obtain ⟨w2, _, rfl, hn⟩ := hall rfl w3 hw3
            exact joinOne_none w2 hn

theorem closeOp_inv0 (s : State) (timed terminate : Bool) (hi : Inv0 s) : Inv0 (closeOp s timed terminate).1 := by
  unfold closeOp
  split
  · exact hi
  · rename_i hc
    have hc' : s.closed = false := by simpa using hc
    split
    · exact closeTail_inv0 s timed terminate hi.base hc'
    · obtain ⟨h1, h2, _, _⟩ := waitCore_base s (cmdOf s.astate) (timed || terminate) hi.base
      rcases hw : waitCore s (cmdOf s.astate) (timed || terminate) with ⟨s1, o⟩
      rw [hw] at h1 h2
      dsimp only at h1 h2
      have hc1 : s1.closed = false := h2.trans hc'
      have self : Inv0 s1 := ⟨h1, fun h => by rw [hc1] at h; cases h⟩
      cases o with
      | ok => exact closeTail_inv0 s1 timed terminate h1 hc1
      | hang => exact self
      | err x =>
        cases x with
        | timeout => exact closeTail_inv0 s1 timed true h1 hc1
        | alreadyPending => dsimp only; split; exact closeTail_inv0 s1 timed _ h1 hc1; exact self
        | noAsyncCall => dsimp only; split; exact closeTail_inv0 s1 timed _ h1 hc1; exact self
        | closedEnv => dsimp only; split; exact closeTail_inv0 s1 timed _ h1 hc1; exact self
        | eof => dsimp only; split; exact closeTail_inv0 s1 timed _ h1 hc1; exact self
        | brokenPipe => dsimp only; split; exact closeTail_inv0 s1 timed _ h1 hc1; exact self
        | attributeError => dsimp only; split; exact closeTail_inv0 s1 timed _ h1 hc1; exact self
        | keyError => dsimp only; split; exact closeTail_inv0 s1 timed _ h1 hc1; exact self
        | typeError => dsimp only; split; exact closeTail_inv0 s1 timed _ h1 hc1; exact self
        | worker t => dsimp only; split; exact closeTail_inv0 s1 timed _ h1 hc1; exact self

/-- every public call keeps the bookkeeping — for every fault script and both variants of the code,
    whether the call returns, raises or never returns -/
theorem step_inv0 (s : State) (op : Op) (hi : Inv0 s) : Inv0 (s.step op).1 := by
  cases op with
  | resetAsync => exact asyncOp_inv0 s _ _ hi
  | stepAsync => exact asyncOp_inv0 s _ _ hi
  | callAsync => exact asyncOp_inv0 s _ _ hi
  | resetWait t => exact waitOp_inv0 s _ t hi
  | stepWait t => exact waitOp_inv0 s _ t hi
  | callWait t => exact waitOp_inv0 s _ t hi
  | setAttr => exact setAttrOp_inv0 s hi
  | close t k => exact closeOp_inv0 s t k hi
  | resetSync => exact syncOp_inv0 s _ _ hi
  | stepSync => exact syncOp_inv0 s _ _ hi
  | callSync => exact syncOp_inv0 s _ _ hi

theorem runOps_inv0 (ops : List Op) : ∀ s : State, Inv0 s → Inv0 (s.runOps ops).1 := by
  induction ops with
  | nil => intro s hi; exact hi
  | cons op ops ih =>
    intro s hi
    have h1 := step_inv0 s op hi
    unfold State.runOps
    rcases hs : s.step op with ⟨s1, o⟩
    rw [hs] at h1
    cases o with
    | hang => exact h1
    | ok => exact ih s1 h1
    | err x => exact ih s1 h1

theorem init_inv0 (f f2 : Bool) (n : Nat) (script : List (Nat × FaultAt)) : Inv0 (init f n script f2) :=
  ⟨init_base f f2 n script, fun h => by cases h⟩

/-! ### the repaired `close` with a time budget never waits for anybody -/

theorem closeTail_prompt (s : State) (timed terminate : Bool) (hf : s.fixed = true)
    (hb : Base s.ws s.errq) (h : terminate = true ∨ (timed = true ∧ s.fix2 = true)) :
    (closeTail s timed terminate).2 = .ok ∧ (closeTail s timed terminate).1.closed = true ∧
    ∀ w ∈ (closeTail s timed terminate).1.ws, w.st = .exited := by
  unfold closeTail
  split
  · exact ⟨rfl, rfl, terminateAll_exited s.ws⟩
  · rename_i hnt
    have ht : timed = true ∧ s.fix2 = true := by
      rcases h with h | h
      · exact absurd h hnt
      · exact h
    have hnh1 := mapUntil_stop_ne sendCloseOne .hang s.ws (fun w _ => sendCloseOne_no_hang w)
    rcases hm1 : mapUntil sendCloseOne s.ws with ⟨ws1, e1, rs1, o1⟩
    rw [hm1] at hnh1
    dsimp only at hnh1
    cases o1 with
    | some o =>
      dsimp only
      unfold closeFail
      cases o with
      | hang => exact absurd rfl hnh1
      | ok => dsimp only; rw [if_pos hf]; exact ⟨rfl, rfl, terminateAll_exited ws1⟩
      | err x => dsimp only; rw [if_pos hf]; exact ⟨rfl, rfl, terminateAll_exited ws1⟩
    | none =>
      dsimp only
      rw [if_pos (by simp [ht.1, ht.2])]
      have hnh2 := mapUntil_stop_ne recvReadyOne .hang ws1 (fun w _ => recvReadyOne_no_hang w)
      rcases hm2 : mapUntil recvReadyOne ws1 with ⟨ws2, e2, rs2, o2⟩
      rw [hm2] at hnh2
      dsimp only at hnh2
      cases o2 with
      | none => exact ⟨rfl, rfl, terminateAll_exited ws2⟩
      | some o =>
        cases o with
        | hang => exact absurd rfl hnh2
        | ok => exact ⟨rfl, rfl, terminateAll_exited ws2⟩
        | err x => exact ⟨rfl, rfl, terminateAll_exited ws2⟩

/-- repaired code (`fixed`, `fix2`): `close(timeout=…)` — any value, 0 included — and
    `close(terminate=True)` (hence garbage collection of an unclosed env) return normally, mark the
    environment closed and leave no worker alive, from every configuration that satisfies the
    bookkeeping invariant: stuck, sleeping, dead workers, a pending call of any kind -/
theorem closeOp_prompt (s : State) (timed terminate : Bool) (hf : s.fixed = true)
    (hi : Inv0 s) (h : terminate = true ∨ (timed = true ∧ s.fix2 = true)) :
    (closeOp s timed terminate).2 = .ok ∧ (closeOp s timed terminate).1.closed = true ∧
    ∀ w ∈ (closeOp s timed terminate).1.ws, w.st = .exited := by
  unfold closeOp
  split
  · rename_i hc; exact ⟨rfl, hc, hi.dead hc⟩
  · split
    · exact closeTail_prompt s timed terminate hf hi.base h
    · have htt : (timed || terminate) = true := by rcases h with h | h <;> simp [h]
      rw [htt]
      have hnh := waitCore_timed_no_hang s (cmdOf s.astate) hi.base
      obtain ⟨h1, _, h3, h4⟩ := waitCore_base s (cmdOf s.astate) true hi.base
      rcases hw : waitCore s (cmdOf s.astate) true with ⟨s1, o⟩
      rw [hw] at hnh h1 h3 h4
      dsimp only at hnh h1 h3 h4
      have key : ∀ k : Bool, (k = true ∨ (timed = true ∧ s.fix2 = true)) →
          (closeTail s1 timed k).2 = .ok ∧ (closeTail s1 timed k).1.closed = true ∧
          ∀ w ∈ (closeTail s1 timed k).1.ws, w.st = .exited :=
        fun k hk => closeTail_prompt s1 timed k (h3.trans hf) h1 (by rw [h4]; exact hk)
      cases o with
      | ok => exact key terminate h
      | hang => exact absurd rfl hnh
      | err x =>
        have hk : ∀ b c : Bool, (terminate || b || c) = true ∨ (timed = true ∧ s.fix2 = true) := by
          intro b c; rcases h with h | h
          · exact Or.inl (by simp [h])
          · exact Or.inr h
        cases x with
        | timeout => exact key true (Or.inl rfl)
        | alreadyPending => exact key _ (hk _ _)
        | noAsyncCall => exact key _ (hk _ _)
        | closedEnv => exact key _ (hk _ _)
        | eof => exact key _ (hk _ _)
        | brokenPipe => exact key _ (hk _ _)
        | attributeError => exact key _ (hk _ _)
        | keyError => exact key _ (hk _ _)
        | typeError => exact key _ (hk _ _)
        | worker t => exact key _ (hk _ _)

/-! ### the code variant never changes -/

theorem raiseIfErrors_flags (s : State) (rs : List Reply) :
    (raiseIfErrors s rs).1.fixed = s.fixed ∧ (raiseIfErrors s rs).1.fix2 = s.fix2 := by
  unfold raiseIfErrors
  dsimp only
  split
  · exact ⟨rfl, rfl⟩
  · split
    · exact ⟨rfl, rfl⟩
    · split <;> exact ⟨rfl, rfl⟩

def SameFlags (s s' : State) : Prop := s'.fixed = s.fixed ∧ s'.fix2 = s.fix2

theorem closeFail_flags (s : State) (o : Outcome) : SameFlags s (closeFail s o).1 := by
  unfold closeFail
  cases o with
  | hang => exact ⟨rfl, rfl⟩
  | ok => dsimp only; split <;> exact ⟨rfl, rfl⟩
  | err x => dsimp only; split <;> exact ⟨rfl, rfl⟩

theorem closeTail_flags (s : State) (timed terminate : Bool) : SameFlags s (closeTail s timed terminate).1 := by
  unfold closeTail
  split
  · exact ⟨rfl, rfl⟩
  · rcases mapUntil sendCloseOne s.ws with ⟨ws1, e1, rs1, o1⟩
    cases o1 with
    | some o => exact closeFail_flags _ o
    | none =>
      dsimp only
      split
      · rcases mapUntil recvReadyOne ws1 with ⟨ws2, e2, rs2, o2⟩
        cases o2 with
        | none => exact ⟨rfl, rfl⟩
        | some o => cases o <;> exact ⟨rfl, rfl⟩
      · rcases mapUntil recvCloseOne ws1 with ⟨ws2, e2, rs2, o2⟩
        cases o2 with
        | some o => exact closeFail_flags _ o
        | none =>
          dsimp only
          rcases mapUntil joinOne ws2 with ⟨ws3, e3, rs3, o3⟩
          cases o3 <;> exact ⟨rfl, rfl⟩

theorem SameFlags.trans {a b c : State} (h1 : SameFlags a b) (h2 : SameFlags b c) : SameFlags a c :=
  ⟨h2.1.trans h1.1, h2.2.trans h1.2⟩

theorem asyncOp_flags (s : State) (c : Cmd) (a : AState) : SameFlags s (asyncOp s c a).1 := by
  unfold asyncOp
  split
  · exact ⟨rfl, rfl⟩
  · split
    · exact ⟨rfl, rfl⟩
    · rcases mapUntil (sendOne c) s.ws with ⟨ws1, e, rs, o⟩
      cases o <;> exact ⟨rfl, rfl⟩

theorem waitOp_flags (s : State) (a : AState) (t : Bool) (hi : Inv0 s) : SameFlags s (waitOp s a t).1 := by
  unfold waitOp
  split
  · exact ⟨rfl, rfl⟩
  · split
    · exact ⟨rfl, rfl⟩
    · obtain ⟨_, _, h3, h4⟩ := waitCore_base s (cmdOf a) t hi.base
      exact ⟨h3, h4⟩

theorem syncOp_flags (s : State) (c : Cmd) (a : AState) (hi : Inv0 s) : SameFlags s (syncOp s c a).1 := by
  unfold syncOp
  have h1 := asyncOp_flags s c a
  have h2 := asyncOp_inv0 s c a hi
  rcases hr : asyncOp s c a with ⟨s1, o⟩
  rw [hr] at h1 h2
  cases o with
  | ok => exact h1.trans (waitOp_flags s1 a false h2)
  | err x => exact h1
  | hang => exact h1

theorem step_flags (s : State) (op : Op) (hi : Inv0 s) : SameFlags s (s.step op).1 := by
  cases op with
  | resetAsync => exact asyncOp_flags s _ _
  | stepAsync => exact asyncOp_flags s _ _
  | callAsync => exact asyncOp_flags s _ _
  | resetWait t => exact waitOp_flags s _ t hi
  | stepWait t => exact waitOp_flags s _ t hi
  | callWait t => exact waitOp_flags s _ t hi
  | setAttr =>
    show SameFlags s (setAttrOp s).1
    unfold setAttrOp
    split
    · exact ⟨rfl, rfl⟩
    · split
      · exact ⟨rfl, rfl⟩
      · have hl := mapUntil_lstep _ (sendOne_good .setattr) s.ws
        rcases hm : mapUntil (sendOne .setattr) s.ws with ⟨ws1, e, rs, o⟩
        rw [hm] at hl
        cases o with
        | some o => exact ⟨rfl, rfl⟩
        | none =>
          dsimp only
          obtain ⟨_, _, h3, h4⟩ := waitCore_base { s with ws := ws1, errq := s.errq ++ e } .setattr false
            (hi.base.step hl).1
          exact ⟨h3, h4⟩
  | close t k =>
    show SameFlags s (closeOp s t k).1
    unfold closeOp
    split
    · exact ⟨rfl, rfl⟩
    · split
      · exact closeTail_flags s t k
      · obtain ⟨_, _, h3, h4⟩ := waitCore_base s (cmdOf s.astate) (t || k) hi.base
        rcases hw : waitCore s (cmdOf s.astate) (t || k) with ⟨s1, o⟩
        rw [hw] at h3 h4
        have h01 : SameFlags s s1 := ⟨h3, h4⟩
        cases o with
        | ok => exact h01.trans (closeTail_flags s1 t k)
        | hang => exact h01
        | err x =>
          cases x <;> first
            | exact h01.trans (closeTail_flags s1 t _)
            | (dsimp only; split
               · exact h01.trans (closeTail_flags s1 t _)
               · exact h01)
  | resetSync => exact syncOp_flags s _ _ hi
  | stepSync => exact syncOp_flags s _ _ hi
  | callSync => exact syncOp_flags s _ _ hi

theorem runOps_flags (ops : List Op) : ∀ s : State, Inv0 s → SameFlags s (s.runOps ops).1 := by
  induction ops with
  | nil => intro s _; exact ⟨rfl, rfl⟩
  | cons op ops ih =>
    intro s hi
    have h1 := step_flags s op hi
    have h2 := step_inv0 s op hi
    unfold State.runOps
    rcases hs : s.step op with ⟨s1, o⟩
    rw [hs] at h1 h2
    cases o with
    | hang => exact h1
    | ok => exact h1.trans (ih s1 h2)
    | err x => exact h1.trans (ih s1 h2)
