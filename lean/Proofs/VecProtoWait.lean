import Proofs.VecProtoLoop
/-!
  Proofs/VecProtoWait.lean — state after a wait, for *arbitrary* configurations (no invariant).
-/
namespace VecProto

theorem raiseIfErrors_astate (s : State) (rs : List Reply) :
    ((raiseIfErrors s rs).2 = .ok ∧ (raiseIfErrors s rs).1 = s) ∨
    ((raiseIfErrors s rs).2 = .hang ∧ (raiseIfErrors s rs).1 = s) ∨
    ((∃ t, (raiseIfErrors s rs).2 = .err (.worker t)) ∧ (raiseIfErrors s rs).1.astate = .default ∧
      (raiseIfErrors s rs).1.closed = s.closed ∧ (raiseIfErrors s rs).1.fixed = s.fixed) := by
  unfold raiseIfErrors
  dsimp only
  split
  · exact Or.inl ⟨rfl, rfl⟩
  · split
    · exact Or.inr (Or.inl ⟨rfl, rfl⟩)
    · split
      · rename_i t _; exact Or.inr (Or.inr ⟨⟨t, rfl⟩, rfl, rfl, rfl⟩)
      · exact Or.inr (Or.inl ⟨rfl, rfl⟩)

/-- repaired code: whatever a wait does (return, raise, even block), `_state` is DEFAULT afterwards -/
theorem waitCore_fixed_default (s : State) (c : Cmd) (timed : Bool) (hf : s.fixed = true) :
    (waitCore s c timed).1.astate = .default ∧ (waitCore s c timed).1.closed = s.closed := by
  obtain ⟨f, f2, ast, cl, ws, q⟩ := s
  dsimp only at hf
  subst hf
  unfold waitCore
  dsimp only
  split
  · exact ⟨rfl, rfl⟩
  · simp only [if_true]
    rcases mapUntil (recvOne (inlineChk c)) ws with ⟨ws1, e, rs, o⟩
    cases o with
    | some o => exact ⟨rfl, rfl⟩
    | none =>
      dsimp only
      rcases raiseIfErrors_astate { fixed := true, fix2 := f2, astate := .default, closed := cl, ws := ws1, errq := q ++ e } rs
        with ⟨h1, h2⟩ | ⟨h1, h2⟩ | ⟨⟨t, h1⟩, h2, h3, _⟩
      · rcases hr : raiseIfErrors { fixed := true, fix2 := f2, astate := .default, closed := cl, ws := ws1, errq := q ++ e } rs
          with ⟨s2, o2⟩
        rw [hr] at h1 h2
        dsimp only at h1 h2
        subst h1 h2
        dsimp only
        split <;> exact ⟨rfl, rfl⟩
      · rcases hr : raiseIfErrors { fixed := true, fix2 := f2, astate := .default, closed := cl, ws := ws1, errq := q ++ e } rs
          with ⟨s2, o2⟩
        rw [hr] at h1 h2
        dsimp only at h1 h2
        subst h1 h2
        exact ⟨rfl, rfl⟩
      · rcases hr : raiseIfErrors { fixed := true, fix2 := f2, astate := .default, closed := cl, ws := ws1, errq := q ++ e } rs
          with ⟨s2, o2⟩
        rw [hr] at h1 h2 h3
        dsimp only at h1 h2 h3
        subst h1
        exact ⟨h2, h3⟩

/-! ### timeouts -/

/-- a sleeping worker with nothing to read makes a timed poll fail (A4) -/
theorem pollAll_false_of_hung (ws : List Worker) (w : Worker) (hw : w ∈ ws) (hs : w.st = .hung)
    (hi : w.inbox = []) : pollAll ws = false := by
  unfold pollAll
  rw [List.all_eq_false]
  exact ⟨w, hw, by simp [Worker.ready, hs, hi]⟩

theorem waitCore_timeout (s : State) (c : Cmd) (hpoll : pollAll s.ws = false) :
    waitCore s c true = ({ s with astate := .default }, .err .timeout) := by
  unfold waitCore
  simp [hpoll]

theorem decodeErr_ne_timeout (c : Cmd) (r : Reply) : decodeErr c r ≠ some .timeout := by
  unfold decodeErr
  cases r with
  | failR => simp
  | okR k =>
    dsimp only
    split
    · simp
    · cases c <;> simp <;> split <;> simp

theorem inlineChk_ne_timeout (c : Cmd) (r : Reply) : inlineChk c r ≠ some .timeout := by
  unfold inlineChk
  split
  · exact decodeErr_ne_timeout _ r
  · simp

theorem recvOne_ne_timeout (c : Cmd) (w : Worker) : (recvOne (inlineChk c) w).2.2.2 ≠ some (.err .timeout) := by
  unfold recvOne
  rcases w.recv with ⟨w1, e1, r⟩
  cases r with
  | got r =>
    dsimp only
    cases h : inlineChk c r with
    | none => simp
    | some x =>
      dsimp only
      intro h'
      have : x = .timeout := by simpa using h'
      subst this
      exact inlineChk_ne_timeout c r h
  | eof => simp
  | block => simp
  | noPipe => simp

/-- a wait reports a timeout only if a timeout was given and some pipe had nothing to read -/
theorem waitCore_timeout_only (s : State) (c : Cmd) (timed : Bool)
    (h : (waitCore s c timed).2 = .err .timeout) : timed = true ∧ pollAll s.ws = false := by
  unfold waitCore at h
  dsimp only at h
  split at h
  · rename_i hc
    simpa using hc
  · exfalso
    generalize (if s.fixed = true then { s with astate := .default } else s) = s0 at h
    have hne := mapUntil_stop_ne (recvOne (inlineChk c)) (.err .timeout) s0.ws (fun w _ => recvOne_ne_timeout c w)
    rcases hm : mapUntil (recvOne (inlineChk c)) s0.ws with ⟨ws1, e, rs, o⟩
    rw [hm] at h hne
    cases o with
    | some o => dsimp only at h hne; exact hne (by rw [h])
    | none =>
      dsimp only at h
      rcases raiseIfErrors_astate { s0 with ws := ws1, errq := s0.errq ++ e } rs
        with ⟨h1, _⟩ | ⟨h1, _⟩ | ⟨⟨t, h1⟩, _⟩
      all_goals
        rcases hr : raiseIfErrors { s0 with ws := ws1, errq := s0.errq ++ e } rs with ⟨s2, o2⟩
        rw [hr] at h h1
        dsimp only at h1
        subst h1
        dsimp only at h
      · split at h
        · rename_i x hx
          have hx' : x = .timeout := by simpa using h
          subst hx'
          split at hx
          · obtain ⟨r, _, hr'⟩ := List.exists_of_findSome?_eq_some hx
            exact decodeErr_ne_timeout _ r hr'
          · cases hx
        · cases h
      · cases h
      · cases h
