import Model.VecProto
/-!
  Proofs/VecProtoWorker.lean — what one worker-level step (run / runList / wake / deliver / drain /
  recv and the loop bodies built from them) can and cannot change.
-/
namespace VecProto

/-- `w ⟶ w1` while putting `e` on the error queue and handing `k` failure replies to the parent -/
structure WStep (w w1 : Worker) (e : ErrQ) (k : Nat) : Prop where
  idx : w1.idx = w.idx
  exited : w.st = .exited → w1.st = .exited
  pipe : w1.pipeOpen = false → w.pipeOpen = false ∨ w1.st = .exited
  fails : countFail w1.inbox + k ≤ countFail w.inbox + e.length
  errs : ∀ p ∈ e, p.1 = w.idx ∧ w1.st = .exited
  hb : (w.st = .hung → w.backlog ≠ []) → w1.st = .hung → w1.backlog ≠ []

theorem WStep.refl (w : Worker) : WStep w w [] 0 :=
  ⟨rfl, id, fun h => Or.inl h, by simp, by simp, id⟩

theorem WStep.trans {w w1 w2 : Worker} {e1 e2 : ErrQ} {k1 k2 : Nat}
    (h1 : WStep w w1 e1 k1) (h2 : WStep w1 w2 e2 k2) : WStep w w2 (e1 ++ e2) (k1 + k2) := by
  refine ⟨h2.idx.trans h1.idx, fun h => h2.exited (h1.exited h), ?_, ?_, ?_, fun h => h2.hb (h1.hb h)⟩
  · intro h
    rcases h2.pipe h with h' | h'
    · rcases h1.pipe h' with h'' | h''
      · exact Or.inl h''
      · exact Or.inr (h2.exited h'')
    · exact Or.inr h'
  · have := h1.fails; have := h2.fails; simp only [List.length_append]; omega
  · intro p hp
    rcases List.mem_append.mp hp with hp | hp
    · exact ⟨(h1.errs p hp).1, h2.exited (h1.errs p hp).2⟩
    · exact ⟨((h2.errs p hp).1).trans h1.idx, (h2.errs p hp).2⟩

@[simp] theorem countFail_nil : countFail [] = 0 := rfl
@[simp] theorem countFail_append (a b : List Reply) : countFail (a ++ b) = countFail a + countFail b := by
  simp [countFail]
@[simp] theorem countFail_ok (c : Cmd) : countFail [Reply.okR c] = 0 := by simp [countFail]
@[simp] theorem countFail_fail : countFail [Reply.failR] = 1 := by simp [countFail]
@[simp] theorem countFail_cons_fail (rs : List Reply) : countFail (Reply.failR :: rs) = countFail rs + 1 := by
  simp [countFail]
@[simp] theorem countFail_cons_ok (c : Cmd) (rs : List Reply) : countFail (Reply.okR c :: rs) = countFail rs := by
  simp [countFail]

@[simp] theorem bump_idx (w : Worker) (c : Cmd) : (w.bump c).idx = w.idx := by cases c <;> rfl
@[simp] theorem bump_st (w : Worker) (c : Cmd) : (w.bump c).st = w.st := by cases c <;> rfl
@[simp] theorem bump_pipe (w : Worker) (c : Cmd) : (w.bump c).pipeOpen = w.pipeOpen := by cases c <;> rfl
@[simp] theorem bump_inbox (w : Worker) (c : Cmd) : (w.bump c).inbox = w.inbox := by cases c <;> rfl
@[simp] theorem bump_backlog (w : Worker) (c : Cmd) : (w.bump c).backlog = w.backlog := by cases c <;> rfl
@[simp] theorem bump_faults (w : Worker) (c : Cmd) : (w.bump c).faults = w.faults := by cases c <;> rfl
@[simp] theorem bump_forever (w : Worker) (c : Cmd) : (w.bump c).forever = w.forever := by cases c <;> rfl

theorem run_wstep (w : Worker) (c : Cmd) (ha : w.st = .alive) : WStep w (w.run c).1 (w.run c).2 0 := by
  unfold Worker.run
  cases c
  case close => exact ⟨rfl, fun _ => rfl, fun h => Or.inl h, by simp, by simp, by simp⟩
  all_goals
    simp only
    split
    · exact ⟨by simp, by simp [ha], fun h => Or.inl (by simpa using h), by simp, by simp, by simp [ha]⟩
    · exact ⟨by simp, by simp, fun h => Or.inl (by simpa using h), by simp, by simp, by simp⟩
    · exact ⟨by simp, by simp, fun h => Or.inl (by simpa using h), by simp, by simp, by simp⟩
    · exact ⟨by simp, by simp [ha], fun h => Or.inl (by simpa using h), by simp, by simp, by simp⟩
    · exact ⟨by simp, by simp [ha], fun h => Or.inl (by simpa using h), by simp, by simp, by simp⟩

theorem WStep.of_eq {w w1 w1' : Worker} {e : ErrQ} {k : Nat} (h : WStep w w1 e k)
    (hi : w1'.idx = w1.idx) (hs : w1'.st = w1.st) (hp : w1'.pipeOpen = w1.pipeOpen)
    (hb : w1'.inbox = w1.inbox) (hbl : w1.backlog ≠ [] → w1'.backlog ≠ []) : WStep w w1' e k :=
  ⟨hi ▸ h.idx, fun x => hs ▸ h.exited x, fun x => by rw [hs]; exact h.pipe (hp ▸ x),
   by rw [hb]; exact h.fails, fun p hp' => by rw [hs]; exact h.errs p hp',
   fun x y => hbl (h.hb x (hs ▸ y))⟩

theorem runList_wstep (cs : List Cmd) : ∀ w : Worker, WStep w (w.runList cs).1 (w.runList cs).2 0 := by
  induction cs with
  | nil => intro w; exact WStep.refl w
  | cons c cs ih =>
    intro w
    unfold Worker.runList
    cases ha : w.st with
    | alive =>
      simp only
      have h1 := run_wstep w c ha
      cases h1s : (w.run c).1.st with
      | alive =>
        simp only
        have := h1.trans (ih (w.run c).1)
        simpa using this
      | hung =>
        simp only
        exact h1.of_eq rfl h1s.symm rfl rfl (by intro h; simp [h])
      | exited => simp only; exact h1
    | hung => exact WStep.refl w
    | exited => exact WStep.refl w

theorem wake_wstep (w : Worker) (hh : w.st = .hung) : WStep w w.wake.1 w.wake.2 0 := by
  unfold Worker.wake
  cases hb : w.backlog with
  | nil =>
    exact ⟨rfl, by simp [hh], fun h => Or.inl h, by simp, by simp, by simp⟩
  | cons c rest =>
    simp only
    have h0 : WStep w { w with st := (if c = .close then WSt.exited else WSt.alive),
                               inbox := w.inbox ++ [.okR c], backlog := [] } [] 0 :=
      ⟨rfl, by simp [hh], fun h => Or.inl h, by simp, by simp, by simp; intro _ h; split at h <;> cases h⟩
    have := h0.trans (runList_wstep rest _)
    simpa using this

theorem deliver_wstep (w : Worker) (c : Cmd) : WStep w (w.deliver c).1 (w.deliver c).2 0 := by
  unfold Worker.deliver
  cases ha : w.st with
  | alive => exact run_wstep w c ha
  | hung => exact ⟨rfl, by simp [ha], fun h => Or.inl h, by simp, by simp, by simp⟩
  | exited => exact WStep.refl w

theorem drain_wstep (n : Nat) : ∀ w : Worker, WStep w (Worker.drain n w).1 (Worker.drain n w).2 0 := by
  induction n with
  | zero => intro w; exact WStep.refl w
  | succ n ih =>
    intro w
    unfold Worker.drain
    cases ha : w.st with
    | hung =>
      simp only
      cases hfv : w.forever with
      | true => simpa using WStep.refl w
      | false =>
        simp only [Bool.false_eq_true, if_false]
        have := (wake_wstep w ha).trans (ih w.wake.1)
        simpa using this
    | alive => exact WStep.refl w
    | exited => exact WStep.refl w

def Recv.fails : Recv → Nat
  | .got .failR => 1
  | _ => 0

theorem recv_wstep (w : Worker) : WStep w w.recv.1 w.recv.2.1 w.recv.2.2.fails := by
  unfold Worker.recv
  cases hp : w.pipeOpen with
  | false => simpa [Recv.fails] using WStep.refl w
  | true =>
    simp only [Bool.true_eq_false, if_false]
    cases hi : w.inbox with
    | cons r rest =>
      simp only
      refine ⟨rfl, id, fun h => by simp at h, ?_, by simp, id⟩
      cases r <;> simp [Recv.fails, hi]
    | nil =>
      simp only
      cases ha : w.st with
      | exited => simpa [Recv.fails] using WStep.refl w
      | alive => simpa [Recv.fails] using WStep.refl w
      | hung =>
        simp only
        cases hfv : w.forever with
        | true => simpa [Recv.fails] using WStep.refl w
        | false =>
          simp only [Bool.false_eq_true, if_false]
          have hw := wake_wstep w ha
          cases hi1 : w.wake.1.inbox with
          | nil => simpa [Recv.fails] using hw
          | cons r rest =>
            simp only
            refine ⟨hw.idx, hw.exited, hw.pipe, ?_, hw.errs, hw.hb⟩
            have := hw.fails
            rw [hi1, hi] at this
            cases r <;> simp [Recv.fails] at this ⊢ <;> omega

/-! ### the loop bodies -/

/-- every loop body is a `WStep` that accounts for the reply it hands out -/
def Good (f : Worker → StepRes) : Prop :=
  ∀ w, WStep w (f w).1 (f w).2.1 (countFail (f w).2.2.1.toList)

theorem sendOne_good (c : Cmd) : Good (sendOne c) := by
  intro w
  unfold sendOne
  split
  · simpa using WStep.refl w
  · split
    · simpa using WStep.refl w
    · simpa using deliver_wstep w c

theorem sendCloseOne_good : Good sendCloseOne := by
  intro w
  unfold sendCloseOne
  split
  · simpa using WStep.refl w
  · exact sendOne_good .close w

theorem recvOne_good (chk : Reply → Option Exc) (hchk : chk .failR = none) : Good (recvOne chk) := by
  intro w
  have h := recv_wstep w
  unfold recvOne
  rcases hr : w.recv with ⟨w1, e1, r⟩
  rw [hr] at h
  cases r with
  | got r =>
    simp only
    cases hc : chk r with
    | none =>
      simp only [Option.toList]
      cases r <;> simpa [Recv.fails] using h
    | some x =>
      simp only [Option.toList]
      cases r with
      | okR k => simpa [Recv.fails] using h
      | failR => rw [hchk] at hc; cases hc
  | eof => simpa [Recv.fails] using h
  | block => simpa [Recv.fails] using h
  | noPipe => simpa [Recv.fails] using h

theorem decodeErr_fail (c : Cmd) : decodeErr c .failR = none := rfl

theorem inlineChk_fail (c : Cmd) : inlineChk c .failR = none := by
  unfold inlineChk; split <;> rfl

theorem recvCloseOne_good : Good recvCloseOne := by
  intro w
  unfold recvCloseOne
  split
  · simpa using WStep.refl w
  · exact recvOne_good _ rfl w

theorem joinOne_good : Good joinOne := by
  intro w
  have h := drain_wstep (w.backlog.length + 1) w
  unfold joinOne
  simp only
  split
  · rename_i hex
    refine ⟨h.idx, fun _ => hex, fun _ => Or.inr hex, by simpa using h.fails, fun p hp => ⟨(h.errs p hp).1, hex⟩,
      fun _ h' => by simp [hex] at h'⟩
  · simpa using h

/-! ### pipes, inboxes -/

@[simp] theorem run_pipe (w : Worker) (c : Cmd) : (w.run c).1.pipeOpen = w.pipeOpen := by
  unfold Worker.run
  cases c
  case close => rfl
  all_goals (simp only; split <;> simp)

theorem run_inbox_ne (w : Worker) (c : Cmd) (h : w.inbox ≠ []) : (w.run c).1.inbox ≠ [] := by
  unfold Worker.run
  cases c
  case close => simp
  all_goals (simp only; split <;> simp [h])

theorem run_alive_inbox (w : Worker) (c : Cmd) (h : (w.run c).1.st = .alive) : (w.run c).1.inbox ≠ [] := by
  unfold Worker.run at h ⊢
  cases c
  case close => simp at h
  all_goals
    simp only at h ⊢
    split at h <;> simp_all

@[simp] theorem runList_pipe (cs : List Cmd) : ∀ w : Worker, (w.runList cs).1.pipeOpen = w.pipeOpen := by
  induction cs with
  | nil => intro w; rfl
  | cons c cs ih =>
    intro w
    unfold Worker.runList
    cases w.st with
    | alive =>
      simp only
      cases (w.run c).1.st with
      | alive => simp only; rw [ih]; exact run_pipe w c
      | hung => simp
      | exited => simp
    | hung => rfl
    | exited => rfl

theorem runList_inbox_ne (cs : List Cmd) : ∀ w : Worker, w.inbox ≠ [] → (w.runList cs).1.inbox ≠ [] := by
  induction cs with
  | nil => intro w h; exact h
  | cons c cs ih =>
    intro w h
    unfold Worker.runList
    have h1 := run_inbox_ne w c h
    cases w.st with
    | alive =>
      simp only
      cases (w.run c).1.st with
      | alive => simp only; exact ih _ h1
      | hung => exact h1
      | exited => exact h1
    | hung => exact h
    | exited => exact h

@[simp] theorem wake_pipe (w : Worker) : w.wake.1.pipeOpen = w.pipeOpen := by
  unfold Worker.wake
  cases w.backlog with
  | nil => rfl
  | cons c rest => simp

theorem wake_inbox_ne (w : Worker) (h : w.backlog ≠ []) : w.wake.1.inbox ≠ [] := by
  unfold Worker.wake
  cases hb : w.backlog with
  | nil => exact absurd hb h
  | cons c rest =>
    simp only
    exact runList_inbox_ne rest _ (by simp)

@[simp] theorem deliver_pipe (w : Worker) (c : Cmd) : (w.deliver c).1.pipeOpen = w.pipeOpen := by
  unfold Worker.deliver
  cases w.st <;> simp

@[simp] theorem drain_pipe (n : Nat) : ∀ w : Worker, (Worker.drain n w).1.pipeOpen = w.pipeOpen := by
  induction n with
  | zero => intro w; rfl
  | succ n ih =>
    intro w
    unfold Worker.drain
    cases w.st with
    | hung =>
      simp only
      cases w.forever with
      | true => rfl
      | false => simp only [Bool.false_eq_true, if_false]; rw [ih]; exact wake_pipe w
    | alive => rfl
    | exited => rfl

@[simp] theorem recv_pipe (w : Worker) : w.recv.1.pipeOpen = w.pipeOpen := by
  unfold Worker.recv
  cases hp : w.pipeOpen with
  | false => simp [hp]
  | true =>
    simp only [Bool.true_eq_false, if_false]
    cases w.inbox with
    | cons r rest => simp [hp]
    | nil =>
      simp only
      cases w.st with
      | exited => simp [hp]
      | alive => simp [hp]
      | hung =>
        simp only
        cases w.forever with
        | true => simp [hp]
        | false =>
          simp only [Bool.false_eq_true, if_false]
          cases w.wake.1.inbox with
          | nil => simp [hp]
          | cons r rest =>
            simp only
            have := wake_pipe w
            rw [hp] at this
            exact this

/-- after a successful `send` the worker's pipe is open and, if it is alive, a reply is waiting (A1) -/
theorem sendOne_none (c : Cmd) (w : Worker) (h : (sendOne c w).2.2.2 = none) :
    (sendOne c w).1.pipeOpen = true ∧ ((sendOne c w).1.st = .alive → (sendOne c w).1.inbox ≠ []) := by
  unfold sendOne at h ⊢
  cases hp : w.pipeOpen with
  | false => simp [hp] at h
  | true =>
    simp only [hp, Bool.true_eq_false, if_false] at h ⊢
    by_cases he : w.st = .exited
    · simp [he] at h
    · simp only [he, if_false]
      refine ⟨by simp [hp], ?_⟩
      unfold Worker.deliver
      cases ha : w.st with
      | alive => exact run_alive_inbox w c
      | hung => simp
      | exited => exact absurd ha he

/-- a blocking `recv` on an open pipe whose worker, if alive, has a reply waiting, and, if asleep,
    is asleep *in* a command, never blocks forever -/
theorem recvOne_no_hang (chk : Reply → Option Exc) (w : Worker) (hp : w.pipeOpen = true)
    (ha : w.st = .alive → w.inbox ≠ []) (hh : w.st = .hung → w.backlog ≠ []) (hnf : w.forever = false) :
    (recvOne chk w).2.2.2 ≠ some .hang := by
  unfold recvOne Worker.recv
  simp only [hp, Bool.true_eq_false, if_false]
  cases hi : w.inbox with
  | cons r rest => simp only; cases chk r <;> simp
  | nil =>
    simp only
    cases hs : w.st with
    | exited => simp
    | alive => exact absurd hi (ha hs)
    | hung =>
      simp only [hnf, Bool.false_eq_true, if_false]
      have := wake_inbox_ne w (hh hs)
      cases hw : w.wake.1.inbox with
      | nil => exact absurd hw this
      | cons r rest => simp only; cases chk r <;> simp

/-! ### workers whose script has no `stuck` fault never sleep for good -/

def NoStuck (w : Worker) : Prop := w.forever = false ∧ ∀ f ∈ w.faults, f.kind ≠ .stuck

theorem lookupFault_mem {fs : List FaultAt} {c : Cmd} {k : Nat} {x : Fault} (h : lookupFault fs c k = some x) :
    ∃ f ∈ fs, f.kind = x := by
  unfold lookupFault at h
  obtain ⟨f, hf, rfl⟩ := Option.map_eq_some_iff.mp h
  exact ⟨f, List.mem_of_find?_eq_some hf, rfl⟩

theorem run_nostuck (w : Worker) (c : Cmd) (h : NoStuck w) : NoStuck (w.run c).1 := by
  unfold Worker.run
  cases c
  case close => exact h
  all_goals
    simp only
    split
    · exact ⟨by simpa using h.1, by simpa using h.2⟩
    · exact ⟨by simpa using h.1, by simpa using h.2⟩
    · exact ⟨by simpa using h.1, by simpa using h.2⟩
    · exact ⟨by simpa using h.1, by simpa using h.2⟩
    · rename_i hl
      obtain ⟨f, hf, hk⟩ := lookupFault_mem hl
      exact absurd hk (h.2 f hf)

theorem runList_nostuck (cs : List Cmd) : ∀ w : Worker, NoStuck w → NoStuck (w.runList cs).1 := by
  induction cs with
  | nil => intro w h; exact h
  | cons c cs ih =>
    intro w h
    unfold Worker.runList
    have h1 := run_nostuck w c h
    cases w.st with
    | alive =>
      simp only
      cases (w.run c).1.st with
      | alive => simp only; exact ih _ h1
      | hung => exact h1
      | exited => exact h1
    | hung => exact h
    | exited => exact h

theorem wake_nostuck (w : Worker) (h : NoStuck w) : NoStuck w.wake.1 := by
  unfold Worker.wake
  cases w.backlog with
  | nil => exact h
  | cons c rest => exact runList_nostuck rest _ h

theorem deliver_nostuck (w : Worker) (c : Cmd) (h : NoStuck w) : NoStuck (w.deliver c).1 := by
  unfold Worker.deliver
  cases w.st with
  | alive => exact run_nostuck w c h
  | hung => exact h
  | exited => exact h

theorem drain_nostuck (n : Nat) : ∀ w : Worker, NoStuck w → NoStuck (Worker.drain n w).1 := by
  induction n with
  | zero => intro w h; exact h
  | succ n ih =>
    intro w h
    unfold Worker.drain
    cases w.st with
    | hung =>
      simp only [h.1, Bool.false_eq_true, if_false]
      exact ih _ (wake_nostuck w h)
    | alive => exact h
    | exited => exact h

theorem recv_nostuck (w : Worker) (h : NoStuck w) : NoStuck w.recv.1 := by
  unfold Worker.recv
  split
  · exact h
  · split
    · exact h
    · split
      · exact h
      · exact h
      · simp only [h.1, Bool.false_eq_true, if_false]
        have hw := wake_nostuck w h
        split
        · exact hw
        · exact hw

/-- loop bodies keep `NoStuck` -/
def KeepsNoStuck (f : Worker → StepRes) : Prop := ∀ w, NoStuck w → NoStuck (f w).1

theorem sendOne_nostuck (c : Cmd) : KeepsNoStuck (sendOne c) := by
  intro w h
  unfold sendOne
  split
  · exact h
  · split
    · exact h
    · exact deliver_nostuck w c h

theorem sendCloseOne_nostuck : KeepsNoStuck sendCloseOne := by
  intro w h
  unfold sendCloseOne
  split
  · exact h
  · exact sendOne_nostuck .close w h

/-! ### `close`: every worker that got the `close` command ends -/

/-- the process is gone, or asleep with `close` queued behind the sleeping command -/
def JoinReady (w : Worker) : Prop := w.st = .exited ∨ (w.st = .hung ∧ Cmd.close ∈ w.backlog)

theorem run_hung_backlog (w : Worker) (c : Cmd) (ha : w.st = .alive) (h : (w.run c).1.st = .hung) :
    (w.run c).1.backlog = [c] := by
  unfold Worker.run at h ⊢
  cases c
  case close => simp at h
  all_goals
    simp only at h ⊢
    split at h <;> simp_all

theorem run_close_st (w : Worker) : (w.run .close).1.st = .exited := rfl

theorem runList_close (cs : List Cmd) : ∀ w : Worker, w.st = .alive → Cmd.close ∈ cs →
    (w.runList cs).1.st = .exited ∨
      ((w.runList cs).1.st = .hung ∧ Cmd.close ∈ (w.runList cs).1.backlog ∧
        (w.runList cs).1.backlog.length ≤ cs.length) := by
  induction cs with
  | nil => intro w _ h; cases h
  | cons c cs ih =>
    intro w ha hc
    unfold Worker.runList
    simp only [ha]
    cases h1 : (w.run c).1.st with
    | exited => simp [h1]
    | alive =>
      simp only
      have hne : c ≠ .close := by
        intro h; subst h; rw [run_close_st] at h1; cases h1
      have hc' : Cmd.close ∈ cs := by
        rcases List.mem_cons.mp hc with h | h
        · exact absurd h.symm hne
        · exact h
      rcases ih (w.run c).1 h1 hc' with h | ⟨h2, h3, h4⟩
      · exact Or.inl h
      · exact Or.inr ⟨h2, h3, by simp only [List.length_cons]; omega⟩
    | hung =>
      simp only
      have hne : c ≠ .close := by
        intro h; subst h; rw [run_close_st] at h1; cases h1
      have hc' : Cmd.close ∈ cs := by
        rcases List.mem_cons.mp hc with h | h
        · exact absurd h.symm hne
        · exact h
      refine Or.inr ⟨by simp, ?_, ?_⟩
      · simp [hc']
      · simp [run_hung_backlog w c ha h1] <;> omega

theorem runList_not_alive (cs : List Cmd) (w : Worker) (h : w.st ≠ .alive) : (w.runList cs).1 = w := by
  cases cs with
  | nil => rfl
  | cons c cs =>
    unfold Worker.runList
    cases hs : w.st with
    | alive => exact absurd hs h
    | hung => rfl
    | exited => rfl

theorem wake_joinReady (w : Worker) (hc : Cmd.close ∈ w.backlog) :
    JoinReady w.wake.1 ∧ (w.wake.1.st = .hung → w.wake.1.backlog.length < w.backlog.length) := by
  unfold Worker.wake
  cases hb : w.backlog with
  | nil => rw [hb] at hc; cases hc
  | cons c rest =>
    simp only
    by_cases hcc : c = .close
    · subst hcc
      rw [runList_not_alive _ _ (by simp)]
      exact ⟨Or.inl (by simp), by simp⟩
    · have hr : Cmd.close ∈ rest := by
        rw [hb] at hc
        rcases List.mem_cons.mp hc with h | h
        · exact absurd h.symm hcc
        · exact h
      rcases runList_close rest
        { w with st := (if c = .close then WSt.exited else WSt.alive), inbox := w.inbox ++ [.okR c], backlog := [] }
        (by simp [hcc]) hr with h | ⟨h2, h3, h4⟩
      · exact ⟨Or.inl h, fun h' => by rw [h] at h'; cases h'⟩
      · exact ⟨Or.inr ⟨h2, h3⟩, fun _ => by simp only [List.length_cons]; omega⟩

theorem drain_joinReady (n : Nat) : ∀ w : Worker, NoStuck w → JoinReady w → w.backlog.length < n →
    (Worker.drain n w).1.st = .exited := by
  induction n with
  | zero => intro w _ _ h; omega
  | succ n ih =>
    intro w hns hj hn
    unfold Worker.drain
    rcases hj with h | ⟨h1, h2⟩
    · simp [h]
    · simp only [h1, hns.1, Bool.false_eq_true, if_false]
      obtain ⟨hj', hlt⟩ := wake_joinReady w h2
      have hns' := wake_nostuck w hns
      rcases hj' with h | ⟨h3, h4⟩
      · cases n with
        | zero => simpa [Worker.drain] using h
        | succ m => unfold Worker.drain; simp [h]
      · exact ih _ hns' (Or.inr ⟨h3, h4⟩) (by have := hlt h3; omega)

theorem sendCloseOne_none (w : Worker) (hpipe : w.pipeOpen = false → w.st = .exited)
    (h : (sendCloseOne w).2.2.2 = none) : JoinReady (sendCloseOne w).1 := by
  unfold sendCloseOne sendOne at h ⊢
  cases hp : w.pipeOpen with
  | false => simp only [if_true]; exact Or.inl (hpipe hp)
  | true =>
    simp only [hp, Bool.true_eq_false, if_false] at h ⊢
    by_cases he : w.st = .exited
    · simp [he] at h
    · simp only [he, if_false]
      unfold Worker.deliver
      cases ha : w.st with
      | alive => exact Or.inl rfl
      | hung => exact Or.inr ⟨by simp [ha], by simp⟩
      | exited => exact absurd ha he

theorem recv_joinReady (w : Worker) (hns : NoStuck w) (hj : JoinReady w) : JoinReady w.recv.1 := by
  unfold Worker.recv
  cases hp : w.pipeOpen with
  | false => simpa using hj
  | true =>
    simp only [Bool.true_eq_false, if_false]
    cases hi : w.inbox with
    | cons r rest => exact hj
    | nil =>
      simp only
      rcases hj with h | ⟨h1, h2⟩
      · simp only [h]; exact Or.inl h
      · simp only [h1, hns.1, Bool.false_eq_true, if_false]
        have hw := (wake_joinReady w h2).1
        cases hw1 : w.wake.1.inbox with
        | nil => exact hw
        | cons r rest => exact hw

theorem recvOne_fst (chk : Reply → Option Exc) (w : Worker) : (recvOne chk w).1 = w.recv.1 := by
  unfold recvOne
  rcases hr : w.recv with ⟨w1, e1, r⟩
  cases r with
  | got r => simp only; cases chk r <;> rfl
  | eof => rfl
  | block => rfl
  | noPipe => rfl

theorem recvOne_nostuck (chk : Reply → Option Exc) : KeepsNoStuck (recvOne chk) := by
  intro w h; rw [recvOne_fst]; exact recv_nostuck w h

theorem recvCloseOne_nostuck : KeepsNoStuck recvCloseOne := by
  intro w h
  unfold recvCloseOne
  split
  · exact h
  · exact recvOne_nostuck _ w h

theorem recvCloseOne_joinReady (w : Worker) (hns : NoStuck w) (hj : JoinReady w) :
    JoinReady (recvCloseOne w).1 ∧ (recvCloseOne w).2.2.2 ≠ some .hang := by
  unfold recvCloseOne
  cases hp : w.pipeOpen with
  | false => simpa using hj
  | true =>
    simp only [Bool.true_eq_false, if_false]
    refine ⟨by rw [recvOne_fst]; exact recv_joinReady w hns hj, ?_⟩
    apply recvOne_no_hang _ w hp
    · intro ha; rcases hj with h | ⟨h, _⟩ <;> rw [ha] at h <;> cases h
    · intro _; rcases hj with h | ⟨_, h⟩
      · rename_i hh; rw [hh] at h; cases h
      · intro hb; rw [hb] at h; cases h
    · exact hns.1

theorem joinOne_joinReady (w : Worker) (hns : NoStuck w) (hj : JoinReady w) :
    (joinOne w).2.2.2 = none ∧ (joinOne w).1.st = .exited ∧ (joinOne w).1.pipeOpen = false := by
  have h := drain_joinReady (w.backlog.length + 1) w hns hj (by omega)
  unfold joinOne
  simp [h]

theorem joinOne_nostuck : KeepsNoStuck joinOne := by
  intro w h
  have hd := drain_nostuck (w.backlog.length + 1) w h
  unfold joinOne
  simp only
  split
  · exact hd
  · exact hd

/-- a `join` that returned: the process is over -/
theorem joinOne_none (w : Worker) (h : (joinOne w).2.2.2 = none) : (joinOne w).1.st = .exited := by
  unfold joinOne at h ⊢
  simp only at h ⊢
  split
  · assumption
  · rename_i hne; simp [hne] at h
