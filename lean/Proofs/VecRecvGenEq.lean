import Gen.VecRecvGen
import Proofs.VecEnvGenEq

/-!
# Generated receive side / shared-memory layout = model slice arithmetic

`Gen/VecRecvGen.lean` is the translation of `_create_memory_array`, `create_shared_memory`,
`write_to_shared_memory`, `Observations.__init__ / __getitem__` (and `step_wait`, `reset_wait`, `_add_info`).
This file proves, for every number of environments, agents and all shapes:

* the three generated slices are the model's `sliceOf` (`gen_slice{0,1,2}_eq`); `np.copyto` on that slice is the
  model's `writeSlice` (`copyto_eq_writeSlice`);
* `_create_memory_array` allocates `bufLen n shape = n * shapeSize shape` cells (`gen_create_memory_array_eq`);
* for plain (non Dict / Tuple) spaces and ANY number of agents: `create_shared_memory` = one zero buffer per agent
  (`gen_create_box_eq`), `write_to_shared_memory` = `writeSlice` of agent `a`'s buffer at `i * shapeSize shape_a`
  for every agent (`gen_write_box_eq`, `gen_write_box_getElem?`), `Observations.__init__` views the buffers
  (`gen_init_box_eq`), `Observations.__getitem__` is `reshape((n, *viewShape shape))` of the buffer
  (`gen_getitem_box_eq`).
The member loops of the Dict / Tuple branches are translated and type-checked; their equalities are proved on the
slices (`gen_slice0_eq`, `gen_slice1_eq`) and checked on concrete instances (`example`s at the end); the general
loop equalities for Dict / Tuple are NOT proved here (correspondence suite `shm-direct` covers them).
Added later (end of file): the general equality for the Dict branch of `write_to_shared_memory` — any number of agents
with Dict spaces of any number of keys (`gen_write_dict_eq`, `gen_write_dict_getElem?`, `memberWrite_getElem?`); the
Tuple branch of the writer and the Dict / Tuple loops of `Observations.__init__ / __getitem__` remain `decide` examples.
-/
namespace VecEnv
open VecRecvGen
variable {α β γ δ : Type}

theorem npProd_eq (shape : List Nat) : npProd shape = shapeSize shape := rfl

theorem shapeSize_viewShape (shape : List Nat) : shapeSize (viewShape shape) = shapeSize shape := by
  unfold viewShape
  split
  · next h => subst h; rfl
  · rfl

theorem gen_slice0_eq (i sz : Nat) : write_to_shared_memory_slice0 i sz = sliceOf sz i := by
  simp [write_to_shared_memory_slice0, sliceOf, Nat.add_mul]
theorem gen_slice1_eq (i sz : Nat) : write_to_shared_memory_slice1 i sz = sliceOf sz i := by
  simp [write_to_shared_memory_slice1, sliceOf, Nat.add_mul]
theorem gen_slice2_eq (i sz : Nat) : write_to_shared_memory_slice2 i sz = sliceOf sz i := by
  simp [write_to_shared_memory_slice2, sliceOf, Nat.add_mul]

theorem gen_create_memory_array_eq [Inhabited α] (n : Nat) (sub : SubSpace) :
    create_memory_array (α := α) n sub = some (List.replicate (bufLen n sub.shape) default) := by
  simp [create_memory_array, pyShape, PyShape.shape, ctxArray, pyInt, npProd_eq, bufLen]

theorem gen_create_memory_array_box_eq [Inhabited α] (n : Nat) (shape : List Nat) :
    create_memory_array (α := α) n (Space.box shape) = some (List.replicate (bufLen n shape) default) := by
  simp [create_memory_array, pyShape, PyShape.shape, ctxArray, pyInt, npProd_eq, bufLen]

/-- `np.copyto(dest[lo:hi], src)` on the generated slice is the model's `writeSlice` -/
theorem copyto_eq_writeSlice (buf : List α) (n sz i : Nat) (xs : List α)
    (hlen : buf.length = n * sz) (hi : i < n) (hx : xs.length = sz) :
    npCopytoSlice buf (sliceOf sz i).1 (sliceOf sz i).2 xs = some (writeSlice buf (i * sz) xs) := by
  have hb := slice_in_bounds sz n i hi
  have h1 : min (i * sz) buf.length = i * sz := by omega
  have h2 : max (i * sz) (min (i * sz + sz) buf.length) = i * sz + sz := by omega
  simp only [npCopytoSlice, sliceOf, h1, h2]
  rw [if_pos (by omega)]
  congr 1
  apply List.ext_getElem?
  intro k
  simp only [writeSlice, List.getElem?_mapIdx]
  by_cases hk1 : k < i * sz
  · rw [List.getElem?_append_left (by simp; omega), List.getElem?_append_left (by simp; omega)]
    simp [hk1]
    cases h : buf[k]? with
    | none => rfl
    | some v => simp; omega
  · by_cases hk2 : k < i * sz + sz
    · rw [List.getElem?_append_left (by simp; omega), List.getElem?_append_right (by simp; omega)]
      have : (List.take (i * sz) buf).length = i * sz := by simp; omega
      rw [this]
      have hkb : k < buf.length := by omega
      have hx' : k - i * sz < xs.length := by omega
      simp [List.getElem?_eq_getElem hkb, List.getElem?_eq_getElem hx']
      omega
    · rw [List.getElem?_append_right (by simp; omega)]
      have : (List.take (i * sz) buf ++ xs).length = i * sz + sz := by simp; omega
      rw [this, List.getElem?_drop]
      have : i * sz + sz + (k - (i * sz + sz)) = k := by omega
      rw [this]
      cases h : buf[k]? with
      | none => rfl
      | some v =>
        have hx' : xs[k - i * sz]? = none := by simp; omega
        simp [hx']

def leafDict (xs : List β) : PyDict (Struct β) := ⟨xs.map (fun x => some (.leaf x))⟩
def boxSpaces (shapes : List (List Nat)) : PyDict Space := ⟨shapes.map (fun s => some (.box s))⟩

theorem items_map_some (f : β → γ) (xs : List β) (k0 : Nat) :
    (((xs.map (fun x => some (f x))).zipIdx k0).filterMap (fun p => p.1.map (fun v => (p.2, v)))) =
      (xs.zipIdx k0).map (fun p => (p.2, f p.1)) := by
  induction xs generalizing k0 with
  | nil => rfl
  | cons x xs ih => simp [List.zipIdx_cons, ih]

theorem foldlM_pointwise (F : PyDict (Struct γ) → Nat × Struct β → Option (PyDict (Struct γ)))
    (g : Nat → β → γ → γ) (P : Nat → β → γ → Prop)
    (hF : ∀ (bs : List γ) (k : Nat) (x : β) (b : γ), bs[k]? = some b → P k x b →
      F (leafDict bs) (k, .leaf x) = some (leafDict (bs.set k (g k x b)))) :
    ∀ (xs : List β) (k0 : Nat) (bs : List γ), k0 + xs.length ≤ bs.length →
      (∀ j x b, xs[j]? = some x → bs[k0 + j]? = some b → P (k0 + j) x b) →
      ((xs.zipIdx k0).map (fun p => (p.2, Struct.leaf p.1))).foldlM F (leafDict bs) =
        some (leafDict ((xs.zipIdx k0).foldl (fun bs p => bs.modify p.2 (g p.2 p.1)) bs)) := by
  intro xs
  induction xs with
  | nil => intro k0 bs _ _; rfl
  | cons x xs ih =>
    intro k0 bs h hP
    have hk : k0 < bs.length := by simp at h; omega
    simp only [List.zipIdx_cons, List.map_cons, List.foldlM_cons, List.foldl_cons]
    rw [hF bs k0 x bs[k0] (List.getElem?_eq_getElem hk) (hP 0 x _ rfl (by simp))]
    simp only [Option.bind_eq_bind, Option.bind_some]
    rw [ih (k0 + 1) _ (by simp at h ⊢; omega)]
    · congr 3
      rw [List.modify_eq_set_getElem?, List.getElem?_eq_getElem hk]
      rfl
    · intro j x' b hx hb
      have := hP (j + 1) x' b (by simpa using hx)
        (by rw [List.getElem?_set_ne (by omega)] at hb; rw [← hb]; congr 1; omega)
      rw [show k0 + 1 + j = k0 + (j + 1) by omega]; exact this

theorem foldl_modify_getElem? (g : Nat → β → γ → γ) :
    ∀ (xs : List β) (k0 : Nat) (bs : List γ) (a : Nat),
      ((xs.zipIdx k0).foldl (fun bs p => bs.modify p.2 (g p.2 p.1)) bs)[a]? =
        if k0 ≤ a then (match xs[a - k0]? with | some x => bs[a]?.map (g a x) | none => bs[a]?) else bs[a]? := by
  intro xs
  induction xs with
  | nil => intro k0 bs a; simp
  | cons x xs ih =>
    intro k0 bs a
    simp only [List.zipIdx_cons, List.foldl_cons]
    rw [ih]
    by_cases h1 : k0 + 1 ≤ a
    · have : a - k0 = (a - (k0 + 1)) + 1 := by omega
      have hne : ¬ k0 = a := by omega
      rw [if_pos h1, if_pos (by omega), this, List.getElem?_cons_succ, List.getElem?_modify]
      simp only [hne, if_false]
      cases bs[a]? <;> rfl
    · rw [if_neg h1]
      by_cases h2 : k0 = a
      · subst h2; simp
      · rw [if_neg (by omega), List.getElem?_modify]
        simp only [h2, if_false]
        cases bs[a]? <;> rfl

/-- `write_to_shared_memory` when every agent's space is plain: agent `a`'s buffer gets the flattened observation
    at the model's slice `[i*size, i*size + size)`, everything else is untouched -/
theorem gen_write_box_eq (i n : Nat) (shapes : List (List Nat)) (obs : List (NdArr α)) (bufs : List (List α))
    (hi : i < n) (hA : obs.length = shapes.length) (hB : bufs.length = shapes.length)
    (hconf : ∀ (a : Nat) (sh : List Nat), shapes[a]? = some sh →
      (∀ x : NdArr α, obs[a]? = some x → x.data.length = shapeSize sh) ∧
      (∀ b : List α, bufs[a]? = some b → b.length = n * shapeSize sh)) :
    write_to_shared_memory i (leafDict obs) (leafDict bufs) (boxSpaces shapes) =
      some (leafDict ((obs.zipIdx 0).foldl (fun bs p => bs.modify p.2
        (fun b => writeSlice b (i * shapeSize ((shapes[p.2]?).getD [])) p.1.data)) bufs)) := by
  unfold write_to_shared_memory
  have hitems : PyDict.items (leafDict obs) = (obs.zipIdx 0).map (fun p => (p.2, Struct.leaf p.1)) := by
    unfold PyDict.items leafDict; exact items_map_some _ _ 0
  simp only [pyItems, PyItems.items, hitems, Option.bind_eq_bind, Option.bind_some]
  refine foldlM_pointwise (γ := List α) (β := NdArr α) _
    (fun k x b => writeSlice b (i * shapeSize ((shapes[k]?).getD [])) x.data)
    (fun k x b => k < shapes.length ∧ x.data.length = shapeSize ((shapes[k]?).getD []) ∧
      b.length = n * shapeSize ((shapes[k]?).getD []))
    ?_ obs 0 bufs (by omega) ?_
  · intro bs k x b hb ⟨hk, hx, hbl⟩
    have hsp : PyDict.get (boxSpaces shapes) k = some (.box shapes[k]) := by
      simp [PyDict.get, boxSpaces, List.getElem?_eq_getElem hk]
    have hbk : PyDict.get (leafDict bs) k = some (.leaf b) := by
      simp [PyDict.get, leafDict, hb]
    simp only [pyGetItem, PyGetItem.getItem, hsp, hbk, Option.bind_some, pyIsInstance, PyIsInstance.isInstance,
      pyShape, PyShape.shape, pyGetObj, PyGetObj.getObj, npAsarray, NpAsarray.asarray, pyModifyItem,
      PyModifyItem.modifyItem, pyModifyObj, PyGetObj.modifyObj, npFlatten, pyInt, npProd_eq, gen_slice2_eq,
      Bool.false_eq_true, if_false, List.getElem?_eq_getElem hk, Option.getD_some]
    simp only [List.getElem?_eq_getElem hk, Option.getD_some] at hx hbl
    rw [copyto_eq_writeSlice b n _ i x.data hbl hi hx]
    have hkb : k < bs.length := (List.getElem?_eq_some_iff.1 hb).1
    simp [PyDict.set, leafDict, hkb, List.map_set]
  · intro j x b hx hb
    have hj : j < shapes.length := by
      have := (List.getElem?_eq_some_iff.1 hx).1; omega
    obtain ⟨h1, h2⟩ := hconf j shapes[j] (List.getElem?_eq_getElem hj)
    simp only [Nat.zero_add] at hb ⊢
    rw [List.getElem?_eq_getElem hj]
    exact ⟨hj, h1 x hx, h2 b hb⟩
/-- a loop over the items of a dict that adds the entry of its key to a dict built in key order -/
theorem foldlM_build (N : Nat) (F : PyDict (Struct γ) → Nat × δ → Option (PyDict (Struct γ))) (f : β → δ) (h : β → γ)
    (hF : ∀ (pre : List γ) (x : β), pre.length < N →
      F (leafDict pre) (pre.length, f x) = some (leafDict (pre ++ [h x]))) :
    ∀ (xs : List β) (pre : List γ), pre.length + xs.length ≤ N →
      ((xs.zipIdx pre.length).map (fun p => (p.2, f p.1))).foldlM F (leafDict pre) =
        some (leafDict (pre ++ xs.map h)) := by
  intro xs
  induction xs with
  | nil => intro pre _; simp
  | cons x xs ih =>
    intro pre hN
    simp only [List.zipIdx_cons, List.map_cons, List.foldlM_cons]
    rw [hF pre x (by simp at hN; omega)]
    simp only [Option.bind_eq_bind, Option.bind_some]
    have := ih (pre ++ [h x]) (by simp at hN ⊢; omega)
    simp only [List.length_append, List.length_singleton, List.append_assoc, List.singleton_append] at this
    exact this

theorem set_leafDict_append (pre : List γ) (v : γ) :
    PyDict.set (leafDict pre) pre.length (.leaf v) = leafDict (pre ++ [v]) := by
  simp [PyDict.set, leafDict]

/-- `create_shared_memory` for plain spaces: one zero buffer of `num_envs * prod(shape)` cells per agent -/
theorem gen_create_box_eq [Inhabited α] (n : Nat) (shapes : List (List Nat)) :
    create_shared_memory (α := α) n (boxSpaces shapes) =
      some (leafDict (shapes.map (fun sh => List.replicate (bufLen n sh) default))) := by
  unfold create_shared_memory
  have hitems : PyDict.items (boxSpaces shapes) = (shapes.zipIdx 0).map (fun p => (p.2, Space.box p.1)) := by
    unfold PyDict.items boxSpaces; exact items_map_some _ _ 0
  simp only [pyItems, PyItems.items, hitems, Option.bind_eq_bind, Option.bind_some, Option.pure_def, pyEmptyDict]
  have key := fun F hF => foldlM_build (γ := List α) (β := List Nat) shapes.length F Space.box
    (fun sh => List.replicate (bufLen n sh) default) hF shapes [] (by simp)
  simp only [List.length_nil, List.nil_append] at key
  refine key _ ?_
  · intro pre sh _
    simp [pyIsInstance, PyIsInstance.isInstance, create_memory_array, pyShape, PyShape.shape, ctxArray, pyInt,
      npProd_eq, bufLen, pyAs, PyAs.cast, pySetItem, PySetItem.setItem, set_leafDict_append]

/-- `Observations.__init__` for plain spaces: the views are the buffers -/
theorem gen_init_box_eq (n : Nat) (shapes : List (List Nat)) (bufs : List (List α))
    (hB : bufs.length = shapes.length) :
    Observations.init (leafDict bufs) (boxSpaces shapes) n =
      some { num_envs := n, shared_memory := leafDict bufs, obs_view := leafDict bufs,
             agents := List.range bufs.length, obs_spaces := boxSpaces shapes } := by
  unfold Observations.init
  have hitems : PyDict.items (leafDict bufs) = (bufs.zipIdx 0).map (fun p => (p.2, Struct.leaf p.1)) := by
    unfold PyDict.items leafDict; exact items_map_some _ _ 0
  have hkeys : PyDict.keys (leafDict bufs) = List.range bufs.length := by
    unfold PyDict.keys; rw [hitems]
    apply List.ext_getElem?; intro k
    simp only [List.map_map, List.getElem?_map, List.getElem?_zipIdx]
    by_cases hk : k < bufs.length
    · simp [List.getElem?_eq_getElem hk, List.getElem?_range hk]
    · simp [List.getElem?_eq_none (Nat.le_of_not_lt hk), List.getElem?_eq_none (l := List.range bufs.length) (by simpa using Nat.le_of_not_lt hk)]
  simp only [pyItems, PyItems.items, pyIter, PyIter.iter, hitems, hkeys, Option.bind_eq_bind, Option.bind_some,
    Option.pure_def, pyEmptyDict]
  have key := fun F hF => foldlM_build (γ := List α) (β := List α) shapes.length F Struct.leaf id hF bufs []
    (by simp; omega)
  simp only [List.length_nil, List.nil_append, List.map_id] at key
  have h0 : ({ ents := [] } : PyDict (Shm α)) = leafDict [] := rfl
  rw [h0, key _ ?_]
  · rfl
  · intro pre b hpre
    have hsp : PyDict.get (boxSpaces shapes) pre.length = some (.box shapes[pre.length]) := by
      simp [PyDict.get, boxSpaces, List.getElem?_eq_getElem hpre]
    simp [pyGetItem, PyGetItem.getItem, hsp, pyIsInstance, PyIsInstance.isInstance, pyGetObj, PyGetObj.getObj,
      npFrombuffer, pyAs, PyAs.cast, pySetItem, PySetItem.setItem, set_leafDict_append]

/-- `Observations.__getitem__` for a plain space: `reshape((num_envs, *shape'))` of the agent's buffer -/
theorem gen_getitem_box_eq (self : ObservationsObj α) (a : Nat) (shape : List Nat) (buf : List α)
    (hs : PyDict.get self.obs_spaces a = some (.box shape)) (hv : PyDict.get self.obs_view a = some (.leaf buf))
    (hlen : buf.length = self.num_envs * shapeSize shape) :
    Observations.getitem self a = some (.leaf ⟨self.num_envs :: viewShape shape, buf⟩) := by
  have hp : ∀ sh : List Nat, npProd (self.num_envs :: sh) = self.num_envs * shapeSize sh := by
    intro sh
    simp only [npProd, shapeSize, List.foldl_cons, Nat.one_mul]
    generalize self.num_envs = m
    induction sh generalizing m with
    | nil => simp
    | cons d sh ih => simp only [List.foldl_cons]; rw [ih (m * d), ih (1 * d)]; simp [Nat.mul_assoc]
  unfold Observations.getitem
  simp only [pyGetItem, PyGetItem.getItem, hs, hv, Option.bind_eq_bind, Option.bind_some, pyIsInstance,
    PyIsInstance.isInstance, Bool.false_eq_true, if_false, pyShape, PyShape.shape, Option.pure_def]
  by_cases h : shape = []
  · subst h
    simp [viewShape, npReshape, NpReshape.reshape, npReshapeFlat, hp, hlen, npAstype, pyAs, PyAs.cast, shapeSize]
  · simp [viewShape, h, npReshape, NpReshape.reshape, npReshapeFlat, hp, hlen, npAstype, pyAs, PyAs.cast]

/-- after the write, agent `a`'s buffer is its old buffer with the flattened observation at the model slice -/
theorem gen_write_box_getElem? (i : Nat) (shapes : List (List Nat)) (obs : List (NdArr α)) (bufs : List (List α))
    (a : Nat) :
    ((obs.zipIdx 0).foldl (fun bs p => bs.modify p.2
        (fun b => writeSlice b (i * shapeSize ((shapes[p.2]?).getD [])) p.1.data)) bufs)[a]? =
      match obs[a]? with
      | some x => bufs[a]?.map (fun b => writeSlice b (i * shapeSize ((shapes[a]?).getD [])) x.data)
      | none => bufs[a]? := by
  rw [foldl_modify_getElem? (fun k (x : NdArr α) b => writeSlice b (i * shapeSize ((shapes[k]?).getD [])) x.data)]
  simp only [Nat.zero_le, if_true, Nat.sub_zero]
  cases obs[a]? <;> rfl

theorem length_foldl_modify {β γ : Type} (g : Nat × β → γ → γ) (l : List (Nat × β)) (bs : List γ) :
    (l.foldl (fun bs p => bs.modify p.1 (g p)) bs).length = bs.length := by
  induction l generalizing bs with
  | nil => rfl
  | cons p l ih => simp only [List.foldl_cons]; rw [ih]; simp

/-! concrete instances of the Dict / Tuple branches (two environments, members of sizes 2 and 1) -/
example : write_to_shared_memory 1 ⟨[some (.dict [⟨[2], [7, 8]⟩, ⟨[], [9]⟩])]⟩
    ⟨[some (.dict [[0, 0, 0, 0], [0, 0]])]⟩ ⟨[some (.dict [⟨[2]⟩, ⟨[]⟩])]⟩ =
    some ⟨[some (.dict [[0, 0, 7, 8], [0, 9]])]⟩ := by decide
example : write_to_shared_memory 0 ⟨[some (.tuple [⟨[2], [7, 8]⟩, ⟨[], [9]⟩])]⟩
    ⟨[some (.tuple [[0, 0, 0, 0], [0, 0]])]⟩ ⟨[some (.tuple [⟨[2]⟩, ⟨[]⟩])]⟩ =
    some ⟨[some (.tuple [[7, 8, 0, 0], [9, 0]])]⟩ := by decide
example : (Observations.init (α := Nat) ⟨[some (.dict [[0, 0, 7, 8], [0, 9]])]⟩ ⟨[some (.dict [⟨[2]⟩, ⟨[]⟩])]⟩ 2).bind
    (fun o => Observations.getitem o 0) = some (.dict [⟨[2, 2], [0, 0, 7, 8]⟩, ⟨[2, 1], [0, 9]⟩]) := by decide
example : (create_shared_memory (α := Nat) 2 ⟨[some (.tuple [⟨[2]⟩, ⟨[]⟩]), some (.box [3])]⟩) =
    some ⟨[some (.tuple [[0, 0, 0, 0], [0, 0]]), some (.leaf [0, 0, 0, 0, 0, 0])]⟩ := by decide

/-! ## the Dict branch of `write_to_shared_memory`, any number of agents and any number of keys -/

/-- agents whose values are all `OrderedDict`s (Dict spaces) -/
def dictDict (xs : List (List β)) : PyDict (Struct β) := ⟨xs.map (fun x => some (.dict x))⟩
def dictSpaces (subss : List (List SubSpace)) : PyDict Space := ⟨subss.map (fun s => some (.dict s))⟩

theorem foldlM_pointwiseD (F : PyDict (Struct γ) → Nat × Struct β → Option (PyDict (Struct γ)))
    (g : Nat → List β → List γ → List γ) (P : Nat → List β → List γ → Prop)
    (hF : ∀ (bs : List (List γ)) (k : Nat) (x : List β) (b : List γ), bs[k]? = some b → P k x b →
      F (dictDict bs) (k, .dict x) = some (dictDict (bs.set k (g k x b)))) :
    ∀ (xs : List (List β)) (k0 : Nat) (bs : List (List γ)), k0 + xs.length ≤ bs.length →
      (∀ j x b, xs[j]? = some x → bs[k0 + j]? = some b → P (k0 + j) x b) →
      ((xs.zipIdx k0).map (fun p => (p.2, Struct.dict p.1))).foldlM F (dictDict bs) =
        some (dictDict ((xs.zipIdx k0).foldl (fun bs p => bs.modify p.2 (g p.2 p.1)) bs)) := by
  intro xs
  induction xs with
  | nil => intro k0 bs _ _; rfl
  | cons x xs ih =>
    intro k0 bs h hP
    have hk : k0 < bs.length := by simp at h; omega
    simp only [List.zipIdx_cons, List.map_cons, List.foldlM_cons, List.foldl_cons]
    rw [hF bs k0 x bs[k0] (List.getElem?_eq_getElem hk) (hP 0 x _ rfl (by simp))]
    simp only [Option.bind_eq_bind, Option.bind_some]
    rw [ih (k0 + 1) _ (by simp at h ⊢; omega)]
    · congr 3
      rw [List.modify_eq_set_getElem?, List.getElem?_eq_getElem hk]
      rfl
    · intro j x' b hx hb
      have := hP (j + 1) x' b (by simpa using hx)
        (by rw [List.getElem?_set_ne (by omega)] at hb; rw [← hb]; congr 1; omega)
      rw [show k0 + 1 + j = k0 + (j + 1) by omega]; exact this

/-- the loop over the members of one agent's Dict space: member `j` of agent `k`'s entry is rewritten -/
theorem foldlM_members (F : PyDict (Struct γ) → DKey × SubSpace → Option (PyDict (Struct γ))) (k : Nat)
    (g : Nat → SubSpace → γ → γ) (P : Nat → SubSpace → γ → Prop)
    (hF : ∀ (bs : List (List γ)) (mb : List γ) (j : Nat) (sub : SubSpace) (b : γ),
      bs[k]? = some mb → mb[j]? = some b → P j sub b →
      F (dictDict bs) (⟨j⟩, sub) = some (dictDict (bs.set k (mb.set j (g j sub b))))) :
    ∀ (subs : List SubSpace) (j0 : Nat) (bs : List (List γ)) (mb : List γ), bs[k]? = some mb →
      j0 + subs.length ≤ mb.length →
      (∀ j sub b, subs[j]? = some sub → mb[j0 + j]? = some b → P (j0 + j) sub b) →
      ((subs.zipIdx j0).map (fun p => ((⟨p.2⟩ : DKey), p.1))).foldlM F (dictDict bs) =
        some (dictDict (bs.set k ((subs.zipIdx j0).foldl (fun mb p => mb.modify p.2 (g p.2 p.1)) mb))) := by
  intro subs
  induction subs with
  | nil =>
    intro j0 bs mb hb _ _
    simp only [List.zipIdx_nil, List.map_nil, List.foldlM_nil, List.foldl_nil, Option.pure_def]
    have hk : k < bs.length := (List.getElem?_eq_some_iff.1 hb).1
    have e : mb = bs[k] := by rw [List.getElem?_eq_getElem hk] at hb; exact (Option.some.inj hb).symm
    rw [e, List.set_getElem_self]
  | cons sub subs ih =>
    intro j0 bs mb hb h hP
    have hj : j0 < mb.length := by simp at h; omega
    have hk : k < bs.length := (List.getElem?_eq_some_iff.1 hb).1
    simp only [List.zipIdx_cons, List.map_cons, List.foldlM_cons, List.foldl_cons]
    rw [hF bs mb j0 sub mb[j0] hb (List.getElem?_eq_getElem hj) (hP 0 sub _ rfl (by simp))]
    simp only [Option.bind_eq_bind, Option.bind_some]
    rw [ih (j0 + 1) _ (mb.set j0 (g j0 sub mb[j0])) (by simp [hk]) (by simp at h ⊢; omega)]
    · rw [List.set_set]
      congr 4
      rw [List.modify_eq_set_getElem?, List.getElem?_eq_getElem hj]
      rfl
    · intro j sub' b hx hb'
      have := hP (j + 1) sub' b (by simpa using hx)
        (by rw [List.getElem?_set_ne (by omega)] at hb'; rw [← hb']; congr 1; omega)
      rw [show j0 + 1 + j = j0 + (j + 1) by omega]; exact this


/-- what `write_to_shared_memory` does to the members of one agent with a Dict space -/
def memberWrite (i : Nat) (subs : List SubSpace) (mo : List (NdArr α)) (mb : List (List α)) : List (List α) :=
  (subs.zipIdx 0).foldl (fun mb q => mb.modify q.2
    (fun b => writeSlice b (i * shapeSize q.1.shape) (((mo[q.2]?).map (·.data)).getD []))) mb

theorem gen_write_dict_eq (i n : Nat) (subss : List (List SubSpace)) (obs : List (List (NdArr α)))
    (bufs : List (List (List α))) (hi : i < n) (hA : obs.length = subss.length) (hB : bufs.length = subss.length)
    (hconf : ∀ (a : Nat) (subs : List SubSpace) (mo : List (NdArr α)) (mb : List (List α)),
      subss[a]? = some subs → obs[a]? = some mo → bufs[a]? = some mb →
        mo.length = subs.length ∧ mb.length = subs.length ∧
        ∀ (j : Nat) (sub : SubSpace) (x : NdArr α) (b : List α), subs[j]? = some sub → mo[j]? = some x →
          mb[j]? = some b → x.data.length = shapeSize sub.shape ∧ b.length = n * shapeSize sub.shape) :
    write_to_shared_memory i (dictDict obs) (dictDict bufs) (dictSpaces subss) =
      some (dictDict ((obs.zipIdx 0).foldl (fun bs p => bs.modify p.2
        (fun mb => memberWrite i ((subss[p.2]?).getD []) p.1 mb)) bufs)) := by
  unfold write_to_shared_memory
  have hitems : PyDict.items (dictDict obs) = (obs.zipIdx 0).map (fun p => (p.2, Struct.dict p.1)) := by
    unfold PyDict.items dictDict; exact items_map_some _ _ 0
  simp only [pyItems, PyItems.items, hitems, Option.bind_eq_bind, Option.bind_some]
  refine foldlM_pointwiseD (γ := List α) (β := NdArr α) _
    (fun k mo mb => memberWrite i ((subss[k]?).getD []) mo mb)
    (fun k mo mb => k < subss.length ∧ mo.length = ((subss[k]?).getD []).length ∧
      mb.length = ((subss[k]?).getD []).length ∧
      ∀ (j : Nat) (sub : SubSpace) (x : NdArr α) (b : List α), ((subss[k]?).getD [])[j]? = some sub → mo[j]? = some x →
          mb[j]? = some b → x.data.length = shapeSize sub.shape ∧ b.length = n * shapeSize sub.shape)
    ?_ obs 0 bufs (by omega) ?_
  · intro bs k mo mb hb ⟨hk, hmo, hmb, hc⟩
    have hsp : PyDict.get (dictSpaces subss) k = some (.dict subss[k]) := by
      simp [PyDict.get, dictSpaces, List.getElem?_eq_getElem hk]
    simp only [List.getElem?_eq_getElem hk, Option.getD_some] at hmo hmb hc ⊢
    simp only [pyGetItem, PyGetItem.getItem, hsp, Option.bind_some, pyIsInstance, PyIsInstance.isInstance,
      if_true, pySpaces, pyEnumKeys]
    unfold memberWrite
    rw [foldlM_members (γ := List α) _ k
      (fun j sub b => writeSlice b (i * shapeSize sub.shape) (((mo[j]?).map (·.data)).getD []))
      (fun j sub b => ∃ x, mo[j]? = some x ∧ x.data.length = shapeSize sub.shape ∧ b.length = n * shapeSize sub.shape)
      ?_ subss[k] 0 bs mb hb (by omega) ?_]
    · intro bs' mb' j sub b hb' hmbj ⟨x, hx, hxl, hbl⟩
      have hget : PyDict.get (dictDict bs') k = some (.dict mb') := by simp [PyDict.get, dictDict, hb']
      have hk' : k < bs'.length := (List.getElem?_eq_some_iff.1 hb').1
      simp only [pyShape, PyShape.shape, hget, Option.bind_some, hmbj, pyGetObj, PyGetObj.getObj, hx, npAsarray,
        NpAsarray.asarray, pyModifyItem, PyModifyItem.modifyItem, pyModifyObj, PyGetObj.modifyObj, npFlatten, pyInt,
        npProd_eq, gen_slice0_eq, Option.map_some, Option.getD_some]
      rw [copyto_eq_writeSlice b n _ i x.data hbl hi hxl]
      simp [PyDict.set, dictDict, hk', List.map_set]
    · intro j sub b hs hbj
      simp only [Nat.zero_add] at hbj ⊢
      have hj : j < mo.length := by
        have := (List.getElem?_eq_some_iff.1 hs).1; omega
      obtain ⟨h1, h2⟩ := hc j sub mo[j] b hs (List.getElem?_eq_getElem hj) hbj
      exact ⟨mo[j], List.getElem?_eq_getElem hj, h1, h2⟩
  · intro j mo mb hx hb
    have hj : j < subss.length := by
      have := (List.getElem?_eq_some_iff.1 hx).1; omega
    simp only [Nat.zero_add] at hb ⊢
    obtain ⟨h1, h2, h3⟩ := hconf j subss[j] mo mb (List.getElem?_eq_getElem hj) hx hb
    simp only [List.getElem?_eq_getElem hj, Option.getD_some]
    exact ⟨hj, h1, h2, h3⟩


/-- after the write, the members of agent `a`'s entry -/
theorem gen_write_dict_getElem? (i : Nat) (subss : List (List SubSpace)) (obs : List (List (NdArr α)))
    (bufs : List (List (List α))) (a : Nat) :
    ((obs.zipIdx 0).foldl (fun bs p => bs.modify p.2
        (fun mb => memberWrite i ((subss[p.2]?).getD []) p.1 mb)) bufs)[a]? =
      match obs[a]? with
      | some mo => bufs[a]?.map (fun mb => memberWrite i ((subss[a]?).getD []) mo mb)
      | none => bufs[a]? := by
  rw [foldl_modify_getElem? (fun k (mo : List (NdArr α)) mb => memberWrite i ((subss[k]?).getD []) mo mb)]
  simp only [Nat.zero_le, if_true, Nat.sub_zero]
  cases obs[a]? <;> rfl

/-- member `j` of an agent's entry after the write: its old buffer with the flattened member observation at the
    model slice of worker `i` -/
theorem memberWrite_getElem? (i : Nat) (subs : List SubSpace) (mo : List (NdArr α)) (mb : List (List α)) (j : Nat) :
    (memberWrite i subs mo mb)[j]? =
      match subs[j]? with
      | some sub => mb[j]?.map (fun b => writeSlice b (i * shapeSize sub.shape) (((mo[j]?).map (·.data)).getD []))
      | none => mb[j]? := by
  unfold memberWrite
  rw [foldl_modify_getElem? (fun j (sub : SubSpace) b =>
    writeSlice b (i * shapeSize sub.shape) (((mo[j]?).map (·.data)).getD []))]
  simp only [Nat.zero_le, if_true, Nat.sub_zero]
  cases subs[j]? <;> rfl

/-- the hypotheses of `gen_write_dict_eq` hold on an instance (one agent, members of sizes 2 and 1, two envs) -/
example : write_to_shared_memory 1 (dictDict [[(⟨[2], [7, 8]⟩ : NdArr Nat), ⟨[], [9]⟩]])
    (dictDict [[[0, 0, 0, 0], [0, 0]]]) (dictSpaces [[⟨[2]⟩, ⟨[]⟩]]) = some (dictDict [[[0, 0, 7, 8], [0, 9]]]) := by
  rw [gen_write_dict_eq 1 2 [[⟨[2]⟩, ⟨[]⟩]] [[(⟨[2], [7, 8]⟩ : NdArr Nat), ⟨[], [9]⟩]] [[[0, 0, 0, 0], [0, 0]]]
    (by decide) rfl rfl ?_]
  · decide
  · intro a subs mo mb hs ho hb
    rcases a with _ | a
    · simp only [List.getElem?_cons_zero, Option.some.injEq] at hs ho hb
      subst hs ho hb
      refine ⟨rfl, rfl, ?_⟩
      intro j sub x b hs hx hb
      rcases j with _ | _ | j
      · simp only [List.getElem?_cons_zero, Option.some.injEq] at hs hx hb
        subst hs hx hb; decide
      · simp only [List.getElem?_cons_succ, List.getElem?_cons_zero, Option.some.injEq] at hs hx hb
        subst hs hx hb; decide
      · simp at hs
    · simp at hs

end VecEnv
