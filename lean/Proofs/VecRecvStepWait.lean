import Gen.VecRecvGen

/-!
# The generated `step_wait`: rows come from the loop index (C12, part iii)

`Gen/VecRecvGen.lean` holds the translation of `AsyncPettingZooVecEnv.step_wait`.  This file proves, for every number
of pipes / agents and every list of replies: the per-agent lists `step_wait` returns (rewards, terminations,
truncations) have one entry per pipe and entry `i` is what pipe `i`'s reply holds for that agent
(`gen_step_wait_rows`), via `PyDict` algebra (`pydict_get_set`, `get_dictOfPairs_items`) and a generic
"every step appends" loop invariant (`foldlM_append_inv`).
Second part: the generated `_add_info` on flat (non-nested) info dicts — one item (`add_info_item`), one environment
(`add_info_env`), the fold over all environments as `reset_wait` runs it (`gen_add_info_index`).
-/

namespace VecEnv
open VecRecvGen
section stepwait
variable {α R K ρ β : Type}

/-- the row a `defaultdict(list)` holds for key `a` (`[]` when absent) -/
def rowD (d : PyDict (List β)) (a : Nat) : List β := (PyDict.get d a).getD []

theorem pydict_get_set (d : PyDict β) (k a : Nat) (v : β) :
    PyDict.get (PyDict.set d k v) a = if a = k then some v else PyDict.get d a := by
  unfold PyDict.get PyDict.set
  by_cases h : k < d.ents.length
  · simp only [h, if_true, List.getElem?_set]
    by_cases hak : a = k
    · subst hak; simp
    · have : ¬ k = a := fun e => hak e.symm
      simp [hak, this]
  · simp only [h, if_false]
    by_cases hak : a = k
    · subst hak
      have hl : (d.ents ++ List.replicate (a - d.ents.length) none).length = a := by simp; omega
      rw [List.getElem?_append_right (by omega), hl]
      simp
    · simp only [hak, if_false]
      by_cases h1 : a < d.ents.length
      · rw [List.append_assoc, List.getElem?_append_left h1]
      · rw [List.getElem?_eq_none (l := d.ents) (by omega)]
        by_cases h2 : a < k
        · rw [List.getElem?_append_left (by first | omega | (simp; omega)), List.getElem?_append_right (by omega)]
          rw [List.getElem?_replicate]
          split <;> rfl
        · rw [List.getElem?_eq_none (by first | omega | (simp; omega))]

theorem rowD_appendAt (d : PyDict (List β)) (k a : Nat) (x : β) :
    rowD (pyAppendAt d k x) a = if a = k then rowD d k ++ [x] else rowD d a := by
  unfold rowD pyAppendAt
  rw [pydict_get_set]
  by_cases h : a = k <;> simp [h]

/-- `{k: v for k, v in d.items()}` reads like `d` -/
theorem get_foldl_items (l : List (Option β)) (k0 : Nat) (d0 : PyDict β) (a : Nat) :
    PyDict.get (((l.zipIdx k0).filterMap (fun p => p.1.map (fun v => (p.2, v)))).foldl
      (fun d p => PyDict.set d p.1 p.2) d0) a =
      if k0 ≤ a ∧ a < k0 + l.length then (match (l[a - k0]?).join with | some v => some v | none => PyDict.get d0 a)
      else PyDict.get d0 a := by
  induction l generalizing k0 d0 with
  | nil => simp
  | cons x l ih =>
    simp only [List.zipIdx_cons, List.filterMap_cons]
    cases x with
    | none =>
      simp only [Option.map_none]
      rw [ih]
      by_cases h1 : k0 + 1 ≤ a ∧ a < k0 + 1 + l.length
      · have e : a - k0 = (a - (k0 + 1)) + 1 := by omega
        rw [if_pos h1, if_pos (by first | omega | (simp; omega)), e, List.getElem?_cons_succ]
      · rw [if_neg h1]
        by_cases h2 : a = k0
        · subst h2; simp
        · rw [if_neg (by first | omega | (simp; omega))]
    | some v =>
      simp only [Option.map_some, List.foldl_cons]
      rw [ih, pydict_get_set]
      by_cases h1 : k0 + 1 ≤ a ∧ a < k0 + 1 + l.length
      · have e : a - k0 = (a - (k0 + 1)) + 1 := by omega
        have hne : ¬ a = k0 := by omega
        have hc : k0 ≤ a ∧ a < k0 + (some v :: l).length := by simp; omega
        rw [if_pos h1]
        simp only [hne, if_false]
        rw [if_pos hc, e, List.getElem?_cons_succ]
      · rw [if_neg h1]
        by_cases h2 : a = k0
        · subst h2; simp
        · have hc : ¬ (k0 ≤ a ∧ a < k0 + (some v :: l).length) := by simp; omega
          simp only [h2, if_false]
          rw [if_neg hc]

theorem get_dictOfPairs_items (d : PyDict β) (a : Nat) :
    PyDict.get (pyDictOfPairs (PyDict.items d)) a = PyDict.get d a := by
  unfold pyDictOfPairs PyDict.items
  rw [get_foldl_items]
  simp only [Nat.zero_le, true_and, Nat.zero_add, Nat.sub_zero]
  unfold PyDict.get
  by_cases h : a < d.ents.length
  · rw [if_pos h]; cases (d.ents[a]?).join <;> simp
  · rw [if_neg h]; simp [List.getElem?_eq_none (Nat.le_of_not_lt h)]

theorem mapM_pair_id {γ : Type} (l : List (Nat × γ)) (g : γ → γ) (hg : ∀ x, g x = x) :
    l.mapM (fun (p : Nat × γ) => match p with | (a, b) => (pure (a, g b) : Option (Nat × γ))) = some l := by
  induction l with
  | nil => rfl
  | cons p l ih => obtain ⟨a, b⟩ := p; simp only [List.mapM_cons]; rw [ih]; simp [hg]

/-- a loop whose every step appends `G e` to an observable of the state -/
theorem foldlM_append_inv {S E X : Type} (F : S → E → Option S) (obs : S → List X) (G : E → List X) :
    ∀ (es : List E) (s s' : S), (∀ s e s1, e ∈ es → F s e = some s1 → obs s1 = obs s ++ G e) →
      es.foldlM F s = some s' → obs s' = obs s ++ es.flatMap G := by
  intro es
  induction es with
  | nil => intro s s' _ h; simp at h; subst h; simp
  | cons e es ih =>
    intro s s' hF h
    simp only [List.foldlM_cons, Option.bind_eq_bind] at h
    obtain ⟨s1, h1, h2⟩ := Option.bind_eq_some_iff.1 h
    rw [ih s1 s' (fun s e s1 he => hF s e s1 (List.mem_cons_of_mem _ he)) h2,
      hF s e s1 (List.mem_cons_self) h1]
    simp

theorem foldlM_append_inv3 {S E X Y Z : Type} (F : S → E → Option S) (o1 : S → List X) (o2 : S → List Y)
    (o3 : S → List Z) (G1 : E → List X) (G2 : E → List Y) (G3 : E → List Z)
    (es : List E) (s s' : S)
    (hF : ∀ s e s1, e ∈ es → F s e = some s1 →
      o1 s1 = o1 s ++ G1 e ∧ o2 s1 = o2 s ++ G2 e ∧ o3 s1 = o3 s ++ G3 e)
    (h : es.foldlM F s = some s') :
    o1 s' = o1 s ++ es.flatMap G1 ∧ o2 s' = o2 s ++ es.flatMap G2 ∧ o3 s' = o3 s ++ es.flatMap G3 :=
  ⟨foldlM_append_inv F o1 G1 es s s' (fun s e s1 he hs => (hF s e s1 he hs).1) h,
   foldlM_append_inv F o2 G2 es s s' (fun s e s1 he hs => (hF s e s1 he hs).2.1) h,
   foldlM_append_inv F o3 G3 es s s' (fun s e s1 he hs => (hF s e s1 he hs).2.2) h⟩

theorem flatMap_ite_not_mem {X : Type} (as : List Nat) (a : Nat) (x : List X) (ha : a ∉ as) :
    as.flatMap (fun e => if e = a then x else []) = [] := by
  induction as with
  | nil => rfl
  | cons b as ih =>
    simp only [List.mem_cons, not_or] at ha
    have : ¬ b = a := fun e => ha.1 e.symm
    simp [List.flatMap_cons, this, ih ha.2]

theorem flatMap_ite_single {X : Type} (as : List Nat) (a : Nat) (x : List X) (hn : as.Nodup) (ha : a ∈ as) :
    as.flatMap (fun e => if e = a then x else []) = x := by
  induction as with
  | nil => simp at ha
  | cons b as ih =>
    rw [List.nodup_cons] at hn
    by_cases hb : b = a
    · subst hb
      simp [List.flatMap_cons, flatMap_ite_not_mem as b x hn.1]
    · have : a ∈ as := by
        rcases List.mem_cons.1 ha with h | h
        · exact absurd h.symm hb
        · exact h
      simp [List.flatMap_cons, hb, ih hn.2 this]


theorem mapM_npArray {γ : Type} (l : List (Nat × List γ)) :
    l.mapM (fun x => (some (x.fst, npArray x.snd) : Option (Nat × List γ))) = some l := by
  induction l with
  | nil => rfl
  | cons p l ih => simp only [List.mapM_cons]; rw [ih]; rfl

theorem flatMap_enumerate {E X : Type} (g : E → X) (l : List E) (k0 : Nat) :
    ((l.zipIdx k0).map (fun p => (p.2, p.1))).flatMap (fun e => [g e.2]) = l.map g := by
  induction l generalizing k0 with
  | nil => rfl
  | cons x l ih => simp [List.zipIdx_cons, ih]

/-- the loop over `self.agents` inside `step_wait`, for one reply `m` -/
theorem agents_loop_rows (m : StepReply R K) (as : List Nat) (hn : as.Nodup) (a : Nat) (ha : a ∈ as)
    (t t' : PyDict (List R) × PyDict (List Bool) × PyDict (List Bool))
    (h : as.foldlM (fun (x : PyDict (List R) × PyDict (List Bool) × PyDict (List Bool)) (v9 : Nat) =>
        (PyDict.get m.1 v9).bind fun r => (PyDict.get m.2.1 v9).bind fun tm => (PyDict.get m.2.2.1 v9).bind fun u =>
          some (pyAppendAt x.1 v9 r, pyAppendAt x.2.1 v9 tm, pyAppendAt x.2.2 v9 u)) t = some t') :
    (rowD t'.1 a).map some = (rowD t.1 a).map some ++ [PyDict.get m.1 a] ∧
    (rowD t'.2.1 a).map some = (rowD t.2.1 a).map some ++ [PyDict.get m.2.1 a] ∧
    (rowD t'.2.2 a).map some = (rowD t.2.2 a).map some ++ [PyDict.get m.2.2.1 a] := by
  refine ⟨?_, ?_, ?_⟩
  · have := foldlM_append_inv _ (fun t => (rowD t.1 a).map some)
      (fun e => if e = a then [PyDict.get m.1 a] else []) as t t' ?_ h
    · rw [this, flatMap_ite_single as a _ hn ha]
    · intro s e s1 _ hs
      obtain ⟨r, hr, hs⟩ := Option.bind_eq_some_iff.1 hs
      obtain ⟨tm, htm, hs⟩ := Option.bind_eq_some_iff.1 hs
      obtain ⟨u, hu, hs⟩ := Option.bind_eq_some_iff.1 hs
      cases hs
      simp only [rowD_appendAt]
      by_cases he : e = a
      · subst he; simp [hr]
      · have : ¬ a = e := fun x => he x.symm
        simp [he, this]
  · have := foldlM_append_inv _ (fun t => (rowD t.2.1 a).map some)
      (fun e => if e = a then [PyDict.get m.2.1 a] else []) as t t' ?_ h
    · rw [this, flatMap_ite_single as a _ hn ha]
    · intro s e s1 _ hs
      obtain ⟨r, hr, hs⟩ := Option.bind_eq_some_iff.1 hs
      obtain ⟨tm, htm, hs⟩ := Option.bind_eq_some_iff.1 hs
      obtain ⟨u, hu, hs⟩ := Option.bind_eq_some_iff.1 hs
      cases hs
      simp only [rowD_appendAt]
      by_cases he : e = a
      · subst he; simp [htm]
      · have : ¬ a = e := fun x => he x.symm
        simp [he, this]
  · have := foldlM_append_inv _ (fun t => (rowD t.2.2 a).map some)
      (fun e => if e = a then [PyDict.get m.2.2.1 a] else []) as t t' ?_ h
    · rw [this, flatMap_ite_single as a _ hn ha]
    · intro s e s1 _ hs
      obtain ⟨r, hr, hs⟩ := Option.bind_eq_some_iff.1 hs
      obtain ⟨tm, htm, hs⟩ := Option.bind_eq_some_iff.1 hs
      obtain ⟨u, hu, hs⟩ := Option.bind_eq_some_iff.1 hs
      cases hs
      simp only [rowD_appendAt]
      by_cases he : e = a
      · subst he; simp [hu]
      · have : ¬ a = e := fun x => he x.symm
        simp [he, this]

/-- `step_wait` (generated) on pipes that all carry a successful reply: for every agent the returned rewards /
    terminations / truncations have one row per pipe, and row `i` is what pipe `i`'s reply holds for that agent -/
theorem gen_step_wait_rows [DecidableEq K] (underscore : K → K) (depth : Nat)
    (self : VecEnvObj α (StepReply R K × Bool)) (replies : List (StepReply R K))
    (hp : self.parent_pipes = replies.map (fun m => (⟨some (m, true)⟩ : Pipe (StepReply R K × Bool))))
    (hn : self.agents.Nodup)
    (r : ObsOut α × PyDict (List R) × PyDict (List Bool) × PyDict (List Bool) × VVal K)
    (h : step_wait underscore depth self = some r) (a : Nat) (ha : a ∈ self.agents) :
    (rowD r.2.1 a).map some = replies.map (fun m => PyDict.get m.1 a) ∧
    (rowD r.2.2.1 a).map some = replies.map (fun m => PyDict.get m.2.1 a) ∧
    (rowD r.2.2.2.1 a).map some = replies.map (fun m => PyDict.get m.2.2.1 a) := by
  unfold step_wait at h
  simp only [hp, pyIter, PyIter.iter, Option.bind_eq_bind, Option.bind_some, Option.pure_def] at h
  obtain ⟨st, hfold, hrest⟩ := Option.bind_eq_some_iff.1 h
  obtain ⟨v3, v4, v0, v1, v2⟩ := st
  simp only at hrest
  obtain ⟨_, _, hrest⟩ := Option.bind_eq_some_iff.1 hrest
  obtain ⟨o, _, hrest⟩ := Option.bind_eq_some_iff.1 hrest
  simp only [pyItems, PyItems.items, Option.bind_some, mapM_npArray] at hrest
  cases hrest
  simp only [rowD, get_dictOfPairs_items]
  have key := foldlM_append_inv3 _
    (fun s : List Bool × VVal K × PyDict (List R) × PyDict (List Bool) × PyDict (List Bool) => (rowD s.2.2.1 a).map some)
    (fun s => (rowD s.2.2.2.1 a).map some) (fun s => (rowD s.2.2.2.2 a).map some)
    (fun e : Nat × Pipe (StepReply R K × Bool) => [e.2.msg.bind (fun m => PyDict.get m.1.1 a)])
    (fun e => [e.2.msg.bind (fun m => PyDict.get m.1.2.1 a)])
    (fun e => [e.2.msg.bind (fun m => PyDict.get m.1.2.2.1 a)]) _ _ _ ?_ hfold
  · simp only [pyEnumerate] at key
    rw [flatMap_enumerate (fun p : Pipe (StepReply R K × Bool) => p.msg.bind fun m => PyDict.get m.1.1 a),
      flatMap_enumerate (fun p : Pipe (StepReply R K × Bool) => p.msg.bind fun m => PyDict.get m.1.2.1 a),
      flatMap_enumerate (fun p : Pipe (StepReply R K × Bool) => p.msg.bind fun m => PyDict.get m.1.2.2.1 a)] at key
    simpa [rowD, pyDefaultdictList, PyDict.get, Function.comp_def] using key
  · intro s e s1 he hs
    simp only [pyEnumerate, List.mem_map] at he
    obtain ⟨q, hq, rfl⟩ := he
    obtain ⟨m, _, hm⟩ := List.mem_map.1 (List.fst_mem_of_mem_zipIdx hq)
    simp only [← hm, pyRecv, Option.bind_some, if_true, pyGetItem, PyGetItem.getItem] at hs ⊢
    obtain ⟨x, hx, hs⟩ := Option.bind_eq_some_iff.1 hs
    obtain ⟨x', hx', hx⟩ := Option.bind_eq_some_iff.1 hx
    obtain ⟨vi, hvi, hx⟩ := Option.bind_eq_some_iff.1 hx
    cases hx
    cases hs
    exact agents_loop_rows m self.agents hn a ha _ _ hx'

theorem getElem?_of_map_some {X Y : Type} (l : List X) (ms : List Y) (f : Y → Option X)
    (h : l.map some = ms.map f) (i : Nat) (m : Y) (hm : ms[i]? = some m) : l[i]? = f m := by
  have := congrArg (fun t => t[i]?) h
  simp only [List.getElem?_map, hm, Option.map_some] at this
  cases hl : l[i]? with
  | none => rw [hl] at this; simp at this
  | some y => rw [hl] at this; simp only [Option.map_some, Option.some.injEq] at this; exact this

theorem length_of_map_some {X Y : Type} (l : List X) (ms : List Y) (f : Y → Option X)
    (h : l.map some = ms.map f) : l.length = ms.length := by
  have := congrArg List.length h
  simpa using this

end stepwait

/-! ## `_add_info` (generated) on flat info dicts: env `i`'s values land in cell `i` (C12, part iv) -/
set_option linter.unusedSimpArgs false

section
variable {K α ρ : Type} [DecidableEq K]

/-- cell `i` of the batched array under key `k`; an absent key reads as the fill value -/
def cellD (vi : VVal K) (k : K) (i : Nat) : Cell K :=
  match vi with
  | .sub l => (match assocGet l k with | some (.arr _ cells) => cells[i]?.getD .fill | _ => .fill)
  | .arr _ _ => .fill

def InfoFlat : Info K → Bool
  | .dict _ => false
  | .num ty _ => ty != .dict && ty != .np_ndarray
  | _ => true

/-- every entry is a batched array of n cells -/
def VWF (n : Nat) : VVal K → Prop
  | .sub l => ∀ p ∈ l, ∃ kind cells, p.2 = .arr kind cells ∧ cells.length = n
  | .arr _ _ => False

/-- the cells under key `k` (a fresh array of `n` fill cells when the key is absent) -/
def getCells (l : List (K × VVal K)) (k : K) (n : Nat) : List (Cell K) :=
  match assocGet l k with
  | some (.arr _ c) => c
  | _ => List.replicate n .fill

theorem assocGet_assocSet {β : Type} (l : List (K × β)) (k k' : K) (v : β) :
    assocGet (assocSet l k v) k' = if k = k' then some v else assocGet l k' := by
  induction l with
  | nil => simp [assocSet, assocGet]
  | cons p r ih =>
    obtain ⟨a, b⟩ := p
    by_cases h : a = k
    · subst h
      by_cases h2 : a = k' <;> simp [assocSet, assocGet, h2]
    · by_cases h2 : a = k'
      · subst h2
        simp [assocSet, assocGet, h]
        intro h3; exact absurd h3.symm h
      · simp [assocSet, assocGet, h, h2, ih]

theorem mem_assocSet {β : Type} (l : List (K × β)) (k : K) (v : β) (p : K × β)
    (hp : p ∈ assocSet l k v) : p = (k, v) ∨ p ∈ l := by
  induction l with
  | nil => simp [assocSet] at hp; exact Or.inl hp
  | cons q r ih =>
    obtain ⟨a, b⟩ := q
    by_cases h : a = k
    · subst h
      simp [assocSet] at hp
      rcases hp with hp | hp
      · exact Or.inl hp
      · exact Or.inr (List.mem_cons_of_mem _ hp)
    · simp [assocSet, h] at hp
      rcases hp with hp | hp
      · exact Or.inr (by rw [hp]; exact List.mem_cons_self)
      · rcases ih hp with h1 | h1
        · exact Or.inl h1
        · exact Or.inr (List.mem_cons_of_mem _ h1)

theorem assocGet_mem {β : Type} (l : List (K × β)) (k : K) (v : β) (h : assocGet l k = some v) :
    (k, v) ∈ l := by
  induction l with
  | nil => simp [assocGet] at h
  | cons q r ih =>
    obtain ⟨a, b⟩ := q
    by_cases h1 : a = k
    · subst h1; simp [assocGet] at h; subst h; exact List.mem_cons_self
    · simp [assocGet, h1] at h; exact List.mem_cons_of_mem _ (ih h)

theorem cellD_sub (l : List (K × VVal K)) (k : K) (n i : Nat) :
    cellD (.sub l) k i = (getCells l k n)[i]?.getD .fill := by
  simp only [cellD, getCells]
  cases h : assocGet l k with
  | none =>
    by_cases hi : i < n <;> simp [List.getElem?_replicate, hi]
  | some x =>
    cases x with
    | sub d =>
      by_cases hi : i < n <;> simp [List.getElem?_replicate, hi]
    | arr kind c => simp

theorem getCells_length (n : Nat) (l : List (K × VVal K)) (h : VWF n (.sub l)) (k : K) :
    (getCells l k n).length = n := by
  unfold getCells
  cases h1 : assocGet l k with
  | none => simp
  | some x =>
    obtain ⟨kind, c, hx, hc⟩ := h _ (assocGet_mem l k x h1)
    simp only [] at hx
    subst hx
    exact hc

theorem add_info_F_nil (underscore : K → K) (f : VVal K → Info K → Nat → Option (VVal K))
    (self : VecEnvObj α ρ) (vi : VVal K) (i : Nat) :
    add_info_F underscore f self vi (.dict []) i = some vi := by
  simp [add_info_F, pyItems, PyItems.items]

theorem add_info_F_cons (underscore : K → K) (f : VVal K → Info K → Nat → Option (VVal K))
    (self : VecEnvObj α ρ) (vi : VVal K) (p : K × Info K) (items : List (K × Info K)) (i : Nat) :
    add_info_F underscore f self vi (.dict (p :: items)) i =
      (add_info_F underscore f self vi (.dict [p]) i).bind
        (fun vi' => add_info_F underscore f self vi' (.dict items) i) := by
  unfold add_info_F
  simp only [pyItems, PyItems.items, Option.bind_eq_bind, Option.bind_some, Option.pure_def,
    List.foldlM_cons, List.foldlM_nil]
  simp [Option.bind_assoc]

theorem head_bang_cons (a : Nat) (l : List Nat) : (a :: l).head! = a := rfl

theorem add_info_F_single (underscore : K → K) (f : VVal K → Info K → Nat → Option (VVal K))
    (self : VecEnvObj α ρ) (l : List (K × VVal K)) (k : K) (v : Info K) (i : Nat)
    (hv : InfoFlat v = true) (hwf : VWF self.num_envs (.sub l)) (hi : i < self.num_envs) :
    ∃ ka kb, add_info_F underscore f self (.sub l) (.dict [(k, v)]) i =
      some (.sub (assocSet (assocSet l k (.arr ka ((getCells l k self.num_envs).set i (.val v))))
        (underscore k) (.arr kb ((getCells l (underscore k) self.num_envs).set i (.val pyTrue))))) := by
  unfold add_info_F
  simp only [pyItems, PyItems.items, Option.bind_eq_bind, Option.bind_some, Option.pure_def,
    List.foldlM_cons, List.foldlM_nil]
  have H : ∀ k', (assocGet l k' = none ∧ i < self.num_envs) ∨ ∃ ka ca, assocGet l k' = some (.arr ka ca) ∧ i < ca.length := by
    intro k'
    cases h1 : assocGet l k' with
    | none => exact Or.inl ⟨rfl, hi⟩
    | some x =>
      obtain ⟨kind, c, hx, hc⟩ := hwf _ (assocGet_mem l k' x h1)
      simp only [] at hx
      subst hx
      exact Or.inr ⟨kind, c, rfl, by omega⟩
  rcases H k with ⟨h1, hca⟩ | ⟨ka, ca, h1, hca⟩ <;> rcases H (underscore k) with ⟨h2, hcb⟩ | ⟨kb, cb, h2, hcb⟩
  all_goals
    cases v with
    | dict _ => simp [InfoFlat] at hv
    | num ty x =>
      cases ty <;> simp [InfoFlat] at hv <;>
      simp [pyIsInstance, PyIsInstance.isInstance, pyContains, PyContains.contains, pyGetD, pyGetItem,
        PyGetItem.getItem, pySetItem, PySetItem.setItem, pyOr, pyType, pyIsSubclass, pyIsNone, pyShape,
        PyShape.shape, npZeros, npZerosShape, npFull, getCells, pyTrue, h1, h2, hi, hca, hcb, head_bang_cons] <;>
      exact ⟨_, _, rfl⟩
    | _ =>
      simp [pyIsInstance, PyIsInstance.isInstance, pyContains, PyContains.contains, pyGetD, pyGetItem,
        PyGetItem.getItem, pySetItem, PySetItem.setItem, pyOr, pyType, pyIsSubclass, pyIsNone, pyShape,
        PyShape.shape, npZeros, npZerosShape, npFull, getCells, pyTrue, h1, h2, hi, hca, hcb, head_bang_cons] <;>
      exact ⟨_, _, rfl⟩

theorem cellD_step (l : List (K × VVal K)) (k uk k' : K) (ka kb : ArrKind) (ca cb : List (Cell K)) (i' : Nat) :
    cellD (.sub (assocSet (assocSet l k (.arr ka ca)) uk (.arr kb cb))) k' i' =
      if uk = k' then cb[i']?.getD .fill else if k = k' then ca[i']?.getD .fill else cellD (.sub l) k' i' := by
  simp only [cellD, assocGet_assocSet]
  by_cases h1 : uk = k'
  · simp [h1]
  · by_cases h2 : k = k'
    · simp [h1, h2]
    · simp [h1, h2]

/-- (1) one reported item `(k, v)` of env `i`: lands in cell `i` of `k`, sets cell `i` of the mask, frame -/
theorem add_info_item (underscore : K → K) (f : VVal K → Info K → Nat → Option (VVal K))
    (self : VecEnvObj α ρ) (vi : VVal K) (k : K) (v : Info K) (i : Nat)
    (hv : InfoFlat v = true) (hwf : VWF self.num_envs vi) (hi : i < self.num_envs)
    (hus : underscore k ≠ k) :
    ∃ vi', add_info_F underscore f self vi (.dict [(k, v)]) i = some vi' ∧ VWF self.num_envs vi' ∧
      cellD vi' k i = .val v ∧ cellD vi' (underscore k) i = .val pyTrue ∧
      ∀ k' i', ¬ (i' = i ∧ (k' = k ∨ k' = underscore k)) → cellD vi' k' i' = cellD vi k' i' := by
  cases vi with
  | arr _ _ => exact absurd hwf (by simp [VWF])
  | sub l =>
    obtain ⟨ka, kb, h⟩ := add_info_F_single underscore f self l k v i hv hwf hi
    have hl1 := getCells_length self.num_envs l hwf k
    have hl2 := getCells_length self.num_envs l hwf (underscore k)
    refine ⟨_, h, ?_, ?_, ?_, ?_⟩
    · intro p hp
      rcases mem_assocSet _ _ _ _ hp with hp | hp
      · subst hp; exact ⟨_, _, rfl, by simp [hl2]⟩
      · rcases mem_assocSet _ _ _ _ hp with hp | hp
        · subst hp; exact ⟨_, _, rfl, by simp [hl1]⟩
        · exact hwf p hp
    · rw [cellD_step, if_neg hus, if_pos rfl]
      simp [hl1, hi]
    · rw [cellD_step, if_pos rfl]
      simp [hl2, hi]
    · intro k' i' hne
      rw [cellD_step]
      by_cases h1 : underscore k = k'
      · subst h1
        have : ¬ i' = i := fun e => hne ⟨e, Or.inr rfl⟩
        rw [if_pos rfl, List.getElem?_set_ne (fun e => this e.symm), cellD_sub l _ self.num_envs]
      · rw [if_neg h1]
        by_cases h2 : k = k'
        · subst h2
          have : ¬ i' = i := fun e => hne ⟨e, Or.inl rfl⟩
          rw [if_pos rfl, List.getElem?_set_ne (fun e => this e.symm), cellD_sub l _ self.num_envs]
        · rw [if_neg h2]

theorem assocGet_none_of_not_mem {β : Type} (l : List (K × β)) (k : K) (h : k ∉ l.map (·.1)) :
    assocGet l k = none := by
  induction l with
  | nil => rfl
  | cons q r ih =>
    obtain ⟨a, b⟩ := q
    simp only [List.map_cons, List.mem_cons, not_or] at h
    have h1 : ¬ a = k := fun e => h.1 e.symm
    simp only [assocGet, if_neg h1]
    exact ih h.2

theorem add_info_F_env (underscore : K → K) (f : VVal K → Info K → Nat → Option (VVal K))
    (self : VecEnvObj α ρ) (items : List (K × Info K)) (i : Nat) (hi : i < self.num_envs)
    (hinj : ∀ a b, underscore a = underscore b → a = b) :
    ∀ (vi : VVal K), VWF self.num_envs vi → (items.map (·.1)).Nodup →
    (∀ p ∈ items, InfoFlat p.2 = true) → (∀ p ∈ items, ∀ k', underscore k' ≠ p.1) →
    ∃ vi', add_info_F underscore f self vi (.dict items) i = some vi' ∧ VWF self.num_envs vi' ∧
      (∀ k' i', i' ≠ i → cellD vi' k' i' = cellD vi k' i') ∧
      (∀ k v, assocGet items k = some v →
        cellD vi' k i = .val v ∧ cellD vi' (underscore k) i = .val pyTrue) ∧
      (∀ k, assocGet items k = none → cellD vi' (underscore k) i = cellD vi (underscore k) i ∧
        ((∀ k', underscore k' ≠ k) → cellD vi' k i = cellD vi k i)) := by
  induction items with
  | nil =>
    intro vi hwf _ _ _
    refine ⟨vi, add_info_F_nil _ _ _ _ _, hwf, fun _ _ _ => rfl, ?_, fun _ _ => ⟨rfl, fun _ => rfl⟩⟩
    intro k v h; simp [assocGet] at h
  | cons p rest ih =>
    obtain ⟨k0, v0⟩ := p
    intro vi hwf hnd hflat hkeys
    have hus : underscore k0 ≠ k0 := hkeys (k0, v0) List.mem_cons_self k0
    obtain ⟨vi1, e1, wf1, hk1, hm1, fr1⟩ :=
      add_info_item underscore f self vi k0 v0 i (hflat (k0, v0) List.mem_cons_self) hwf hi hus
    simp only [List.map_cons, List.nodup_cons] at hnd
    obtain ⟨vi2, e2, wf2, fr2, hs2, hn2⟩ := ih vi1 wf1 hnd.2
      (fun p hp => hflat p (List.mem_cons_of_mem _ hp)) (fun p hp => hkeys p (List.mem_cons_of_mem _ hp))
    refine ⟨vi2, ?_, wf2, ?_, ?_, ?_⟩
    · rw [add_info_F_cons, e1]; exact e2
    · intro k' i' hne
      rw [fr2 k' i' hne, fr1 k' i' (fun h => hne h.1)]
    · intro k v h
      by_cases hk : k0 = k
      · subst hk
        simp only [assocGet, if_true, eq_self_iff_true, Option.some.injEq] at h
        subst h
        obtain ⟨a, b⟩ := hn2 k0 (assocGet_none_of_not_mem rest k0 hnd.1)
        rw [a, b (fun k' => hkeys (k0, v0) List.mem_cons_self k')]
        exact ⟨hk1, hm1⟩
      · simp only [assocGet, if_neg hk] at h
        exact hs2 k v h
    · intro k h
      by_cases hk : k0 = k
      · subst hk; simp [assocGet] at h
      · simp only [assocGet, if_neg hk] at h
        obtain ⟨a, b⟩ := hn2 k h
        refine ⟨?_, ?_⟩
        · rw [a]
          apply fr1
          rintro ⟨_, h1 | h1⟩
          · exact hkeys (k0, v0) List.mem_cons_self k h1
          · exact hk (hinj _ _ h1).symm
        · intro hu
          rw [b hu]
          apply fr1
          rintro ⟨_, h1 | h1⟩
          · exact hk h1.symm
          · exact hu k0 h1.symm

/-- (2) the infos of env `i` (a flat dict) land under index `i` and touch nothing else -/
theorem add_info_env (underscore : K → K) (d : Nat)
    (self : VecEnvObj α ρ) (items : List (K × Info K)) (i : Nat) (hi : i < self.num_envs)
    (hinj : ∀ a b, underscore a = underscore b → a = b)
    (vi : VVal K) (hwf : VWF self.num_envs vi) (hnd : (items.map (·.1)).Nodup)
    (hflat : ∀ p ∈ items, InfoFlat p.2 = true) (hkeys : ∀ p ∈ items, ∀ k', underscore k' ≠ p.1) :
    ∃ vi', add_info underscore (d + 1) self vi (.dict items) i = some vi' ∧ VWF self.num_envs vi' ∧
      (∀ k' i', i' ≠ i → cellD vi' k' i' = cellD vi k' i') ∧
      (∀ k v, assocGet items k = some v →
        cellD vi' k i = .val v ∧ cellD vi' (underscore k) i = .val pyTrue) ∧
      (∀ k, assocGet items k = none → cellD vi' (underscore k) i = cellD vi (underscore k) i ∧
        ((∀ k', underscore k' ≠ k) → cellD vi' k i = cellD vi k i)) :=
  add_info_F_env underscore (add_info underscore d self) self items i hi hinj vi hwf hnd hflat hkeys

/-- what env `i` reported under key `k`, when the envs `k0, k0+1, …` reported `l` -/
def lookupFrom (l : List (List (K × Info K))) (k0 i : Nat) (k : K) : Option (Info K) :=
  (if k0 ≤ i then l[i - k0]? else none).bind (fun items => assocGet items k)

theorem lookupFrom_nil (k0 i : Nat) (k : K) : lookupFrom ([] : List (List (K × Info K))) k0 i k = none := by
  unfold lookupFrom; split <;> simp

theorem lookupFrom_cons_self (items : List (K × Info K)) (rest) (k0 : Nat) (k : K) :
    lookupFrom (items :: rest) k0 k0 k = assocGet items k := by
  simp [lookupFrom]

theorem lookupFrom_succ_self (rest : List (List (K × Info K))) (k0 : Nat) (k : K) :
    lookupFrom rest (k0 + 1) k0 k = none := by
  unfold lookupFrom
  rw [if_neg (by omega)]
  rfl

theorem lookupFrom_cons_ne (items : List (K × Info K)) (rest) (k0 i : Nat) (k : K) (h : i ≠ k0) :
    lookupFrom (items :: rest) k0 i k = lookupFrom rest (k0 + 1) i k := by
  unfold lookupFrom
  by_cases h1 : k0 ≤ i
  · have e : i - k0 = (i - (k0 + 1)) + 1 := by omega
    rw [if_pos h1, if_pos (by omega), e, List.getElem?_cons_succ]
  · rw [if_neg h1, if_neg (by omega)]

/-- each env's info is a flat dict with distinct keys none of which is a `_`-key -/
def EnvOK (underscore : K → K) (items : List (K × Info K)) : Prop :=
  (items.map (·.1)).Nodup ∧ (∀ p ∈ items, InfoFlat p.2 = true) ∧ (∀ p ∈ items, ∀ k', underscore k' ≠ p.1)

theorem add_info_fold (underscore : K → K) (d : Nat) (self : VecEnvObj α ρ)
    (hinj : ∀ a b, underscore a = underscore b → a = b) :
    ∀ (l : List (List (K × Info K))) (k0 : Nat) (vi : VVal K), k0 + l.length ≤ self.num_envs →
    VWF self.num_envs vi → (∀ items ∈ l, EnvOK underscore items) →
    ∃ vi', (((l.map Info.dict).zipIdx k0).map (fun p => (p.2, p.1))).foldlM
        (fun v (p : Nat × Info K) => add_info underscore (d + 1) self v p.2 p.1) vi = some vi' ∧
      VWF self.num_envs vi' ∧
      ∀ i k,
        ((∀ k', underscore k' ≠ k) → cellD vi' k i =
          match lookupFrom l k0 i k with | some v => .val v | none => cellD vi k i) ∧
        (cellD vi' (underscore k) i =
          match lookupFrom l k0 i k with | some _ => .val pyTrue | none => cellD vi (underscore k) i) := by
  intro l
  induction l with
  | nil =>
    intro k0 vi _ hwf _
    refine ⟨vi, rfl, hwf, ?_⟩
    intro i k
    simp [lookupFrom_nil]
  | cons items rest ih =>
    intro k0 vi hlen hwf hok
    simp only [List.length_cons] at hlen
    obtain ⟨hnd, hflat, hkeys⟩ := hok items List.mem_cons_self
    obtain ⟨vi1, e1, wf1, fr1, hs1, hn1⟩ :=
      add_info_env underscore d self items k0 (by omega) hinj vi hwf hnd hflat hkeys
    obtain ⟨vi2, e2, wf2, h2⟩ := ih (k0 + 1) vi1 (by omega) wf1
      (fun it hit => hok it (List.mem_cons_of_mem _ hit))
    refine ⟨vi2, ?_, wf2, ?_⟩
    · simp only [List.map_cons, List.zipIdx_cons, List.foldlM_cons, e1, Option.bind_eq_bind, Option.bind_some]
      exact e2
    · intro i k
      obtain ⟨a2, b2⟩ := h2 i k
      by_cases hik : i = k0
      · subst hik
        rw [lookupFrom_succ_self] at a2 b2
        rw [lookupFrom_cons_self]
        simp only [] at a2 b2
        cases hg : assocGet items k with
        | some v =>
          obtain ⟨x, y⟩ := hs1 k v hg
          exact ⟨fun hu => by rw [a2 hu]; exact x, by rw [b2]; exact y⟩
        | none =>
          obtain ⟨x, y⟩ := hn1 k hg
          exact ⟨fun hu => by rw [a2 hu]; exact y hu, by rw [b2]; exact x⟩
      · rw [lookupFrom_cons_ne _ _ _ _ _ hik, ← fr1 k i hik, ← fr1 (underscore k) i hik]
        exact ⟨a2, b2⟩

theorem cellD_empty (k : K) (i : Nat) : cellD (pyEmptyInfos : VVal K) k i = .fill := by
  simp [cellD, pyEmptyInfos, assocGet]

theorem lookupFrom_zero (l : List (List (K × Info K))) (i : Nat) (k : K) :
    lookupFrom l 0 i k = (l[i]?).bind (fun items => assocGet items k) := by
  simp [lookupFrom]

/-- (3) `reset_wait`'s fold of `_add_info` over the envs' (flat) infos: entry `i` of `infos[k]` is env `i`'s value
    when env `i` reported `k`, and the mask `infos[_k]` is true exactly there -/
theorem gen_add_info_index (underscore : K → K) (d : Nat) (self : VecEnvObj α ρ)
    (hinj : ∀ a b, underscore a = underscore b → a = b)
    (infos : List (List (K × Info K))) (hlen : infos.length ≤ self.num_envs)
    (hok : ∀ items ∈ infos, EnvOK underscore items) :
    ∃ vi, (pyEnumerate (infos.map Info.dict)).foldlM (fun v3 (v4, v5) => do
        let v3 := (← add_info underscore (d + 1) self v3 v5 v4)
        pure v3) (pyEmptyInfos : VVal K) = some vi ∧
      VWF self.num_envs vi ∧
      ∀ i k,
        ((∀ k', underscore k' ≠ k) → cellD vi k i =
          match (infos[i]?).bind (fun items => assocGet items k) with | some v => .val v | none => .fill) ∧
        (cellD vi (underscore k) i =
          match (infos[i]?).bind (fun items => assocGet items k) with
          | some _ => .val pyTrue | none => .fill) := by
  obtain ⟨vi, e, wf, h⟩ := add_info_fold underscore d self hinj infos 0 pyEmptyInfos (by omega)
    (by intro p hp; cases hp) hok
  refine ⟨vi, ?_, wf, ?_⟩
  · rw [← e]
    unfold pyEnumerate
    congr 1
    funext v p
    obtain ⟨a, b⟩ := p
    simp
  · intro i k
    have := h i k
    simp only [lookupFrom_zero, cellD_empty] at this
    exact this

end

/-! non-vacuity: two envs, env 0 reports key 1, env 1 reports keys 1 and 2; `_k = k + 100` -/
section
def addInfoExSelf : VecEnvObj Unit Unit := ⟨2, [], [], ⟨2, ⟨[]⟩, ⟨[]⟩, [], ⟨[]⟩⟩, false⟩
def addInfoExInfos : List (List (Nat × Info Nat)) :=
  [[(1, .num .int 5)], [(1, .num .int 7), (2, .none)]]

theorem addInfoExInfos_ok : ∀ items ∈ addInfoExInfos, EnvOK (fun k => k + 100) items := by
  intro items h
  simp only [addInfoExInfos, List.mem_cons, List.not_mem_nil, or_false] at h
  rcases h with h | h <;> subst h <;> refine ⟨by decide, ?_, ?_⟩
  · intro p hp; simp at hp; subst hp; rfl
  · intro p hp k'; simp at hp; subst hp; simp only []; omega
  · intro p hp; simp at hp; rcases hp with hp | hp <;> subst hp <;> rfl
  · intro p hp k'; simp at hp; rcases hp with hp | hp <;> subst hp <;> simp only [] <;> omega

/-- the hypotheses of `gen_add_info_index` hold on the instance -/
example := gen_add_info_index (fun k : Nat => k + 100) 0 addInfoExSelf (fun a b h => by simpa using h) addInfoExInfos
  (by decide) addInfoExInfos_ok

/-- and the generated code computes the expected cells on it -/
example : ((pyEnumerate (addInfoExInfos.map Info.dict)).foldlM (fun v3 (v4, v5) => do
        let v3 := (← add_info (fun k : Nat => k + 100) 1 addInfoExSelf v3 v5 v4)
        pure v3) (pyEmptyInfos : VVal Nat)).map (fun vi =>
      (match cellD vi 1 0, cellD vi 1 1, cellD vi 2 0, cellD vi 2 1, cellD vi 102 0, cellD vi 102 1 with
       | .val (.num .int 5), .val (.num .int 7), .fill, .val .none, .fill, .val (.num .bool 1) => true
       | _, _, _, _, _, _ => false)) = some true := by decide
end
section
variable {α ρ K : Type}
theorem mapM_recv {ρ : Type} (ms : List ρ) :
    (ms.map (fun m => (⟨some m⟩ : Pipe ρ))).mapM (fun v0 => pyRecv v0) = some ms := by
  induction ms with
  | nil => rfl
  | cons m ms ih => simp only [List.map_cons, List.mapM_cons]; rw [ih]; rfl

/-- `reset_wait` (generated) on pipes that all carry a successful reply whose info is a flat dict: the returned
    infos are `_add_info` folded over the replies in pipe-index order, so cell `i` of `infos[k]` is env `i`'s -/
theorem gen_reset_wait_infos [DecidableEq K] (underscore : K → K) (d : Nat) (self : VecEnvObj α (VecRecvGen.Info K × Bool))
    (hinj : ∀ a b, underscore a = underscore b → a = b)
    (infos : List (List (K × VecRecvGen.Info K))) (hlen : infos.length ≤ self.num_envs)
    (hok : ∀ items ∈ infos, EnvOK underscore items)
    (hp : self.parent_pipes = (infos.map (fun it => (VecRecvGen.Info.dict it, true))).map (fun m => (⟨some m⟩ : Pipe (VecRecvGen.Info K × Bool))))
    (r : ObsOut α × VVal K) (h : reset_wait underscore (d + 1) self = some r) :
    ∀ i k,
        ((∀ k', underscore k' ≠ k) → cellD r.2 k i =
          match (infos[i]?).bind (fun items => assocGet items k) with | some v => .val v | none => .fill) ∧
        (cellD r.2 (underscore k) i =
          match (infos[i]?).bind (fun items => assocGet items k) with
          | some _ => .val pyTrue | none => .fill) := by
  obtain ⟨vi, hvi, _, hspec⟩ := gen_add_info_index underscore d self hinj infos hlen hok
  unfold reset_wait at h
  simp only [hp, pyIter, PyIter.iter, Option.bind_eq_bind, Option.bind_some, Option.pure_def, mapM_recv] at h
  obtain ⟨u, hu, h⟩ := Option.bind_eq_some_iff.1 h
  obtain ⟨_, _, h⟩ := Option.bind_eq_some_iff.1 h
  obtain ⟨v3, hfold, h⟩ := Option.bind_eq_some_iff.1 h
  obtain ⟨o, _, h⟩ := Option.bind_eq_some_iff.1 h
  cases h
  have hu1 : u.1 = infos.map VecRecvGen.Info.dict := by
    unfold pyUnzip at hu
    split at hu
    · cases hu
    · cases hu; simp [List.unzip_eq_map, Function.comp_def]
  rw [hu1] at hfold
  have hlam : (fun (v3 : VVal K) (x : Nat × VecRecvGen.Info K) =>
      (add_info underscore (d + 1) self v3 x.snd x.fst).bind fun __do_lift => some __do_lift) =
      (fun v3 x => match x with
        | (v4, v5) => do
          let __do_lift ← add_info underscore (d + 1) self v3 v5 v4
          have v3 : VVal K := __do_lift
          pure v3) := by
    funext v3 x; obtain ⟨a, b⟩ := x; rfl
  rw [hlam, hvi] at hfold
  cases hfold
  exact hspec
end
end VecEnv
