import Model.VecProto
import Gen.WorkerErrGen

/-!
  Proofs/WorkerErrGenEq.lean — the worker's error path generated from the source text of
  `agilerl/vector/pz_async_vec_env.py` (`Gen/WorkerErrGen.lean`: `_async_worker`'s except / finally skeleton,
  `_survives_pickling`) equals `VecProto.Worker.errorPath` of the hand model, and the general lemmas about the
  process / queue model (`announced ⇒ flushed` for every kill point and every feeder schedule).
-/
namespace VecProto
open WorkerErrGen

/-! ### abstraction of the generated symbolic values -/

/-- the class member of a report tuple -/
def absCls : Val → Option RCls
  | .excType => some .own
  | .cls "RuntimeError" => some .runtimeError
  | _ => none

/-- the message member of a report tuple -/
def absMsg : Val → Option RMsg
  | .excValue => some .own
  | .str .excValue => some .strOfOwn
  | .cat (.fmt (.nameOf .excType)) (.cat (.lit ": ") (.fmt .excValue)) => some .nameColonOwn
  | _ => none

/-- a generated effect as an effect of the model: the queue item must be the 4-tuple `(index, class, message,
    trace)` that `_raise_if_errors` unpacks, the pipe message must be the failure announcement `(None, False)` -/
def absEff : Eff → Option WEff
  | .queuePut (.cons .index (.cons c (.cons m (.cons .trace .nil)))) =>
    match absCls c, absMsg m with
    | some c, some m => some (.put ⟨c, m⟩)
    | _, _ => none
  | .queueClose => some .qclose
  | .queueJoinThread => some .qjoin
  | .pipeSend (.cons .none (.cons (.bool false) .nil)) => some .announce
  | .envClose => some .envClose
  | _ => none

/-- `_survives_pickling` is the oracle: `True` iff the round trip returns -/
theorem gen_survives_pickling_eq (pickles : Val → Bool) (v : Val) :
    survives_pickling pickles v = pickles v := by
  cases h : pickles v <;> simp [survives_pickling, pyTryReturn, h]

/-- the `except` clause catches exactly `KeyboardInterrupt` and `Exception` (the model's `raise` fault covers both:
    `Exc.other`, `Exc.kbd`) -/
theorem gen_async_worker_catches_eq : async_worker_catches = ["KeyboardInterrupt", "Exception"] := rfl

/-- generated = model: the handler followed by the `finally` block is `Worker.errorPath`, for every oracle -/
theorem gen_async_worker_on_raise_eq (pickles : Val → Bool) :
    (async_worker_on_raise pickles true).map absEff =
      (Worker.errorPath (pickles .excType) (pickles .excValue)).map some := by
  cases h1 : pickles .excType <;> cases h2 : pickles .excValue <;>
    simp [async_worker_on_raise, async_worker_except, async_worker_finally, gen_survives_pickling_eq, h1, h2,
      Worker.errorPath, Worker.report, absEff, absCls, absMsg]

/-- an exit the `except` clause does not catch (SystemExit, a normal `break`) only closes the sub-environment -/
theorem gen_async_worker_uncaught_eq (pickles : Val → Bool) :
    (async_worker_on_raise pickles false).map absEff = [some .envClose] := by
  simp [async_worker_on_raise, async_worker_finally, absEff]

/-- the generated effects, read as effects of the model (`none` entries cannot occur, see the equality above) -/
def genPath (pickles : Val → Bool) : List WEff := (async_worker_on_raise pickles true).filterMap absEff

theorem genPath_eq (pickles : Val → Bool) :
    genPath pickles = Worker.errorPath (pickles .excType) (pickles .excValue) := by
  cases h1 : pickles .excType <;> cases h2 : pickles .excValue <;>
    simp [genPath, async_worker_on_raise, async_worker_except, async_worker_finally, gen_survives_pickling_eq, h1, h2,
      Worker.errorPath, Worker.report, absEff, absCls, absMsg]

/-! ### picklability of what is put on the queue -/

/-- does a symbolic value survive pickling, given the oracle for the two unknowns (class, exception object):
    ints, strs, None, bools, builtin classes do; a tuple does iff its members do -/
def Val.safe (pickles : Val → Bool) : Val → Bool
  | .index | .trace | .none | .bool _ | .int _ | .lit _ | .cls _ | .str _ | .nameOf _ | .fmt _ | .cat _ _ | .nil => true
  | .excType => pickles .excType
  | .excValue => pickles .excValue
  | .cons a r => Val.safe pickles a && Val.safe pickles r

/-- every item the generated handler puts on the queue survives pickling, whatever the sub-environment raised -/
theorem gen_put_picklable (pickles : Val → Bool) :
    ∀ item, Eff.queuePut item ∈ async_worker_on_raise pickles true → Val.safe pickles item = true := by
  intro item
  cases h1 : pickles .excType <;> cases h2 : pickles .excValue <;>
    simp [async_worker_on_raise, async_worker_except, async_worker_finally, gen_survives_pickling_eq, h1, h2] <;>
    (intro h; subst h; simp [Val.safe, h1, h2])

/-- the model's report is picklable by construction -/
theorem report_picklable (clsOk msgOk : Bool) : (Worker.report clsOk msgOk).picklable clsOk msgOk = true := by
  cases clsOk <;> cases msgOk <;> rfl

/-! ### announced ⇒ flushed, for every kill point and every feeder schedule -/

/-- `t` is `s` with some more spontaneous flushes -/
def PSt.ahead (s t : PSt) : Prop :=
  t.announced = s.announced ∧ t.qclosed = s.qclosed ∧ t.envClosed = s.envClosed ∧
  s.flushed ≤ t.flushed ∧ t.flushed + t.buffered = s.flushed + s.buffered

theorem PSt.ahead_refl (s : PSt) : s.ahead s := ⟨rfl, rfl, rfl, Nat.le_refl _, rfl⟩

theorem PSt.ahead_flush {s t : PSt} (h : s.ahead t) : s.ahead t.flush := by
  obtain ⟨h1, h2, h3, h4, h5⟩ := h
  refine ⟨h1, h2, h3, ?_, ?_⟩ <;> simp [PSt.flush] <;> omega

theorem PSt.ahead_exec {s t : PSt} (h : s.ahead t) (e : WEff) : (s.exec e).ahead (t.exec e) := by
  obtain ⟨h1, h2, h3, h4, h5⟩ := h
  cases e <;> simp only [PSt.exec, h2]
  · cases s.qclosed <;> simp [PSt.ahead, *] <;> omega
  · simp [PSt.ahead, *]
  · cases s.qclosed <;> simp [PSt.ahead, PSt.flush, *] <;> omega
  · simp [PSt.ahead, *]
  · simp [PSt.ahead, *]

/-- the static check of an effect order, run with the adversarial feeder (it never flushes by itself): after every
    effect, as many reports have been flushed as failures announced -/
def safeFrom (s : PSt) : List WEff → Bool
  | [] => true
  | e :: es => decide ((s.exec e).announced ≤ (s.exec e).flushed) && safeFrom (s.exec e) es

/-- an effect order that passes the static check keeps `announced ≤ flushed` at every kill point under every
    feeder schedule -/
theorem runK_announced_le_flushed (spont : Nat → Bool) :
    ∀ (es : List WEff) (s t : PSt) (i k : Nat), safeFrom s es = true → s.announced ≤ s.flushed → s.ahead t →
      (PSt.runK spont i k t es).announced ≤ (PSt.runK spont i k t es).flushed := by
  intro es
  induction es with
  | nil =>
    intro s t i k _ hs ha
    have : PSt.runK spont i k t [] = t := by cases k <;> rfl
    rw [this]; obtain ⟨h1, _, _, h4, _⟩ := ha; omega
  | cons e es ih =>
    intro s t i k hsafe hs ha
    cases k with
    | zero => show t.announced ≤ t.flushed; obtain ⟨h1, _, _, h4, _⟩ := ha; omega
    | succ k =>
      simp only [safeFrom, Bool.and_eq_true, decide_eq_true_eq] at hsafe
      show (PSt.runK spont (i + 1) k _ es).announced ≤ (PSt.runK spont (i + 1) k _ es).flushed
      apply ih (s.exec e) _ (i + 1) k hsafe.2 hsafe.1
      cases spont i
      · exact PSt.ahead_exec ha e
      · exact PSt.ahead_flush (PSt.ahead_exec ha e)

theorem killedAt_parentFinds (spont : Nat → Bool) (k : Nat) (es : List WEff) (h : safeFrom {} es = true) :
    (Worker.killedAt spont k es).parentFinds = true := by
  have := runK_announced_le_flushed spont es {} {} 0 k h (Nat.le_refl _) (PSt.ahead_refl _)
  simp only [Worker.killedAt, PSt.parentFinds, PSt.die]
  exact decide_eq_true this

theorem errorPath_safe (clsOk msgOk : Bool) : safeFrom {} (Worker.errorPath clsOk msgOk) = true := by
  cases clsOk <;> cases msgOk <;> decide

/-- MODEL: the repaired order — for every kill point and every feeder schedule the parent finds a report for the
    failure that was announced -/
theorem errorPath_killed_parentFinds (clsOk msgOk : Bool) (spont : Nat → Bool) (k : Nat) :
    (Worker.killedAt spont k (Worker.errorPath clsOk msgOk)).parentFinds = true :=
  killedAt_parentFinds spont k _ (errorPath_safe clsOk msgOk)

/-- MODEL: the order as found — killed right after the announcement (kill point 2, the feeder has not run yet) the
    parent's `get()` has nothing to find -/
theorem errorPathAsFound_witness :
    (Worker.killedAt (fun _ => false) 2 (Worker.errorPathAsFound true true)).parentFinds = false ∧
    (Worker.killedAt (fun _ => false) 2 (Worker.errorPathAsFound true true)).announced = 1 := by decide

/-- a worker that runs to the end has flushed its one report, announced once and closed the sub-environment -/
theorem errorPath_complete (clsOk msgOk : Bool) (spont : Nat → Bool) (k : Nat) (hk : 5 ≤ k) :
    let s := PSt.runK spont 0 k {} (Worker.errorPath clsOk msgOk)
    s.flushed = 1 ∧ s.buffered = 0 ∧ s.announced = 1 ∧ s.envClosed = true := by
  obtain ⟨j, rfl⟩ : ∃ j, k = j + 5 := ⟨k - 5, by omega⟩
  cases h0 : spont 0 <;> cases h1 : spont 1 <;> cases h2 : spont 2 <;> cases h3 : spont 3 <;> cases h4 : spont 4 <;>
    cases j <;> simp [Worker.errorPath, PSt.runK, PSt.exec, PSt.flush, h0, h1, h2, h3, h4]

end VecProto
