import Proofs.HeapRun
import Proofs.CloneGenEq
import Proofs.ModCloneGenEq

/-!
# C01 — a cloned agent is a faithful and fully independent copy of its parent

Model: `Model/Heap.lean`.  Agents reach mutable cells through attributes; `clone` follows the
rule table of `EvolvableAlgorithm.clone` / `copy_attributes`.  Every theorem quantifies over every
rule table, every initial agent and every history (`Reachable`) of
clone / write (learn step, in-place mutation, append) / rebind (re-created networks and
optimizers, re-assigned attributes) / discard operations.

`C01_source_translation_*` (at the end): the same statements for the clone operation instantiated with the rule
table GENERATED from the source text of `EvolvableAlgorithm.{inspect_attributes, copy_attributes, clone}` and
`AgentWrapper.clone` (`Gen/CloneGen.lean`, harness/py2lean_clone.py; `genRule?` / `genRules` of
`Proofs/CloneGenEq.lean` run the model's phase semantics on the generated phase list and decision table).
-/
namespace Heap

/-- **Separation in every reachable state.**  A cell that an agent reaches through a private
    attribute (anything `clone` does not deliberately pass by reference: networks, optimizers,
    lists, the registry, …) is reached by no other agent, whatever the history. -/
theorem C01_separation_invariant (rules : List Rule) (w : World) (hw : Reachable rules w)
    (i j : Nat) (ai aj : Agent) (k l : Nat) (ck cl : List Nat) (a : Nat)
    (hi : w.agents[i]? = some (some ai)) (hj : w.agents[j]? = some (some aj))
    (hk : ai[k]? = some ck) (hl : aj[l]? = some cl) (hak : a ∈ ck) (hal : a ∈ cl)
    (hpriv : rules[k]? ≠ some Rule.byRef) : i = j := by
  obtain ⟨_, how, hr⟩ := reachable_inv hw
  exact (how i j ai aj k l ck cl a hi hj hk hl hak hal (by rw [hr]; exact hpriv)).1

/-- **Frame.**  Training / mutating agent `i` in place (a write through one of its private
    attributes) never changes what any other agent `j` observes: weights, optimizer moments, step
    counters, hyper-parameter ranges, score lists.  Holds for (parent, clone), (clone, clone) and
    any other pair, after any history. -/
theorem C01_frame (rules : List Rule) (w w' : World) (hw : Reachable rules w) (i k c v : Nat)
    (hwrite : w.write i k c v = some w') (hpriv : rules[k]? ≠ some Rule.byRef)
    (j : Nat) (hij : j ≠ i) : view w' j = view w j := by
  obtain ⟨_, how, hr⟩ := reachable_inv hw
  exact write_frame w w' i k c v hwrite how (by rw [hr]; exact hpriv) j hij

/-- discarding an agent changes nobody else's view -/
theorem C01_discard_frame (w : World) (i j : Nat) (hij : j ≠ i) : view (w.discard i) j = view w j := by
  unfold view World.discard
  simp only
  rw [List.getElem?_set_ne (fun e => hij e.symm)]

/-- **Faithful copy.**  Right after `clone i`, attribute by attribute the child holds the values
    of the parent — the values of the shadowed online network for a re-synchronised target — and
    its private attributes live in cells allocated by this very clone (nobody else can know them). -/
theorem C01_clone_values (rules : List Rule) (w : World) (hw : Reachable rules w) (i : Nat) (p : Agent)
    (hp : w.agents[i]? = some (some p)) :
    ∃ child, (w.clone i).agents = w.agents ++ [some child] ∧
      child.length = min rules.length p.length ∧
      ∀ (k : Nat) (cs' : List Nat), child[k]? = some cs' →
        ∃ rule cs, rules[k]? = some rule ∧ p[k]? = some cs ∧
          vals (w.clone i).heap cs' = vals w.heap (srcOf p cs rule) ∧
          (rule ≠ Rule.byRef → ∀ a ∈ cs', w.heap.length ≤ a) := by
  obtain ⟨hwf, _, hr⟩ := reachable_inv hw
  obtain ⟨_, hag, ⟨ext, hext⟩, hch⟩ := clone_child w i p hp hwf
  refine ⟨_, hag, ?_, ?_⟩
  · have hlt : ∀ cs ∈ p, ∀ a ∈ cs, a < w.heap.length := by
      intro cs hcs a ha
      obtain ⟨k, hk, rfl⟩ := List.getElem_of_mem hcs
      exact hwf i p k _ a hp (List.getElem?_eq_getElem hk) ha
    have := (cloneAttrs_spec p w.rules p w.heap hlt (fun src cs h a ha => hwf i p src cs a hp h ha)).2.1
    rw [← hr]; exact this
  · intro k cs' hcs'
    obtain ⟨rule, cs, h1, h2, h3, h4⟩ := hch k cs' hcs'
    refine ⟨rule, cs, by rw [← hr]; exact h1, h2, ?_, fun hne a ha => ((h4 hne).1 a ha).1⟩
    by_cases hb : rule = Rule.byRef
    · rw [h3 hb, hb, hext]
      exact vals_append_left _ _ _ (fun a ha => hwf i p k cs a hp h2 ha)
    · exact (h4 hb).2

/-- cloning changes no existing agent's view -/
theorem C01_clone_keeps_others (rules : List Rule) (w : World) (hw : Reachable rules w) (i j : Nat)
    (hj : j < w.agents.length) : view (w.clone i) j = view w j := by
  obtain ⟨hwf, _, _⟩ := reachable_inv hw
  cases hp : w.agents[i]? with
  | none => rw [clone_noop w i (by simp [hp])]
  | some o =>
    cases o with
    | none => rw [clone_noop w i (by simp [hp])]
    | some p =>
      obtain ⟨_, hag, ⟨ext, hext⟩, _⟩ := clone_child w i p hp hwf
      unfold view
      rw [hag, List.getElem?_append_left hj]
      cases hjj : w.agents[j]? with
      | none => rfl
      | some o2 =>
        cases o2 with
        | none => rfl
        | some aj =>
          simp only [Option.some.injEq]
          apply List.map_congr_left
          intro cl hcl
          obtain ⟨l, hl, rfl⟩ := List.getElem_of_mem hcl
          rw [hext]
          exact vals_append_left _ _ _ (fun a ha => hwf j aj l _ a hjj (List.getElem?_eq_getElem hl) ha)

/-- in the repaired code the only attributes passed by reference are constructor arguments that
    are tensors, arrays, callables or other plain objects (spaces, configs); networks, optimizers,
    targets, lists and the registry are always private to the clone -/
theorem C01_private_kinds (a : AttrSpec) :
    ruleOf false a = Rule.byRef ↔
      a.ctorArg = true ∧ (a.kind = Kind.tensor ∨ a.kind = Kind.ndarray ∨ a.kind = Kind.other ∨
        a.kind = Kind.callable) := by
  obtain ⟨kind, ctor⟩ := a
  cases kind <;> cases ctor <;> simp [ruleOf]

/-- the unrepaired optimizer handling (`load_state_dict` of the parent's state dict without a
    copy) breaks independence: training the clone moves the parent's optimizer moments -/
theorem C01_unrepaired_witness :
    let rules := [ruleOf true ⟨Kind.network, false⟩, ruleOf true ⟨Kind.optimizer, false⟩]
    let w := (World.init rules [2, 2]).clone 0
    ∃ w', w.write 1 1 0 77 = some w' ∧ view w' 0 ≠ view w 0 := by
  decide

/-! non-vacuity: a concrete reachable history with a clone, a clone of the clone, training and a
    mutation; the hypotheses of the theorems are met and the views are the expected ones -/
example : Reachable [Rule.fresh, Rule.fresh, Rule.resync 0, Rule.byRef]
    ((World.init [Rule.fresh, Rule.fresh, Rule.resync 0, Rule.byRef] [2, 2, 2, 1]).run
      [Op.clone 0, Op.write 1 0 0 50, Op.clone 1, Op.rebind 2 1 [7, 8, 9], Op.discard 0]) :=
  ⟨_, _, rfl⟩
example :
    let w := (World.init [Rule.fresh, Rule.fresh, Rule.resync 0, Rule.byRef] [2, 2, 2, 1]).run
      [Op.clone 0, Op.write 1 0 0 50, Op.clone 1]
    view w 0 = some [[1, 2], [3, 4], [5, 6], [7]] ∧ view w 1 = some [[50, 2], [3, 4], [1, 2], [7]] ∧
    view w 2 = some [[50, 2], [3, 4], [50, 2], [7]] := by decide

/-! ## the same, for the rule table generated from the source text -/

/-- **The rule table read from the source is the model's.**  Running the phase semantics of `Model/Heap.lean` on
    the phase list and the `copy_attributes` decision table generated from base.py gives, attribute by attribute,
    exactly `ruleOf false` — whatever the constructor defaults compare to (`eq`) and whatever hooks re-bind. -/
theorem C01_source_translation_rule_table (specs : List (AttrSpec × Bool × Bool)) (hs : HooksSpareCtorArgs specs) :
    genRules specs = some (specs.map fun x => ruleOf false x.1) :=
  gen_rules_eq specs hs

/-- by the source, the only attributes a clone shares with its parent are constructor arguments that are
    tensors, arrays, callables or other plain objects -/
theorem C01_source_translation_private_kinds (a : AttrSpec) (hw eq : Bool) (h : a.ctorArg = true → hw = false) :
    genRule? a hw eq = some Rule.byRef ↔ ByRefSpec a := by
  rw [gen_rule_eq a hw eq h, Option.some.injEq]
  exact C01_private_kinds a

/-- **Ownership invariant for the generated table**: after any history of clone (as the source performs it) /
    write / rebind / discard, a cell reached through an attribute that is not a by-reference constructor
    argument belongs to exactly one agent. -/
theorem C01_source_translation_separation (specs : List (AttrSpec × Bool × Bool)) (rules : List Rule)
    (hs : HooksSpareCtorArgs specs) (hg : genRules specs = some rules)
    (w : World) (hw : Reachable rules w)
    (i j : Nat) (ai aj : Agent) (k l : Nat) (ck cl : List Nat) (a : Nat)
    (hi : w.agents[i]? = some (some ai)) (hj : w.agents[j]? = some (some aj))
    (hk : ai[k]? = some ck) (hl : aj[l]? = some cl) (hak : a ∈ ck) (hal : a ∈ cl)
    (hpriv : ∀ x, specs[k]? = some x → ¬ ByRefSpec x.1) : i = j :=
  C01_separation_invariant rules w hw i j ai aj k l ck cl a hi hj hk hl hak hal (genRules_private hs hg k hpriv)

/-- **Frame for the generated table**: training / mutating one agent in place changes no other agent's view. -/
theorem C01_source_translation_frame (specs : List (AttrSpec × Bool × Bool)) (rules : List Rule)
    (hs : HooksSpareCtorArgs specs) (hg : genRules specs = some rules)
    (w w' : World) (hw : Reachable rules w) (i k c v : Nat)
    (hwrite : w.write i k c v = some w') (hpriv : ∀ x, specs[k]? = some x → ¬ ByRefSpec x.1)
    (j : Nat) (hij : j ≠ i) : view w' j = view w j :=
  C01_frame rules w w' hw i k c v hwrite (genRules_private hs hg k hpriv) j hij

/-- **Faithful copy for the generated table**, attribute group by attribute group: right after `clone i` the
    child's attribute `k` holds the values of the parent's attribute `k` — of the online network `src` when the
    source-derived rule is `resync src` — and, unless it is a by-reference constructor argument, lives in cells
    allocated by this very clone. -/
theorem C01_source_translation_clone_values (specs : List (AttrSpec × Bool × Bool)) (rules : List Rule)
    (hs : HooksSpareCtorArgs specs) (hg : genRules specs = some rules)
    (w : World) (hw : Reachable rules w) (i : Nat) (p : Agent) (hp : w.agents[i]? = some (some p)) :
    ∃ child, (w.clone i).agents = w.agents ++ [some child] ∧
      child.length = min specs.length p.length ∧
      ∀ (k : Nat) (cs' : List Nat), child[k]? = some cs' →
        ∃ x cs, specs[k]? = some x ∧ p[k]? = some cs ∧
          vals (w.clone i).heap cs' = vals w.heap (srcOf p cs (ruleOf false x.1)) ∧
          (¬ ByRefSpec x.1 → ∀ a ∈ cs', w.heap.length ≤ a) := by
  obtain ⟨child, hag, hlen, hch⟩ := C01_clone_values rules w hw i p hp
  have hrl : rules.length = specs.length := by
    rw [gen_rules_eq specs hs] at hg
    cases hg
    simp
  refine ⟨child, hag, by rw [hlen, hrl], ?_⟩
  intro k cs' hcs'
  obtain ⟨rule, cs, h1, h2, h3, h4⟩ := hch k cs' hcs'
  rw [genRules_getElem? hs hg k] at h1
  cases hx : specs[k]? with
  | none => simp [hx] at h1
  | some x =>
    simp only [hx, Option.map_some, Option.some.injEq] at h1
    subst h1
    exact ⟨x, cs, rfl, h2, h3, fun hn => h4 (fun hb => hn ((C01_private_kinds x.1).mp hb))⟩

/-- **Value-faithfulness by the source, per attribute kind**: following the phases of `clone` in source order,
    every attribute but a callable ends up holding the parent's values — `copy_attributes` runs after the
    mutation hook, so what a hook re-initialises is overwritten; an attribute the constructor built anew is either
    found equal or deep-copied. -/
theorem C01_source_translation_values (a : AttrSpec) (hw eq : Bool) (hk : a.kind ≠ Kind.callable) :
    genFaithful? a hw eq = some true :=
  gen_faithful_eq a hw eq hk

/-- the attributes of an `AgentWrapper` are cloned by the same table (constructor re-invocation with the
    attributes named like its parameters, then `copy_attributes`), and faithfully -/
theorem C01_source_translation_wrapper (a : AttrSpec) (eq : Bool) (hk : a.kind.evolvable = false) :
    genWrapperRule? a eq = some (ruleOf false a) ∧
      (a.kind ≠ Kind.callable → genWrapperFaithful? a eq = some true) :=
  ⟨gen_wrapper_rule_eq a eq hk, gen_wrapper_faithful_eq a eq hk⟩

/-- what `inspect_attributes` lists, by the source: never a routine, an evolvable attribute (network,
    optimizer), a TensorDict or a name with a leading / trailing underscore; with `input_args_only` only names of
    constructor parameters; and the values handed to the constructor are the parent's own objects. -/
theorem C01_source_translation_inspect (b : Bool) (m : CloneGen.Member) :
    (CloneGen.inspectListed b m = true ↔
      m.routine = false ∧ m.evolvable = false ∧ m.tensorDict = false ∧ m.leadingUnderscore = false ∧
        m.trailingUnderscore = false ∧ (b = true → m.ctorParam = true)) ∧
    shareOf (CloneGen.inspectValue b).share = some Share.byRef := by
  refine ⟨?_, gen_inspectValue_eq b⟩
  rw [gen_inspectListed_eq]
  obtain ⟨r, e, t, l, tr, c⟩ := m
  cases b <;> cases r <;> cases e <;> cases t <;> cases l <;> cases tr <;> cases c <;> simp [inspectListed]

/-! non-vacuity: the generated table for a DQN-like attribute list, a reachable history under it, and the
    hypotheses of the theorems above -/
example : HooksSpareCtorArgs [(⟨Kind.network, false⟩, false, false), (⟨Kind.optimizer, false⟩, false, true),
    (⟨Kind.target 0, false⟩, false, false), (⟨Kind.other, true⟩, false, true), (⟨Kind.tensor, false⟩, true, false)] := by
  unfold HooksSpareCtorArgs; decide
example : genRules [(⟨Kind.network, false⟩, false, false), (⟨Kind.optimizer, false⟩, false, true),
    (⟨Kind.target 0, false⟩, false, false), (⟨Kind.other, true⟩, false, true), (⟨Kind.tensor, false⟩, true, false)]
    = some [Rule.fresh, Rule.fresh, Rule.resync 0, Rule.byRef, Rule.fresh] := by decide
example : ¬ ByRefSpec ⟨Kind.tensor, false⟩ ∧ ByRefSpec ⟨Kind.other, true⟩ := by
  refine ⟨fun h => ?_, rfl, Or.inr (Or.inr (Or.inl rfl))⟩
  exact absurd h.1 (by decide)

/-! ## `module.clone()` itself, read from the source (`Gen/ModCloneGen.lean`, harness/py2lean_modclone.py)

  The theorems above take "`module.clone()` shares nothing" as an assumption of the agent-level translation
  (`CloneGen.Val.shareWith (.moduleClone _) = .fresh`).  Below, `EvolvableModule.clone` / `get_init_dict` /
  `EvolvableDistribution.clone` are translated themselves; a module is a list of attribute groups
  (`modParts D`: parameter / buffer tensors, the recorded constructor arguments at nesting depths `0 … D-1`, the two
  method-name lists) and the same heap theorems apply to the GENERATED module-level table. -/

/-- **The module-level rule read from the source is the model's**, for every part and EVERY nesting depth of the
    recorded constructor arguments, and every part of the clone holds the original's values. -/
theorem C01_source_translation_modclone_rule (p : ModPart) :
    (ModCloneGen.partRule (partOf p)).bind (fun x => modShareRule x.1) = some (moduleCloneRule p) ∧
    (ModCloneGen.partRule (partOf p)).map (fun x => x.2) = some true :=
  ⟨gen_moduleCloneRule_eq p, gen_moduleCloneFaithful_eq p⟩

/-- **The assumption of the agent-level translation, discharged**: by the source of `EvolvableModule.clone`, EVERY
    group of mutable objects of the clone — parameter / buffer tensors, the recorded constructor arguments at every
    depth, the two method-name lists — is FRESH, which is what `CloneGen.Val.shareWith` assumes of `.moduleClone`. -/
theorem C01_source_translation_modclone_shares_nothing (p : ModPart) :
    (ModCloneGen.partRule (partOf p)).bind (fun x => modShareRule x.1) = some Rule.fresh ∧
      ∀ el v, CloneGen.Val.shareWith el (CloneGen.Val.moduleClone v) = CloneGen.Share.fresh := by
  rw [gen_moduleCloneRule_eq p, moduleCloneRule_fresh p]
  exact ⟨rfl, fun _ _ => rfl⟩

/-- `get_init_dict()` by the source: a NEW dict (depth 0) whose values are the module's own objects (every deeper
    level is the original's) — so only a deep copy separates the clone's recorded architecture from the parent's. -/
theorem C01_source_translation_modclone_init_dict (d : Nat) :
    ModCloneGen.initShare d = (if d = 0 then ModCloneGen.Share.fresh else ModCloneGen.Share.parent) ∧
    ModCloneGen.initDictProp = ModCloneGen.Val.getInitDict ModCloneGen.Who.self ∧
    ModCloneGen.networkCloneSteps = none ∧ ModCloneGen.moduleDictCloneSteps = none :=
  ⟨gen_initShare_eq d, rfl, rfl, rfl⟩

/-- **(i) `module.clone()` shares no mutable cell with the original**: modules cloned (as the source does it) from
    one another through any history of clone / in-place write / rebind / discard never share a parameter tensor or
    a recorded-argument container at any nesting depth `k - 1 < D`. -/
theorem C01_source_translation_modclone_separation (D : Nat) (rules : List Rule) (hg : genModuleRules D = some rules)
    (w : World) (hw : Reachable rules w)
    (i j : Nat) (ai aj : Agent) (k l : Nat) (ck cl : List Nat) (a : Nat)
    (hi : w.agents[i]? = some (some ai)) (hj : w.agents[j]? = some (some aj))
    (hk : ai[k]? = some ck) (hl : aj[l]? = some cl) (hak : a ∈ ck) (hal : a ∈ cl)
    (hpriv : k ≤ D) : i = j := by
  rw [gen_moduleRules_eq] at hg
  cases hg
  exact C01_separation_invariant _ w hw i j ai aj k l ck cl a hi hj hk hl hak hal (moduleRules_private D k)

/-- … and the clone holds equal values, part by part, in cells allocated by this very clone -/
theorem C01_source_translation_modclone_values (D : Nat) (rules : List Rule) (hg : genModuleRules D = some rules)
    (w : World) (hw : Reachable rules w) (i : Nat) (p : Agent) (hp : w.agents[i]? = some (some p)) :
    ∃ child, (w.clone i).agents = w.agents ++ [some child] ∧
      ∀ (k : Nat) (cs' : List Nat), child[k]? = some cs' →
        ∃ cs, p[k]? = some cs ∧ vals (w.clone i).heap cs' = vals w.heap cs ∧
          (k ≤ D → ∀ a ∈ cs', w.heap.length ≤ a) := by
  rw [gen_moduleRules_eq] at hg
  cases hg
  obtain ⟨child, hag, _, hch⟩ := C01_clone_values _ w hw i p hp
  refine ⟨child, hag, fun k cs' hcs' => ?_⟩
  obtain ⟨rule, cs, h1, h2, h3, h4⟩ := hch k cs' hcs'
  have hsrc : srcOf p cs rule = cs := by
    rw [moduleRules_getElem?] at h1
    cases hq : (modParts D)[k]? with
    | none => simp [hq] at h1
    | some q =>
      simp only [hq, Option.map_some, Option.some.injEq] at h1
      subst h1
      cases q <;> rfl
  refine ⟨cs, h2, by rw [h3, hsrc], fun _ => h4 (fun hb => moduleRules_private D k (by rw [h1, hb]))⟩

/-- **(ii) an in-place architecture mutation of the clone does not change the original**: a write through a
    parameter tensor or through a recorded list / dict at any depth (`hidden_size[i] += k`,
    `encoder_config["hidden_size"].append(n)`) of one module leaves every other module's view — its `init_dict`
    at every level included — unchanged. -/
theorem C01_source_translation_modclone_frame (D : Nat) (rules : List Rule) (hg : genModuleRules D = some rules)
    (w w' : World) (hw : Reachable rules w) (i k c v : Nat)
    (hwrite : w.write i k c v = some w') (hpriv : k ≤ D)
    (j : Nat) (hij : j ≠ i) : view w' j = view w j := by
  rw [gen_moduleRules_eq] at hg
  cases hg
  exact C01_frame _ w w' hw i k c v hwrite (moduleRules_private D k) j hij

/-- **(iii) a shallow copy would break (ii)**: with `self.__class__(**dict(self.init_dict))` (or no copy) the
    recorded lists are the parent's; mutating the clone's `hidden_size` in place rewrites the parent's recorded
    architecture.  (`D = 2`; part 1 = the depth-0 containers.) -/
theorem C01_modclone_shallow_witness :
    let w := (World.init (shallowModuleRules 2) [2, 2, 2, 1]).clone 0
    ∃ w', w.write 1 1 0 77 = some w' ∧ view w' 0 ≠ view w 0 := by
  decide

/-- the code as found handed the method-name lists over by reference (`clone._layer_mutation_methods =
    self._layer_mutation_methods`): an in-place extension through the clone (`__setattr__`:
    `self._layer_mutation_methods += layer_fns`) was seen by the parent; the other parts were already private -/
theorem C01_modclone_method_lists_witness :
    let w := (World.init (sharedListsModuleRules 2) [2, 2, 2, 1]).clone 0
    (∃ w', w.write 1 3 0 77 = some w' ∧ view w' 0 ≠ view w 0) ∧
    (∀ k, k ≤ 2 → ∀ w', w.write 1 k 0 77 = some w' → view w' 0 = view w 0) := by
  decide

/-- **The two levels composed**: the agent-level table generated from `EvolvableAlgorithm.clone` with every network
    attribute replaced by the parts of its module under the table generated from `EvolvableModule.clone` — no
    assumption about `module.clone()` left — is the model's table, group by group. -/
theorem C01_source_translation_modclone_composed_table (D : Nat) (specs : List (AttrSpec × Bool × Bool))
    (hs : HooksSpareCtorArgs specs) :
    refinedRules D specs = some ((specs.map (refinedModel D)).flatten) :=
  refinedRules_eq D specs hs

/-- **Ownership for the composed table**: after any history, a cell reached through a group whose composed rule is
    not by-reference (every parameter tensor and recorded-argument container of a network; optimizers, lists,
    registry …) belongs to exactly one agent. -/
theorem C01_source_translation_modclone_composed_separation (D : Nat) (specs : List (AttrSpec × Bool × Bool))
    (rules : List Rule) (hs : HooksSpareCtorArgs specs) (hg : refinedRules D specs = some rules)
    (w : World) (hw : Reachable rules w)
    (i j : Nat) (ai aj : Agent) (k l : Nat) (ck cl : List Nat) (a : Nat)
    (hi : w.agents[i]? = some (some ai)) (hj : w.agents[j]? = some (some aj))
    (hk : ai[k]? = some ck) (hl : aj[l]? = some cl) (hak : a ∈ ck) (hal : a ∈ cl)
    (hpriv : ((specs.map (refinedModel D)).flatten)[k]? ≠ some Rule.byRef) : i = j := by
  rw [refinedRules_eq D specs hs] at hg
  cases hg
  exact C01_separation_invariant _ w hw i j ai aj k l ck cl a hi hj hk hl hak hal hpriv

/-- **Frame for the composed table** -/
theorem C01_source_translation_modclone_composed_frame (D : Nat) (specs : List (AttrSpec × Bool × Bool))
    (rules : List Rule) (hs : HooksSpareCtorArgs specs) (hg : refinedRules D specs = some rules)
    (w w' : World) (hw : Reachable rules w) (i k c v : Nat)
    (hwrite : w.write i k c v = some w')
    (hpriv : ((specs.map (refinedModel D)).flatten)[k]? ≠ some Rule.byRef)
    (j : Nat) (hij : j ≠ i) : view w' j = view w j := by
  rw [refinedRules_eq D specs hs] at hg
  cases hg
  exact C01_frame _ w w' hw i k c v hwrite hpriv j hij

/-- `EvolvableDistribution.clone` by the source: the wrapped network goes through `clone()` (fresh parameters),
    the plain constructor arguments (action space, numbers, device) are handed over as they are, values are kept -/
theorem C01_source_translation_modclone_distribution (p : ModPart) :
    (ModCloneGen.distPartRule (partOf p)).bind (fun x => modShareRule x.1) = some (distCloneRule p) ∧
    (ModCloneGen.distPartRule (partOf p)).map (fun x => x.2) = some true :=
  ⟨gen_distCloneRule_eq p, gen_distCloneFaithful_eq p⟩

/-! non-vacuity: the generated module table for depth 2, a reachable history under it (clone, clone of the clone,
    in-place mutation of the recorded lists), and the composed table of a DQN-like agent -/
example : genModuleRules 2 = some [Rule.fresh, Rule.fresh, Rule.fresh, Rule.fresh] := by decide
example :
    let w := (World.init (moduleRules 2) [2, 2, 2, 1]).run [Op.clone 0, Op.clone 1, Op.write 1 1 0 50, Op.write 2 2 1 60]
    Reachable (moduleRules 2) w ∧
    view w 0 = some [[1, 2], [3, 4], [5, 6], [7]] ∧ view w 1 = some [[1, 2], [50, 4], [5, 6], [7]] ∧
    view w 2 = some [[1, 2], [3, 4], [5, 60], [7]] := ⟨⟨_, _, rfl⟩, by decide⟩
example : refinedRules 1 [(⟨Kind.network, false⟩, false, false), (⟨Kind.optimizer, false⟩, false, true),
    (⟨Kind.other, true⟩, false, true)] = some [Rule.fresh, Rule.fresh, Rule.fresh, Rule.fresh, Rule.byRef] := by decide

end Heap
