import Proofs.CoherenceWeights
import Proofs.MutWireGenEq
import Proofs.OptWrapGenEq
import Proofs.RegistryGenEq

/-!
# C02 — after any mutation an agent is coherent: optimizers, targets and critics follow

Model: `Model/Coherence.lean` (the pipeline of `agilerl/hpo/mutation.py` over registry
descriptors: `Mutations.mutation` = drawn kind + re-created shared networks + hook, `reinit_opt`,
`rl_hyperparam_mutation` after the fix that rebuilds *every* optimizer of the mutated learning
rate, `EvolvableAlgorithm.clone`, `learn`).  Every theorem quantifies over every registry
descriptor (any number of network groups and optimizers, single optimizers over several networks
as in PPO, lists of optimizers as in MADDPG / MATD3 / IPPO), every choice of fresh objects, and —
for the invariant — every sequence of generations (select, mutate, learn) of any length.

`Inv a` = well-formed registry (`DescOK`: optimizers registered for evaluation networks, shared
networks shadow evaluation networks, algorithms whose hook detaches part of an evaluation network
are exempt from activation mutation) ∧ `Coherent a` ∧ evaluation networks carry the hook's
detachment (true of every freshly constructed agent: `C02_constructed_inv`).
-/
namespace Coherence

/-- **Coherence is an invariant of the generation loop.**  From a population of coherent agents,
    after any sequence of tournament selections (clones), population mutations (any kind drawn
    for any agent: none, architecture with any applied method, parameters, activation, any RL
    hyper-parameter) and learn steps, every agent is coherent: each optimizer holds exactly the
    current parameters of its registered networks, group by group and in order, with the agent's
    current learning rate, and every shared network has the architecture of what it shadows. -/
theorem C02_coherent_invariant (pop : Pop) (h : ∀ a ∈ pop, Inv a) (ops : List Op) :
    ∀ a ∈ run false pop ops, Coherent a :=
  fun a ha => (run_inv ops pop h a ha).2.1

/-- one population mutation, kind by kind: whatever each agent draws, it stays coherent -/
theorem C02_mutation_keeps_coherent (c : Choice) (a : Agent) (h : Inv a) :
    Coherent (mutate1 false c a) ∧ Inv (mutate1 false c a) :=
  ⟨(mutate1_inv c a h).2.1, mutate1_inv c a h⟩

/-- a constructor (hook, optimizers over the result, shared networks loaded from their
    evaluation networks) yields an agent satisfying the invariant, for every well-formed registry -/
theorem C02_constructed_inv (fresh : Fresh) (stamp : Nat) (a0 : Agent) (hd : DescOK (desc a0))
    (h0 : ∀ n ∈ a0.nets, ∀ m ∈ n.mods, m.det = Det.none) : Inv (construct fresh stamp a0) :=
  construct_inv fresh stamp a0 hd h0

/-- **Population shape.**  `Mutations.mutation` returns as many agents as it was given, in the same
    order (indices unchanged), and each agent reports the mutation it received: `"None"`,
    the architecture method that was actually *applied* to the policy (resolved through
    fall-backs; `"None"` when nothing was applied), `"param"`, `"act"` (`"None"` for the exempt
    algorithms) or the name of the mutated hyper-parameter.  Holds with and without the
    learning-rate fix. -/
theorem C02_population_shape (f : Bool) (choices : List Choice) (pop : Pop) :
    (mutatePop f choices pop).length = pop.length ∧
    (mutatePop f choices pop).map (·.index) = pop.map (·.index) ∧
    ∀ (i : Nat) (a : Agent), pop[i]? = some a →
      ((mutatePop f choices pop)[i]?).map (·.label) = some (labelOf a (choices.getD i {}).kind) := by
  refine ⟨by simp [mutatePop], ?_, ?_⟩
  · unfold mutatePop
    exact map_mapIdx_of _ _ _ _ (fun i a _ => by
      show (finish _ _ (kindStep f _ a)).index = a.index
      rw [finish_index, kindStep_index])
  · intro i a hi
    unfold mutatePop
    rw [List.getElem?_mapIdx, hi]
    show some (finish _ _ (kindStep f _ a)).label = _
    rw [finish_label, kindStep_label]

/-- **A learn step reaches every trained network.**  In a coherent agent every parameter of every
    network registered with an optimizer is in the write-set of `learn` (the cells the optimizers
    step) … -/
theorem C02_learn_moves_trained (a : Agent) (h : Coherent a) (o : Opt) (ho : o ∈ a.opts)
    (k : Nat) (hk : k ∈ o.nets) (ps : List Nat) (hps : ps ∈ paramsOf a.nets k) (c : Nat) (hc : c ∈ ps) :
    c ∈ learnWrites a := by
  unfold learnWrites
  rw [List.mem_flatMap]
  refine ⟨o, ho, ?_⟩
  have h1 : ps ∈ o.groups.map (·.cells) := by
    rw [(h.1 o ho).1]
    unfold expected
    exact List.mem_flatMap.mpr ⟨k, hk, hps⟩
  obtain ⟨g, hg, rfl⟩ := List.mem_map.mp h1
  exact List.mem_flatMap.mpr ⟨g, hg, hc⟩

/-- … so the model's `learn` changes the value of every trained module that has a parameter,
    and replaces no object: wiring, and with it coherence, is untouched. -/
theorem C02_learn_touches_trained (stamp : Nat) (a : Agent) (h : Coherent a) (o : Opt) (ho : o ∈ a.opts)
    (k : Nat) (hk : k ∈ o.nets) (n : NetAttr) (hn : a.nets[k]? = some n) (m : Mod) (hm : m ∈ n.mods)
    (hne : m.params ≠ []) :
    m.touched (learnWrites a) = true ∧ SameWiring a.nets (learn1 stamp a).nets := by
  refine ⟨?_, learn1_sameWiring stamp a⟩
  unfold Mod.touched
  rw [List.any_eq_true]
  obtain ⟨c, hc⟩ := List.exists_mem_of_ne_nil _ hne
  refine ⟨c, hc, ?_⟩
  have : m.params ∈ paramsOf a.nets k := by
    unfold paramsOf; rw [hn]; exact List.mem_map_of_mem hm
  simpa using C02_learn_moves_trained a h o ho k hk m.params this c hc

/-- **Shared networks follow.**  Right after a population mutation (any kind, also "none") every
    shared / target network has the architecture *and the weights* of the evaluation network it
    shadows, provided the hook treats a shared network like what it shadows (`HookOK`). -/
theorem C02_shared_follow_after_mutate (c : Choice) (a : Agent) (h : Inv a)
    (hk : HookOK (roles (kindStep false c a).nets) (kindStep false c a).hook) :
    SharedArch (mutate1 false c a).nets ∧ SharedWeights (mutate1 false c a).nets := by
  refine ⟨(mutate1_inv c a h).2.1.2, ?_⟩
  unfold mutate1
  have pre : DescOK (desc (kindStep false c a)) ∧ DetExact (kindStep false c a).nets (kindStep false c a).hook := by
    unfold kindStep
    cases c.kind with
    | none => exact ⟨h.1, h.2.2⟩
    | arch applied => exact ⟨(archStep_pre applied c.fresh c.stamp a h).1, (archStep_pre applied c.fresh c.stamp a h).2.2⟩
    | param => exact ⟨(paramStep_pre c.stamp a h).1, (paramStep_pre c.stamp a h).2.2⟩
    | act => exact ⟨(actStep_pre c.fresh c.stamp a h).1, (actStep_pre c.fresh c.stamp a h).2.2⟩
    | hp name lr => exact ⟨(hpStep_pre name lr a h).1, (hpStep_pre name lr a h).2.2⟩
  exact finish_sharedWeights c.fresh (c.stamp + 1) _ pre.1 pre.2 hk

/-- **Critics follow the policy.**  After an architecture mutation module `j` of every evaluation
    network — the policy and every network trained alongside it — carries the change that was
    applied to module `j` of the policy (`applied[j]` = method *and* the resulting change of the
    architecture, i.e. the arguments the policy's module drew; `none` when nothing was applied).
    For multi-agent algorithms `j` is the sub-agent: critic `j` follows actor `j`, not actor 0. -/
theorem C02_arch_followed (f : Bool) (applied : List (Option Change)) (fresh : Fresh) (stamp : Nat) (a : Agent)
    (k : Nat) (n : NetAttr)
    (hk : (mutate1 f { kind := Kind.arch applied, fresh := fresh, stamp := stamp } a).nets[k]? = some n)
    (he : n.role.isEval = true) :
    n.mods.map (·.lastMut) = (List.range n.mods.length).map (fun j => applied.getD j none) :=
  arch_followed f applied fresh stamp a k n hk he

/-- the flag `coh coherent i` printed by the driver is the proposition -/
theorem C02_check_is_coherent (a : Agent) : coherent a = true ↔ Coherent a := coherent_iff a

/-! ### witnesses -/

def mkMod (k : Nat) (enc head : List Nat) : Mod :=
  { arch := (0, k, 0), wEnc := (0, k, 0), wHead := (0, k, 0), enc := enc, head := head, det := .none, lastMut := none }

/-- TD3-like registry: actor (policy) + target, two critics + targets, encoders shared with the
    actor, three optimizers, the two critic optimizers on the *same* learning-rate attribute -/
def td3Raw : Agent :=
  { index := 0,
    nets := [ { role := .eval true, mods := [mkMod 0 [0, 1] [2, 3]] },
              { role := .shared 0, mods := [mkMod 0 [4, 5] [6, 7]] },
              { role := .eval false, mods := [mkMod 2 [8, 9] [10]] },
              { role := .shared 2, mods := [mkMod 2 [11, 12] [13]] },
              { role := .eval false, mods := [mkMod 4 [14, 15] [16]] },
              { role := .shared 4, mods := [mkMod 4 [17, 18] [19]] } ],
    opts := [ { nets := [0], lr := 0, multi := false, groups := [] },
              { nets := [2], lr := 1, multi := false, groups := [] },
              { nets := [4], lr := 1, multi := false, groups := [] } ],
    lrs := [1 / 10000, 1 / 1000],
    hook := .shareEnc 0 [2, 3, 4, 5],
    actExempt := true,
    label := "None" }

def td3Fresh : Fresh :=
  [[([20, 21], [22, 23])], [([24, 25], [26, 27])], [([28, 29], [30])], [([31, 32], [33])], [([34, 35], [36])], [([37, 38], [39])]]

def td3 : Agent := construct td3Fresh 1 td3Raw

theorem td3Raw_descOK : DescOK (desc td3Raw) := by
  refine ⟨?_, ?_, Or.inl rfl⟩
  · intro ks hks k hk
    simp only [desc, td3Raw, List.map_cons, List.map_nil, List.mem_cons, List.not_mem_nil, or_false] at hks
    rcases hks with rfl | rfl | rfl <;> simp only [List.mem_cons, List.not_mem_nil, or_false] at hk <;> subst hk
    · exact ⟨true, rfl⟩
    · exact ⟨false, rfl⟩
    · exact ⟨false, rfl⟩
  · intro k src hk
    have hlt : k < 6 := by
      have := (List.getElem?_eq_some_iff.mp hk).1
      simpa [desc, roles, td3Raw] using this
    have : k = 0 ∨ k = 1 ∨ k = 2 ∨ k = 3 ∨ k = 4 ∨ k = 5 := by omega
    rcases this with rfl | rfl | rfl | rfl | rfl | rfl <;>
      simp [desc, roles, td3Raw] at hk <;> subst hk
    · exact ⟨true, rfl⟩
    · exact ⟨false, rfl⟩
    · exact ⟨false, rfl⟩

theorem td3_inv : Inv td3 :=
  construct_inv td3Fresh 1 td3Raw td3Raw_descOK (by decide +kernel)

/-- the learning-rate mutation `lr_critic := 1/2000` drawn by the TD3-like agent -/
def hpChoice : Choice := { kind := .hp "lr_critic" (some (1, 1 / 2000)), fresh := td3Fresh, stamp := 3 }

/-- **D19 witness.**  The unrepaired `rl_hyperparam_mutation` rebuilt only the *first* optimizer
    registered for the mutated learning rate: on a registry with two optimizers on one
    learning-rate attribute (TD3, MATD3, IPPO) the agent is **not** coherent afterwards — the second
    critic optimizer still trains with the old learning rate … -/
theorem C02_first_only_witness : Inv td3 ∧ ¬ Coherent (mutate1 true hpChoice td3) := by
  refine ⟨td3_inv, ?_⟩
  rw [← coherent_iff]
  decide +kernel

/-- … while the repaired step (every optimizer of that learning rate rebuilt) is coherent on the
    same input — an instance of `C02_coherent_invariant` checked by evaluation. -/
theorem C02_all_optimizers_repaired : coherent (mutate1 false hpChoice td3) = true := by decide +kernel

/-- **Why the exemption matters.**  An activation mutation of an algorithm whose hook detaches the
    critics' encoders (DDPG / TD3 / PPO with `share_encoders`) would rebuild the optimizers
    *before* the hook runs: the critic optimizers would keep encoder parameters the networks no
    longer have.  `mutation.py` exempts exactly these algorithms; without the exemption the agent
    is incoherent (confirmed on the real DDPG by overriding `agent.algo`). -/
theorem C02_act_unguarded_witness :
    ¬ Coherent (mutate1 false { kind := .act, fresh := td3Fresh, stamp := 3 } { td3 with actExempt := false }) := by
  rw [← coherent_iff]
  decide +kernel

/-! ### non-vacuity: a concrete multi-generation history of a concrete population -/

/-- DQN-like registry: actor + target, the hook turns the whole target into a detached copy -/
def dqnRaw : Agent :=
  { index := 1,
    nets := [ { role := .eval true, mods := [mkMod 0 [0] [1, 2]] }, { role := .shared 0, mods := [mkMod 0 [3] [4, 5]] } ],
    opts := [ { nets := [0], lr := 0, multi := false, groups := [] } ],
    lrs := [1 / 1000], hook := .detachAll 0 [1], actExempt := false, label := "None" }

def dqnFresh : Fresh := [[([40], [41, 42])], [([43], [44, 45])]]
def dqn : Agent := construct dqnFresh 1 dqnRaw

example : coherent td3 = true ∧ coherent dqn = true := by decide +kernel
example : (td3.opts.map fun o => o.groups.map (·.cells)) = [[[0, 1, 2, 3]], [[10]], [[16]]] := by decide +kernel
example : HookOK (roles td3.nets) td3.hook := by
  have hr : roles td3.nets = [.eval true, .shared 0, .eval false, .shared 2, .eval false, .shared 4] := by
    decide +kernel
  have hh : td3.hook = .shareEnc 0 [2, 3, 4, 5] := by decide +kernel
  rw [hr, hh]
  refine ⟨by decide, ?_, ?_, ?_⟩
  · intro k src hk _
    obtain _ | _ | _ | _ | _ | _ | k := k <;> simp at hk <;> subst hk <;> simp [Hook.targets, Hook.src]
  · intro k src hk hs
    obtain _ | _ | _ | _ | _ | _ | k := k <;> simp at hk <;> subst hk <;> simp [Hook.targets] at hs ⊢
  · intro s ts h; cases h

/-- three generations (select, mutate with a different kind per agent, learn) on [TD3-like, TD3-like] -/
def history : List Op :=
  [ .select [{ parent := 0, index := 2, fresh := td3Fresh, stamp := 5 }, { parent := 0, index := 3, fresh := td3Fresh, stamp := 6 }],
    .mutate [{ kind := .arch [some ("encoder.add_node", "hidden_size:+16")], fresh := td3Fresh, stamp := 7 }, hpChoice],
    .learn 0 9, .learn 1 10,
    .select [{ parent := 1, index := 4, fresh := td3Fresh, stamp := 11 }, { parent := 0, index := 5, fresh := td3Fresh, stamp := 12 }],
    .mutate [{ kind := .param, stamp := 13, fresh := td3Fresh }, { kind := .act, stamp := 15, fresh := td3Fresh }],
    .learn 1 17,
    .mutate [{ kind := .none, stamp := 18, fresh := td3Fresh }, { kind := .hp "batch_size" none, stamp := 20, fresh := td3Fresh }] ]

example : ((run false [td3] history).map fun a => (a.index, a.label, coherent a)) =
    [(4, "None", true), (5, "batch_size", true)] := by decide +kernel
example : ((run false [td3] (history.take 2)).map fun a => (a.label, a.lrs, archFollowed a.nets)) =
    [("encoder.add_node", [1 / 10000, 1 / 1000], true), ("lr_critic", [1 / 10000, 1 / 2000], true)] := by decide +kernel

/-! ### the same theorems over the wiring GENERATED from the source text of `agilerl/hpo/mutation.py`

`Gen/MutWireGen.lean` is written by `harness/py2lean_mutwire.py` from the source of the tree under test (which registry
groups are walked for target re-creation and under which condition, policy first and then the same method and keyword
dict for the other evaluation networks, which optimizers are re-created and from which learning-rate attribute, the hook,
`mut`).  `MutWireGenEq.genMutate1 e c a` runs ONE individual through the generated body of the loop of
`Mutations.mutation` (`e` = what the individual answers to the run-time tests of the source); `gen_mutate1_eq` proves it
equal to the model's `mutate1` for EVERY registry descriptor, so the theorems above hold of what the code says now. -/

open MutWireGenEq in
/-- **the generated wiring is the model's**, for all registries, all drawn kinds, all fresh objects -/
theorem C02_source_translation_wiring (e : Env) (c : Choice) (a : Agent) (h : Inv a) (he : EnvOK e a) :
    genMutate1 e c a = mutate1 false c a := gen_mutate1_eq e c a h he

open MutWireGenEq in
/-- whatever kind is drawn, the individual that leaves the generated `Mutations.mutation` is coherent (and satisfies the
    invariant again) -/
theorem C02_source_translation_mutation_keeps_coherent (e : Env) (c : Choice) (a : Agent) (h : Inv a) (he : EnvOK e a) :
    Coherent (genMutate1 e c a) ∧ Inv (genMutate1 e c a) := by
  rw [gen_mutate1_eq e c a h he]
  exact C02_mutation_keeps_coherent c a h

open MutWireGenEq in
/-- **optimizers follow**: after the generated mutation every optimizer holds exactly the current parameters of its
    registered networks, module by module and in order, and every group trains with the agent's CURRENT learning rate -/
theorem C02_source_translation_optimizers_follow (e : Env) (c : Choice) (a : Agent) (h : Inv a) (he : EnvOK e a)
    (o : Opt) (ho : o ∈ (genMutate1 e c a).opts) :
    o.groups.map (·.cells) = o.nets.flatMap (paramsOf (genMutate1 e c a).nets) ∧
    ∀ g ∈ o.groups, g.lr = (genMutate1 e c a).lrs.getD o.lr 0 :=
  (C02_source_translation_mutation_keeps_coherent e c a h he).1.1 o ho

open MutWireGenEq in
/-- **targets follow**: right after the generated mutation every shared / target network of EVERY group has the
    architecture and the weights of the evaluation network it shadows -/
theorem C02_source_translation_shared_follow (e : Env) (c : Choice) (a : Agent) (h : Inv a) (he : EnvOK e a)
    (hk : HookOK (roles (kindStep false c a).nets) (kindStep false c a).hook) :
    SharedArch (genMutate1 e c a).nets ∧ SharedWeights (genMutate1 e c a).nets := by
  rw [gen_mutate1_eq e c a h he]
  exact C02_shared_follow_after_mutate c a h hk

open MutWireGenEq in
/-- **critics follow the policy**: after a generated architecture mutation module `j` of every evaluation network carries
    the change applied to module `j` of the policy (method AND arguments) -/
theorem C02_source_translation_arch_followed (e : Env) (applied : List (Option Change)) (fresh : Fresh) (stamp : Nat) (a : Agent)
    (h : Inv a) (he : EnvOK e a) (k : Nat) (n : NetAttr)
    (hk : (genMutate1 e { kind := Kind.arch applied, fresh := fresh, stamp := stamp } a).nets[k]? = some n)
    (hev : n.role.isEval = true) :
    n.mods.map (·.lastMut) = (List.range n.mods.length).map (fun j => applied.getD j none) := by
  rw [gen_mutate1_eq e _ a h he] at hk
  exact C02_arch_followed false applied fresh stamp a k n hk hev

open MutWireGenEq in
/-- the target network the generated `reinit_from_mutated` builds: module `j` is `type(m)(**m.init_dict)` loaded with the
    FULL state dict of module `j` of the network it shadows — a copy of its architecture and weights -/
theorem C02_source_translation_target_is_copy (ctx : Ctx) (nets : List NetAttr) (dst src : Nat) :
    evalNet ctx nets dst (MutWireGen.reinit_from_mutated src ctx.multi false) =
      some ((modsAt nets src).mapIdx fun j m => copyMod (ctx.stamp, dst, j) (ctx.fresh.at dst j) m) :=
  gen_reinit_from_mutated_eq ctx nets dst src

open MutWireGenEq in
/-- **population shape** of the generated `Mutations.mutation`: as many agents as given, in the same order, each reporting
    the mutation it received -/
theorem C02_source_translation_population_shape (e : Env) (choices : List Choice) (pop : Pop)
    (h : ∀ a ∈ pop, Inv a ∧ EnvOK e a) (hl : pop.length ≤ choices.length) :
    (MutWireGen.mutation_population (genMutate1 e) choices pop).length = pop.length ∧
    (MutWireGen.mutation_population (genMutate1 e) choices pop).map (·.index) = pop.map (·.index) ∧
    ∀ (i : Nat) (a : Agent), pop[i]? = some a →
      ((MutWireGen.mutation_population (genMutate1 e) choices pop)[i]?).map (·.label) = some (labelOf a (choices.getD i {}).kind) := by
  have heq : MutWireGen.mutation_population (genMutate1 e) choices pop = mutatePop false choices pop := by
    rw [gen_mutation_population_eq _ _ _ hl]
    unfold mutatePop
    apply List.ext_getElem?
    intro i
    simp only [List.getElem?_mapIdx]
    cases hp : pop[i]? with
    | none => rfl
    | some a =>
      have ha := h a (mem_of_getElem? hp)
      simp only [Option.map_some, Option.some.injEq]
      exact gen_mutate1_eq e _ a ha.1 ha.2
  rw [heq]
  exact C02_population_shape false choices pop

open MutWireGenEq in
/-- the hypotheses are satisfiable: the TD3-like registry with its environment -/
theorem td3_envOK : EnvOK { multi := false, pol := 0, algo := "TD3", bandit := false } td3 := by
  refine ⟨?_, by decide +kernel, ?_, by decide +kernel, fun h => by cases h⟩
  · intro k n hk
    have hlt : k < 6 := by
      have := (List.getElem?_eq_some_iff.mp hk).1
      have hl : td3.nets.length = 6 := by decide +kernel
      omega
    have hr : roles td3.nets = [.eval true, .shared 0, .eval false, .shared 2, .eval false, .shared 4] := by decide +kernel
    have hnr : (roles td3.nets)[k]? = some n.role := by simp [roles, hk]
    rw [hr] at hnr
    have : k = 0 ∨ k = 1 ∨ k = 2 ∨ k = 3 ∨ k = 4 ∨ k = 5 := by omega
    rcases this with rfl | rfl | rfl | rfl | rfl | rfl <;> simp at hnr <;> simp [← hnr]
  · intro o ho hm
    have : td3.opts.all (fun o => !o.multi) = true := by decide +kernel
    have := List.all_eq_true.mp this o ho
    simp [hm] at this

open MutWireGenEq in
example : coherent (genMutate1 { multi := false, pol := 0, algo := "TD3", bandit := false } hpChoice td3) = true := by
  rw [gen_mutate1_eq _ _ _ td3_inv td3_envOK]
  decide +kernel

set_option linter.unusedSimpArgs false
/-! ### the constructor of `OptimizerWrapper` (agilerl/algorithms/core/wrappers.py) inside the model

`Model/Coherence.lean` `wrapInit` / `inferNames` / `inferLr` / `wrapStateDict` / `wrapLoad` model the class the wiring above
abstracts as `rebuildOpt`; `Gen/OptWrapGen.lean` is generated from its source, `Proofs/OptWrapGenEq.lean` proves the two
equal. -/

/-- the groups of a constructed wrapper, optimizer by optimizer: one group per network handed in, in order, holding
    exactly that network's parameter objects, every group with the lr that was passed — in all three branches of
    `__init__`, for ANY number of networks (`hs` excludes only the degenerate call below) -/
theorem C02_wrapper_holds_networks (multi : Bool) (cls : Nat) (nets : List WNet) (n : Nat) (lr : WLr) (o : WOptim)
    (h : wrapOptim multi cls nets n lr = some o) (hs : multi = true ∨ nets.length = 1 ∨ 1 < n) :
    o.groups = nets.map fun x => { cells := x.cells, lr := lr.val } := by
  unfold wrapOptim at h
  cases multi with
  | true =>
    simp only [if_true] at h
    split at h
    · cases h
    · cases h
      simp only [WOptim.groups, List.flatMap_map]
      clear hs
      rename_i hne
      clear hne
      induction nets with
      | nil => rfl
      | cons x r ih => simp only [List.flatMap_cons, List.map_cons, List.map_nil, List.singleton_append] at ih ⊢; rw [ih]
  | false =>
    simp only [Bool.false_eq_true, if_false] at h
    split at h
    · split at h
      · cases h; simp [WOptim.groups]
      · cases h
    · rename_i hc
      match nets, h with
      | x :: r, h =>
        cases h
        rcases hs with hs | hs | hs
        · cases hs
        · have : r = [] := by simpa using hs
          subst this
          simp [WOptim.groups]
        · have : r = [] := by
            cases r with
            | nil => rfl
            | cons y t => exfalso; apply hc; simp; omega
          subst this
          simp [WOptim.groups]


/-- **degenerate call (witness).**  Without `multiagent`, a LIST of two networks passed with ONE attribute name falls
    into the single-network branch: the optimizer is built over `networks[0]` only and the second network is silently
    not trained.  No algorithm of the library (nor `reinit_opt`, which passes one network per name) makes this call. -/
theorem C02_wrapper_drops_networks_witness :
    ∃ o, wrapOptim false 0 [⟨1, [10, 11]⟩, ⟨2, [20]⟩] 1 ⟨5, 1 / 1000⟩ = some o ∧
      o.groups ≠ [⟨1, [10, 11]⟩, ⟨2, [20]⟩].map fun x : WNet => { cells := x.cells, lr := (1 / 1000 : Rat) } := by
  refine ⟨.single 0 [{ cells := [10, 11], lr := ⟨5, 1 / 1000⟩ }], by decide +kernel, by decide +kernel⟩

/-- what `wrapInit` returns: the names and lr name it was given (or inferred), and groups as above -/
theorem C02_wrapper_init_groups (multi : Bool) (cls : Nat) (arg : WArg) (lr : WLr) (names : Option (List String))
    (lrName : Option String) (c : List (String × Nat)) (w : Wrapper) (h : wrapInit multi cls arg lr names lrName c = some w)
    (hs : multi = true ∨ arg.nets.length = 1 ∨ 1 < w.names.length) :
    w.optim.groups = arg.nets.map (fun x => { cells := x.cells, lr := lr.val }) ∧ w.lr = lr ∧ w.multi = multi ∧
      w.names ≠ [] := by
  unfold wrapInit at h
  simp only at h
  split at h
  · cases h
  · rename_i ns l _
    split at h
    · cases h
    · rename_i hne
      cases ho : wrapOptim multi cls arg.nets ns.length lr with
      | none => simp [ho] at h
      | some o =>
        simp only [ho, Option.map_some, Option.some.injEq] at h
        subst h
        exact ⟨C02_wrapper_holds_networks multi cls arg.nets ns.length lr o ho hs, rfl, rfl, by simpa using hne⟩

/-! #### the abstract constructor of the wiring model replaced by the GENERATED one -/

open OptWrapGenEq OptWrapGen in
/-- **`reinit_opt`, single network.**  The wrapper the generated `OptimizerWrapper.__init__` builds for
    `networks=<module>` holds one group = the module's current parameters in order with the lr passed — exactly the group
    `rebuildOpt` (the model of `OptimizerWrapper(…)` in the mutation wiring) assigns when the optimizer is registered
    for one single-module network attribute. -/
theorem C02_source_translation_wrapper_single (nets : List NetAttr) (lrs : List Rat) (o : Opt) (k : Nat) (m : Mod)
    (hn : o.nets = [k]) (hm : modsAt nets k = [m]) (cls id : Nat) (lr : WLr) (hl : lr.val = lrs.getD o.lr 0)
    (kw : Option (List (String × Val))) (hk : KwOK (kwOf kw)) (ns : List String) (hns : ns ≠ []) (l : String) (frame : Val) :
    ((ok? (OptimizerWrapper.init (.record []) (.cls cls) (eArg (.one ⟨id, m.params⟩)) (eLr lr) (eKw kw) (eNames (some ns))
        (eStr (some l)) (.bool false) frame)).bind dWrapper).map (·.optim.groups) = some (rebuildOpt nets lrs o).groups := by
  rw [gen_init_single_eq cls ⟨id, m.params⟩ lr kw hk ns l frame]
  cases hw : wrapInit false cls (.one ⟨id, m.params⟩) lr (some ns) (some l) [] with
  | none =>
    exfalso
    simp [wrapInit, wrapOptim, WArg.nets, hns] at hw
  | some w =>
    have := (C02_wrapper_init_groups false cls _ lr _ _ _ w hw (Or.inr (Or.inl rfl))).1
    simp only [Option.map_some, this, rebuildOpt, expected, hn, WArg.nets, paramsOf, modsAt] at hm ⊢
    cases hk' : nets[k]? with
    | none => simp [modsAt, hk'] at hm
    | some n =>
      simp only [modsAt, hk'] at hm
      simp [paramsOf, hk', hm, hl]

open OptWrapGenEq OptWrapGen in
/-- **`reinit_opt`, one optimizer over several networks** (PPO).  `ws` = the networks `[getattr(individual, n) for n in
    network_names]`, whose parameter lists are the current parameters of the registered networks (`hc`): the generated
    constructor yields one group per network, in registry order, each with the agent's CURRENT lr — `rebuildOpt`'s groups. -/
theorem C02_source_translation_wrapper_joint (nets : List NetAttr) (lrs : List Rat) (o : Opt) (ws : List WNet)
    (hc : ws.map (·.cells) = expected nets o) (cls i : Nat) (lr : WLr) (hl : lr.val = lrs.getD o.lr 0)
    (kw : Option (List (String × Val))) (hk : KwOK (kwOf kw)) (ns : List String) (l : String) (frame : Val)
    (h1 : 1 < ws.length) (h3 : ws.length = ns.length) :
    ((ok? (OptimizerWrapper.init (.record []) (.cls cls) (eArg (.many i ws)) (eLr lr) (eKw kw) (eNames (some ns))
        (eStr (some l)) (.bool false) frame)).bind dWrapper).map (·.optim.groups) = some (rebuildOpt nets lrs o).groups := by
  rw [gen_init_joint_eq cls i ws lr kw hk ns l frame h1 h3]
  cases hw : wrapInit false cls (.many i ws) lr (some ns) (some l) [] with
  | none =>
    exfalso
    have hns : ns ≠ [] := by intro h; subst h; simp at h3; subst h3; simp at h1
    have h2 : 1 < ns.length := by omega
    simp [wrapInit, wrapOptim, WArg.nets, hns, h1, h2, h3] at hw
  | some w =>
    have hnm : w.names = ns := by
      simp only [wrapInit] at hw
      split at hw
      · cases hw
      · rename_i ns' l' heq
        simp only [Option.map_some, Option.some.injEq, Prod.mk.injEq] at heq
        split at hw
        · cases hw
        · cases ho : wrapOptim false cls (WArg.many i ws).nets ns'.length lr with
          | none => simp [ho] at hw
          | some o' => simp [ho] at hw; rw [← hw]; exact heq.1.symm
    have := (C02_wrapper_init_groups false cls _ lr _ _ _ w hw (Or.inr (Or.inr (by rw [hnm]; omega)))).1
    simp only [Option.map_some, this, rebuildOpt, WArg.nets, ← hc, List.map_map, hl]
    rfl

open OptWrapGenEq OptWrapGen in
/-- **`reinit_opt`, multi-agent.**  `networks=getattr(individual, network_names[0])` is the list of the sub-agents'
    modules: the generated constructor yields one optimizer PER module, in order, each with one group = that module's
    current parameters and the agent's current lr — flattened, `rebuildOpt`'s groups for an optimizer registered for
    ONE list attribute (`OptShapeOK`).  Holds for any number of sub-agents ≥ 1. -/
theorem C02_source_translation_wrapper_multi (nets : List NetAttr) (lrs : List Rat) (o : Opt) (ws : List WNet)
    (hc : ws.map (·.cells) = expected nets o) (cls i : Nat) (lr : WLr) (hl : lr.val = lrs.getD o.lr 0)
    (kw : Option (List (String × Val))) (hk : KwOK (kwOf kw)) (ns : List String) (hns : ns ≠ []) (l : String) (frame : Val)
    (hne : ws ≠ []) :
    ((ok? (OptimizerWrapper.init (.record []) (.cls cls) (eArg (.many i ws)) (eLr lr) (eKw kw) (eNames (some ns))
        (eStr (some l)) (.bool true) frame)).bind dWrapper).map (·.optim.groups) = some (rebuildOpt nets lrs o).groups := by
  rw [gen_init_multi_eq cls i ws lr kw hk ns l frame hne]
  cases hw : wrapInit true cls (.many i ws) lr (some ns) (some l) [] with
  | none =>
    exfalso
    simp [wrapInit, wrapOptim, WArg.nets, hns, hne] at hw
  | some w =>
    have := (C02_wrapper_init_groups true cls _ lr _ _ _ w hw (Or.inl rfl)).1
    simp only [Option.map_some, this, rebuildOpt, WArg.nets, ← hc, List.map_map, hl]
    rfl

/-! #### name inference (`network_names` / `lr_name` not passed: the constructors of the algorithms) -/

theorem find_first (A B : List String) (r : String) (hr : lrish r = true) (hnr : r ∉ A) :
    (A ++ r :: B).find? lrish = some r ↔ ∀ a ∈ A, lrish a = false := by
  induction A with
  | nil => simp [hr]
  | cons a t ih =>
    have hne : a ≠ r := fun h => hnr (by simp [h])
    have hnt : r ∉ t := fun h => hnr (by simp [h])
    by_cases h : lrish a = true
    · simp [List.find?_cons, h, hne]
    · have h' : lrish a = false := by simpa using h
      rw [List.cons_append, List.find?_cons, h']
      simp only [ih hnt, List.mem_cons, forall_eq_or_imp, h', true_and]

theorem inferLr_of_matches (A B : List String) (r : String) (hr : lrish r = true) (c : List (String × Nat)) (lr : WLr)
    (hms : lrMatches c lr = A ++ r :: B) : inferLr c lr = some r ↔ (A ++ r :: B).find? lrish = some r := by
  unfold inferLr
  rw [hms]
  match A, B with
  | [], [] => simp [hr]
  | [], b :: t => simp
  | [a], B => simp
  | a :: x :: u, B => simp

/-- **(iii) when the inferred learning-rate name is the right one.**  The optimizer is built with `lr=self.<r>`
    (attribute `r` of the parent container holds the very object passed, its name looks like a learning rate).  The scan
    returns `r` **iff no EARLIER attribute whose name looks like a learning rate holds the identical object.** -/
theorem C02_lr_name_inference_exact (pre post : List (String × Nat)) (r : String) (lr : WLr) (hid : lr.id ≠ 0)
    (hr : lrish r = true) (hnd : ∀ p ∈ pre, p.1 ≠ r) :
    inferLr (pre ++ (r, lr.id) :: post) lr = some r ↔ ∀ p ∈ pre, p.2 = lr.id → lrish p.1 = false := by
  have hms : lrMatches (pre ++ (r, lr.id) :: post) lr = lrMatches pre lr ++ r :: lrMatches post lr := by
    simp [lrMatches, List.filter_append, List.filter_cons, hid]
  have hmem : ∀ a, a ∈ lrMatches pre lr ↔ ∃ p ∈ pre, p.2 = lr.id ∧ p.1 = a := by
    intro a
    simp only [lrMatches, List.mem_map, List.mem_filter]
    constructor
    · rintro ⟨p, ⟨hp, hc⟩, rfl⟩
      refine ⟨p, hp, ?_, rfl⟩
      simp at hc
      exact hc.2.symm
    · rintro ⟨p, hp, h1, rfl⟩
      exact ⟨p, ⟨hp, by simp [hid, h1]⟩, rfl⟩
  have hnr : r ∉ lrMatches pre lr := by
    intro h
    obtain ⟨p, hp, _, h2⟩ := (hmem r).mp h
    exact hnd p hp h2
  rw [inferLr_of_matches _ _ r hr _ lr hms, find_first _ _ r hr hnr]
  constructor
  · intro h p hp h1
    exact h p.1 ((hmem p.1).mpr ⟨p, hp, h1, rfl⟩)
  · intro h a ha
    obtain ⟨p, hp, h1, rfl⟩ := (hmem a).mp ha
    exact h p hp h1

/-- **witness for the open finding `C06-lr-name-by-identity`.**  `lr_actor` and `lr_critic` hold the SAME float object
    (identity 7): the critic optimizer, built with `lr=self.lr_critic`, is registered under `lr_actor` … -/
theorem C02_lr_name_inference_witness :
    inferLr [("actor", 1), ("lr_actor", 7), ("critic", 2), ("lr_critic", 7)] ⟨7, 1 / 1000⟩ = some "lr_actor" ∧
    -- … while distinct objects of equal VALUE are told apart
    inferLr [("actor", 1), ("lr_actor", 7), ("critic", 2), ("lr_critic", 8)] ⟨8, 1 / 1000⟩ = some "lr_critic" := by
  constructor <;> decide +kernel

open OptWrapGenEq OptWrapGen in
/-- the same over the GENERATED `_infer_lr_name`, for every parent container and lr object -/
theorem C02_source_translation_lr_name_inference (fs : List (String × Val)) (lr : WLr) (c : List (String × Nat))
    (hl : getField fs "lr" = some (eLr lr)) :
    ok? (OptimizerWrapper._infer_lr_name (.record fs) (eContainer c)) = (inferLr c lr).map Val.str :=
  gen_infer_lr_name fs lr c hl

open OptWrapGenEq OptWrapGen in
/-- **`OptShapeOK` discharged for what the constructor produces.**  The generated `_infer_network_attr_names` of a
    multi-agent wrapper returns the attributes holding the very list object; if exactly one attribute holds it (no alias),
    the wrapper — and with it the `OptimizerConfig` the registry records — is registered for ONE network attribute. -/
theorem C02_source_translation_multi_registered_for_one (fs : List (String × Val)) (i : Nat) (ws : List WNet)
    (c : List (String × Nat)) (hm : getField fs "multiagent" = some (.bool true))
    (hn : getField fs "networks" = some (eSelfNets (.many i ws))) (name : String) (pre post : List (String × Nat))
    (hc : c = pre ++ (name, i) :: post) (h1 : ∀ p ∈ pre, p.2 ≠ i) (h2 : ∀ p ∈ post, p.2 ≠ i) :
    OptimizerWrapper._infer_network_attr_names (.record fs) (eContainer c) = .ok (.list 0 [.str name]) := by
  rw [gen_infer_network_attr_names fs true (.many i ws) c hm hn]
  subst hc
  have e1 : pre.filter (fun p => p.2 == i) = [] := by
    rw [List.filter_eq_nil_iff]; intro p hp; simpa using h1 p hp
  have e2 : post.filter (fun p => p.2 == i) = [] := by
    rw [List.filter_eq_nil_iff]; intro p hp; simpa using h2 p hp
  simp [inferNames, WArg.listId, List.filter_append, List.filter_cons, e1, e2]

open OptWrapGenEq OptWrapGen in
/-- **(ii) round trip**: `w.load_state_dict(w.state_dict())` of the generated methods succeeds on a single-optimizer
    wrapper and changes nothing the model keeps (groups, parameter objects, lrs) -/
theorem C02_source_translation_state_dict_roundtrip (fs : List (String × Val)) (c : Nat) (gs : List Val) (st : Val)
    (hm : getField fs "multiagent" = some (.bool false)) (ho : getField fs "optimizer" = some (.optimizer c gs st))
    (W : Wrapper) (hw : dWrapper (.record fs) = some W) :
    ∃ sd w', OptimizerWrapper.state_dict (.record fs) = .ok sd ∧
      OptimizerWrapper.load_state_dict (.record fs) sd = .ok w' ∧ dWrapper w' = some W :=
  gen_state_dict_roundtrip_single fs c gs st hm ho W hw

/-- model-level round trip for BOTH shapes: loading a wrapper's own state dict is the identity … -/
theorem C02_state_dict_roundtrip (w : Wrapper) (hs : (w.multi = false ∧ ∃ c gs, w.optim = .single c gs) ∨
    (w.multi = true ∧ ∃ os, w.optim = .multi os)) : wrapLoad w (wrapStateDict w) = some w := by
  have hg : ∀ gs : List WGroup, loadGroups gs (savedOf gs) = some gs := by
    intro gs
    have h1 : gs.map (·.cells.length) = (savedOf gs).map (·.n) := by simp [savedOf, List.map_map, Function.comp_def]
    simp only [loadGroups, h1, if_true, Option.some.injEq]
    induction gs with
    | nil => rfl
    | cons g r ih =>
      have : r.map (·.cells.length) = (savedOf r).map (·.n) := by simp [savedOf, List.map_map, Function.comp_def]
      simp only [savedOf, List.map_cons, List.zipWith_cons_cons] at ih ⊢
      rw [ih this]
  rcases hs with ⟨hm, c, gs, ho⟩ | ⟨hm, os, ho⟩
  · obtain ⟨m, ns, l, lr, o⟩ := w
    simp only at hm ho; subst hm; subst ho
    simp [wrapLoad, wrapStateDict, hg]
  · obtain ⟨m, ns, l, lr, o⟩ := w
    simp only at hm ho; subst hm; subst ho
    have hmulti : ∀ os : List (Nat × List WGroup), loadMulti os (os.map fun o => savedOf o.2) = some os := by
      intro os
      induction os with
      | nil => rfl
      | cons o r ih => simp [loadMulti, hg, ih]
    simp [wrapLoad, wrapStateDict, hmulti]

/-- … and loading ANY state dict never changes which parameter objects the groups hold -/
theorem C02_load_keeps_parameters (gs gs' : List WGroup) (sv : List WSaved) (h : loadGroups gs sv = some gs') :
    gs'.map (·.cells) = gs.map (·.cells) := by
  unfold loadGroups at h
  split at h
  · rename_i hl
    cases h
    have hlen : gs.length = sv.length := by simpa using congrArg List.length hl
    clear hl
    induction gs generalizing sv with
    | nil => simp
    | cons g r ih =>
      cases sv with
      | nil => simp at hlen
      | cons s t => simp [ih t (by simpa using hlen)]
  · cases h

/-- a rebuilt optimizer is coherent — the clause of `Coherent` the generated constructor establishes -/
theorem C02_rebuilt_optimizer_coherent (nets : List NetAttr) (lrs : List Rat) (o : Opt) :
    optCoherent nets lrs (rebuildOpt nets lrs o) = true := by
  simp [optCoherent, rebuildOpt, expected, List.map_map, Function.comp_def]


end Coherence

namespace Coherence

/-! ## the registry: what the library's validation (`_registry_init`, run by the metaclass after `__init__`) enforces -/

theorem find?_policy_some (gs : List RGroup) (h : ∃ g ∈ gs, g.policy = true) :
    ∃ g, gs.find? (·.policy) = some g ∧ g ∈ gs ∧ g.policy = true := by
  obtain ⟨g, hg, hp⟩ := h
  cases hf : gs.find? (·.policy) with
  | none => exact absurd hp (by simpa using List.find?_eq_none.mp hf g hg)
  | some g' => exact ⟨g', rfl, List.mem_of_find?_eq_some hf, by simpa using List.find?_some hf⟩

/-- **What acceptance gives.**  A registry the constructor accepts has a group, `registry.policy` is not `None` and
    names the evaluation network of a group flagged as policy, every evolvable attribute of the agent is an evaluation
    network, a shared network or an optimizer of the registry, and every hyper-parameter to mutate is an attribute. -/
theorem C02_registry_accepted_sound (r : RegData) (h : WellFormedRegistry r) :
    r.groups ≠ [] ∧ (∃ e, r.policy = some e ∧ ∃ g ∈ r.groups, g.policy = true ∧ g.eval = e) ∧
    (∀ a ∈ r.evolvable, a ∈ r.registered) ∧ ∀ hp ∈ r.hps.getD [], hp ∈ r.attrs := by
  obtain ⟨h1, h2, h3, h4⟩ := h
  obtain ⟨g, hf, hg, hp⟩ := find?_policy_some r.groups h3
  exact ⟨h1, ⟨g.eval, by simp [RegData.policy, hf], g, hg, hp, rfl⟩, h2, h4⟩

theorem mem_registered_perm (r s : RegData) (hg : r.groups.Perm s.groups) (ho : r.opts.Perm s.opts) (a : Nat) :
    a ∈ r.registered ↔ a ∈ s.registered := by
  simp only [RegData.registered, List.mem_append, List.mem_map, List.mem_flatMap, hg.mem_iff, ho.mem_iff]

/-- **The validation does not depend on the order of registration**: permuting the groups and the optimizers (the order
    of `register_network_group` calls and of `OptimizerWrapper` assignments in `__init__`) does not change the verdict. -/
theorem C02_registry_validation_order_invariant (r s : RegData) (hg : r.groups.Perm s.groups) (ho : r.opts.Perm s.opts)
    (he : r.evolvable = s.evolvable) (ha : r.attrs = s.attrs) (hh : r.hps = s.hps) :
    WellFormedRegistry r ↔ WellFormedRegistry s := by
  have hne : r.groups ≠ [] ↔ s.groups ≠ [] := by
    constructor
    · intro h hs; rw [hs] at hg; exact h hg.eq_nil
    · intro h hr; rw [hr] at hg; exact h hg.symm.eq_nil
  simp only [WellFormedRegistry, hne, mem_registered_perm r s hg ho, he, ha, hh, hg.mem_iff]

/-- with exactly one policy group (NOT enforced, see the witnesses) the `registry.policy` lookup is order-independent -/
theorem C02_registry_policy_order_invariant (r s : RegData) (hg : r.groups.Perm s.groups) (h1 : r.OnePolicy) :
    r.policy = s.policy := by
  unfold RegData.policy
  rw [← List.head?_filter, ← List.head?_filter]
  have hp := hg.filter (·.policy)
  unfold RegData.OnePolicy at h1
  obtain ⟨g, hgf⟩ := List.length_eq_one_iff.mp h1
  rw [hgf] at hp ⊢
  rw [List.perm_singleton.mp hp.symm]

/-- the lookup finds THE policy when there is exactly one -/
theorem C02_registry_one_policy_lookup (r : RegData) (h1 : r.OnePolicy) (g : RGroup) (hg : g ∈ r.groups) (hp : g.policy = true) :
    r.policy = some g.eval := by
  unfold RegData.policy
  rw [← List.head?_filter]
  unfold RegData.OnePolicy at h1
  obtain ⟨g', hgf⟩ := List.length_eq_one_iff.mp h1
  have : g ∈ r.groups.filter (·.policy) := List.mem_filter.mpr ⟨hg, by simpa using hp⟩
  rw [hgf] at this ⊢
  simp at this
  simp [this]

/-- registering one more group / assigning one more optimizer never turns an accepted registry into a rejected one -/
theorem C02_registry_accepted_monotone (r : RegData) (h : WellFormedRegistry r) (g : RGroup) (name : Nat)
    (w : Option (List Nat × Nat × Bool)) :
    WellFormedRegistry (r.addGroup g) ∧ WellFormedRegistry (r.setOpt name w) := by
  obtain ⟨h1, h2, ⟨gp, hgp, hpp⟩, h4⟩ := h
  constructor
  · refine ⟨by simp [RegData.addGroup], fun a ha => ?_, ⟨gp, by simp [RegData.addGroup, hgp], hpp⟩, h4⟩
    have := h2 a ha
    simp only [RegData.registered, RegData.addGroup, List.mem_append, List.mem_map, List.mem_flatMap] at this ⊢
    rcases this with (⟨x, hx, e⟩ | ⟨x, hx, e⟩) | h
    · exact Or.inl (Or.inl ⟨x, Or.inl hx, e⟩)
    · exact Or.inl (Or.inr ⟨x, Or.inl hx, e⟩)
    · exact Or.inr h
  · have key : ∀ r1 : RegData, r1.groups = r.groups → r1.evolvable = r.evolvable → r1.hps = r.hps →
        (∀ a, a ∈ r.registered → a ∈ r1.registered) → (∀ a, a ∈ r.attrs → a ∈ r1.attrs) → WellFormedRegistry r1 := by
      intro r1 e1 e2 e3 e4 e5
      exact ⟨by rw [e1]; exact h1, fun a ha => e4 a (h2 a (e2 ▸ ha)), ⟨gp, e1 ▸ hgp, hpp⟩, fun x hx => e5 x (h4 x (e3 ▸ hx))⟩
    unfold RegData.setOpt
    rcases w with _ | ⟨nets, lr, multi⟩
    · exact key _ rfl rfl rfl (fun a ha => ha) (fun a ha => by simp [ha])
    · by_cases hc : (r.opts.map (·.name)).contains name = true
      · simp only [hc, if_true]
        exact key _ rfl rfl rfl (fun a ha => ha) (fun a ha => by simp [ha])
      · have hc' : (r.opts.map (·.name)).contains name = false := by simpa using hc
        simp only [hc', Bool.false_eq_true, if_false]
        refine key _ rfl rfl rfl (fun a ha => ?_) (fun a ha => by simp [ha])
        simp only [RegData.registered, List.mem_append, List.mem_map] at ha ⊢
        rcases ha with h | ⟨x, hx, e⟩
        · exact Or.inl h
        · exact Or.inr ⟨x, Or.inl hx, e⟩

/-! ### what the validation does NOT enforce: registries the library accepts that violate a hypothesis of the wiring theorems -/

open RegistryGen RegistryGenEq in
/-- two groups flagged as policy: accepted; `registry.policy` answers the first, and swapping the two registrations
    changes the answer -/
def regTwoPolicies : RegistryData :=
  { registry := { groups := [{ eval := 0, shared := some [2], policy := true, multiagent := false },
                             { eval := 1, shared := some [3], policy := true, multiagent := false }],
                  optimizers := [{ name := 4, networks := [0], lr := 5, multiagent := false },
                                 { name := 6, networks := [1], lr := 5, multiagent := false }],
                  hooks := [], hp_config := some [5] },
    evolvable := [0, 1, 2, 3, 4, 6], attrs := [0, 1, 2, 3, 4, 5, 6] }

open RegistryGen in
def regSwapped : RegistryData :=
  { regTwoPolicies with registry := { regTwoPolicies.registry with groups := regTwoPolicies.registry.groups.reverse } }

open RegistryGen in
/-- a DQN-like registry (actor 0, target 1, optimizer 2 with lr attribute 3) with the optimizer's fields as parameters -/
def regWith (nets : List Nat) (lr : Nat) (multi : Bool) (shared2 : Option (List Nat)) : RegistryData :=
  { registry := { groups := [{ eval := 0, shared := some [1], policy := true, multiagent := false },
                             { eval := 4, shared := shared2, policy := false, multiagent := false }],
                  optimizers := [{ name := 2, networks := nets, lr := lr, multiagent := multi }],
                  hooks := [], hp_config := some [3] },
    evolvable := [0, 1, 2, 4], attrs := [0, 1, 2, 3, 4] }

open RegistryGen RegistryGenEq in
/-- **Not enforced (decided witnesses).**  The constructor accepts registries with (1) two policies, (2) an optimizer
    registered for a shared (target) network or for a name no group knows, (3) a list optimizer registered for two
    network attributes, (4) one network shared by two groups / both evaluation and shared, (5) an optimizer whose
    learning-rate attribute does not exist.  `OnePolicy`, `OptsEval` (`DescOK.optsEval`), `OptShape` (`OptShapeOK`),
    `RolesFunctional` (a `Role` per network) and `LrExists` therefore remain hypotheses about the algorithm's `__init__`;
    the well-formed one (`regWith [0] 3 false none`) satisfies all of them. -/
theorem C02_source_translation_registry_not_enforced_witness :
    (registryAccepted regTwoPolicies = true ∧ ¬ (toModel regTwoPolicies).OnePolicy) ∧
    (registryAccepted (regWith [1] 3 false none) = true ∧ ¬ (toModel (regWith [1] 3 false none)).OptsEval) ∧
    (registryAccepted (regWith [9] 3 false none) = true ∧ ¬ (toModel (regWith [9] 3 false none)).OptsEval) ∧
    (registryAccepted (regWith [0, 4] 3 true none) = true ∧ ¬ (toModel (regWith [0, 4] 3 true none)).OptShape) ∧
    (registryAccepted (regWith [0] 3 false (some [1])) = true ∧ ¬ (toModel (regWith [0] 3 false (some [1]))).RolesFunctional) ∧
    (registryAccepted (regWith [0] 3 false (some [0])) = true ∧ ¬ (toModel (regWith [0] 3 false (some [0]))).RolesFunctional) ∧
    (registryAccepted (regWith [0] 7 false none) = true ∧ ¬ (toModel (regWith [0] 7 false none)).LrExists) ∧
    (registryAccepted (regWith [0] 3 false none) = true ∧
      let m := toModel (regWith [0] 3 false none)
      m.OnePolicy ∧ m.OptsEval ∧ m.OptShape ∧ m.RolesFunctional ∧ m.LrExists) := by
  decide +kernel

open RegistryGen RegistryGenEq in
/-- `registry.policy` and `MutationRegistry.__eq__` DO depend on the registration order: with two policy groups the
    lookup answers whichever was registered first, and two registries with the same groups in another order are unequal -/
theorem C02_source_translation_registry_order_witness :
    registryAccepted regTwoPolicies = true ∧ registryAccepted regSwapped = true ∧
    policy regTwoPolicies.registry = some 0 ∧ policy regSwapped.registry = some 1 ∧
    registry_eq regTwoPolicies.registry regSwapped.registry = false ∧
    registry_eq regTwoPolicies.registry regTwoPolicies.registry = true := by
  decide +kernel

open RegistryGen RegistryGenEq in
/-- `OptimizerConfig.__eq__` ignores the learning-rate attribute: registries whose optimizers differ only in `lr` are equal -/
theorem C02_source_translation_registry_eq_ignores_lr_witness :
    regWith [0] 3 false none ≠ regWith [0] 7 false none ∧
    registry_eq (regWith [0] 3 false none).registry (regWith [0] 7 false none).registry = true := by
  decide +kernel

/-! ### restated over the GENERATED definitions -/

open RegistryGen RegistryGenEq in
/-- generated `_registry_init` accepts exactly the `WellFormedRegistry` registries and raises `AttributeError` otherwise -/
theorem C02_source_translation_registry_accepted_iff (r : RegistryData) :
    (registryAccepted r = true ↔ WellFormedRegistry (toModel r)) ∧
    (registryAccepted r = false → registry_init r = .error "AttributeError") := by
  refine ⟨gen_registryAccepted_iff r, fun h => ?_⟩
  rw [registryAccepted, gen_registry_init_eq] at h
  rw [gen_registry_init_eq]
  cases hc : registryCheck (toModel r) <;> simp [hc, errOf] at h ⊢

open RegistryGen RegistryGenEq in
/-- acceptance, over the generated definitions: the generated `policy` lookup answers the evaluation network of a group
    flagged as policy, and every evolvable attribute is in the generated `all_registered` -/
theorem C02_source_translation_registry_accepted_sound (r : RegistryData) (h : registryAccepted r = true) :
    r.registry.groups ≠ [] ∧ (∃ e, policy r.registry = some e ∧ ∃ g ∈ r.registry.groups, g.policy = true ∧ g.eval = e) ∧
    ∀ a ∈ r.evolvable, a ∈ all_registered r.registry := by
  obtain ⟨h1, ⟨e, he, g, hg, hp, hge⟩, h3, _⟩ := C02_registry_accepted_sound _ ((gen_registryAccepted_iff r).mp h)
  refine ⟨by simpa [toModel] using h1, ⟨e, by rw [gen_policy_eq]; exact he, ?_⟩, by rw [gen_all_registered_eq]; exact h3⟩
  simp only [toModel, List.mem_map] at hg
  obtain ⟨g0, hg0, rfl⟩ := hg
  exact ⟨g0, hg0, hp, hge⟩

open RegistryGen RegistryGenEq in
/-- the generated validation is invariant under the order of registration of groups and optimizers -/
theorem C02_source_translation_registry_order_invariant (r s : RegistryData) (hg : r.registry.groups.Perm s.registry.groups)
    (ho : r.registry.optimizers.Perm s.registry.optimizers) (he : r.evolvable = s.evolvable) (ha : r.attrs = s.attrs)
    (hh : r.registry.hp_config = s.registry.hp_config) : registryAccepted r = registryAccepted s := by
  rw [Bool.eq_iff_iff, gen_registryAccepted_iff, gen_registryAccepted_iff]
  exact C02_registry_validation_order_invariant _ _ (hg.map _) (ho.map _) he ha hh

open RegistryGen RegistryGenEq in
/-- `__setattr__`: assigning an `OptimizerWrapper` registers an optimizer under the attribute's name, an accepted registry
    stays accepted, and a SECOND wrapper assigned under a registered name leaves the registered configuration as it was
    (`regWith …` below: the stale networks / lr stay in the registry) -/
theorem C02_source_translation_registry_setattr (r : RegistryData) (name : Nat) (w : Wrap) :
    name ∈ (setattr_ r name (some w)).registry.optimizers.map (·.name) ∧
    (registryAccepted r = true → registryAccepted (setattr_ r name (some w)) = true) ∧
    (setattr_ (setattr_ r name (some w)) name (some { w with network_names := [] })).registry
      = (setattr_ r name (some w)).registry := by
  have hmem : name ∈ (setattr_ r name (some w)).registry.optimizers.map (·.name) := by
    by_cases h : (r.registry.optimizers.map fun c => c.name).contains name = true
    · have hc : ((some w).isSome && !(List.map (fun config => config.name) r.registry.optimizers).contains name) = false := by
        simp only [h]; rfl
      simp only [setattr_, flatMap_single, hc]
      simpa using h
    · have h0 : (r.registry.optimizers.map fun c => c.name).contains name = false := by simpa using h
      have hc : ((some w).isSome && !(List.map (fun config => config.name) r.registry.optimizers).contains name) = true := by
        simp only [h0]; rfl
      simp only [setattr_, flatMap_single, hc]
      simp [register_optimizer]
  refine ⟨hmem, fun h => ?_, ?_⟩
  · rw [gen_registryAccepted_iff, gen_setattr_eq]
    exact (C02_registry_accepted_monotone _ ((gen_registryAccepted_iff r).mp h) ⟨0, none, false, false⟩ name _).2
  · have h : ((setattr_ r name (some w)).registry.optimizers.map fun c => c.name).contains name = true := by
      simpa using hmem
    have hc : ((some ({ w with network_names := [] } : Wrap)).isSome &&
        !(List.map (fun config => config.name) (setattr_ r name (some w)).registry.optimizers).contains name) = false := by
      simp only [h]; rfl
    generalize setattr_ r name (some w) = r1 at hc ⊢
    simp only [setattr_, flatMap_single, hc]
    simp

/-! ### the registry of a model agent: which hypotheses of `EnvOK` / `DescOK` acceptance discharges -/

open RegistryGen MutWireGenEq in
/-- the registry-as-data of model agent `a` (optimizer `q` is attribute `a.nets.length + q`) -/
def regDataOf (a : Agent) (hps attrs : List Nat) : RegistryData :=
  { registry := { groups := (groupsOf (roles a.nets)).map fun g =>
                    { eval := g.eval, shared := g.shared, policy := g.policy, multiagent := false },
                  optimizers := a.opts.mapIdx fun q o => { name := a.nets.length + q, networks := o.nets, lr := o.lr, multiagent := o.multi },
                  hooks := [], hp_config := some hps },
    evolvable := List.range (a.nets.length + a.opts.length), attrs := attrs }

open RegistryGen RegistryGenEq MutWireGenEq in
/-- **Acceptance discharges the existence half of `EnvOK.policy` and `EnvOK.polIn`**: an agent whose registry the
    constructor accepts has a network attribute, inside the agent, that is an evaluation network flagged as policy, and
    the generated `registry.policy` answers such an attribute. -/
theorem C02_source_translation_registry_policy_exists (a : Agent) (hps attrs : List Nat)
    (h : registryAccepted (regDataOf a hps attrs) = true) :
    ∃ p, policy (regDataOf a hps attrs).registry = some p ∧ p < a.nets.length ∧ (roles a.nets)[p]? = some (Role.eval true) := by
  obtain ⟨_, ⟨e, he, g, hg, hp, hge⟩, _⟩ := C02_source_translation_registry_accepted_sound _ h
  refine ⟨e, he, ?_⟩
  simp only [regDataOf, List.mem_map] at hg
  obtain ⟨g0, hg0, rfl⟩ := hg
  simp only [groupsOf, List.mem_map] at hg0
  obtain ⟨k, hk, rfl⟩ := hg0
  simp only at hp hge
  subst hge
  have hr : (roles a.nets)[k]? = some (Role.eval true) := by simpa using hp
  refine ⟨?_, hr⟩
  have := (List.getElem?_eq_some_iff.mp hr).1
  simpa [roles] using this

def mkNet (r : Role) (c : Nat) : NetAttr :=
  { role := r, mods := [{ arch := (0, 0, 0), wEnc := (0, 0, 0), wHead := (0, 0, 0), enc := [c], head := [c + 1], det := .none, lastMut := none }] }

/-- two evaluation networks flagged as policy, one optimizer each -/
def agentTwoPolicies : Agent :=
  { index := 0, nets := [mkNet (.eval true) 0, mkNet (.eval true) 2],
    opts := [{ nets := [0], lr := 0, multi := false, groups := [] }, { nets := [1], lr := 0, multi := false, groups := [] }],
    lrs := [1 / 1000], hook := .none, actExempt := false, label := "" }

/-- actor, its target, and an optimizer registered for the TARGET; a list optimizer registered for two attributes -/
def agentBadOpts : Agent :=
  { index := 0, nets := [mkNet (.eval true) 0, mkNet (.shared 0) 2, mkNet (.eval false) 4],
    opts := [{ nets := [1], lr := 0, multi := false, groups := [] }, { nets := [0, 2], lr := 0, multi := true, groups := [] }],
    lrs := [1 / 1000], hook := .none, actExempt := false, label := "" }

open RegistryGen RegistryGenEq MutWireGenEq in
/-- **The uniqueness half of `EnvOK.policy`, `EnvOK.opts` (`OptShapeOK`) and `DescOK.optsEval` are NOT discharged**:
    the constructor accepts the registry of an agent with two policies (no `p` with `PolicyAt a p`), and of an agent with
    an optimizer over a target network and a list optimizer over two attributes. -/
theorem C02_source_translation_registry_hypotheses_witness :
    (registryAccepted (regDataOf agentTwoPolicies [] []) = true ∧ ¬ ∃ p, PolicyAt agentTwoPolicies p) ∧
    (registryAccepted (regDataOf agentBadOpts [] []) = true ∧ ¬ OptShapeOK agentBadOpts.opts ∧ ¬ DescOK (desc agentBadOpts)) := by
  refine ⟨⟨by decide +kernel, ?_⟩, by decide +kernel, ?_, ?_⟩
  · rintro ⟨p, hp⟩
    have h0 := (hp 0 (mkNet (.eval true) 0) rfl).mp rfl
    have h1 := (hp 1 (mkNet (.eval true) 2) rfl).mp rfl
    omega
  · intro h
    have := h { nets := [0, 2], lr := 0, multi := true, groups := [] } (by simp [agentBadOpts]) rfl
    simp at this
  · intro h
    obtain ⟨b, hb⟩ := h.optsEval [1] (by simp [desc, agentBadOpts]) 1 (by simp)
    simp [desc, roles, agentBadOpts, mkNet] at hb

end Coherence
