import Proofs.CoherenceWeights
import Proofs.MutWireGenEq

/-!
# C02 — after any mutation an agent is coherent: optimizers, targets and critics follow

Model: `Model/Coherence.lean` (the pipeline of `agilerl/hpo/mutation.py` over registry
descriptors: `Mutations.mutation` = drawn kind + re-created shared networks + hook, `reinit_opt`,
`rl_hyperparam_mutation` after the fix that rebuilds *every* optimizer of the mutated learning
rate, `EvolvableAlgorithm.clone`, `learn`).  Every theorem quantifies over every registry
descriptor (any number of network groups and optimizers, single optimizers over several networks
as in PPO, lists of optimizers as in MADDPG / MATD3 / IPPO), every choice of fresh objects, and —
for the invariant — every sequence of generations (select, mutate, learn) of any length.

`Inv a` = well-formed registry (`DescOK`: optimizers registered for evaluation networks, shared
networks shadow evaluation networks, algorithms whose hook detaches part of an evaluation network
are exempt from activation mutation) ∧ `Coherent a` ∧ evaluation networks carry the hook's
detachment (true of every freshly constructed agent: `C02_constructed_inv`).
-/
namespace Coherence

/-- **Coherence is an invariant of the generation loop.**  From a population of coherent agents,
    after any sequence of tournament selections (clones), population mutations (any kind drawn
    for any agent: none, architecture with any applied method, parameters, activation, any RL
    hyper-parameter) and learn steps, every agent is coherent: each optimizer holds exactly the
    current parameters of its registered networks, group by group and in order, with the agent's
    current learning rate, and every shared network has the architecture of what it shadows. -/
theorem C02_coherent_invariant (pop : Pop) (h : ∀ a ∈ pop, Inv a) (ops : List Op) :
    ∀ a ∈ run false pop ops, Coherent a :=
  fun a ha => (run_inv ops pop h a ha).2.1

/-- one population mutation, kind by kind: whatever each agent draws, it stays coherent -/
theorem C02_mutation_keeps_coherent (c : Choice) (a : Agent) (h : Inv a) :
    Coherent (mutate1 false c a) ∧ Inv (mutate1 false c a) :=
  ⟨(mutate1_inv c a h).2.1, mutate1_inv c a h⟩

/-- a constructor (hook, optimizers over the result, shared networks loaded from their
    evaluation networks) yields an agent satisfying the invariant, for every well-formed registry -/
theorem C02_constructed_inv (fresh : Fresh) (stamp : Nat) (a0 : Agent) (hd : DescOK (desc a0))
    (h0 : ∀ n ∈ a0.nets, ∀ m ∈ n.mods, m.det = Det.none) : Inv (construct fresh stamp a0) :=
  construct_inv fresh stamp a0 hd h0

/-- **Population shape.**  `Mutations.mutation` returns as many agents as it was given, in the same
    order (indices unchanged), and each agent reports the mutation it received: `"None"`,
    the architecture method that was actually *applied* to the policy (resolved through
    fall-backs; `"None"` when nothing was applied), `"param"`, `"act"` (`"None"` for the exempt
    algorithms) or the name of the mutated hyper-parameter.  Holds with and without the
    learning-rate fix. -/
theorem C02_population_shape (f : Bool) (choices : List Choice) (pop : Pop) :
    (mutatePop f choices pop).length = pop.length ∧
    (mutatePop f choices pop).map (·.index) = pop.map (·.index) ∧
    ∀ (i : Nat) (a : Agent), pop[i]? = some a →
      ((mutatePop f choices pop)[i]?).map (·.label) = some (labelOf a (choices.getD i {}).kind) := by
  refine ⟨by simp [mutatePop], ?_, ?_⟩
  · unfold mutatePop
    exact map_mapIdx_of _ _ _ _ (fun i a _ => by
      show (finish _ _ (kindStep f _ a)).index = a.index
      rw [finish_index, kindStep_index])
  · intro i a hi
    unfold mutatePop
    rw [List.getElem?_mapIdx, hi]
    show some (finish _ _ (kindStep f _ a)).label = _
    rw [finish_label, kindStep_label]

/-- **A learn step reaches every trained network.**  In a coherent agent every parameter of every
    network registered with an optimizer is in the write-set of `learn` (the cells the optimizers
    step) … -/
theorem C02_learn_moves_trained (a : Agent) (h : Coherent a) (o : Opt) (ho : o ∈ a.opts)
    (k : Nat) (hk : k ∈ o.nets) (ps : List Nat) (hps : ps ∈ paramsOf a.nets k) (c : Nat) (hc : c ∈ ps) :
    c ∈ learnWrites a := by
  unfold learnWrites
  rw [List.mem_flatMap]
  refine ⟨o, ho, ?_⟩
  have h1 : ps ∈ o.groups.map (·.cells) := by
    rw [(h.1 o ho).1]
    unfold expected
    exact List.mem_flatMap.mpr ⟨k, hk, hps⟩
  obtain ⟨g, hg, rfl⟩ := List.mem_map.mp h1
  exact List.mem_flatMap.mpr ⟨g, hg, hc⟩

/-- … so the model's `learn` changes the value of every trained module that has a parameter,
    and replaces no object: wiring, and with it coherence, is untouched. -/
theorem C02_learn_touches_trained (stamp : Nat) (a : Agent) (h : Coherent a) (o : Opt) (ho : o ∈ a.opts)
    (k : Nat) (hk : k ∈ o.nets) (n : NetAttr) (hn : a.nets[k]? = some n) (m : Mod) (hm : m ∈ n.mods)
    (hne : m.params ≠ []) :
    m.touched (learnWrites a) = true ∧ SameWiring a.nets (learn1 stamp a).nets := by
  refine ⟨?_, learn1_sameWiring stamp a⟩
  unfold Mod.touched
  rw [List.any_eq_true]
  obtain ⟨c, hc⟩ := List.exists_mem_of_ne_nil _ hne
  refine ⟨c, hc, ?_⟩
  have : m.params ∈ paramsOf a.nets k := by
    unfold paramsOf; rw [hn]; exact List.mem_map_of_mem hm
  simpa using C02_learn_moves_trained a h o ho k hk m.params this c hc

/-- **Shared networks follow.**  Right after a population mutation (any kind, also "none") every
    shared / target network has the architecture *and the weights* of the evaluation network it
    shadows, provided the hook treats a shared network like what it shadows (`HookOK`). -/
theorem C02_shared_follow_after_mutate (c : Choice) (a : Agent) (h : Inv a)
    (hk : HookOK (roles (kindStep false c a).nets) (kindStep false c a).hook) :
    SharedArch (mutate1 false c a).nets ∧ SharedWeights (mutate1 false c a).nets := by
  refine ⟨(mutate1_inv c a h).2.1.2, ?_⟩
  unfold mutate1
  have pre : DescOK (desc (kindStep false c a)) ∧ DetExact (kindStep false c a).nets (kindStep false c a).hook := by
    unfold kindStep
    cases c.kind with
    | none => exact ⟨h.1, h.2.2⟩
    | arch applied => exact ⟨(archStep_pre applied c.fresh c.stamp a h).1, (archStep_pre applied c.fresh c.stamp a h).2.2⟩
    | param => exact ⟨(paramStep_pre c.stamp a h).1, (paramStep_pre c.stamp a h).2.2⟩
    | act => exact ⟨(actStep_pre c.fresh c.stamp a h).1, (actStep_pre c.fresh c.stamp a h).2.2⟩
    | hp name lr => exact ⟨(hpStep_pre name lr a h).1, (hpStep_pre name lr a h).2.2⟩
  exact finish_sharedWeights c.fresh (c.stamp + 1) _ pre.1 pre.2 hk

/-- **Critics follow the policy.**  After an architecture mutation module `j` of every evaluation
    network — the policy and every network trained alongside it — carries the change that was
    applied to module `j` of the policy (`applied[j]` = method *and* the resulting change of the
    architecture, i.e. the arguments the policy's module drew; `none` when nothing was applied).
    For multi-agent algorithms `j` is the sub-agent: critic `j` follows actor `j`, not actor 0. -/
theorem C02_arch_followed (f : Bool) (applied : List (Option Change)) (fresh : Fresh) (stamp : Nat) (a : Agent)
    (k : Nat) (n : NetAttr)
    (hk : (mutate1 f { kind := Kind.arch applied, fresh := fresh, stamp := stamp } a).nets[k]? = some n)
    (he : n.role.isEval = true) :
    n.mods.map (·.lastMut) = (List.range n.mods.length).map (fun j => applied.getD j none) :=
  arch_followed f applied fresh stamp a k n hk he

/-- the flag `coh coherent i` printed by the driver is the proposition -/
theorem C02_check_is_coherent (a : Agent) : coherent a = true ↔ Coherent a := coherent_iff a

/-! ### witnesses -/

def mkMod (k : Nat) (enc head : List Nat) : Mod :=
  { arch := (0, k, 0), wEnc := (0, k, 0), wHead := (0, k, 0), enc := enc, head := head, det := .none, lastMut := none }

/-- TD3-like registry: actor (policy) + target, two critics + targets, encoders shared with the
    actor, three optimizers, the two critic optimizers on the *same* learning-rate attribute -/
def td3Raw : Agent :=
  { index := 0,
    nets := [ { role := .eval true, mods := [mkMod 0 [0, 1] [2, 3]] },
              { role := .shared 0, mods := [mkMod 0 [4, 5] [6, 7]] },
              { role := .eval false, mods := [mkMod 2 [8, 9] [10]] },
              { role := .shared 2, mods := [mkMod 2 [11, 12] [13]] },
              { role := .eval false, mods := [mkMod 4 [14, 15] [16]] },
              { role := .shared 4, mods := [mkMod 4 [17, 18] [19]] } ],
    opts := [ { nets := [0], lr := 0, multi := false, groups := [] },
              { nets := [2], lr := 1, multi := false, groups := [] },
              { nets := [4], lr := 1, multi := false, groups := [] } ],
    lrs := [1 / 10000, 1 / 1000],
    hook := .shareEnc 0 [2, 3, 4, 5],
    actExempt := true,
    label := "None" }

def td3Fresh : Fresh :=
  [[([20, 21], [22, 23])], [([24, 25], [26, 27])], [([28, 29], [30])], [([31, 32], [33])], [([34, 35], [36])], [([37, 38], [39])]]

def td3 : Agent := construct td3Fresh 1 td3Raw

theorem td3Raw_descOK : DescOK (desc td3Raw) := by
  refine ⟨?_, ?_, Or.inl rfl⟩
  · intro ks hks k hk
    simp only [desc, td3Raw, List.map_cons, List.map_nil, List.mem_cons, List.not_mem_nil, or_false] at hks
    rcases hks with rfl | rfl | rfl <;> simp only [List.mem_cons, List.not_mem_nil, or_false] at hk <;> subst hk
    · exact ⟨true, rfl⟩
    · exact ⟨false, rfl⟩
    · exact ⟨false, rfl⟩
  · intro k src hk
    have hlt : k < 6 := by
      have := (List.getElem?_eq_some_iff.mp hk).1
      simpa [desc, roles, td3Raw] using this
    have : k = 0 ∨ k = 1 ∨ k = 2 ∨ k = 3 ∨ k = 4 ∨ k = 5 := by omega
    rcases this with rfl | rfl | rfl | rfl | rfl | rfl <;>
      simp [desc, roles, td3Raw] at hk <;> subst hk
    · exact ⟨true, rfl⟩
    · exact ⟨false, rfl⟩
    · exact ⟨false, rfl⟩

theorem td3_inv : Inv td3 :=
  construct_inv td3Fresh 1 td3Raw td3Raw_descOK (by decide +kernel)

/-- the learning-rate mutation `lr_critic := 1/2000` drawn by the TD3-like agent -/
def hpChoice : Choice := { kind := .hp "lr_critic" (some (1, 1 / 2000)), fresh := td3Fresh, stamp := 3 }

/-- **D19 witness.**  The unrepaired `rl_hyperparam_mutation` rebuilt only the *first* optimizer
    registered for the mutated learning rate: on a registry with two optimizers on one
    learning-rate attribute (TD3, MATD3, IPPO) the agent is **not** coherent afterwards — the second
    critic optimizer still trains with the old learning rate … -/
theorem C02_first_only_witness : Inv td3 ∧ ¬ Coherent (mutate1 true hpChoice td3) := by
  refine ⟨td3_inv, ?_⟩
  rw [← coherent_iff]
  decide +kernel

/-- … while the repaired step (every optimizer of that learning rate rebuilt) is coherent on the
    same input — an instance of `C02_coherent_invariant` checked by evaluation. -/
theorem C02_all_optimizers_repaired : coherent (mutate1 false hpChoice td3) = true := by decide +kernel

/-- **Why the exemption matters.**  An activation mutation of an algorithm whose hook detaches the
    critics' encoders (DDPG / TD3 / PPO with `share_encoders`) would rebuild the optimizers
    *before* the hook runs: the critic optimizers would keep encoder parameters the networks no
    longer have.  `mutation.py` exempts exactly these algorithms; without the exemption the agent
    is incoherent (confirmed on the real DDPG by overriding `agent.algo`). -/
theorem C02_act_unguarded_witness :
    ¬ Coherent (mutate1 false { kind := .act, fresh := td3Fresh, stamp := 3 } { td3 with actExempt := false }) := by
  rw [← coherent_iff]
  decide +kernel

/-! ### non-vacuity: a concrete multi-generation history of a concrete population -/

/-- DQN-like registry: actor + target, the hook turns the whole target into a detached copy -/
def dqnRaw : Agent :=
  { index := 1,
    nets := [ { role := .eval true, mods := [mkMod 0 [0] [1, 2]] }, { role := .shared 0, mods := [mkMod 0 [3] [4, 5]] } ],
    opts := [ { nets := [0], lr := 0, multi := false, groups := [] } ],
    lrs := [1 / 1000], hook := .detachAll 0 [1], actExempt := false, label := "None" }

def dqnFresh : Fresh := [[([40], [41, 42])], [([43], [44, 45])]]
def dqn : Agent := construct dqnFresh 1 dqnRaw

example : coherent td3 = true ∧ coherent dqn = true := by decide +kernel
example : (td3.opts.map fun o => o.groups.map (·.cells)) = [[[0, 1, 2, 3]], [[10]], [[16]]] := by decide +kernel
example : HookOK (roles td3.nets) td3.hook := by
  have hr : roles td3.nets = [.eval true, .shared 0, .eval false, .shared 2, .eval false, .shared 4] := by
    decide +kernel
  have hh : td3.hook = .shareEnc 0 [2, 3, 4, 5] := by decide +kernel
  rw [hr, hh]
  refine ⟨by decide, ?_, ?_, ?_⟩
  · intro k src hk _
    obtain _ | _ | _ | _ | _ | _ | k := k <;> simp at hk <;> subst hk <;> simp [Hook.targets, Hook.src]
  · intro k src hk hs
    obtain _ | _ | _ | _ | _ | _ | k := k <;> simp at hk <;> subst hk <;> simp [Hook.targets] at hs ⊢
  · intro s ts h; cases h

/-- three generations (select, mutate with a different kind per agent, learn) on [TD3-like, TD3-like] -/
def history : List Op :=
  [ .select [{ parent := 0, index := 2, fresh := td3Fresh, stamp := 5 }, { parent := 0, index := 3, fresh := td3Fresh, stamp := 6 }],
    .mutate [{ kind := .arch [some ("encoder.add_node", "hidden_size:+16")], fresh := td3Fresh, stamp := 7 }, hpChoice],
    .learn 0 9, .learn 1 10,
    .select [{ parent := 1, index := 4, fresh := td3Fresh, stamp := 11 }, { parent := 0, index := 5, fresh := td3Fresh, stamp := 12 }],
    .mutate [{ kind := .param, stamp := 13, fresh := td3Fresh }, { kind := .act, stamp := 15, fresh := td3Fresh }],
    .learn 1 17,
    .mutate [{ kind := .none, stamp := 18, fresh := td3Fresh }, { kind := .hp "batch_size" none, stamp := 20, fresh := td3Fresh }] ]

example : ((run false [td3] history).map fun a => (a.index, a.label, coherent a)) =
    [(4, "None", true), (5, "batch_size", true)] := by decide +kernel
example : ((run false [td3] (history.take 2)).map fun a => (a.label, a.lrs, archFollowed a.nets)) =
    [("encoder.add_node", [1 / 10000, 1 / 1000], true), ("lr_critic", [1 / 10000, 1 / 2000], true)] := by decide +kernel

/-! ### the same theorems over the wiring GENERATED from the source text of `agilerl/hpo/mutation.py`

`Gen/MutWireGen.lean` is written by `harness/py2lean_mutwire.py` from the source of the tree under test (which registry
groups are walked for target re-creation and under which condition, policy first and then the same method and keyword
dict for the other evaluation networks, which optimizers are re-created and from which learning-rate attribute, the hook,
`mut`).  `MutWireGenEq.genMutate1 e c a` runs ONE individual through the generated body of the loop of
`Mutations.mutation` (`e` = what the individual answers to the run-time tests of the source); `gen_mutate1_eq` proves it
equal to the model's `mutate1` for EVERY registry descriptor, so the theorems above hold of what the code says now. -/

open MutWireGenEq in
/-- **the generated wiring is the model's**, for all registries, all drawn kinds, all fresh objects -/
theorem C02_source_translation_wiring (e : Env) (c : Choice) (a : Agent) (h : Inv a) (he : EnvOK e a) :
    genMutate1 e c a = mutate1 false c a := gen_mutate1_eq e c a h he

open MutWireGenEq in
/-- whatever kind is drawn, the individual that leaves the generated `Mutations.mutation` is coherent (and satisfies the
    invariant again) -/
theorem C02_source_translation_mutation_keeps_coherent (e : Env) (c : Choice) (a : Agent) (h : Inv a) (he : EnvOK e a) :
    Coherent (genMutate1 e c a) ∧ Inv (genMutate1 e c a) := by
  rw [gen_mutate1_eq e c a h he]
  exact C02_mutation_keeps_coherent c a h

open MutWireGenEq in
/-- **optimizers follow**: after the generated mutation every optimizer holds exactly the current parameters of its
    registered networks, module by module and in order, and every group trains with the agent's CURRENT learning rate -/
theorem C02_source_translation_optimizers_follow (e : Env) (c : Choice) (a : Agent) (h : Inv a) (he : EnvOK e a)
    (o : Opt) (ho : o ∈ (genMutate1 e c a).opts) :
    o.groups.map (·.cells) = o.nets.flatMap (paramsOf (genMutate1 e c a).nets) ∧
    ∀ g ∈ o.groups, g.lr = (genMutate1 e c a).lrs.getD o.lr 0 :=
  (C02_source_translation_mutation_keeps_coherent e c a h he).1.1 o ho

open MutWireGenEq in
/-- **targets follow**: right after the generated mutation every shared / target network of EVERY group has the
    architecture and the weights of the evaluation network it shadows -/
theorem C02_source_translation_shared_follow (e : Env) (c : Choice) (a : Agent) (h : Inv a) (he : EnvOK e a)
    (hk : HookOK (roles (kindStep false c a).nets) (kindStep false c a).hook) :
    SharedArch (genMutate1 e c a).nets ∧ SharedWeights (genMutate1 e c a).nets := by
  rw [gen_mutate1_eq e c a h he]
  exact C02_shared_follow_after_mutate c a h hk

open MutWireGenEq in
/-- **critics follow the policy**: after a generated architecture mutation module `j` of every evaluation network carries
    the change applied to module `j` of the policy (method AND arguments) -/
theorem C02_source_translation_arch_followed (e : Env) (applied : List (Option Change)) (fresh : Fresh) (stamp : Nat) (a : Agent)
    (h : Inv a) (he : EnvOK e a) (k : Nat) (n : NetAttr)
    (hk : (genMutate1 e { kind := Kind.arch applied, fresh := fresh, stamp := stamp } a).nets[k]? = some n)
    (hev : n.role.isEval = true) :
    n.mods.map (·.lastMut) = (List.range n.mods.length).map (fun j => applied.getD j none) := by
  rw [gen_mutate1_eq e _ a h he] at hk
  exact C02_arch_followed false applied fresh stamp a k n hk hev

open MutWireGenEq in
/-- the target network the generated `reinit_from_mutated` builds: module `j` is `type(m)(**m.init_dict)` loaded with the
    FULL state dict of module `j` of the network it shadows — a copy of its architecture and weights -/
theorem C02_source_translation_target_is_copy (ctx : Ctx) (nets : List NetAttr) (dst src : Nat) :
    evalNet ctx nets dst (MutWireGen.reinit_from_mutated src ctx.multi false) =
      some ((modsAt nets src).mapIdx fun j m => copyMod (ctx.stamp, dst, j) (ctx.fresh.at dst j) m) :=
  gen_reinit_from_mutated_eq ctx nets dst src

open MutWireGenEq in
/-- **population shape** of the generated `Mutations.mutation`: as many agents as given, in the same order, each reporting
    the mutation it received -/
theorem C02_source_translation_population_shape (e : Env) (choices : List Choice) (pop : Pop)
    (h : ∀ a ∈ pop, Inv a ∧ EnvOK e a) (hl : pop.length ≤ choices.length) :
    (MutWireGen.mutation_population (genMutate1 e) choices pop).length = pop.length ∧
    (MutWireGen.mutation_population (genMutate1 e) choices pop).map (·.index) = pop.map (·.index) ∧
    ∀ (i : Nat) (a : Agent), pop[i]? = some a →
      ((MutWireGen.mutation_population (genMutate1 e) choices pop)[i]?).map (·.label) = some (labelOf a (choices.getD i {}).kind) := by
  have heq : MutWireGen.mutation_population (genMutate1 e) choices pop = mutatePop false choices pop := by
    rw [gen_mutation_population_eq _ _ _ hl]
    unfold mutatePop
    apply List.ext_getElem?
    intro i
    simp only [List.getElem?_mapIdx]
    cases hp : pop[i]? with
    | none => rfl
    | some a =>
      have ha := h a (mem_of_getElem? hp)
      simp only [Option.map_some, Option.some.injEq]
      exact gen_mutate1_eq e _ a ha.1 ha.2
  rw [heq]
  exact C02_population_shape false choices pop

open MutWireGenEq in
/-- the hypotheses are satisfiable: the TD3-like registry with its environment -/
theorem td3_envOK : EnvOK { multi := false, pol := 0, algo := "TD3", bandit := false } td3 := by
  refine ⟨?_, by decide +kernel, ?_, by decide +kernel, fun h => by cases h⟩
  · intro k n hk
    have hlt : k < 6 := by
      have := (List.getElem?_eq_some_iff.mp hk).1
      have hl : td3.nets.length = 6 := by decide +kernel
      omega
    have hr : roles td3.nets = [.eval true, .shared 0, .eval false, .shared 2, .eval false, .shared 4] := by decide +kernel
    have hnr : (roles td3.nets)[k]? = some n.role := by simp [roles, hk]
    rw [hr] at hnr
    have : k = 0 ∨ k = 1 ∨ k = 2 ∨ k = 3 ∨ k = 4 ∨ k = 5 := by omega
    rcases this with rfl | rfl | rfl | rfl | rfl | rfl <;> simp at hnr <;> simp [← hnr]
  · intro o ho hm
    have : td3.opts.all (fun o => !o.multi) = true := by decide +kernel
    have := List.all_eq_true.mp this o ho
    simp [hm] at this

open MutWireGenEq in
example : coherent (genMutate1 { multi := false, pol := 0, algo := "TD3", bandit := false } hpChoice td3) = true := by
  rw [gen_mutate1_eq _ _ _ td3_inv td3_envOK]
  decide +kernel

end Coherence
