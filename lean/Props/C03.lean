import Proofs.ArchBounds
import Proofs.ArchCnn
import Proofs.ArchNet
import Proofs.ArchGenEq
import Proofs.ArchKernelSpatial
import Proofs.KernelGenEq
import Proofs.MultiInputGenEq

/-!
# C03 — architecture mutations keep every network valid, bounded and rebuildable

Model: `Model/Arch.lean`.  One record per evolvable building block (`MLP`, `CNN` 2d/3d, `LSTM`,
`SimBa`, `ResNet`), the latent width of `EvolvableNetwork` / `EvolvableMultiInput` (`Latent`) and the
composites (`Multi`, `Net` = encoder + latent + head with dotted method names).  `step` reproduces
every `# HARD LIMIT` guard with the strictness of the code, every argument clamp and every fallback;
numpy draws are explicit arguments (`Args`).  All theorems quantify over *every* argument value and
*every* finite sequence of methods (induction over the sequence), no size bound.

Source translation: `harness/py2lean_arch.py` translates the `@mutation` methods of the tree under test
into `Gen/ArchGen.lean`; `Proofs/ArchGenEq.lean` proves them equal to `step` / `drawsOK`; the last section
restates the bounds / fallback / returned-dict theorems over the generated definitions.

Not modelled (oracle of `harness/c03.py` only): finiteness of the forward pass; torch's own
acceptance of a state dict (the model predicts the `{name: shape}` table, torch judges it).
-/
namespace Arch

/-! ## chains of mutations -/

def MLP.run (m : MLP) (ops : List (MlpMethod × Args)) : MLP := ops.foldl (fun s o => (s.step o.1 o.2).1) m
def CNN.run (p : Policy) (lo : Bool) (c : CNN) (ops : List (CnnMethod × Args)) : CNN :=
  ops.foldl (fun s o => (s.step p lo o.1 o.2).1) c
def LSTM.run (l : LSTM) (ops : List (MlpMethod × Args)) : LSTM := ops.foldl (fun s o => (s.step o.1 o.2).1) l
def SimBa.run (s : SimBa) (ops : List (BlockMethod × Args)) : SimBa := ops.foldl (fun s o => (s.step o.1 o.2).1) s
def ResNet.run (r : ResNet) (ops : List (BlockMethod × Args)) : ResNet := ops.foldl (fun s o => (s.step o.1 o.2).1) r
def Latent.run (l : Latent) (ops : List (LatentMethod × Args)) : Latent := ops.foldl (fun s o => (s.step o.1 o.2).1) l
/-- dotted method names; a name the network does not have leaves it unchanged (the real call raises) -/
def Net.run (p : Policy) (n : Net) (ops : List (List String × Args)) : Net :=
  ops.foldl (fun s o => match s.step p o.1 o.2 with | some r => r.1 | none => s) n

/-! ## bounds are an invariant of every chain (exact inequalities of the code) -/

/-- EvolvableMLP: `min_hidden_layers ≤ #layers ≤ max_hidden_layers`, `min_mlp_nodes ≤ width ≤ max_mlp_nodes`
    after any chain of add_layer / remove_layer / add_node / remove_node with any arguments, including
    the `add_node` fallbacks of the layer methods (`1 ≤ min_hidden_layers` is the library default) -/
theorem C03_bounds_invariant_mlp (m : MLP) (ops : List (MlpMethod × Args)) (hw : m.WF) (h : m.InBounds) :
    (m.run ops).InBounds ∧ (m.run ops).WF := by
  induction ops generalizing m with
  | nil => exact ⟨h, hw⟩
  | cons o rest ih =>
    exact ih (m.step o.1 o.2).1 (MLP.step_wf m o.1 o.2 hw) (MLP.step_inBounds m o.1 o.2 hw h)

/-- EvolvableCNN: number of layers and every channel count stay inside the declared bounds, the three
    per-layer lists keep equal lengths; for both policies of `change_kernel` and with layer mutations
    enabled or disabled (encoder), through change_kernel → add_layer → add_channel -/
theorem C03_bounds_invariant_cnn (p : Policy) (lo : Bool) (c : CNN) (ops : List (CnnMethod × Args))
    (hw : c.WF) (h : c.InBounds) : (c.run p lo ops).InBounds ∧ (c.run p lo ops).WF := by
  induction ops generalizing c with
  | nil => exact ⟨h, hw⟩
  | cons o rest ih =>
    exact ih (c.step p lo o.1 o.2).1 (CNN.step_wf p lo c o.1 o.2 hw) (CNN.step_inBounds p lo c o.1 o.2 hw h)

theorem C03_bounds_invariant_lstm (l : LSTM) (ops : List (MlpMethod × Args)) (h : l.InBounds) :
    (l.run ops).InBounds := by
  induction ops generalizing l with
  | nil => exact h
  | cons o rest ih => exact ih (l.step o.1 o.2).1 (LSTM.step_inBounds l o.1 o.2 h)

theorem C03_bounds_invariant_simba (s : SimBa) (ops : List (BlockMethod × Args)) (h : s.InBounds) :
    (s.run ops).InBounds := by
  induction ops generalizing s with
  | nil => exact h
  | cons o rest ih => exact ih (s.step o.1 o.2).1 (SimBa.step_inBounds s o.1 o.2 h)

/-- EvolvableResNet (its `add_channel` guard is strict: the maximum itself is never reached by a mutation) -/
theorem C03_bounds_invariant_resnet (r : ResNet) (ops : List (BlockMethod × Args)) (h : r.InBounds) :
    (r.run ops).InBounds := by
  induction ops generalizing r with
  | nil => exact h
  | cons o rest ih => exact ih (r.step o.1 o.2).1 (ResNet.step_inBounds r o.1 o.2 h)

/-- latent width of EvolvableNetwork / EvolvableMultiInput (both guards strict) -/
theorem C03_bounds_invariant_latent (l : Latent) (ops : List (LatentMethod × Args)) (h : l.InBounds) :
    (l.run ops).InBounds := by
  induction ops generalizing l with
  | nil => exact h
  | cons o rest ih => exact ih (l.step o.1 o.2).1 (Latent.step_inBounds l o.1 o.2 h)

/-- the whole network: latent width, every encoder component (also the feature extractors of a
    multi-input encoder) and the head stay in bounds under every chain of dotted methods -/
theorem C03_bounds_invariant_net (p : Policy) (n : Net) (ops : List (List String × Args)) (h : n.InBounds) :
    (n.run p ops).InBounds := by
  induction ops generalizing n with
  | nil => exact h
  | cons o rest ih =>
    simp only [Net.run, List.foldl_cons]
    cases hs : n.step p o.1 o.2 with
    | none => exact ih n h
    | some r => exact ih r.1 (Net.step_inBounds p n r.1 o.1 o.2 r.2 (by rw [hs]) h)

/-! ## the advertised effect, or the named fallback -/

/-- EvolvableMLP.  Layer methods: guard true ⇒ exactly one layer more (a copy of the last width) /
    less and `Applied` names the method; guard false ⇒ the effect of `add_node` with the drawn
    arguments and `Applied = add_node`.  Node methods: index clamped with `min`, the width at that
    index moves by exactly `n` when the guard allows it, every other width and the depth are untouched;
    otherwise nothing changes. -/
theorem C03_advertised_effect_mlp (m : MLP) (a : Args) :
    (m.hidden.length < m.maxLayers →
        m.step .addLayer a = ({ m with hidden := m.hidden ++ [m.hidden.getLastD 0] }, .addLayer)) ∧
    (¬ m.hidden.length < m.maxLayers → m.step .addLayer a = (m.addNode a, .addNode)) ∧
    (m.hidden.length > m.minLayers →
        m.step .removeLayer a = ({ m with hidden := m.hidden.dropLast }, .removeLayer)) ∧
    (¬ m.hidden.length > m.minLayers → m.step .removeLayer a = (m.addNode a, .addNode)) ∧
    ((m.step .addNode a).2 = .addNode ∧ (m.step .removeNode a).2 = .removeNode) ∧
    (∀ i v, i = min a.layer (m.hidden.length - 1) → m.hidden[i]? = some v →
        ((v + a.n ≤ m.maxNodes → (m.addNode a).hidden[i]? = some (v + a.n)) ∧
         (¬ v + a.n ≤ m.maxNodes → m.addNode a = m) ∧
         (v > m.minNodes + a.n → (m.removeNode a).hidden[i]? = some (v - a.n)) ∧
         (¬ v > m.minNodes + a.n → m.removeNode a = m) ∧
         (∀ j, j ≠ i → (m.addNode a).hidden[j]? = m.hidden[j]? ∧ (m.removeNode a).hidden[j]? = m.hidden[j]?) ∧
         (m.addNode a).hidden.length = m.hidden.length ∧ (m.removeNode a).hidden.length = m.hidden.length)) := by
  refine ⟨fun h => by simp [MLP.step, h], fun h => by simp [MLP.step, h], fun h => by simp [MLP.step, h],
          fun h => by simp [MLP.step, h], ⟨rfl, rfl⟩, ?_⟩
  intro i v hi hv
  have hlt : i < m.hidden.length := by
    rcases Nat.lt_or_ge i m.hidden.length with h | h
    · exact h
    · rw [List.getElem?_eq_none h] at hv; cases hv
  have hg : m.hidden.getD i 0 = v := by rw [List.getD_eq_getElem?_getD, hv]; rfl
  subst hi
  refine ⟨?_, ?_, ?_, ?_, ?_, ?_, ?_⟩
  · intro h; simp only [MLP.addNode, hg, h, if_true]; simp [hlt]
  · intro h; simp only [MLP.addNode, hg, h, if_false]
  · intro h; simp only [MLP.removeNode, hg, h, if_true]; simp [hlt]
  · intro h; simp only [MLP.removeNode, hg, h, if_false]
  · intro j hj
    constructor
    · simp only [MLP.addNode, hg]; split
      · simp [List.getElem?_set_ne (Ne.symm hj)]
      · rfl
    · simp only [MLP.removeNode, hg]; split
      · simp [List.getElem?_set_ne (Ne.symm hj)]
      · rfl
  · simp only [MLP.addNode]; split <;> simp
  · simp only [MLP.removeNode]; split <;> simp

/-- EvolvableCNN: add_layer (guard = depth below the maximum ∧ last feature map > 2 ∧ last
    admissible kernel > 2) appends one layer with the last channel count and the drawn kernel and
    stride, otherwise it *is* add_channel; remove_layer drops the last layer of all three lists,
    otherwise add_channel; change_kernel on a network with more than one layer rewrites exactly one
    kernel, on a single-layer network it is add_layer (or add_channel when layer mutations are
    disabled, as for encoders) -/
theorem C03_advertised_effect_cnn (p : Policy) (lo : Bool) (c : CNN) (a : Args) :
    (c.addLayerGuard = true →
        (c.step p lo .addLayer a).2 = .addLayer ∧
        (c.step p lo .addLayer a).1.channels = c.channels ++ [c.channels.getLastD 0] ∧
        (c.step p lo .addLayer a).1.kernels = c.kernels ++ [a.k] ∧
        (c.step p lo .addLayer a).1.strides = c.strides ++ [a.stride]) ∧
    (c.addLayerGuard = false → c.step p lo .addLayer a = (c.addChannel a, .addChannel)) ∧
    (c.channels.length > c.minLayers →
        (c.step p lo .removeLayer a).2 = .removeLayer ∧
        (c.step p lo .removeLayer a).1.channels = c.channels.dropLast ∧
        (c.step p lo .removeLayer a).1.kernels = c.kernels.dropLast ∧
        (c.step p lo .removeLayer a).1.strides = c.strides.dropLast) ∧
    (¬ c.channels.length > c.minLayers → c.step p lo .removeLayer a = (c.addChannel a, .addChannel)) ∧
    (c.channels.length > 1 →
        (c.step p lo .changeKernel a).2 = .changeKernel ∧
        (c.step p lo .changeKernel a).1.kernels = c.kernels.set (c.kernelTarget p a).fst (c.kernelTarget p a).snd ∧
        (c.step p lo .changeKernel a).1.channels = c.channels ∧ (c.step p lo .changeKernel a).1.strides = c.strides ∧
        (∀ j, j ≠ (c.kernelTarget p a).1 → (c.step p lo .changeKernel a).1.kernels[j]? = c.kernels[j]?)) ∧
    (¬ c.channels.length > 1 →
        c.step p lo .changeKernel a = if lo then c.step p lo .addLayer a else (c.addChannel a, .addChannel)) ∧
    ((c.step p lo .addChannel a) = (c.addChannel a, .addChannel) ∧
     (c.step p lo .removeChannel a) = (c.removeChannel a, .removeChannel)) := by
  refine ⟨fun h => by simp [CNN.step, CNN.addLayer, h], fun h => by simp [CNN.step, CNN.addLayer, h],
          fun h => by simp [CNN.step, h], fun h => by simp [CNN.step, h], ?_, ?_, ⟨rfl, rfl⟩⟩
  · intro h
    refine ⟨by simp [CNN.step, h], by simp [CNN.step, h], by simp [CNN.step, h], by simp [CNN.step, h], ?_⟩
    intro j hj
    simp [CNN.step, h, List.getElem?_set_ne (Ne.symm hj)]
  · intro h
    cases lo <;> simp [CNN.step, h]

/-- channel methods of EvolvableCNN: `+n` only if `ch + n ≤ max_channel_size`, `−n` only if
    `ch − n ≥ min_channel_size`, at the index clamped with `min`; nothing else moves -/
theorem C03_advertised_effect_cnn_channel (c : CNN) (a : Args) (i v : Nat)
    (hi : i = min a.layer (c.channels.length - 1)) (hv : c.channels[i]? = some v) :
    (v + a.n ≤ c.maxCh → (c.addChannel a).channels = c.channels.set i (v + a.n)) ∧
    (¬ v + a.n ≤ c.maxCh → c.addChannel a = c) ∧
    (v ≥ c.minCh + a.n → (c.removeChannel a).channels = c.channels.set i (v - a.n)) ∧
    (¬ v ≥ c.minCh + a.n → c.removeChannel a = c) ∧
    (c.addChannel a).kernels = c.kernels ∧ (c.addChannel a).strides = c.strides ∧
    (c.removeChannel a).kernels = c.kernels ∧ (c.removeChannel a).strides = c.strides := by
  have hg : c.channels.getD i 0 = v := by rw [List.getD_eq_getElem?_getD, hv]; rfl
  subst hi
  refine ⟨?_, ?_, ?_, ?_, ?_, ?_, ?_, ?_⟩
  · intro h; simp only [CNN.addChannel, hg, h, if_true]
  · intro h; simp only [CNN.addChannel, hg, h, if_false]
  · intro h; simp only [CNN.removeChannel, hg, h, if_true]
  · intro h; simp only [CNN.removeChannel, hg, h, if_false]
  all_goals first
    | (simp only [CNN.addChannel]; split <;> rfl)
    | (simp only [CNN.removeChannel]; split <;> rfl)

/-- LSTM / SimBa / ResNet / latent width: the scalar state machines, with the strictness of each guard -/
theorem C03_advertised_effect_scalar (l : LSTM) (s : SimBa) (r : ResNet) (t : Latent) (a : Args) :
    -- LSTM: layers `<` / `>`, nodes `+n ≤ max` / `−n ≥ min`
    (l.step .addLayer a = if l.numLayers < l.maxLayers then ({ l with numLayers := l.numLayers + 1 }, .addLayer)
                          else (l.addNode a, .addNode)) ∧
    (l.step .removeLayer a = if l.numLayers > l.minLayers then ({ l with numLayers := l.numLayers - 1 }, .removeLayer)
                             else (l.addNode a, .addNode)) ∧
    (l.addNode a = if l.hidden + a.n ≤ l.maxHidden then { l with hidden := l.hidden + a.n } else l) ∧
    (l.removeNode a = if l.hidden ≥ l.minHidden + a.n then { l with hidden := l.hidden - a.n } else l) ∧
    -- SimBa: blocks `<` / `>`, nodes `+n ≤ max` / `−n > min`
    (s.step .addBlock a = if s.numBlocks < s.maxBlocks then ({ s with numBlocks := s.numBlocks + 1 }, .addBlock)
                          else (s.addNode a, .addNode)) ∧
    (s.step .removeBlock a = if s.numBlocks > s.minBlocks then ({ s with numBlocks := s.numBlocks - 1 }, .removeBlock)
                             else (s.addNode a, .addNode)) ∧
    (s.addNode a = if s.hidden + a.n ≤ s.maxNodes then { s with hidden := s.hidden + a.n } else s) ∧
    (s.removeNode a = if s.hidden > s.minNodes + a.n then { s with hidden := s.hidden - a.n } else s) ∧
    -- ResNet: blocks `<` / `>`, channels `+n < max` / `−n > min`
    (r.step .addBlock a = if r.numBlocks < r.maxBlocks then ({ r with numBlocks := r.numBlocks + 1 }, .addBlock)
                          else (r.addChannel a, .addChannel)) ∧
    (r.step .removeBlock a = if r.numBlocks > r.minBlocks then ({ r with numBlocks := r.numBlocks - 1 }, .removeBlock)
                             else (r.addChannel a, .addChannel)) ∧
    (r.addChannel a = if r.channel + a.n < r.maxCh then { r with channel := r.channel + a.n } else r) ∧
    (r.removeChannel a = if r.channel > r.minCh + a.n then { r with channel := r.channel - a.n } else r) ∧
    -- latent width: `+n < max` / `−n > min`
    (t.step .add a = (if t.dim + a.n < t.maxDim then { t with dim := t.dim + a.n } else t, .addLatent)) ∧
    (t.step .remove a = (if t.dim > t.minDim + a.n then { t with dim := t.dim - a.n } else t, .removeLatent)) :=
  ⟨rfl, rfl, rfl, rfl, rfl, rfl, rfl, rfl, rfl, rfl, rfl, rfl, rfl, rfl⟩

/-- network level: a latent mutation re-sizes encoder output and head input together; `encoder.*` goes
    to the encoder only and `head_net.*` to the head only, the reported name is the dotted name of
    the method that took effect (repaired wrapper, `forwardHead = true`) -/
theorem C03_advertised_effect_net (p : Policy) (n : Net) (a : Args) (me : MlpMethod) (meth : String)
    (hm : mlpMethod? meth = some me) (hp : p.forwardHead = true) :
    n.step p ["head_net", meth] a =
      some ({ n with head := (n.head.step me a).1 }, "head_net." ++ (n.head.step me a).2.name) ∧
    n.step p ["add_latent_node"] a =
      some ({ n with lat := (n.lat.step .add a).1, enc := n.enc.setNumOutputs (n.lat.step .add a).1.dim,
                     head := { n.head with numInputs := (n.lat.step .add a).1.dim + n.headExtra } },
            "add_latent_node") := by
  constructor
  · simp [Net.step, hm, hp]
  · simp [Net.step, latentMethod?, Applied.name, Latent.step]

/-- D20 as found in the design round (`forwardHead = false`): the four advertised `head_net.*` methods
    of a StochasticActor change nothing and report `None` — the property's "an advertised mutation
    that is not stopped by a bound really changes the architecture" fails for every such network -/
theorem C03_head_effect_witness (n : Net) (a : Args) (meth : String) (me : MlpMethod)
    (hm : mlpMethod? meth = some me) :
    n.step { forwardHead := false } ["head_net", meth] a = some (n, "None") := by
  simp [Net.step, hm, Applied.name]

/-! ## constructor description rebuilds the same architecture -/

/-- `ofInitDict (toInitDict a) = a` for every block: the constructor description determines the
    architecture, hence the rebuilt network has exactly the same `{name: shape}` table and accepts the
    current weights -/
theorem C03_initdict_roundtrip :
    (∀ m : MLP, MLP.ofInitDict m.toInitDict = some m) ∧
    (∀ c : CNN, CNN.ofInitDict c.toInitDict = some c) ∧
    (∀ l : LSTM, LSTM.ofInitDict l.toInitDict = some l) ∧
    (∀ s : SimBa, SimBa.ofInitDict s.toInitDict = some s) ∧
    (∀ r : ResNet, ResNet.ofInitDict r.toInitDict = some r) :=
  ⟨fun _ => rfl, fun _ => rfl, fun _ => rfl, fun _ => rfl, fun _ => rfl⟩

theorem C03_initdict_same_shapes :
    (∀ m m' : MLP, MLP.ofInitDict m.toInitDict = some m' → m'.paramShapes = m.paramShapes) ∧
    (∀ c c' : CNN, CNN.ofInitDict c.toInitDict = some c' → c'.paramShapes = c.paramShapes) ∧
    (∀ l l' : LSTM, LSTM.ofInitDict l.toInitDict = some l' → l'.paramShapes = l.paramShapes) ∧
    (∀ s s' : SimBa, SimBa.ofInitDict s.toInitDict = some s' → s'.paramShapes = s.paramShapes) ∧
    (∀ r r' : ResNet, ResNet.ofInitDict r.toInitDict = some r' → r'.paramShapes = r.paramShapes) := by
  obtain ⟨h1, h2, h3, h4, h5⟩ := C03_initdict_roundtrip
  refine ⟨?_, ?_, ?_, ?_, ?_⟩
  · intro m m' h; rw [h1 m] at h; cases h; rfl
  · intro m m' h; rw [h2 m] at h; cases h; rfl
  · intro m m' h; rw [h3 m] at h; cases h; rfl
  · intro m m' h; rw [h4 m] at h; cases h; rfl
  · intro m m' h; rw [h5 m] at h; cases h; rfl

/-! ## declared input / output shape is independent of the hidden architecture -/

theorem C03_output_shape_blocks (p : Policy) (lo : Bool) (m : MLP) (c : CNN) (l : LSTM) (s : SimBa) (r : ResNet)
    (a : Args) (mm : MlpMethod) (cm : CnnMethod) (bm : BlockMethod) :
    ((m.step mm a).1.numInputs = m.numInputs ∧ (m.step mm a).1.numOutputs = m.numOutputs) ∧
    ((c.step p lo cm a).1.numOutputs = c.numOutputs ∧ (c.step p lo cm a).1.inC = c.inC ∧
       (c.step p lo cm a).1.inH = c.inH ∧ (c.step p lo cm a).1.inW = c.inW ∧ (c.step p lo cm a).1.depth = c.depth) ∧
    ((l.step mm a).1.numOutputs = l.numOutputs ∧ (l.step mm a).1.inputSize = l.inputSize) ∧
    ((s.step bm a).1.numOutputs = s.numOutputs ∧ (s.step bm a).1.numInputs = s.numInputs) ∧
    ((r.step bm a).1.numOutputs = r.numOutputs ∧ (r.step bm a).1.inC = r.inC ∧
       (r.step bm a).1.inH = r.inH ∧ (r.step bm a).1.inW = r.inW) := by
  refine ⟨MLP.step_io m mm a, ?_, ?_, ?_, ?_⟩
  · cases cm <;> simp only [CNN.step, CNN.addLayer, CNN.addChannel, CNN.removeChannel] <;>
      (repeat' split) <;> exact ⟨rfl, rfl, rfl, rfl, rfl⟩
  · cases mm <;> simp only [LSTM.step, LSTM.addNode, LSTM.removeNode] <;> (repeat' split) <;> exact ⟨rfl, rfl⟩
  · cases bm <;> simp only [SimBa.step, SimBa.addNode, SimBa.removeNode] <;> (repeat' split) <;> exact ⟨rfl, rfl⟩
  · cases bm <;> simp only [ResNet.step, ResNet.addChannel, ResNet.removeChannel] <;> (repeat' split) <;>
      exact ⟨rfl, rfl, rfl, rfl⟩

/-- the output layer of an MLP (and of a network head) always has `num_outputs` rows -/
theorem C03_output_layer_shape (m : MLP) (hn : m.noisy = false) :
    (("model." ++ m.name ++ "_linear_layer_output" ++ ".weight", [m.numOutputs, m.hidden.getLastD m.numInputs]) ∈ m.paramShapes) ∧
    (("model." ++ m.name ++ "_linear_layer_output" ++ ".bias", [m.numOutputs]) ∈ m.paramShapes) := by
  simp [MLP.paramShapes, seqParams, linearParams, hn]

/-- network level, every chain: the declared output width (head outputs) never changes and the
    interface encoder-output = latent = head-input (− extra) holds after every step -/
theorem C03_output_shape (p : Policy) (n : Net) (ops : List (List String × Args)) (h : n.Coherent) :
    (n.run p ops).Coherent ∧ (n.run p ops).head.numOutputs = n.head.numOutputs := by
  induction ops generalizing n with
  | nil => exact ⟨h, rfl⟩
  | cons o rest ih =>
    simp only [Net.run, List.foldl_cons]
    cases hs : n.step p o.1 o.2 with
    | none => exact ih n h
    | some r =>
      have hc := Net.step_coherent p n r.1 o.1 o.2 r.2 (by rw [hs]) h
      have := ih r.1 hc.1
      exact ⟨this.1, this.2.trans hc.2.1⟩

/-! ## feature maps of the CNN -/

/-- kernels stay in `[1, 9]` and strides ≥ 1: every size written by add_layer (a valid draw) or by
    change_kernel under the clamping policy lies in the range of `calc_max_kernel_sizes` -/
theorem C03_kernel_bounds (lo : Bool) (c : CNN) (me : CnnMethod) (a : Args)
    (hd : me = .addLayer ∨ (me = .changeKernel ∧ c.channels.length ≤ 1) → c.drawOK .addLayer a = true)
    (hk : ∀ k ∈ c.kernels, 1 ≤ k ∧ k ≤ 9) (hs : ∀ s ∈ c.strides, 1 ≤ s) :
    (∀ k ∈ (c.step { clampKernel := true } lo me a).1.kernels, 1 ≤ k ∧ k ≤ 9) ∧
    (∀ s ∈ (c.step { clampKernel := true } lo me a).1.strides, 1 ≤ s) := by
  have hadd : c.drawOK .addLayer a = true →
      (∀ k ∈ (c.addLayer a).1.kernels, 1 ≤ k ∧ k ≤ 9) ∧ (∀ s ∈ (c.addLayer a).1.strides, 1 ≤ s) := by
    intro hdr
    simp only [CNN.drawOK, Bool.and_eq_true, decide_eq_true_eq] at hdr
    have h9 := getLastD_le9 c.maxKernels (maxKernels_range c)
    unfold CNN.addLayer; split
    · constructor
      · intro k hk'
        simp only [List.mem_append, List.mem_singleton] at hk'
        rcases hk' with hk' | rfl
        · exact hk k hk'
        · omega
      · intro s hs'
        simp only [List.mem_append, List.mem_singleton] at hs'
        rcases hs' with hs' | rfl
        · exact hs s hs'
        · omega
    · unfold CNN.addChannel; simp only; split <;> exact ⟨hk, hs⟩
  have hchan : (∀ k ∈ (c.addChannel a).kernels, 1 ≤ k ∧ k ≤ 9) ∧ (∀ s ∈ (c.addChannel a).strides, 1 ≤ s) := by
    unfold CNN.addChannel; simp only; split <;> exact ⟨hk, hs⟩
  cases me with
  | addLayer => exact hadd (hd (Or.inl rfl))
  | removeLayer =>
    simp only [CNN.step]; split
    · exact ⟨fun k hk' => hk k (List.dropLast_subset _ hk'), fun s hs' => hs s (List.dropLast_subset _ hs')⟩
    · exact hchan
  | changeKernel =>
    simp only [CNN.step]; split
    · refine ⟨?_, hs⟩
      apply forall_mem_set _ _ _ hk
      intro _
      simp only [CNN.kernelTarget, if_true]
      have := getD_range c.maxKernels (min a.klayer (c.kernels.length - 1)) (maxKernels_range c)
      have hcur := getD_range c.kernels (min a.klayer (c.kernels.length - 1)) hk
      have hle := CNN.stepDown_le c (min a.klayer (c.kernels.length - 1))
        (c.kernels.getD (min a.klayer (c.kernels.length - 1)) 1)
        (max 1 (min a.k (c.maxKernels.getD (min a.klayer (c.kernels.length - 1)) 1)) -
          c.kernels.getD (min a.klayer (c.kernels.length - 1)) 1)
        (max 1 (min a.k (c.maxKernels.getD (min a.klayer (c.kernels.length - 1)) 1)))
      have hge := CNN.stepDown_ge c (min a.klayer (c.kernels.length - 1))
        (c.kernels.getD (min a.klayer (c.kernels.length - 1)) 1)
        (max 1 (min a.k (c.maxKernels.getD (min a.klayer (c.kernels.length - 1)) 1)) -
          c.kernels.getD (min a.klayer (c.kernels.length - 1)) 1)
        (max 1 (min a.k (c.maxKernels.getD (min a.klayer (c.kernels.length - 1)) 1)))
      omega
    · rename_i hlen
      split
      · exact hadd (hd (Or.inr ⟨rfl, by omega⟩))
      · exact hchan
  | addChannel => exact hchan
  | removeChannel =>
    simp only [CNN.step]; unfold CNN.removeChannel; simp only; split <;> exact ⟨hk, hs⟩

/-- PARTIAL.  Every feature map stays ≥ 1 (every kernel fits its input) under: add_layer with a
    valid draw (2 ≤ k ≤ last admissible kernel), remove_layer, add_channel, remove_channel — for all
    arguments — and under a change_kernel that does not *enlarge* the kernel it rewrites.  What is
    missing: change_kernel enlarging a kernel.  In the tree of the design round an explicit
    `kernel_size` is written unchecked and the statement is false (`C03_cnn_spatial_witness`); with the
    clamping policy the written size is ≤ a quarter of that layer's own output map
    (`C03_kernel_bounds`), which keeps all maps ≥ 1 on every chain the harness has explored but is
    not proved here for later layers. -/
theorem C03_cnn_spatial_partial (p : Policy) (lo : Bool) (c : CNN) (me : CnnMethod) (a : Args) (hw : c.WF)
    (hsp : c.spatialOK = true)
    (hd : me = .addLayer ∨ (me = .changeKernel ∧ c.channels.length ≤ 1) → c.drawOK .addLayer a = true)
    (hck : me = .changeKernel → 1 < c.channels.length →
        ((c.kernelTarget p a).1 < c.kernels.length → (c.kernelTarget p a).2 ≤ c.kernels.getD (c.kernelTarget p a).1 0)) :
    (c.step p lo me a).1.spatialOK = true := by
  have hchan : (c.addChannel a).spatialOK = true := by
    unfold CNN.addChannel; simp only; split <;> exact hsp
  have hadd : c.drawOK .addLayer a = true → (c.addLayer a).1.spatialOK = true := by
    intro hdr
    unfold CNN.addLayer; split
    · rename_i hg
      simp only [CNN.drawOK, Bool.and_eq_true, decide_eq_true_eq] at hdr
      obtain ⟨⟨⟨hk2, hkmax⟩, hs1⟩, _⟩ := hdr
      simp only [CNN.addLayerGuard, Bool.and_eq_true, decide_eq_true_eq] at hg
      obtain ⟨⟨_, hlast⟩, hmk⟩ := hg
      rw [spatialOK_eq] at hsp ⊢
      simp only
      rw [mapsAux_append c.kernels c.strides _ _ a.k a.stride (by rw [hw.2.2, hw.2.1])]
      rw [List.all_append, hsp, Bool.true_and]
      -- the last feature map and the last admissible kernel
      have hmaps : c.maps = mapsAux c.inH c.inW c.kernels c.strides := rfl
      cases hl : c.maps.getLast? with
      | none => rw [hl] at hlast; simp at hlast
      | some q =>
        rw [hl] at hlast
        simp only [Bool.and_eq_true, decide_eq_true_eq] at hlast
        have hq : (mapsAux (↑c.inH) (↑c.inW) c.kernels c.strides).getLastD (↑c.inH, ↑c.inW) = q := by
          rw [← hmaps, List.getLastD_eq_getLast?, hl]; rfl
        have hmkq : c.maxKernels.getLastD 0 = clampK (min q.1 q.2) := by
          simp [CNN.maxKernels, List.getLastD_eq_getLast?, List.getLast?_map, hl]
        rw [hq]
        rw [hmkq] at hmk hkmax
        have hle := clampK_le (min q.1 q.2) hmk
        have hk1 : (a.k : Int) ≤ q.1 := by omega
        have hk2' : (a.k : Int) ≤ q.2 := by omega
        simp only [List.all_cons, List.all_nil, Bool.and_true, mapOK, Bool.and_eq_true, decide_eq_true_eq, convOut]
        have e1 : 0 ≤ (q.1 - (a.k : Int)) / (a.stride : Int) := Int.ediv_nonneg (by omega) (by omega)
        have e2 : 0 ≤ (q.2 - (a.k : Int)) / (a.stride : Int) := Int.ediv_nonneg (by omega) (by omega)
        omega
    · exact hchan
  cases me with
  | addLayer => exact hadd (hd (Or.inl rfl))
  | removeLayer =>
    simp only [CNN.step]; split
    · rw [spatialOK_eq] at hsp ⊢
      simp only
      rw [mapsAux_dropLast c.kernels c.strides _ _ (by rw [hw.2.2, hw.2.1])]
      rw [List.all_eq_true] at hsp ⊢
      intro x hx
      exact hsp x (List.dropLast_subset _ hx)
    · exact hchan
  | changeKernel =>
    simp only [CNN.step]; split
    · rename_i hlen
      rw [spatialOK_eq] at hsp ⊢
      exact mapsAux_set_le c.kernels c.strides _ _ _ _ (hck rfl hlen) hsp
    · rename_i hlen
      split
      · exact hadd (hd (Or.inr ⟨rfl, by omega⟩))
      · exact hchan
  | addChannel => exact hchan
  | removeChannel =>
    simp only [CNN.step]; unfold CNN.removeChannel; simp only; split <;> exact hsp

/-- 16×16 input, two layers with kernel 3 (maps 14×14 and 12×12), all bounds respected -/
def cnnWitness : CNN :=
  { inC := 2, inH := 16, inW := 16, numOutputs := 3, channels := [2, 2], kernels := [3, 3], strides := [1, 1],
    minLayers := 1, maxLayers := 3, minCh := 2, maxCh := 6 }

/-- the unconditional statement is false for the tree of the design round: `change_kernel` with the
    explicit arguments `kernel_size = 15, hidden_layer = 1` (explicit arguments are what
    `architecture_mutate` hands to the other evaluation networks) writes a 15×15 kernel onto the 14×14
    map of the first layer: feature map ≤ 0, and the real module raises when it is re-created
    (replayed by the harness probe `C03-cnn-explicit-kernel-unchecked`) -/
theorem C03_cnn_spatial_witness :
    ¬ (∀ (c : CNN) (a : Args), c.WF → c.InBounds → c.spatialOK = true →
        (c.step { clampKernel := false } true .changeKernel a).1.spatialOK = true) := by
  intro h
  have := h cnnWitness { k := 15, klayer := 1 } (by decide) (by decide) (by decide)
  revert this
  decide

/-- with the clamp the same call is harmless: the kernel written is ≤ 3 = a quarter of the 12×12 map -/
example : (cnnWitness.step { clampKernel := true } true .changeKernel { k := 15, klayer := 1 }).1.kernels = [3, 3] ∧
    (cnnWitness.step { clampKernel := true } true .changeKernel { k := 15, klayer := 1 }).1.spatialOK = true := by
  decide

/-- FULL, for the repaired `change_kernel_size` (`fitLater`: an enlarged kernel is stepped down until
    `_later_layers_fit` holds): every method with every argument takes a configuration in which every
    kernel fits its input (all feature maps ≥ 1) to such a configuration — for ALL input sizes, strides,
    kernel lists, layer indices and candidate sizes.  `change_kernel` ends with a kernel that is not larger
    than the current one (the maps only grow: `mapsAux_set_le`) or for which the walk of
    `_later_layers_fit` succeeds, and that walk IS validity (`fitsAux_spatial`).  `add_layer` appends a LAST
    layer (no later layer to re-validate) whose kernel is ≤ a quarter of the map it reads. -/
theorem C03_cnn_spatial_change_kernel (p : Policy) (hp : p.clampKernel = true) (hf : p.fitLater = true)
    (lo : Bool) (c : CNN) (me : CnnMethod) (a : Args) (hw : c.WF) (hsp : c.spatialOK = true)
    (hd : me = .addLayer ∨ (me = .changeKernel ∧ c.channels.length ≤ 1) → c.drawOK .addLayer a = true) :
    (c.step p lo me a).1.spatialOK = true := by
  by_cases hck : me = .changeKernel ∧ 1 < c.channels.length
  · obtain ⟨rfl, hlen⟩ := hck
    simp only [CNN.step, gt_iff_lt, hlen, if_true, CNN.kernelTarget, hp, hf]
    apply CNN.set_kernel_spatial c _ _ hsp
    exact CNN.stepDown_spec c _ _ _ _ (Nat.le_refl _)
  · exact C03_cnn_spatial_partial p lo c me a hw hsp hd
      (fun h1 h2 => absurd ⟨h1, h2⟩ hck)

/-- every draw / explicit argument along a chain is one the code can make: `add_layer` (also reached from
    `change_kernel` on a single-layer network) draws its kernel in `2 … max_kernels[-1]` and its stride in
    `1 … stride[-1]` -/
def cnnChainDrawsOK (p : Policy) (lo : Bool) : CNN → List (CnnMethod × Args) → Prop
  | _, [] => True
  | c, o :: rest =>
    ((o.1 = .addLayer ∨ (o.1 = .changeKernel ∧ c.channels.length ≤ 1)) → c.drawOK .addLayer o.2 = true) ∧
    cnnChainDrawsOK p lo (c.step p lo o.1 o.2).1 rest

/-- … hence along every chain of mutation methods: a spatially valid CNN stays spatially valid -/
theorem C03_cnn_spatial_invariant (p : Policy) (hp : p.clampKernel = true) (hf : p.fitLater = true) (lo : Bool)
    (c : CNN) (ops : List (CnnMethod × Args)) (hw : c.WF) (hsp : c.spatialOK = true)
    (hd : cnnChainDrawsOK p lo c ops) : (c.run p lo ops).spatialOK = true := by
  induction ops generalizing c with
  | nil => simpa only [CNN.run, List.foldl_nil] using hsp
  | cons o rest ih =>
    simp only [CNN.run, List.foldl_cons]
    exact ih _ (CNN.step_wf p lo c o.1 o.2 hw) (C03_cnn_spatial_change_kernel p hp hf lo c o.1 o.2 hw hsp hd.1) hd.2

/-- 8×8 input, kernels (1, 1, 8): maps 8×8, 8×8, 1×1 — valid, all kernels in 1…9 -/
def cnnDownstream : CNN :=
  { inC := 2, inH := 8, inW := 8, numOutputs := 3, channels := [2, 2, 2], kernels := [1, 1, 8], strides := [1, 1, 1],
    minLayers := 1, maxLayers := 3, minCh := 2, maxCh := 6 }

/-- the tree as found in round 5 (`fitLater = false`: clamp only): `change_kernel` on layer 1 with the size 2,
    which lies INSIDE the range of the method's own random draw (`max_kernels[1] = ⌊8/4⌋ = 2`, layer 1 is a layer
    the method draws), shrinks the input of layer 2 to 7×7 under its 8×8 kernel: the configuration is no
    longer valid, and the real module raised in `recreate_network` (harness probe
    `C03-cnn-change-kernel-downstream`).  The bound of `calc_max_kernel_sizes` only protects the layer that is
    changed. -/
theorem C03_cnn_spatial_change_kernel_witness :
    ¬ (∀ (c : CNN) (a : Args), c.WF → c.InBounds → c.spatialOK = true → (∀ k ∈ c.kernels, 1 ≤ k ∧ k ≤ 9) →
        (Basic.cnn c).drawsOK { fitLater := false } true "change_kernel" a {} = true →
        (c.step { fitLater := false } true .changeKernel a).1.spatialOK = true) := by
  intro h
  have := h cnnDownstream { k := 2, klayer := 1 } (by decide) (by decide) (by decide) (by decide) (by decide)
  revert this
  decide

/-- the repaired code on the same call: 2 does not fit, the loop steps down to the current size 1 -/
example : cnnDownstream.laterFit 1 2 = false ∧
    (cnnDownstream.step {} true .changeKernel { k := 2, klayer := 1 }).1.kernels = [1, 1, 8] ∧
    (cnnDownstream.step {} true .changeKernel { k := 2, klayer := 1 }).1.spatialOK = true := by decide
/-- … and an enlargement that fits is kept: 16×16, kernels (1, 3): layer 0 may grow to 4 (maps 13, 11) -/
example : (({ cnnWitness with kernels := [1, 3] } : CNN).step {} true .changeKernel { k := 7, klayer := 0 }).1.kernels = [4, 3] := by
  decide

/-! ## non-vacuity: concrete states satisfy the hypotheses and exercise guards and fallbacks -/

def mlp0 : MLP := { numInputs := 3, numOutputs := 2, hidden := [2], minLayers := 1, maxLayers := 2, minNodes := 2, maxNodes := 4 }

example : mlp0.WF ∧ mlp0.InBounds := by decide
-- add_layer, then add_layer at the maximum falls back on add_node (draw: layer 1, +2 nodes)
example : (mlp0.step .addLayer {}).2 = .addLayer ∧
    (((mlp0.step .addLayer {}).1).step .addLayer { layer := 1, n := 2 }).2 = .addNode ∧
    (((mlp0.step .addLayer {}).1).step .addLayer { layer := 1, n := 2 }).1.hidden = [2, 4] := by decide
-- the `<=` of add_node lets a width reach the maximum, the `>` of remove_node never reaches the minimum
example : (mlp0.run [(.addNode, { n := 2 }), (.addNode, { n := 1 }), (.removeNode, { n := 2 }), (.removeNode, { n := 1 })]).hidden = [3] := by
  decide
example : cnnWitness.WF ∧ cnnWitness.InBounds ∧ cnnWitness.spatialOK = true ∧ cnnWitness.maxKernels = [3, 3] := by decide
-- a single-layer CNN encoder (layer mutations disabled): change_kernel becomes add_channel
example : (({ cnnWitness with channels := [2], kernels := [3], strides := [1] } : CNN).step {} false .changeKernel
            { layer := 0, n := 2 }).2 = .addChannel := by decide
-- ResNet's strict guard: 3 + 2 = max is refused, 3 + 1 is applied
example : (({ inC := 2, inH := 8, inW := 8, numOutputs := 2, channel := 3, kernel := 3, stride := 1, numBlocks := 1,
              minCh := 2, maxCh := 5 } : ResNet).step .addNode { n := 2 }).1.channel = 3 := by decide
def net0 : Net :=
  { lat := { dim := 4, minDim := 2, maxDim := 8 },
    enc := .basic (.mlp { name := "encoder", numInputs := 3, numOutputs := 4, hidden := [3], minLayers := 1,
                          maxLayers := 2, minNodes := 2, maxNodes := 4 }),
    head := { name := "value", numInputs := 4, numOutputs := 3, hidden := [2], minLayers := 1, maxLayers := 2,
              minNodes := 2, maxNodes := 4 } }
example : net0.InBounds ∧ net0.Coherent := by
  refine ⟨⟨by decide, ⟨by decide, by decide⟩, by decide, by decide⟩, by decide⟩
example : ((net0.run {} [(["add_latent_node"], { n := 2 }), (["encoder", "add_node"], { n := 1 }),
                         (["head_net", "add_layer"], {})]).lat.dim,
           (net0.run {} [(["add_latent_node"], { n := 2 }), (["encoder", "add_node"], { n := 1 }),
                         (["head_net", "add_layer"], {})]).head.numInputs,
           (net0.run {} [(["add_latent_node"], { n := 2 }), (["encoder", "add_node"], { n := 1 }),
                         (["head_net", "add_layer"], {})]).head.hidden) = (6, 6, [2, 2]) := by decide

open ArchGen
set_option linter.unusedSimpArgs false

/-! ## source translation (`Gen/ArchGen.lean` ← the `@mutation` methods of the tree under test)

`harness/py2lean_arch.py` translates the source text of the architecture-mutation methods of
EvolvableMLP, EvolvableCNN (+ the kernel-size helper `MutableKernelSizes`), EvolvableLSTM, EvolvableSimBa,
EvolvableResNet and EvolvableNetwork (latent width) into `Gen/ArchGen.lean`; `Proofs/ArchGenEq.lean` proves
each generated method equal to the model's `step` (next state, returned dict, method that took effect)
and the draws it accepts equal to `Basic.drawsOK`.  The statements below mention the generated
functions, so a change of the source that alters their meaning breaks them. -/
section source_translation

/-- every generated method equals the hand-written state machine, for all states with a non-empty
    layer list, all arguments (explicit or drawn); the advertised kinds are the model's -/
theorem C03_source_translation_equalities (p : Policy) (lo : Bool) (a : Args) (x : Flags) :
    (∀ (m : MLP) (me : MlpMethod), m.hidden ≠ [] →
      mlpCall me m.toGen a x =
        if (Basic.mlp m).drawsOK p lo me.str a (me.flags x) then
          some ((m.step me a).1.toGen, mlpRet m me a, (m.step me a).2.name) else none) ∧
    (∀ (l : LSTM) (me : MlpMethod),
      lstmCall me l.toGen a x =
        if (Basic.lstm l).drawsOK p lo me.str a (me.flags x) then
          some ((l.step me a).1.toGen, lstmRet l me a, (l.step me a).2.name) else none) ∧
    (∀ (s : SimBa) (me : BlockMethod),
      simbaCall me s.toGen a x =
        if (Basic.simba s).drawsOK p lo me.simbaStr a (me.flags x) then
          some ((s.step me a).1.toGen, simbaRet s me a, (s.step me a).2.name) else none) ∧
    (∀ (r : ResNet) (me : BlockMethod),
      resnetCall me r.toGen a x =
        if (Basic.resnet r).drawsOK p lo me.resnetStr a (me.flags x) then
          some ((r.step me a).1.toGen, resnetRet r me a, (r.step me a).2.name) else none) ∧
    (∀ (l : Latent) (me : LatentMethod),
      latentCall me l.toGen a x =
        if latentDrawOK a x then
          some ((l.step me a).1.toGen, amountRet "numb_new_nodes" a, (l.step me a).2.name) else none) ∧
    (∀ (kcalc : List Int → List Int → List Int → List Int → List Int)
       (kfit : MutableKernelSizes.State → Int → Int → List Int → List Int → Option Bool) (c : CNN) (me : CnnMethod)
       (out : List Int) (mm : List String), p.clampKernel = true → p.fitLater = true → c.WF → c.channels ≠ [] →
       pySlice out (some (-2)) none = c.lastMap →
       kcalc (ofNats c.channels) (ofNats c.kernels) (ofNats c.strides) [(c.inC : Int), (c.inH : Int), (c.inW : Int)]
         = ofNats c.maxKernels →
       (∀ j knew : Nat, kfit { sizes := ofNats c.kernels } (j : Int) (knew : Int) (ofNats c.strides)
         [(c.inC : Int), (c.inH : Int), (c.inW : Int)] = some (c.laterFit j knew)) →
      cnnCall kcalc kfit me (c.toGen out mm) a x =
        if (Basic.cnn c).drawsOK p (decide ("add_layer" ∈ mm)) me.str a (me.flags x) then
          some ((c.step p (decide ("add_layer" ∈ mm)) me a).1.toGen out mm,
                cnnRet p (decide ("add_layer" ∈ mm)) c me a,
                (c.step p (decide ("add_layer" ∈ mm)) me a).2.name) else none) :=
  ⟨fun m me hne => gen_mlp_step_eq p lo m hne me a x, fun l me => gen_lstm_step_eq p lo l me a x,
   fun s me => gen_simba_step_eq p lo s me a x, fun r me => gen_resnet_step_eq p lo r me a x,
   fun l me => gen_latent_step_eq l me a x,
   fun kcalc kfit c me out mm hp hp2 hw hne hout hcalc hfit =>
     gen_cnn_step_eq kcalc kfit p hp hp2 c hw hne out mm hout hcalc hfit me a x⟩

/-- the `@mutation(MutationType.X)` kinds read from the decorators are the layer / node method lists
    the model advertises -/
theorem C03_source_translation_method_kinds (m : MLP) (c : CNN) (l : LSTM) (s : SimBa) (r : ResNet) :
    (kindNames EvolvableMLP.mutationTypes "LAYER" = (Basic.mlp m).layerMethods ∧
     kindNames EvolvableMLP.mutationTypes "NODE" = (Basic.mlp m).nodeMethods) ∧
    (kindNames EvolvableCNN.mutationTypes "LAYER" = (Basic.cnn c).layerMethods ∧
     kindNames EvolvableCNN.mutationTypes "NODE" = (Basic.cnn c).nodeMethods) ∧
    (kindNames EvolvableLSTM.mutationTypes "LAYER" = (Basic.lstm l).layerMethods ∧
     kindNames EvolvableLSTM.mutationTypes "NODE" = (Basic.lstm l).nodeMethods) ∧
    (kindNames EvolvableSimBa.mutationTypes "LAYER" = (Basic.simba s).layerMethods ∧
     kindNames EvolvableSimBa.mutationTypes "NODE" = (Basic.simba s).nodeMethods) ∧
    (kindNames EvolvableResNet.mutationTypes "LAYER" = (Basic.resnet r).layerMethods ∧
     kindNames EvolvableResNet.mutationTypes "NODE" = (Basic.resnet r).nodeMethods) ∧
    kindNames EvolvableNetwork.mutationTypes "NODE" = ["add_latent_node", "remove_latent_node"] :=
  gen_mutation_types_eq m c l s r

/-! ### chains of translated calls -/

/-- a chain of calls of the translated methods; `none` = a call raised / a draw was impossible -/
def mlpGenRun (s : EvolvableMLP.State) : List (MlpMethod × Args × Flags) → Option EvolvableMLP.State
  | [] => some s
  | o :: rest =>
    match mlpCall o.1 s o.2.1 o.2.2 with
    | none => none
    | some r => mlpGenRun r.1 rest

theorem mlpGenRun_eq (m : MLP) (hw : m.WF) (h : m.InBounds) (ops : List (MlpMethod × Args × Flags))
    (s' : EvolvableMLP.State) (hr : mlpGenRun m.toGen ops = some s') :
    s' = (m.run (ops.map (fun o => (o.1, o.2.1)))).toGen := by
  induction ops generalizing m with
  | nil => simp only [mlpGenRun, Option.some.injEq] at hr; simp only [MLP.run, List.map_nil, List.foldl_nil]; exact hr.symm
  | cons o rest ih =>
    simp only [mlpGenRun, gen_mlp_step_eq {} true m (MLP.hidden_ne_nil m hw h) o.1 o.2.1 o.2.2] at hr
    split at hr
    · cases hr
    · rename_i r hs
      split at hs
      · cases hs
        have := ih (m.step o.1 o.2.1).1 (MLP.step_wf m o.1 o.2.1 hw) (MLP.step_inBounds m o.1 o.2.1 hw h) hr
        simpa only [MLP.run, List.map_cons, List.foldl_cons] using this
      · cases hs

/-- `C03_bounds_invariant_mlp` over the translated methods: whatever chain of add_layer / remove_layer /
    add_node / remove_node the code executes (explicit arguments or draws, through the `add_node`
    fallbacks), the fields it ends with satisfy `min_hidden_layers ≤ len(hidden_size) ≤ max_hidden_layers`
    and `min_mlp_nodes ≤ width ≤ max_mlp_nodes` -/
theorem C03_source_translation_bounds_mlp (m : MLP) (hw : m.WF) (h : m.InBounds)
    (ops : List (MlpMethod × Args × Flags)) (s' : EvolvableMLP.State) (hr : mlpGenRun m.toGen ops = some s') :
    mlpStateOK s' := by
  rw [mlpGenRun_eq m hw h ops s' hr]
  have := C03_bounds_invariant_mlp m (ops.map (fun o => (o.1, o.2.1))) hw h
  exact MLP.toGen_ok _ this.2 this.1

/-- one translated call of EvolvableCNN followed by `recreate_network`, which refreshes `cnn_output_size`
    (a runtime attribute the methods read but never write) -/
def cnnGenRun (kcalc : List Int → List Int → List Int → List Int → List Int)
    (kfit : MutableKernelSizes.State → Int → Int → List Int → List Int → Option Bool) (recreate : EvolvableCNN.State → List Int)
    (s : EvolvableCNN.State) : List (CnnMethod × Args × Flags) → Option EvolvableCNN.State
  | [] => some s
  | o :: rest =>
    match cnnCall kcalc kfit o.1 s o.2.1 o.2.2 with
    | none => none
    | some r => cnnGenRun kcalc kfit recreate { r.1 with cnn_output_size := recreate r.1 } rest

theorem cnnGenRun_eq (kcalc : List Int → List Int → List Int → List Int → List Int)
    (kfit : MutableKernelSizes.State → Int → Int → List Int → List Int → Option Bool) (recreate : EvolvableCNN.State → List Int) (mm : List String)
    (hcalc : ∀ c : CNN, kcalc (ofNats c.channels) (ofNats c.kernels) (ofNats c.strides)
      [(c.inC : Int), (c.inH : Int), (c.inW : Int)] = ofNats c.maxKernels)
    (hfit : ∀ (c : CNN) (j knew : Nat), kfit { sizes := ofNats c.kernels } (j : Int) (knew : Int) (ofNats c.strides)
      [(c.inC : Int), (c.inH : Int), (c.inW : Int)] = some (c.laterFit j knew))
    (hrec : ∀ (c : CNN) (out : List Int), pySlice (recreate (c.toGen out mm)) (some (-2)) none = c.lastMap)
    (c : CNN) (out : List Int) (hw : c.WF) (h : c.InBounds) (hout : pySlice out (some (-2)) none = c.lastMap)
    (ops : List (CnnMethod × Args × Flags)) (s' : EvolvableCNN.State)
    (hr : cnnGenRun kcalc kfit recreate (c.toGen out mm) ops = some s') :
    ∃ out', s' = (c.run {} (decide ("add_layer" ∈ mm)) (ops.map (fun o => (o.1, o.2.1)))).toGen out' mm := by
  induction ops generalizing c out with
  | nil =>
    simp only [cnnGenRun, Option.some.injEq] at hr
    exact ⟨out, by simp only [CNN.run, List.map_nil, List.foldl_nil]; exact hr.symm⟩
  | cons o rest ih =>
    simp only [cnnGenRun, gen_cnn_step_eq kcalc kfit {} rfl rfl c hw (CNN.channels_ne_nil c hw h) out mm hout (hcalc c)
      (hfit c) o.1 o.2.1 o.2.2] at hr
    split at hr
    · cases hr
    · rename_i r hs
      split at hs
      · cases hs
        have hstep : ({ (c.step {} (decide ("add_layer" ∈ mm)) o.1 o.2.1).1.toGen out mm with
              cnn_output_size := recreate ((c.step {} (decide ("add_layer" ∈ mm)) o.1 o.2.1).1.toGen out mm) } :
              EvolvableCNN.State) =
            (c.step {} (decide ("add_layer" ∈ mm)) o.1 o.2.1).1.toGen
              (recreate ((c.step {} (decide ("add_layer" ∈ mm)) o.1 o.2.1).1.toGen out mm)) mm := rfl
        rw [hstep] at hr
        obtain ⟨out', ho⟩ := ih (c.step {} (decide ("add_layer" ∈ mm)) o.1 o.2.1).1 _
          (CNN.step_wf _ _ c o.1 o.2.1 hw) (CNN.step_inBounds _ _ c o.1 o.2.1 hw h) (hrec _ _) hr
        exact ⟨out', by simpa only [CNN.run, List.map_cons, List.foldl_cons] using ho⟩
      · cases hs

/-- `C03_bounds_invariant_cnn` over the translated methods: after any chain of add_layer / remove_layer /
    change_kernel / add_channel / remove_channel (through change_kernel → add_layer → add_channel), the
    number of layers and every channel count lie inside the declared bounds and the three per-layer
    lists (channels, kernel sizes, strides) have equal lengths — provided the external
    `calc_max_kernel_sizes` and the refreshed `cnn_output_size` agree with the feature-map arithmetic
    (satisfiable: `refCalc_spec`, `refOut_spec`) -/
theorem C03_source_translation_bounds_cnn (kcalc : List Int → List Int → List Int → List Int → List Int)
    (kfit : MutableKernelSizes.State → Int → Int → List Int → List Int → Option Bool) (recreate : EvolvableCNN.State → List Int) (mm : List String)
    (hcalc : ∀ c : CNN, kcalc (ofNats c.channels) (ofNats c.kernels) (ofNats c.strides)
      [(c.inC : Int), (c.inH : Int), (c.inW : Int)] = ofNats c.maxKernels)
    (hfit : ∀ (c : CNN) (j knew : Nat), kfit { sizes := ofNats c.kernels } (j : Int) (knew : Int) (ofNats c.strides)
      [(c.inC : Int), (c.inH : Int), (c.inW : Int)] = some (c.laterFit j knew))
    (hrec : ∀ (c : CNN) (out : List Int), pySlice (recreate (c.toGen out mm)) (some (-2)) none = c.lastMap)
    (c : CNN) (out : List Int) (hw : c.WF) (h : c.InBounds) (hout : pySlice out (some (-2)) none = c.lastMap)
    (ops : List (CnnMethod × Args × Flags)) (s' : EvolvableCNN.State)
    (hr : cnnGenRun kcalc kfit recreate (c.toGen out mm) ops = some s') : cnnStateOK s' := by
  obtain ⟨out', rfl⟩ := cnnGenRun_eq kcalc kfit recreate mm hcalc hfit hrec c out hw h hout ops s' hr
  have := C03_bounds_invariant_cnn {} (decide ("add_layer" ∈ mm)) c (ops.map (fun o => (o.1, o.2.1))) hw h
  exact CNN.toGen_ok _ _ _ this.2 this.1

/-- the hypotheses of `C03_source_translation_bounds_cnn` are met by the model's own arithmetic -/
example : (∀ c : CNN, refCalc (ofNats c.channels) (ofNats c.kernels) (ofNats c.strides)
      [(c.inC : Int), (c.inH : Int), (c.inW : Int)] = ofNats c.maxKernels) ∧
    (∀ (c : CNN) (j knew : Nat), refFit { sizes := ofNats c.kernels } (j : Int) (knew : Int) (ofNats c.strides)
      [(c.inC : Int), (c.inH : Int), (c.inW : Int)] = some (c.laterFit j knew)) ∧
    (∀ (c : CNN) (out : List Int), pySlice (refOut (c.toGen out ["add_layer"])) (some (-2)) none = c.lastMap) :=
  ⟨refCalc_spec, refFit_spec, fun c out => refOut_spec c out _⟩

/-- single calls of the scalar blocks (LSTM, SimBa, ResNet, latent width of EvolvableNetwork): a state
    inside its bounds is taken to a state inside its bounds by every translated method, with every
    argument — hence by every chain -/
theorem C03_source_translation_bounds_scalar (a : Args) (x : Flags) :
    (∀ (l : LSTM) (me : MlpMethod) r, l.InBounds → lstmCall me l.toGen a x = some r →
        ∃ l' : LSTM, r.1 = l'.toGen ∧ l'.InBounds ∧ lstmStateOK r.1) ∧
    (∀ (s : SimBa) (me : BlockMethod) r, s.InBounds → simbaCall me s.toGen a x = some r →
        ∃ s' : SimBa, r.1 = s'.toGen ∧ s'.InBounds ∧ simbaStateOK r.1) ∧
    (∀ (q : ResNet) (me : BlockMethod) r, q.InBounds → resnetCall me q.toGen a x = some r →
        ∃ q' : ResNet, r.1 = q'.toGen ∧ q'.InBounds ∧ resnetStateOK r.1) ∧
    (∀ (t : Latent) (me : LatentMethod) r, t.InBounds → latentCall me t.toGen a x = some r →
        ∃ t' : Latent, r.1 = t'.toGen ∧ t'.InBounds ∧ latentStateOK r.1) := by
  refine ⟨?_, ?_, ?_, ?_⟩
  · intro l me r hb hr
    rw [gen_lstm_step_eq {} true l me a x] at hr
    split at hr
    · cases hr
      exact ⟨_, rfl, LSTM.step_inBounds l me a hb, LSTM.toGen_ok _ (LSTM.step_inBounds l me a hb)⟩
    · cases hr
  · intro s me r hb hr
    rw [gen_simba_step_eq {} true s me a x] at hr
    split at hr
    · cases hr
      exact ⟨_, rfl, SimBa.step_inBounds s me a hb, SimBa.toGen_ok _ (SimBa.step_inBounds s me a hb)⟩
    · cases hr
  · intro q me r hb hr
    rw [gen_resnet_step_eq {} true q me a x] at hr
    split at hr
    · cases hr
      exact ⟨_, rfl, ResNet.step_inBounds q me a hb, ResNet.toGen_ok _ (ResNet.step_inBounds q me a hb)⟩
    · cases hr
  · intro t me r hb hr
    rw [gen_latent_step_eq t me a x] at hr
    split at hr
    · cases hr
      exact ⟨_, rfl, Latent.step_inBounds t me a hb, Latent.toGen_ok _ (Latent.step_inBounds t me a hb)⟩
    · cases hr

/-! ### a refused mutation leaves the fields unchanged or falls back as documented; the dict names what was used -/

/-- EvolvableMLP at its HARD LIMITs, on the translated methods.  `add_layer` with the maximum number of
    layers IS `add_node` with the drawn arguments (same fields, same dict, `add_node` reported), below the
    maximum it appends a copy of the last width and returns `None`; likewise `remove_layer` at the
    minimum.  `add_node` / `remove_node` whose guard fails (`width + n > max_mlp_nodes`,
    `width − n ≤ min_mlp_nodes`) return every field unchanged, and otherwise change exactly the width at the
    clamped index by exactly `n`; in both cases the dict names that index and that `n`. -/
theorem C03_source_translation_hard_limit_mlp (m : MLP) (hne : m.hidden ≠ []) (a : Args) (x : Flags)
    (hd : nodeDrawOK [16, 32, 64] m.hidden.length true a x = true)
    (i v : Nat) (hi : i = min a.layer (m.hidden.length - 1)) (hv : v = m.hidden.getD i 0)
    (dict : Ret) (hdict : dict = [("hidden_layer", (i : Int)), ("numb_new_nodes", (a.n : Int))]) :
    (¬ m.hidden.length < m.maxLayers →
        EvolvableMLP.add_layer m.toGen a.layer a.n = EvolvableMLP.add_node m.toGen none none a.layer a.n) ∧
    (m.hidden.length < m.maxLayers →
        EvolvableMLP.add_layer m.toGen a.layer a.n =
          some ({ m.toGen with hidden_size := m.toGen.hidden_size ++ [((m.hidden.getLastD 0 : Nat) : Int)] }, [], "add_layer")) ∧
    (¬ m.hidden.length > m.minLayers →
        EvolvableMLP.remove_layer m.toGen a.layer a.n = EvolvableMLP.add_node m.toGen none none a.layer a.n) ∧
    (m.hidden.length > m.minLayers →
        EvolvableMLP.remove_layer m.toGen a.layer a.n =
          some ({ m.toGen with hidden_size := m.toGen.hidden_size.dropLast }, [], "remove_layer")) ∧
    (¬ v + a.n ≤ m.maxNodes →
        EvolvableMLP.add_node m.toGen (argOpt x.xl a.layer) (argOpt x.xn a.n) a.layer a.n = some (m.toGen, dict, "add_node")) ∧
    (v + a.n ≤ m.maxNodes →
        EvolvableMLP.add_node m.toGen (argOpt x.xl a.layer) (argOpt x.xn a.n) a.layer a.n =
          some ({ m.toGen with hidden_size := m.toGen.hidden_size.set i ((v : Int) + (a.n : Int)) }, dict, "add_node")) ∧
    (¬ v > m.minNodes + a.n →
        EvolvableMLP.remove_node m.toGen (argOpt x.xl a.layer) (argOpt x.xn a.n) a.layer a.n =
          some (m.toGen, dict, "remove_node")) ∧
    (v > m.minNodes + a.n →
        EvolvableMLP.remove_node m.toGen (argOpt x.xl a.layer) (argOpt x.xn a.n) a.layer a.n =
          some ({ m.toGen with hidden_size := m.toGen.hidden_size.set i ((v : Int) - (a.n : Int)) }, dict, "remove_node")) := by
  subst hi; subst hv; subst hdict
  refine ⟨?_, ?_, ?_, ?_, ?_, ?_, ?_, ?_⟩
  · intro h
    rw [gen_mlp_add_layer_eq m hne a, gen_mlp_add_node_draws m hne a, if_neg h]
  · intro h
    rw [gen_mlp_add_layer_eq m hne a, if_pos h]
    simp only [MLP.toGen, ofNats_append_one]
  · intro h
    rw [gen_mlp_remove_layer_eq m hne a, gen_mlp_add_node_draws m hne a, if_neg h]
  · intro h
    rw [gen_mlp_remove_layer_eq m hne a, if_pos h]
    simp only [MLP.toGen, ofNats_dropLast]
  · intro h
    rw [gen_mlp_add_node_eq m hne a x, if_pos hd, MLP.addNode_toGen, if_neg h]; rfl
  · intro h
    rw [gen_mlp_add_node_eq m hne a x, if_pos hd, MLP.addNode_toGen, if_pos h]
    simp only [MLP.toGen, ofNats_set, Int.natCast_add]; rfl
  · intro h
    rw [gen_mlp_remove_node_eq m hne a x, if_pos hd, MLP.removeNode_toGen, if_neg h]; rfl
  · intro h
    have hle : a.n ≤ m.hidden.getD (min a.layer (m.hidden.length - 1)) 0 := by omega
    rw [gen_mlp_remove_node_eq m hne a x, if_pos hd, MLP.removeNode_toGen, if_pos h]
    simp only [MLP.toGen, ofNats_set, Int.natCast_sub hle]; rfl

/-- the same for the scalar blocks, stated through the model's `step` (whose guards are spelled out in
    `C03_advertised_effect_scalar`): the translated call returns the model's next state, and when the
    model's state does not move, neither do the fields — e.g. `add_latent_node` with
    `latent_dim + n ≥ max_latent_dim` and ResNet's `add_channel` with `channel_size + n ≥ max_channel_size`
    (strict guards), LSTM's `remove_node` with `hidden_size − n < min_hidden_size` -/
theorem C03_source_translation_hard_limit_scalar (a : Args) (x : Flags) (hd : latentDrawOK a x = true)
    (t : Latent) (q : ResNet) (l : LSTM)
    (hq : nodeDrawOK [8, 16, 32] 0 false a x = true) (hl : nodeDrawOK [16, 32, 64] 0 false a x = true) :
    (¬ t.dim + a.n < t.maxDim →
      EvolvableNetwork.add_latent_node t.toGen (argOpt x.xn a.n) a.n =
        some (t.toGen, [("numb_new_nodes", (a.n : Int))], "add_latent_node")) ∧
    (t.dim + a.n < t.maxDim →
      EvolvableNetwork.add_latent_node t.toGen (argOpt x.xn a.n) a.n =
        some ({ t.toGen with latent_dim := (t.dim : Int) + (a.n : Int) }, [("numb_new_nodes", (a.n : Int))], "add_latent_node")) ∧
    (¬ t.dim > t.minDim + a.n →
      EvolvableNetwork.remove_latent_node t.toGen (argOpt x.xn a.n) a.n =
        some (t.toGen, [("numb_new_nodes", (a.n : Int))], "remove_latent_node")) ∧
    (¬ q.channel + a.n < q.maxCh →
      EvolvableResNet.add_channel q.toGen (argOpt x.xn a.n) a.n =
        some (q.toGen, [("numb_new_channels", (a.n : Int))], "add_channel")) ∧
    (¬ l.hidden ≥ l.minHidden + a.n →
      EvolvableLSTM.remove_node l.toGen (argOpt x.xn a.n) a.n =
        some (l.toGen, [("numb_new_nodes", (a.n : Int))], "remove_node")) ∧
    (¬ l.numLayers < l.maxLayers →
      EvolvableLSTM.add_layer l.toGen a.n = EvolvableLSTM.add_node l.toGen none a.n) := by
  have e1 := gen_latent_step_eq t .add a x
  have e2 := gen_latent_step_eq t .remove a x
  have e3 := gen_resnet_step_eq {} true q .addNode a x
  have e4 := gen_lstm_step_eq {} true l .removeNode a x
  simp only [latentCall, hd, if_true, Latent.step, Applied.name, amountRet] at e1 e2
  simp only [resnetCall, Basic.drawsOK, BlockMethod.resnetStr, resnetMethod?, BlockMethod.flags, hq, if_true, ResNet.step,
    ResNet.addChannel, resnetRet, Applied.name, amountRet] at e3
  simp only [lstmCall, Basic.drawsOK, MlpMethod.str, mlpMethod?, MlpMethod.flags, hl, if_true, LSTM.step,
    LSTM.removeNode, lstmRet, Applied.name, amountRet] at e4
  refine ⟨?_, ?_, ?_, ?_, ?_, ?_⟩
  · intro h; rw [e1, if_neg h]
  · intro h; rw [e1, if_pos h]; simp only [Latent.toGen, Int.natCast_add]
  · intro h; rw [e2, if_neg h]
  · intro h; rw [e3, if_neg h]
  · intro h; rw [e4, if_neg h]
  · intro h
    simp only [EvolvableLSTM.add_layer, LSTM.toGen, Int.ofNat_lt, h, if_false]

/-- EvolvableCNN, on the translated methods: the dict of `add_channel` / `remove_channel` names the clamped
    layer and the amount REALLY applied (`remove_channel` reports `0` when `min_channel_size` stops it and
    then leaves every field unchanged); `remove_layer` at the minimum and `change_kernel` on a single-layer
    network fall back as documented (`add_channel`; `add_layer` if the layer mutations are enabled) -/
theorem C03_source_translation_hard_limit_cnn (kcalc : List Int → List Int → List Int → List Int → List Int)
    (kfit : MutableKernelSizes.State → Int → Int → List Int → List Int → Option Bool)
    (c : CNN) (hne : c.channels ≠ []) (out : List Int) (mm : List String) (a : Args) (x : Flags)
    (hd : nodeDrawOK [8, 16, 32] c.channels.length true a x = true)
    (i v : Nat) (hi : i = min a.layer (c.channels.length - 1)) (hv : v = c.channels.getD i 0) :
    (¬ v ≥ c.minCh + a.n →
      EvolvableCNN.remove_channel (c.toGen out mm) (argOpt x.xl a.layer) (argOpt x.xn a.n) a.layer a.n =
        some (c.toGen out mm, [("hidden_layer", (i : Int)), ("numb_new_channels", 0)], "remove_channel")) ∧
    (v ≥ c.minCh + a.n →
      EvolvableCNN.remove_channel (c.toGen out mm) (argOpt x.xl a.layer) (argOpt x.xn a.n) a.layer a.n =
        some ({ c.toGen out mm with channel_size := (c.toGen out mm).channel_size.set i ((v : Int) - (a.n : Int)) },
              [("hidden_layer", (i : Int)), ("numb_new_channels", (a.n : Int))], "remove_channel")) ∧
    (¬ v + a.n ≤ c.maxCh →
      EvolvableCNN.add_channel (c.toGen out mm) (argOpt x.xl a.layer) (argOpt x.xn a.n) a.layer a.n =
        some (c.toGen out mm, [("hidden_layer", (i : Int)), ("numb_new_channels", (a.n : Int))], "add_channel")) ∧
    (¬ c.channels.length > c.minLayers →
      EvolvableCNN.remove_layer (c.toGen out mm) a.layer a.n =
        EvolvableCNN.add_channel (c.toGen out mm) none none a.layer a.n) ∧
    (¬ c.channels.length > 1 →
      EvolvableCNN.change_kernel kcalc kfit (c.toGen out mm) (argOpt x.xk a.k) (argOpt x.xkl a.klayer)
          a.klayer a.k a.k a.stride a.layer a.n a.layer a.n =
        if "add_layer" ∈ mm then EvolvableCNN.add_layer kcalc (c.toGen out mm) a.k a.stride a.layer a.n
        else EvolvableCNN.add_channel (c.toGen out mm) none none a.layer a.n) := by
  subst hi; subst hv
  refine ⟨?_, ?_, ?_, ?_, ?_⟩
  · intro h
    rw [gen_cnn_remove_channel_eq c hne out mm a x, if_pos hd, CNN.removeChannel_toGen, if_neg h]
    simp only [removeChannelRet, if_neg h]
  · intro h
    have hle : a.n ≤ c.channels.getD (min a.layer (c.channels.length - 1)) 0 := by omega
    rw [gen_cnn_remove_channel_eq c hne out mm a x, if_pos hd, CNN.removeChannel_toGen, if_pos h]
    simp only [removeChannelRet, if_pos h, CNN.toGen, ofNats_set, Int.natCast_sub hle]
  · intro h
    rw [gen_cnn_add_channel_eq c hne out mm a x, if_pos hd, CNN.addChannel_toGen, if_neg h]; rfl
  · intro h
    rw [gen_cnn_remove_layer_eq c hne out mm a, gen_cnn_add_channel_draws c hne out mm a, if_neg h]
  · intro h
    have h' : ¬ ((c.channels.length : Int) > 1) := by omega
    simp only [EvolvableCNN.change_kernel, CNN.toGen, ofNats_length, h', if_false]

/-! ### `calc_max_kernel_sizes` and `_later_layers_fit` translated (`Gen/KernelGen.lean`): no function parameter left -/

/-- the translated `calc_max_kernel_sizes` (exact arithmetic for `np.floor(x / s)`, `min(h, w) * 0.25`,
    `int(…)`, the clamp to `[1, 9]`) returns, for every architecture with strides ≥ 1, the model's
    `maxKernels`: entry `i` = a quarter of the smaller side of layer `i`'s OUTPUT map, clamped to `1 … 9` -/
theorem C03_source_translation_calc_max_kernel_sizes (c : CNN) (hw : c.WF) (hs : ∀ s ∈ c.strides, 1 ≤ s) :
    KernelGen.calc_max_kernel_sizes (ofNats c.channels) (ofNats c.kernels) (ofNats c.strides)
      [(c.inC : Int), (c.inH : Int), (c.inW : Int)] = some (ofNats c.maxKernels) ∧
    (∀ k ∈ c.maxKernels, 1 ≤ k ∧ k ≤ 9) :=
  ⟨gen_calc_max_kernel_sizes_eq c hw hs, maxKernels_range c⟩

/-- the translated `_later_layers_fit` returns `True` exactly for the kernel lists in which every kernel fits
    its input, i.e. (strides ≥ 1) exactly when every feature map of the candidate configuration is ≥ 1 -/
theorem C03_source_translation_later_layers_fit (c : CNN) (hw : c.WF) (hs : ∀ s ∈ c.strides, 1 ≤ s) (j knew : Nat) :
    KernelGen.later_layers_fit (ofNats c.kernels) (j : Int) (knew : Int) (ofNats c.strides)
      [(c.inC : Int), (c.inH : Int), (c.inW : Int)] =
      some (({ c with kernels := c.kernels.set j knew } : CNN).spatialOK) := by
  rw [gen_later_layers_fit_eq c hw hs j knew]
  congr 1
  rw [spatialOK_eq]
  cases hfit : c.laterFit j knew with
  | true => exact (fitsAux_spatial _ _ _ _ hfit).symm
  | false =>
    cases hall : (mapsAux (↑c.inH) (↑c.inW) (c.kernels.set j knew) c.strides).all mapOK with
    | false => rfl
    | true =>
      have := spatial_fitsAux _ _ _ _ hs hall
      simp only [CNN.laterFit] at hfit
      rw [hfit] at this; cases this

/-- every translated CNN method, calling the translated `calc_max_kernel_sizes` and `_later_layers_fit`, equals
    the model's `step` (`gen_cnn_step_eq` with both function parameters discharged) -/
theorem C03_source_translation_cnn_step_kernel (p : Policy) (hp : p.clampKernel = true) (hp2 : p.fitLater = true)
    (c : CNN) (hw : c.WF) (hne : c.channels ≠ []) (hs : ∀ s ∈ c.strides, 1 ≤ s) (out : List Int) (mm : List String)
    (hout : pySlice out (some (-2)) none = c.lastMap) (me : CnnMethod) (a : Args) (x : Flags) :
    cnnCall genCalc genFit me (c.toGen out mm) a x =
      if (Basic.cnn c).drawsOK p (decide ("add_layer" ∈ mm)) me.str a (me.flags x) then
        some ((c.step p (decide ("add_layer" ∈ mm)) me a).1.toGen out mm, cnnRet p (decide ("add_layer" ∈ mm)) c me a,
              (c.step p (decide ("add_layer" ∈ mm)) me a).2.name)
      else none :=
  gen_cnn_step_eq_kernel p hp hp2 c hw hne hs out mm hout me a x

/-- `C03_cnn_spatial_change_kernel` over the translated code: whenever the translated `change_kernel`
    (explicit or drawn arguments, translated `calc_max_kernel_sizes` and `_later_layers_fit`) returns on a
    multi-layer CNN in which every kernel fits, the fields it leaves are those of a configuration in which
    every kernel fits — for all input sizes, strides ≥ 1, kernel lists, layer indices and candidates -/
theorem C03_source_translation_spatial_change_kernel (c : CNN) (hw : c.WF) (hne : c.channels ≠ [])
    (hs : ∀ s ∈ c.strides, 1 ≤ s) (hsp : c.spatialOK = true) (hlen : 1 < c.channels.length)
    (out : List Int) (mm : List String) (hout : pySlice out (some (-2)) none = c.lastMap) (a : Args) (x : Flags)
    (r : EvolvableCNN.State × Ret × String)
    (hr : cnnCall genCalc genFit .changeKernel (c.toGen out mm) a x = some r) :
    ∃ c' : CNN, r.1 = c'.toGen out mm ∧ c'.spatialOK = true ∧ r.2.2 = "change_kernel" ∧
      c'.strides = c.strides ∧ c'.channels = c.channels := by
  rw [gen_cnn_step_eq_kernel {} rfl rfl c hw hne hs out mm hout .changeKernel a x] at hr
  split at hr
  · cases hr
    refine ⟨(c.step {} (decide ("add_layer" ∈ mm)) .changeKernel a).1, rfl,
      C03_cnn_spatial_change_kernel {} rfl rfl _ c .changeKernel a hw hsp (fun h => ?_), ?_, ?_, ?_⟩
    · rcases h with h | h
      · cases h
      · omega
    · simp only [CNN.step, gt_iff_lt, hlen, if_true, Applied.name]
    · simp only [CNN.step, gt_iff_lt, hlen, if_true]
    · simp only [CNN.step, gt_iff_lt, hlen, if_true]
  · cases hr

/-! ### non-vacuity: the translated methods on concrete states -/

example : mlp0.hidden ≠ [] ∧ mlp0.WF ∧ mlp0.InBounds ∧ mlpStateOK mlp0.toGen :=
  ⟨by decide, by decide, by decide, MLP.toGen_ok _ (by decide) (by decide)⟩
-- add_layer below the maximum copies the last width; at the maximum it is add_node (draw: layer 1, +16
-- nodes, refused by max_mlp_nodes = 4: fields unchanged, dict names the draw)
example : EvolvableMLP.add_layer mlp0.toGen 0 16 = some ({ mlp0.toGen with hidden_size := [2, 2] }, [], "add_layer") ∧
    EvolvableMLP.add_layer { mlp0.toGen with hidden_size := [2, 2] } 1 16 =
      some ({ mlp0.toGen with hidden_size := [2, 2] }, [("hidden_layer", 1), ("numb_new_nodes", 16)], "add_node") := by
  decide
-- an explicit argument is clamped with `min` and used; a draw outside `[16, 32, 64]` is no draw of this code
example : EvolvableMLP.add_node mlp0.toGen (some 7) (some 2) 0 0 =
      some ({ mlp0.toGen with hidden_size := [4] }, [("hidden_layer", 0), ("numb_new_nodes", 2)], "add_node") ∧
    EvolvableMLP.add_node mlp0.toGen none none 0 2 = none ∧
    EvolvableMLP.remove_node { mlp0.toGen with hidden_size := [4] } (some 0) (some 2) 0 0 =
      some ({ mlp0.toGen with hidden_size := [4] }, [("hidden_layer", 0), ("numb_new_nodes", 2)], "remove_node") := by
  decide
example : mlpGenRun mlp0.toGen [(.addNode, { n := 2 }, { xl := true, xn := true }), (.addLayer, { n := 16 }, {}),
    (.removeNode, { layer := 1, n := 1 }, { xl := true, xn := true })] = some { mlp0.toGen with hidden_size := [4, 3] } := by
  decide
-- CNN: the model's arithmetic as the external pieces; change_kernel with an explicit oversized kernel is clamped
example : cnnCall refCalc refFit .changeKernel (cnnWitness.toGen (refOut (cnnWitness.toGen [] [])) ["add_layer"])
      { k := 15, klayer := 1 } { xk := true, xkl := true } =
    some ({ cnnWitness.toGen (refOut (cnnWitness.toGen [] [])) ["add_layer"] with mut_kernel_size := { sizes := [3, 3] } },
          [("hidden_layer", 1), ("kernel_size", 3)], "change_kernel") := by
  decide
-- the translated `calc_max_kernel_sizes` / `_later_layers_fit` on the round-5 counterexample: layer 1 may take 2 by the
-- clamp, but 2 does not leave room for the 8×8 kernel of layer 2; the translated change_kernel keeps size 1
example : KernelGen.calc_max_kernel_sizes (ofNats cnnDownstream.channels) (ofNats cnnDownstream.kernels)
      (ofNats cnnDownstream.strides) [(cnnDownstream.inC : Int), (cnnDownstream.inH : Int), (cnnDownstream.inW : Int)] =
    some [2, 2, 1] := by
  rw [gen_calc_max_kernel_sizes_eq cnnDownstream (by decide) (by decide)]; decide
example : KernelGen.later_layers_fit [1, 1, 8] 1 2 [1, 1, 1] [2, 8, 8] = some false ∧
    KernelGen.later_layers_fit [1, 1, 8] 1 1 [1, 1, 1] [2, 8, 8] = some true ∧
    KernelGen.later_layers_fit [1, 1, 8] 1 1 [1, 0, 1] [2, 8, 8] = none := by decide
example : cnnCall genCalc genFit .changeKernel (cnnDownstream.toGen (refOut (cnnDownstream.toGen [] [])) ["add_layer"])
      { k := 2, klayer := 1 } { xk := true, xkl := true } =
    some (cnnDownstream.toGen (refOut (cnnDownstream.toGen [] [])) ["add_layer"],
          [("hidden_layer", 1), ("kernel_size", 1)], "change_kernel") := by
  rw [gen_cnn_step_eq_kernel {} rfl rfl cnnDownstream (by decide) (by decide) (by decide) _ _ (refOut_spec _ _ _)]
  decide
example : cnnDownstream.WF ∧ cnnDownstream.channels ≠ [] ∧ (∀ s ∈ cnnDownstream.strides, 1 ≤ s) ∧
    cnnDownstream.spatialOK = true ∧ 1 < cnnDownstream.channels.length := by decide
-- remove_channel stopped by min_channel_size reports 0
example : EvolvableCNN.remove_channel (cnnWitness.toGen [] []) (some 0) (some 1) 0 0 =
    some (cnnWitness.toGen [] [], [("hidden_layer", 0), ("numb_new_channels", 0)], "remove_channel") := by
  decide

end source_translation

/-! ## `EvolvableMultiInput`: latent mutations and the input width of `final_dense`
   (over the definitions generated from agilerl/modules/multi_input.py by harness/py2lean_multiinput.py) -/

section multiinput

theorem multiNet_keys (obs : SubSpaces) (vec : List String) :
    ∀ e ∈ obs.filterMap (fun e => (e.2.extractor vec e.1).map (fun c => (e.1, c))), e.1 ∈ obs.map Prod.fst := by
  intro e he
  simp only [List.mem_filterMap, Option.map_eq_some_iff] at he
  obtain ⟨a, ha, c, _, rfl⟩ := he
  exact List.mem_map_of_mem ha

theorem multiVec_keys (r : Bool) (obs : SubSpaces) :
    ∀ k ∈ (multiVecSpaces r obs).map Prod.fst, k ∈ obs.map Prod.fst := by
  intro k hk
  simp only [multiVecSpaces, List.mem_map, List.mem_filter] at hk ⊢
  obtain ⟨a, ⟨ha, _⟩, rfl⟩ := hk
  exact ⟨a, ha, rfl⟩

/-- (iii) what `forward` concatenates (one latent vector per module kept in `extracted_features`, then the
    vector features: the vector MLP's output or the raw vector observations) is exactly as wide as `final_dense`
    expects — for every list of sub-spaces, every latent width, both values of `vector_space_mlp` and
    `recurrent`, when the vector MLP's name is not a key of the space -/
theorem C03_multiinput_forward_width (r mlp : Bool) (name : String) (lat : Int) (obs : SubSpaces)
    (hn : name ∉ obs.map Prod.fst) :
    multiForwardWidth r mlp name lat obs = multiFinalIn r mlp name lat obs := by
  have hvec : name ∉ (multiVecSpaces r obs).map Prod.fst := fun h => hn (multiVec_keys r obs name h)
  unfold multiForwardWidth multiFinalIn multiLatentMods multiNet
  cases mlp
  · rw [sum_map_const]; simp
  · have hk := multiNet_keys obs ((multiVecSpaces r obs).map Prod.fst)
    simp only [if_true, List.filter_append, List.filter_filter, sum_map_const, Bool.true_and]
    have h1 : List.filter (fun e : String × String => !((multiVecSpaces r obs).map Prod.fst).contains e.1)
        [(name, "EvolvableMLP")] = [(name, "EvolvableMLP")] := by
      simp [hvec]
    have h2 : List.filter (fun e : String × String => !(e.1 == name) && !((multiVecSpaces r obs).map Prod.fst).contains e.1)
        [(name, "EvolvableMLP")] = [] := by simp
    have h3 : ∀ A : List (String × String), (∀ e ∈ A, e.1 ∈ obs.map Prod.fst) →
        List.filter (fun a : String × String => !(a.1 == name) && !((multiVecSpaces r obs).map Prod.fst).contains a.1) A =
        List.filter (fun e : String × String => !((multiVecSpaces r obs).map Prod.fst).contains e.1) A := by
      intro A hA
      apply List.filter_congr
      intro e he
      have : e.1 ≠ name := fun h => hn (h ▸ hA e he)
      simp [this]
    rw [h1, h2, h3 _ hk]
    simp [Int.mul_add]

/-- (i) REBUILDABILITY: `recreate_network`, run on the object `__init__` built after its `latent_dim` was set to
    ANY value, gives `final_dense` the input width (and `feature_net` the modules) that `__init__` computes from the
    same description with that latent width — for every list of sub-spaces, both `vector_space_mlp`, both
    `recurrent` -/
theorem C03_source_translation_multiinput_rebuild (obs : SubSpaces) (no lat lat' lo hi : Int) (mlp r : Bool)
    (name : String) :
    let s0 := MultiInputGen.init (SubSpaces.toGen obs) no lat mlp r lo hi name
    let s1 := MultiInputGen.recreate_network { s0 with latent_dim := lat' }
    let s2 := MultiInputGen.init (SubSpaces.toGen obs) no lat' mlp r lo hi name
    s1.final_dense = s2.final_dense ∧ s1.feature_net = s2.feature_net ∧
    s1.final_dense = (multiFinalIn r mlp name lat' obs, no) := by
  intro s0 s1 s2
  have h : s1 = MultiInputGen.recreate_network
      { MultiInputGen.init (SubSpaces.toGen obs) no lat mlp r lo hi name with latent_dim := lat' } := rfl
  rw [gen_init_eq, gen_recreate_network_eq _ obs ⟨rfl, rfl, rfl⟩] at h
  have h2 : s2 = _ := gen_init_eq obs no lat' lo hi mlp r name
  rw [h, h2]
  exact ⟨rfl, rfl, rfl⟩

/-- the width of `final_dense` at construction, spelled out: one latent vector per latent module plus the raw
    vector dims unless they go through the vector MLP = what `forward` concatenates -/
theorem C03_source_translation_multiinput_width_sum (obs : SubSpaces) (no lat lo hi : Int) (mlp r : Bool)
    (name : String) (hn : name ∉ obs.map Prod.fst) :
    (MultiInputGen.init (SubSpaces.toGen obs) no lat mlp r lo hi name).final_dense =
      (lat * ((multiLatentMods r mlp name obs).length : Int) + (if mlp then 0 else multiVecDims r obs), no) ∧
    (MultiInputGen.init (SubSpaces.toGen obs) no lat mlp r lo hi name).final_dense =
      (multiForwardWidth r mlp name lat obs, no) := by
  rw [gen_init_eq, C03_multiinput_forward_width r mlp name lat obs hn]
  exact ⟨rfl, rfl⟩

/-- (ii) the latent mutations = the model's `Latent.step`, for every argument (explicit / drawn) -/
theorem C03_source_translation_multiinput_latent_step (l : Latent) (me : LatentMethod) (a : Args) (x : Flags) :
    multiLatentCall me l.toMulti (argOpt x.xn a.n) a.n =
      if latentDrawOK a x then
        some ((l.step me a).1.toMulti, amountRet "numb_new_nodes" a, (l.step me a).2.name)
      else none := gen_multi_latent_step_eq l me a x

/-- (ii) bounds on the record of ints the code holds: every non-negative explicit argument, every draw -/
theorem C03_source_translation_multiinput_latent_bounds (me : LatentMethod)
    (s s' : MultiInputGen.EvolvableMultiInput.State) (arg : Option Int) (d0 : Int) (ret : Ret) (nm : String)
    (hs : multiLatentOK s) (harg : ∀ v, arg = some v → 0 ≤ v) (h : multiLatentCall me s arg d0 = some (s', ret, nm)) :
    multiLatentOK s' ∧ s'.min_latent_dim = s.min_latent_dim ∧ s'.max_latent_dim = s.max_latent_dim :=
  gen_multi_latent_bounds me s s' arg d0 ret nm hs harg h

/-- (ii) any finite sequence of latent mutations, through the generated methods: the model's run stays in bounds
    and every step of it is what the generated method returns -/
theorem C03_source_translation_multiinput_latent_chain (l : Latent) (ops : List (LatentMethod × Args))
    (h : l.InBounds) :
    (l.run ops).InBounds ∧
    ∀ (t : Latent) (me : LatentMethod) (a : Args) (x : Flags), latentDrawOK a x = true →
      multiLatentCall me t.toMulti (argOpt x.xn a.n) a.n =
        some ((t.step me a).1.toMulti, amountRet "numb_new_nodes" a, (t.step me a).2.name) := by
  refine ⟨C03_bounds_invariant_latent l ops h, ?_⟩
  intro t me a x hd
  rw [gen_multi_latent_step_eq, if_pos hd]

/-- HARD LIMIT comparisons of the multi-input latent methods are strict: a step that would land ON the bound
    is not applied (and is still reported) -/
theorem C03_source_translation_multiinput_hard_limit (t : Latent) (a : Args) (x : Flags)
    (hd : latentDrawOK a x = true) :
    (¬ t.dim + a.n < t.maxDim →
      MultiInputGen.EvolvableMultiInput.add_latent_node t.toMulti (argOpt x.xn a.n) a.n =
        some (t.toMulti, [("numb_new_nodes", (a.n : Int))], "add_latent_node")) ∧
    (¬ t.dim > t.minDim + a.n →
      MultiInputGen.EvolvableMultiInput.remove_latent_node t.toMulti (argOpt x.xn a.n) a.n =
        some (t.toMulti, [("numb_new_nodes", (a.n : Int))], "remove_latent_node")) := by
  have e1 := gen_multi_latent_step_eq t .add a x
  have e2 := gen_multi_latent_step_eq t .remove a x
  simp only [multiLatentCall, hd, if_true, Latent.step, Applied.name, amountRet] at e1 e2
  constructor
  · intro h; rw [e1, if_neg h]
  · intro h; rw [e2, if_neg h]

/-- (i)+(ii)+(iii) together: mutate the latent width of a freshly built multi-input module through the generated
    method, re-create the network: the new width is within the bounds and `final_dense` has the input width of a
    fresh construction with that latent width, which is the width `forward` concatenates -/
theorem C03_source_translation_multiinput_mutate_then_rebuild (obs : SubSpaces) (no lat lo hi : Int) (mlp r : Bool)
    (name : String) (hn : name ∉ obs.map Prod.fst) (hb : lo ≤ lat ∧ lat ≤ hi)
    (me : LatentMethod) (arg : Option Int) (d0 : Int) (harg : ∀ v, arg = some v → 0 ≤ v)
    (s' : MultiInputGen.EvolvableMultiInput.State) (ret : Ret) (nm : String)
    (h : multiLatentCall me { latent_dim := lat, max_latent_dim := hi, min_latent_dim := lo } arg d0 = some (s', ret, nm)) :
    let s1 := MultiInputGen.recreate_network
      { MultiInputGen.init (SubSpaces.toGen obs) no lat mlp r lo hi name with latent_dim := s'.latent_dim }
    lo ≤ s'.latent_dim ∧ s'.latent_dim ≤ hi ∧
    s1.final_dense = (MultiInputGen.init (SubSpaces.toGen obs) no s'.latent_dim mlp r lo hi name).final_dense ∧
    s1.final_dense = (multiForwardWidth r mlp name s'.latent_dim obs, no) := by
  intro s1
  have hs : multiLatentOK { latent_dim := lat, max_latent_dim := hi, min_latent_dim := lo } := hb
  have hb' := gen_multi_latent_bounds me _ s' arg d0 ret nm hs harg h
  obtain ⟨⟨h1, h2⟩, h3, h4⟩ := hb'
  simp only at h3 h4
  have hr := C03_source_translation_multiinput_rebuild obs no lat s'.latent_dim lo hi mlp r name
  simp only at hr
  refine ⟨h3 ▸ h1, h4 ▸ h2, hr.1, ?_⟩
  rw [C03_multiinput_forward_width r mlp name _ obs hn]
  exact hr.2.2

/-- the kinds the decorators declare: two NODE mutations, no LAYER mutation -/
theorem C03_source_translation_multiinput_mutation_types :
    kindNames MultiInputGen.EvolvableMultiInput.mutationTypes "NODE" = ["add_latent_node", "remove_latent_node"] ∧
    kindNames MultiInputGen.EvolvableMultiInput.mutationTypes "LAYER" = [] := gen_multi_mutation_types

/-- a dict space with an image, a sequence, a vector and a discrete sub-space -/
def multiWitness : SubSpaces :=
  [("img", { cls := "Box", ndim := 3, flatdim := 48 }), ("seq", { cls := "Box", ndim := 2, flatdim := 12 }),
   ("vec", { cls := "Box", ndim := 1, flatdim := 5 }), ("d", { cls := "Discrete", ndim := 0, flatdim := 4 })]

-- satisfiable: without / with the vector MLP, not recurrent / recurrent
example : "vector_mlp" ∉ multiWitness.map Prod.fst := by decide
example : multiFinalIn false false "vector_mlp" 16 multiWitness = 16 + (12 + 5 + 4) := by decide
example : multiFinalIn true false "vector_mlp" 16 multiWitness = 32 + (5 + 4) := by decide
example : multiFinalIn true true "vector_mlp" 16 multiWitness = 48 := by decide
example : multiNet true true "vector_mlp" multiWitness =
    [("img", "EvolvableCNN"), ("seq", "EvolvableLSTM"), ("d", "Flatten"), ("vector_mlp", "EvolvableMLP")] := by decide
/-- `recreate_network` leaves `self.extracted_features_dim` at its construction value (`forward` only tests its
    sign, which a positive latent width cannot change): the field is stale after a latent mutation -/
theorem C03_source_translation_multiinput_stale_extracted_dim_witness :
    (MultiInputGen.recreate_network
      { MultiInputGen.init (SubSpaces.toGen multiWitness) 4 16 false true 8 128 "vector_mlp" with latent_dim := 24 }).extracted_features_dim = 32 ∧
    (MultiInputGen.init (SubSpaces.toGen multiWitness) 4 24 false true 8 128 "vector_mlp").extracted_features_dim = 48 := by
  decide

end multiinput

end Arch
