import Proofs.PreserveProv
import Proofs.PreserveGenEq

/-!
# C04 — mutations reuse learned weights; an unchanged architecture computes the same function;
# cloning reproduces outputs

Model: `Model/Preserve.lean`.  A tensor is a shape (any rank) with flat row-major data; the data
type `α` is arbitrary (the code only moves values).  `preserveNet pol mode old new` is
`preserve_parameters` / `shrink_preserve_parameters` applied to the `named_parameters()` of the old
and of the freshly built network; `recreate` is `recreate_network`; `clone` is
`EvolvableModule.clone`.  Every theorem holds for every rank, every pair of shapes, every list of
parameters and every data type.

Three behaviours of the current code contradict the property; each is a switch of the model, the
full-strength theorem is proved for the repaired value, a `_partial` theorem for the current value,
and the negation of the full statement under the current value is proved on a concrete witness:

* `NormPolicy.reset` (`"norm" not in key` guard): a resized LayerNorm/BatchNorm weight or bias is
  re-initialised although it exists before and after and has a common index range;
* `BufPolicy.fresh` (only `named_parameters()` are visited): BatchNorm running statistics are
  re-initialised by *every* `recreate_network`, also when no shape changes, so a mutation that
  leaves the architecture unchanged changes the (eval-mode) function.

* `cloneWrapper false` (`EvolvableDistribution.clone` builds a new wrapper and never loads the
  wrapper's own state): the learned `log_std` is lost in a clone of the distribution head.

A fourth defect found by the correspondence run is about *dispatch*, not about weights, and is not
modelled here: after `recreate_network` replaced a network's encoder/head objects, the network's
dotted mutation methods (`encoder.add_node`, …) are still bound to the discarded objects
(harness probe `stale`, finding `C04-stale-nested-mutation-methods`).

What is *not* modelled: the forward pass (a parameter: "any function of the state"), float
arithmetic (values are only copied), and object identity (equal-shape parameters are aliased with
the old network's storage — C01's model covers aliasing).
-/
namespace Preserve
variable {α : Type}

/-! ## row-major addressing -/

/-- an in-bounds multi-index addresses an element of the flat data -/
theorem C04_offset_lt (s : Shape) (idx : List Nat) (h : inBounds s idx = true) :
    offset s idx < numel s := offset_lt h

/-- distinct in-bounds multi-indices have distinct flat offsets -/
theorem C04_offset_injective (s : Shape) (a b : List Nat) (ha : inBounds s a = true)
    (hb : inBounds s b = true) (h : offset s a = offset s b) : a = b := offset_inj ha hb h

/-- … and every flat offset below `numel` is the offset of exactly one in-bounds multi-index
    (`unravel`), so a provenance map over flat indices covers every element exactly once -/
theorem C04_offset_bijective (s : Shape) :
    (∀ k, k < numel s → inBounds s (unravel s k) = true ∧ offset s (unravel s k) = k) ∧
    (∀ idx, inBounds s idx = true → unravel s (offset s idx) = idx) :=
  ⟨fun _ hk => ⟨(offset_unravel hk).2, (offset_unravel hk).1⟩, fun _ h => unravel_offset h⟩

/-! ## every weight that exists before and after keeps its value on the common index range -/

/-- the statement of the property for one call of `preserve_parameters`
    (`mode = .full`) or `shrink_preserve_parameters` (`mode = .shrink`) under a norm policy -/
def CommonBoxHolds (α : Type) (pol : NormPolicy) (normOnly : Bool) : Prop :=
  ∀ (mode : Mode) (old new res : Params α), preserveNet pol mode old new = some res →
    ∀ (key : String) (o n : Tensor α), lookup old key = some o → (key, n) ∈ new →
      (normOnly = true → isNormKey key = false) →
      o.WF → n.WF → o.shape.length = n.shape.length →
      (mode = .shrink → o.shape.drop 2 = n.shape.drop 2) →
      ∃ t, (key, t) ∈ res ∧ t.shape = n.shape ∧ t.WF ∧
        (∀ idx, inBounds (boxMin o.shape n.shape) idx = true → t.get idx = o.get idx) ∧
        (∀ idx, inBounds (boxMin o.shape n.shape) idx = false → t.get idx = n.get idx)

theorem commonBox_aux (pol : NormPolicy) (normOnly : Bool)
    (hpol : pol = .slice ∨ normOnly = true) : CommonBoxHolds α pol normOnly := by
  intro mode old new res h key o n ho hn hnk hwo hwn hr hm
  obtain ⟨t, ht, hmem⟩ := preserveNet_mem h hn
  simp only [preserveKey, ho] at ht
  have hp : ¬ (isNormKey key = true ∧ pol = .reset) := by
    rintro ⟨h1, h2⟩
    rcases hpol with h3 | h3
    · rw [h3] at h2; cases h2
    · rw [hnk h3] at h1; cases h1
  have hfull : preserveT pol .full (isNormKey key) o n = some t := by
    cases mode with
    | full => exact ht
    | shrink => rw [← preserveT_shrink_eq_full pol _ o n hr (hm rfl)]; exact ht
  obtain ⟨t', ht', hs, hw, hin, hout⟩ := preserveT_common_box pol (isNormKey key) o n hwo hwn hr hp
  rw [hfull] at ht'
  cases ht'
  exact ⟨t, hmem, hs, hw, hin, hout⟩

/-- **Repaired behaviour** (`normPolicy = slice`): for every parameter list, every key present
    before and after, every rank and every pair of shapes: inside the component-wise minimum of the
    two shapes the re-created parameter equals the old one, outside it keeps its fresh
    initialisation.  (For `shrink_preserve_parameters` under the side condition that the axes it
    does not slice are unchanged, which `remove_channel/remove_layer/remove_block` guarantee.) -/
theorem C04_common_box : CommonBoxHolds α .slice false := commonBox_aux _ _ (Or.inl rfl)

/-- **Current code** (`normPolicy = reset`): the same for every key that does not contain "norm".
    Missing for the full statement: keys containing "norm" (see the witness below). -/
theorem C04_common_box_partial : CommonBoxHolds α .reset true := commonBox_aux _ _ (Or.inr rfl)

/-- under the current policy the full statement is false: a LayerNorm weight `[5, 7]` of a layer
    grown from 2 to 3 units comes out as the fresh `[1, 1, 1]` -/
theorem C04_common_box_reset_witness : ¬ CommonBoxHolds Nat .reset false := by
  intro H
  obtain ⟨t, hmem, _, _, hin, _⟩ := H .full
    [("mlp_layer_norm_1.weight", ⟨[2], [5, 7]⟩)] [("mlp_layer_norm_1.weight", ⟨[3], [1, 1, 1]⟩)]
    [("mlp_layer_norm_1.weight", ⟨[3], [1, 1, 1]⟩)] (by decide)
    "mlp_layer_norm_1.weight" ⟨[2], [5, 7]⟩ ⟨[3], [1, 1, 1]⟩ (by decide) (by simp)
    (by intro h; cases h) (by unfold Tensor.WF; decide) (by unfold Tensor.WF; decide) rfl
    (by intro h; cases h)
  simp only [List.mem_singleton, Prod.mk.injEq, true_and] at hmem
  subst hmem
  have := hin [0] (by decide)
  revert this
  decide

/-- outside the common box a re-created parameter keeps the new initialisation (either policy; for
    a norm key under `reset` the *whole* tensor keeps it) -/
theorem C04_outside_box_fresh (pol : NormPolicy) (old new res : Params α)
    (h : preserveNet pol .full old new = some res) (key : String) (o n : Tensor α)
    (ho : lookup old key = some o) (hn : (key, n) ∈ new) (hwo : o.WF) (hwn : n.WF)
    (hr : o.shape.length = n.shape.length) :
    ∃ t, (key, t) ∈ res ∧ t.shape = n.shape ∧
      ∀ idx, inBounds (boxMin o.shape n.shape) idx = false → t.get idx = n.get idx := by
  obtain ⟨t, ht, hmem⟩ := preserveNet_mem h hn
  simp only [preserveKey, ho] at ht
  by_cases hp : isNormKey key = true ∧ pol = .reset
  · by_cases hs : o.shape = n.shape
    · obtain ⟨t', ht', hs', _, _, hout⟩ :=
        preserveT_common_box .slice (isNormKey key) o n hwo hwn hr (by simp)
      rw [preserveT_same_shape _ _ _ _ _ hs] at ht ht'
      cases ht; cases ht'
      exact ⟨_, hmem, hs', hout⟩
    · rw [hp.1, hp.2, preserveT_norm_reset _ _ _ hs] at ht
      cases ht
      exact ⟨_, hmem, rfl, fun _ _ => rfl⟩
  · obtain ⟨t', ht', hs', _, _, hout⟩ := preserveT_common_box pol (isNormKey key) o n hwo hwn hr hp
    rw [ht] at ht'; cases ht'
    exact ⟨_, hmem, hs', hout⟩

/-- a parameter whose name does not occur in the old network (added layer) stays freshly
    initialised; a name that only the old network has (removed layer) does not appear -/
theorem C04_missing_key_fresh (pol : NormPolicy) (mode : Mode) (old new res : Params α)
    (h : preserveNet pol mode old new = some res) :
    res.map Prod.fst = new.map Prod.fst ∧
    ∀ (key : String) (n : Tensor α), lookup old key = none → (key, n) ∈ new → (key, n) ∈ res := by
  refine ⟨preserveNet_keys h, ?_⟩
  intro key n ho hn
  obtain ⟨t, ht, hmem⟩ := preserveNet_mem h hn
  simp only [preserveKey, ho, Option.some.injEq] at ht
  rw [ht]; exact hmem

/-- the provenance map printed by the driver (computed from key class and the two shapes only) is
    exactly what happens to the data: both raise together, otherwise the result has the new shape
    and element `k` is `old[j]` where the map says `old j` and the fresh value where it says `fresh` -/
theorem C04_provenance_sound (pol : NormPolicy) (mode : Mode) (norm : Bool) (old new : Tensor α)
    (ho : old.WF) (hn : new.WF) :
    match provT pol mode norm old.shape new.shape, preserveT pol mode norm old new with
    | none, none => True
    | some p, some t => t.shape = new.shape ∧ t.data = applyProv p old.data new.data
    | _, _ => False := provT_spec pol mode norm old new ho hn

/-! ## an unchanged architecture computes the same function -/

/-- keys are pairwise distinct (`named_parameters()` of a torch module) -/
def Functional (ps : Params α) : Prop := ∀ kt ∈ ps, lookup ps kt.1 = some kt.2

theorem functional_of_nodup (ps : Params α) (h : (ps.map Prod.fst).Nodup) : Functional ps :=
  lookup_of_nodup h

/-- same names and same shapes, in the same order -/
def SameArch (a b : Params α) : Prop :=
  a.map (fun kt => (kt.1, kt.2.shape)) = b.map (fun kt => (kt.1, kt.2.shape))

/-- **Repaired behaviour** (`bufPolicy = carry`, either norm policy, either mode): if the re-created
    network has the same parameter and buffer names and shapes as the old one, the state after
    `recreate_network` *is* the old state — hence any function of the state (the forward pass on
    any input, in any mode) is identical. -/
theorem C04_noop_same_state (pol : NormPolicy) (mode : Mode) (old fresh : NetState α)
    (hfp : Functional old.params) (hfb : Functional old.buffers)
    (hp : SameArch old.params fresh.params) (hb : SameArch old.buffers fresh.buffers) :
    recreate pol .carry mode old fresh = some old ∧
    ∀ {β : Type} (F : NetState α → β), (recreate pol .carry mode old fresh).map F = some (F old) := by
  have h1 := preserveNet_noop pol mode old.params hfp old.params fresh.params (fun _ h => h) hp
  have h2 := preserveNet_noop .slice mode old.buffers hfb old.buffers fresh.buffers (fun _ h => h) hb
  have : recreate pol .carry mode old fresh = some old := by
    simp [recreate, h1, h2]
  exact ⟨this, fun F => by rw [this]; rfl⟩

/-- **Current code** (`bufPolicy = fresh`): the parameters after a shape-preserving
    `recreate_network` are exactly the old ones; the buffers are the freshly initialised ones.  So
    the state — and any function of it — is unchanged for modules without buffers (MLP, LSTM, SimBa
    and their networks; NoisyLinear in eval mode reads no buffer).  Missing for the full statement:
    modules with BatchNorm (CNN with `layer_norm=True`, ResNet, MultiInput with an image member). -/
theorem C04_noop_same_state_partial (pol : NormPolicy) (mode : Mode) (old fresh : NetState α)
    (hfp : Functional old.params) (hp : SameArch old.params fresh.params) :
    recreate pol .fresh mode old fresh = some { params := old.params, buffers := fresh.buffers } ∧
    (fresh.buffers = old.buffers →
      ∀ {β : Type} (F : NetState α → β), (recreate pol .fresh mode old fresh).map F = some (F old)) := by
  have h1 := preserveNet_noop pol mode old.params hfp old.params fresh.params (fun _ h => h) hp
  have : recreate pol .fresh mode old fresh = some { params := old.params, buffers := fresh.buffers } := by
    simp [recreate, h1]
  refine ⟨this, ?_⟩
  intro hb β F
  rw [this, hb]
  rfl

/-- under the current buffer policy the full statement is false: BatchNorm running mean `[3]`
    of an unchanged layer is `[0]` after `recreate_network` -/
theorem C04_noop_buffers_witness :
    ¬ ∀ (old fresh : NetState Nat), Functional old.params → Functional old.buffers →
        SameArch old.params fresh.params → SameArch old.buffers fresh.buffers →
        recreate .reset .fresh .full old fresh = some old := by
  intro H
  have := H ⟨[("bn.weight", ⟨[1], [2]⟩)], [("bn.running_mean", ⟨[1], [3]⟩)]⟩
            ⟨[("bn.weight", ⟨[1], [1]⟩)], [("bn.running_mean", ⟨[1], [0]⟩)]⟩
            (by intro kt h; simp at h; subst h; decide) (by intro kt h; simp at h; subst h; decide)
            (by unfold SameArch; decide) (by unfold SameArch; decide)
  revert this
  decide

/-! ## rank mismatch and the shrink variant, as coded -/

/-- same-named parameters of different rank: `zip` truncates to the shorter rank and torch
    broadcasts or raises; whatever happens, the result (if any) has the new shape and size and
    every element is either the fresh one or *some* element of the old tensor.  No common-box
    guarantee is claimed (there is no common index range). -/
theorem C04_rank_mismatch (pol : NormPolicy) (norm : Bool) (old new : Tensor α)
    (hr : old.shape.length ≠ new.shape.length) (hp : ¬ (norm = true ∧ pol = .reset)) :
    preserveT pol .full norm old new = assign (min old.shape.length new.shape.length) old new ∧
    ∀ t, preserveT pol .full norm old new = some t →
      t.shape = new.shape ∧ t.data.length = new.data.length ∧
      ∀ (k : Nat) (v : α), t.data[k]? = some v →
        new.data[k]? = some v ∨ ∃ j : Nat, old.data[j]? = some v := by
  have hs : old.shape ≠ new.shape := fun e => hr (by rw [e])
  have e : preserveT pol .full norm old new = assign (min old.shape.length new.shape.length) old new := by
    simp [preserveT, hs, hp, hr]
  exact ⟨e, fun t ht => assign_elems _ old new t (e ▸ ht)⟩

/-- for equal ranks the single code path of the source (`zip` + `setitem`) *is* the common-box
    copy: the case split of the model is faithful -/
theorem C04_equal_rank_is_box (old new : Tensor α) (hl : old.shape.length = new.shape.length) :
    assign (min old.shape.length new.shape.length) old new = some (copyBox old new) :=
  assign_full_rank old new hl

/-- `shrink_preserve_parameters` coincides with `preserve_parameters` whenever the axes it takes
    whole (2, 3, …: kernel height/width) are unchanged -/
theorem C04_shrink_eq_preserve (pol : NormPolicy) (norm : Bool) (old new : Tensor α)
    (hl : old.shape.length = new.shape.length) (ht : old.shape.drop 2 = new.shape.drop 2) :
    preserveT pol .shrink norm old new = preserveT pol .full norm old new :=
  preserveT_shrink_eq_full pol norm old new hl ht

/-! ## cloning -/

/-- if `cls(**init_dict)` rebuilds the same architecture (names and shapes of parameters and
    buffers — C03's obligation, re-checked on the implementation by the harness), the clone's state
    equals the original's state, value for value: any function of the state is identical -/
theorem C04_clone_same_state (fresh self : NetState α)
    (hfp : Functional self.params) (hfb : Functional self.buffers)
    (hp : sameKeysShapes fresh.params self.params = true)
    (hb : sameKeysShapes fresh.buffers self.buffers = true) :
    clone fresh self = self ∧ ∀ {β : Type} (F : NetState α → β), F (clone fresh self) = F self := by
  have : clone fresh self = self := by
    simp [clone, loadState, loadStrict_same _ _ hfp hp, loadStrict_same _ _ hfb hb]
  exact ⟨this, fun F => by rw [this]⟩

/-- as coded: when the rebuilt architecture differs, `load_state_dict` raises, the `RuntimeError`
    is swallowed and the clone silently keeps its fresh weights -/
theorem C04_clone_mismatch_keeps_fresh (fresh self : NetState α)
    (h : sameKeysShapes fresh.params self.params = false) : clone fresh self = fresh := by
  simp [clone, loadState, loadStrict_mismatch _ _ h]

/-- **Repaired** `EvolvableWrapper` clone (`EvolvableDistribution.clone` loading its own state):
    with the same names the clone's parameters are the original's, wrapper parameters included -/
theorem C04_wrapper_clone (isWrapped : String → Bool) (fresh self : Params α)
    (hf : Functional self) (hk : fresh.map Prod.fst = self.map Prod.fst) :
    cloneWrapper true isWrapped fresh self = self :=
  cloneWrapper_map_eq true isWrapped self fresh self hk hf (fun _ _ => Or.inr rfl)

/-- **Current code** (`loadOwn = false`): only the wrapped network's entries are carried over, so the
    clone equals the original when the wrapper owns no parameter (discrete action spaces).
    Missing for the full statement: the wrapper's own parameters (`log_std` of a Box action space). -/
theorem C04_wrapper_clone_partial (isWrapped : String → Bool) (fresh self : Params α)
    (hf : Functional self) (hk : fresh.map Prod.fst = self.map Prod.fst)
    (hall : ∀ kt ∈ self, isWrapped kt.1 = true) :
    cloneWrapper false isWrapped fresh self = self :=
  cloneWrapper_map_eq false isWrapped self fresh self hk hf (fun kt h => Or.inl (hall kt h))

/-- the learned `log_std = [7]` of the original is `[0]` (its initial value) in the clone -/
theorem C04_wrapper_clone_witness :
    cloneWrapper false (fun k => k != "log_std")
      [("log_std", (⟨[1], [0]⟩ : Tensor Nat)), ("net.w", ⟨[1], [1]⟩)]
      [("log_std", ⟨[1], [7]⟩), ("net.w", ⟨[1], [5]⟩)] ≠
      [("log_std", ⟨[1], [7]⟩), ("net.w", ⟨[1], [5]⟩)] := by decide

/-! ## configuration and live network stay in step along any call sequence -/

/-- **As coded on HEAD** (`early = false`): after *any* sequence of outermost mutation calls -
    accepted, refused at a limit (configuration unchanged), or aborted by an exception at any
    point - the depth counter is back at 0 and the live network is the one the configuration
    (`init_dict`, every constructor option included) describes.  Hence `clone()` and
    `reinit_from_mutated`, which rebuild from `init_dict`, rebuild the architecture whose weights
    they load (`C04_clone_same_state` applies). -/
theorem C04_context_in_sync (c : Ctx) (h : c.inSync = true) (es : List Ev) :
    (Ctx.run false c es).inSync = true := by
  induction es generalizing c with
  | nil => exact h
  | cons e rest ih =>
    apply ih
    simp only [Ctx.inSync, Bool.and_eq_true, beq_iff_eq] at h
    simp [Ctx.call, Ctx.inSync, h.1]

/-- the variant that returns from `__exit__` before the bookkeeping when an exception escapes is
    wrong: one aborted call, then one valid mutation - the configuration moved, the network did not -/
theorem C04_context_early_return_witness :
    (Ctx.run true ⟨0, 0, 0⟩ [⟨false, true⟩, ⟨true, false⟩]).inSync = false := by decide

/-! ## non-vacuity: concrete states satisfy the hypotheses, with the expected results -/

/-- a `[2,3]` weight grown to `[3,4]`: rows 0–1 / columns 0–2 are the old values, the rest fresh -/
example : preserveNet .slice .full [("w", ⟨[2, 3], [1, 2, 3, 4, 5, 6]⟩)]
      [("w", ⟨[3, 4], [0, 0, 0, 0, 0, 0, 0, 0, 0, 0, 0, 0]⟩), ("b", ⟨[3], [9, 9, 9]⟩)] =
    some [("w", ⟨[3, 4], [1, 2, 3, 0, 4, 5, 6, 0, 0, 0, 0, 0]⟩), ("b", ⟨[3], [9, 9, 9]⟩)] := by decide
/-- shrinking `[3,4]` to `[2,3]` keeps the leading corner -/
example : preserveT .reset .full false (⟨[3, 4], [1, 2, 3, 4, 5, 6, 7, 8, 9, 10, 11, 12]⟩ : Tensor Nat)
      ⟨[2, 3], [0, 0, 0, 0, 0, 0]⟩ = some ⟨[2, 3], [1, 2, 3, 5, 6, 7]⟩ := by decide
/-- norm key: reset under the current policy, sliced under the repaired one -/
example : preserveT .reset .full (isNormKey "mlp_layer_norm_1.weight") (⟨[2], [5, 7]⟩ : Tensor Nat)
      ⟨[3], [1, 1, 1]⟩ = some ⟨[3], [1, 1, 1]⟩ := by decide
example : preserveT .slice .full (isNormKey "mlp_layer_norm_1.weight") (⟨[2], [5, 7]⟩ : Tensor Nat)
      ⟨[3], [1, 1, 1]⟩ = some ⟨[3], [5, 7, 1]⟩ := by decide
/-- `bn1.weight` (ResNet) does not contain "norm" and is sliced by the current code -/
example : isNormKey "resnet_residual_block_1.bn1.weight" = false := by decide
/-- rank mismatch as coded: `[3]` into `[2,3]` raises, `[2,1]`-shaped old into `[2,3]`… broadcasts -/
example : preserveT .slice .full false (⟨[3], [1, 2, 3]⟩ : Tensor Nat) ⟨[2, 3], [0, 0, 0, 0, 0, 0]⟩ = none := by decide
example : preserveT .slice .full false (⟨[3], [1, 2, 3]⟩ : Tensor Nat) ⟨[2, 2], [0, 0, 0, 0]⟩ =
    some ⟨[2, 2], [1, 2, 1, 2]⟩ := by decide
/-- shrink variant with a changed kernel axis: raises (3≠2) or broadcasts (1→2) -/
example : preserveT .slice .shrink false (⟨[1, 1, 3], [1, 2, 3]⟩ : Tensor Nat) ⟨[1, 1, 2], [0, 0]⟩ = none := by decide
example : preserveT .slice .shrink false (⟨[2, 1, 1], [7, 8]⟩ : Tensor Nat) ⟨[1, 1, 2], [0, 0]⟩ =
    some ⟨[1, 1, 2], [7, 7]⟩ := by decide
/-- hypotheses of the no-op theorem on a concrete state -/
example : SameArch [("w", (⟨[2], [1, 2]⟩ : Tensor Nat))] [("w", ⟨[2], [0, 0]⟩)] := by unfold SameArch; decide
example : clone (α := Nat) ⟨[("w", ⟨[2], [0, 0]⟩)], []⟩ ⟨[("w", ⟨[2], [4, 5]⟩)], []⟩ = ⟨[("w", ⟨[2], [4, 5]⟩)], []⟩ := by decide
example : clone (α := Nat) ⟨[("w", ⟨[3], [0, 0, 0]⟩)], []⟩ ⟨[("w", ⟨[2], [4, 5]⟩)], []⟩ = ⟨[("w", ⟨[3], [0, 0, 0]⟩)], []⟩ := by decide

/-! ## the same statements over the definitions generated from the source text

`Gen/PreserveGen.lean` is written by `harness/py2lean_preserve.py` from the source of
`preserve_parameters`, `shrink_preserve_parameters`, `clone`, the `recreate_*` methods and
`reinit_from_mutated` on every run; `Proofs/PreserveGenEq.lean` proves it equal to the model with the
switches `NormPolicy.slice`, `BufPolicy.carry`.  A network is its `named_parameters()` and
`named_buffers()`; `DistinctNames` (the names of one module's tensors are pairwise distinct) is what
torch guarantees. -/
section source_translation
open PreserveGen

/-- the names of a module's parameters and buffers are pairwise distinct -/
abbrev DistinctNames (n : PyNet α) : Prop := (keys (n.named_parameters ++ n.named_buffers)).Nodup

/-- every tensor (parameter or buffer) of the network, by name -/
abbrev tensorsOf (n : PyNet α) : List (String × PyTensor α) := n.named_parameters ++ n.named_buffers

theorem mem_allT {n : PyNet α} {key : String} {t : Tensor α} (h : (key, t) ∈ allT n) :
    (key, ofM t) ∈ tensorsOf n := by
  simp only [allT, toMs, List.mem_map] at h
  obtain ⟨kt, hm, e⟩ := h
  obtain ⟨rfl, rfl⟩ := Prod.mk.inj e
  exact hm

theorem allT_mem {n : PyNet α} {key : String} {t : PyTensor α} (h : (key, t) ∈ tensorsOf n) :
    (key, toM t) ∈ allT n := by
  simp only [allT, toMs, List.mem_map]
  exact ⟨(key, t), h, rfl⟩

/-- **`EvolvableModule.preserve_parameters` as written in the source**: every tensor — parameter or
    buffer, norm layers included — that exists before and after (same rank) keeps its values on the
    common index range and has the fresh network's values outside it. -/
theorem C04_source_translation_common_box (old new res : PyNet α) (ho : DistinctNames old)
    (hn : DistinctNames new) (h : EvolvableModule.preserve_parameters old new = some res)
    (key : String) (o n : PyTensor α) (hko : pyLookup (tensorsOf old) key = some o)
    (hkn : (key, n) ∈ tensorsOf new) (hwo : (toM o).WF) (hwn : (toM n).WF)
    (hr : o.shape.length = n.shape.length) :
    ∃ t, (key, t) ∈ tensorsOf res ∧ t.shape = n.shape ∧ (toM t).WF ∧
      (∀ idx, inBounds (boxMin o.shape n.shape) idx = true → (toM t).get idx = (toM o).get idx) ∧
      (∀ idx, inBounds (boxMin o.shape n.shape) idx = false → (toM t).get idx = (toM n).get idx) := by
  obtain ⟨t, hm, hs, hw, hin, hout⟩ := C04_common_box .full (allT old) (allT new) (allT res)
    (gen_preserve_parameters_all old new res ho hn h) key (toM o) (toM n)
    (by rw [allT, lookup_toMs, hko]; rfl) (allT_mem hkn) (fun h => by cases h) hwo hwn hr
    (fun h => by cases h)
  exact ⟨ofM t, mem_allT hm, hs, hw, hin, hout⟩

/-- **`EvolvableCNN.shrink_preserve_parameters` as written in the source**: the same, when the axes it
    does not slice (2, 3, …) are unchanged. -/
theorem C04_source_translation_shrink_common_box (old new res : PyNet α) (ho : DistinctNames old)
    (hn : DistinctNames new) (h : EvolvableCNN.shrink_preserve_parameters old new = some res)
    (key : String) (o n : PyTensor α) (hko : pyLookup (tensorsOf old) key = some o)
    (hkn : (key, n) ∈ tensorsOf new) (hwo : (toM o).WF) (hwn : (toM n).WF)
    (hr : o.shape.length = n.shape.length) (hd : o.shape.drop 2 = n.shape.drop 2) :
    ∃ t, (key, t) ∈ tensorsOf res ∧ t.shape = n.shape ∧ (toM t).WF ∧
      (∀ idx, inBounds (boxMin o.shape n.shape) idx = true → (toM t).get idx = (toM o).get idx) ∧
      (∀ idx, inBounds (boxMin o.shape n.shape) idx = false → (toM t).get idx = (toM n).get idx) := by
  obtain ⟨t, hm, hs, hw, hin, hout⟩ := C04_common_box .shrink (allT old) (allT new) (allT res)
    (gen_shrink_preserve_parameters_all old new res ho hn h) key (toM o) (toM n)
    (by rw [allT, lookup_toMs, hko]; rfl) (allT_mem hkn) (fun h => by cases h) hwo hwn hr
    (fun _ => hd)
  exact ⟨ofM t, mem_allT hm, hs, hw, hin, hout⟩

/-- equal shapes ⇒ the WHOLE tensor is carried over (`param.data = old_param.data`), either function -/
theorem C04_source_translation_equal_shape_whole (old new res : PyNet α) (ho : DistinctNames old)
    (hn : DistinctNames new)
    (h : EvolvableModule.preserve_parameters old new = some res ∨
         EvolvableCNN.shrink_preserve_parameters old new = some res)
    (key : String) (o n : PyTensor α) (hko : pyLookup (tensorsOf old) key = some o)
    (hkn : (key, n) ∈ tensorsOf new) (hs : o.shape = n.shape) : (key, o) ∈ tensorsOf res := by
  have hl : lookup (allT old) key = some (toM o) := by rw [allT, lookup_toMs, hko]; rfl
  have hs' : (toM o).shape = (toM n).shape := hs
  rcases h with h | h
  · obtain ⟨t, ht, hm⟩ := preserveNet_mem (gen_preserve_parameters_all old new res ho hn h) (allT_mem hkn)
    simp only [preserveKey, hl, preserveT_same_shape _ _ _ _ _ hs', Option.some.injEq] at ht
    subst ht; exact mem_allT hm
  · obtain ⟨t, ht, hm⟩ := preserveNet_mem (gen_shrink_preserve_parameters_all old new res ho hn h) (allT_mem hkn)
    simp only [preserveKey, hl, preserveT_same_shape _ _ _ _ _ hs', Option.some.injEq] at ht
    subst ht; exact mem_allT hm

/-- names only the new network has are untouched; the result has exactly the new network's names -/
theorem C04_source_translation_missing_key_fresh (old new res : PyNet α) (ho : DistinctNames old)
    (hn : DistinctNames new) (h : EvolvableModule.preserve_parameters old new = some res) :
    keys (tensorsOf res) = keys (tensorsOf new) ∧
    ∀ (key : String) (n : PyTensor α), pyLookup (tensorsOf old) key = none → (key, n) ∈ tensorsOf new →
      (key, n) ∈ tensorsOf res := by
  obtain ⟨hk, hm⟩ := C04_missing_key_fresh .slice .full (allT old) (allT new) (allT res)
    (gen_preserve_parameters_all old new res ho hn h)
  refine ⟨?_, fun key n hko hkn => ?_⟩
  · simpa [allT, keys_toMs] using hk
  · exact mem_allT (hm key (toM n) (by rw [allT, lookup_toMs, hko]; rfl) (allT_mem hkn))

/-- **an unchanged architecture** (same names and shapes of parameters and buffers): both carry functions
    return the old network's state, all of it — any function of the state is unchanged -/
theorem C04_source_translation_noop_same_state (old fresh : PyNet α) (hs : SameArchNet old fresh)
    (ho : DistinctNames old) :
    EvolvableModule.preserve_parameters old fresh = some old ∧
    EvolvableCNN.shrink_preserve_parameters old fresh = some old ∧
    ∀ {β : Type} (F : PyNet α → β), (EvolvableModule.preserve_parameters old fresh).map F = some (F old) := by
  have h1 := gen_preserve_parameters_noop old fresh hs ho
  exact ⟨h1, gen_shrink_preserve_parameters_noop old fresh hs ho, fun F => by rw [h1]; rfl⟩

/-- **which state goes where**: `EvolvableCNN.recreate_network` and `EvolvableNetwork.recreate_encoder`
    are the model's `recreate` with the repaired switches, old = the live `self.model` / `self.encoder`,
    new = the network just built, `shrink_params` selecting the shrink variant -/
theorem C04_source_translation_recreate_is_model (live fresh : PyNet α) (shrink : Bool)
    (ho : DistinctNames live) (hn : DistinctNames fresh)
    (h1 : ∀ kt ∈ (toState fresh).params, lookup (toState live).buffers kt.1 = none)
    (h2 : ∀ kt ∈ (toState fresh).buffers, lookup (toState live).params kt.1 = none) :
    (EvolvableCNN.recreate_network live shrink fresh).map toState =
      recreate .slice .carry (if shrink then .shrink else .full) (toState live) (toState fresh) ∧
    (EvolvableNetwork.recreate_encoder live fresh).map toState =
      recreate .slice .carry .full (toState live) (toState fresh) := by
  rw [gen_cnn_recreate_network_eq live fresh shrink ho hn, gen_recreate_encoder_eq live fresh ho hn,
    recreateMerged_eq_recreate _ _ _ h1 h2, recreateMerged_eq_recreate _ _ _ h1 h2]
  exact ⟨rfl, rfl⟩

/-- the two parts of a multi-input encoder are each carried over from their own predecessor; an
    unchanged architecture keeps both states -/
theorem C04_source_translation_multi_input (fnet dense f0 f1 : PyNet α) :
    EvolvableMultiInput.recreate_network fnet dense f0 f1 =
      (match EvolvableModule.preserve_parameters fnet f0, EvolvableModule.preserve_parameters dense f1 with
       | some a, some b => some (a, b)
       | _, _ => none) ∧
    (SameArchNet fnet f0 → SameArchNet dense f1 → DistinctNames fnet → DistinctNames dense →
      EvolvableMultiInput.recreate_network fnet dense f0 f1 = some (fnet, dense)) := by
  have e : EvolvableMultiInput.recreate_network fnet dense f0 f1 =
      (match EvolvableModule.preserve_parameters fnet f0, EvolvableModule.preserve_parameters dense f1 with
       | some a, some b => some (a, b)
       | _, _ => none) := by
    simp only [EvolvableMultiInput.recreate_network]
    cases EvolvableModule.preserve_parameters fnet f0 <;>
      cases EvolvableModule.preserve_parameters dense f1 <;> rfl
  refine ⟨e, fun s1 s2 d1 d2 => ?_⟩
  rw [e, gen_preserve_parameters_noop fnet f0 s1 d1, gen_preserve_parameters_noop dense f1 s2 d2]

/-- **cloning / re-initialising from the mutated network**: when `cls(**init_dict)` rebuilds the same
    architecture, `clone()` and `reinit_from_mutated` return the source network's state — any function
    of the state is identical -/
theorem C04_source_translation_clone_same_state (self fresh : PyNet α) (hs : SameArchNet fresh self)
    (hd : DistinctNames self) :
    EvolvableModule.clone self fresh = some self ∧
    Mutations.reinit_from_mutated self fresh = some self ∧
    ∀ {β : Type} (F : PyNet α → β), (EvolvableModule.clone self fresh).map F = some (F self) := by
  have h1 := gen_clone_eq self fresh hs hd
  exact ⟨h1, gen_reinit_from_mutated_eq self fresh hs hd, fun F => by rw [h1]; rfl⟩

/-- non-vacuity: the hypotheses hold on a concrete pair and the generated function computes the
    expected tensors (a `[2,3]` weight grown to `[3,4]`, an added bias, a resized running mean) -/
example : DistinctNames (⟨[("w", ⟨[2, 3], [1, 2, 3, 4, 5, 6]⟩)], [("m", ⟨[2], [7, 8]⟩)]⟩ : PyNet Nat) := by decide
example : EvolvableModule.preserve_parameters
      (⟨[("w", ⟨[2, 3], [1, 2, 3, 4, 5, 6]⟩)], [("m", ⟨[2], [7, 8]⟩)]⟩ : PyNet Nat)
      ⟨[("w", ⟨[3, 4], [0, 0, 0, 0, 0, 0, 0, 0, 0, 0, 0, 0]⟩), ("b", ⟨[3], [9, 9, 9]⟩)], [("m", ⟨[3], [0, 0, 0]⟩)]⟩ =
    some ⟨[("w", ⟨[3, 4], [1, 2, 3, 0, 4, 5, 6, 0, 0, 0, 0, 0]⟩), ("b", ⟨[3], [9, 9, 9]⟩)], [("m", ⟨[3], [7, 8, 0]⟩)]⟩ := by
  have : ∀ a b : Option (PyNet Nat), a.map toState = b.map toState → a = b := by
    intro a b h
    cases a <;> cases b <;> simp at h ⊢
    exact toState_inj h
  apply this
  decide

end source_translation

end Preserve
