import Proofs.PreserveProv
import Proofs.PreserveGenEq
import Proofs.PreserveMaGenEq

/-!
# C04 — mutations reuse learned weights; an unchanged architecture computes the same function;
# cloning reproduces outputs

Model: `Model/Preserve.lean`.  A tensor is a shape (any rank) with flat row-major data; the data
type `α` is arbitrary (the code only moves values).  `preserveNet pol mode old new` is
`preserve_parameters` / `shrink_preserve_parameters` applied to the `named_parameters()` of the old
and of the freshly built network; `recreate` is `recreate_network`; `clone` is
`EvolvableModule.clone`.  Every theorem holds for every rank, every pair of shapes, every list of
parameters and every data type.

Three behaviours of the current code contradict the property; each is a switch of the model, the
full-strength theorem is proved for the repaired value, a `_partial` theorem for the current value,
and the negation of the full statement under the current value is proved on a concrete witness:

* `NormPolicy.reset` (`"norm" not in key` guard): a resized LayerNorm/BatchNorm weight or bias is
  re-initialised although it exists before and after and has a common index range;
* `BufPolicy.fresh` (only `named_parameters()` are visited): BatchNorm running statistics are
  re-initialised by *every* `recreate_network`, also when no shape changes, so a mutation that
  leaves the architecture unchanged changes the (eval-mode) function.

* `cloneWrapper false` (`EvolvableDistribution.clone` builds a new wrapper and never loads the
  wrapper's own state): the learned `log_std` is lost in a clone of the distribution head.

A fourth defect found by the correspondence run is about *dispatch*, not about weights, and is not
modelled here: after `recreate_network` replaced a network's encoder/head objects, the network's
dotted mutation methods (`encoder.add_node`, …) are still bound to the discarded objects
(harness probe `stale`, finding `C04-stale-nested-mutation-methods`).

What is *not* modelled: the forward pass (a parameter: "any function of the state"), float
arithmetic (values are only copied), and object identity (equal-shape parameters are aliased with
the old network's storage — C01's model covers aliasing).
-/
namespace Preserve
variable {α : Type}

/-! ## row-major addressing -/

/-- an in-bounds multi-index addresses an element of the flat data -/
theorem C04_offset_lt (s : Shape) (idx : List Nat) (h : inBounds s idx = true) :
    offset s idx < numel s := offset_lt h

/-- distinct in-bounds multi-indices have distinct flat offsets -/
theorem C04_offset_injective (s : Shape) (a b : List Nat) (ha : inBounds s a = true)
    (hb : inBounds s b = true) (h : offset s a = offset s b) : a = b := offset_inj ha hb h

/-- … and every flat offset below `numel` is the offset of exactly one in-bounds multi-index
    (`unravel`), so a provenance map over flat indices covers every element exactly once -/
theorem C04_offset_bijective (s : Shape) :
    (∀ k, k < numel s → inBounds s (unravel s k) = true ∧ offset s (unravel s k) = k) ∧
    (∀ idx, inBounds s idx = true → unravel s (offset s idx) = idx) :=
  ⟨fun _ hk => ⟨(offset_unravel hk).2, (offset_unravel hk).1⟩, fun _ h => unravel_offset h⟩

/-! ## every weight that exists before and after keeps its value on the common index range -/

/-- the statement of the property for one call of `preserve_parameters`
    (`mode = .full`) or `shrink_preserve_parameters` (`mode = .shrink`) under a norm policy -/
def CommonBoxHolds (α : Type) (pol : NormPolicy) (normOnly : Bool) : Prop :=
  ∀ (mode : Mode) (old new res : Params α), preserveNet pol mode old new = some res →
    ∀ (key : String) (o n : Tensor α), lookup old key = some o → (key, n) ∈ new →
      (normOnly = true → isNormKey key = false) →
      o.WF → n.WF → o.shape.length = n.shape.length →
      (mode = .shrink → o.shape.drop 2 = n.shape.drop 2) →
      ∃ t, (key, t) ∈ res ∧ t.shape = n.shape ∧ t.WF ∧
        (∀ idx, inBounds (boxMin o.shape n.shape) idx = true → t.get idx = o.get idx) ∧
        (∀ idx, inBounds (boxMin o.shape n.shape) idx = false → t.get idx = n.get idx)

theorem commonBox_aux (pol : NormPolicy) (normOnly : Bool)
    (hpol : pol = .slice ∨ normOnly = true) : CommonBoxHolds α pol normOnly := by
  intro mode old new res h key o n ho hn hnk hwo hwn hr hm
  obtain ⟨t, ht, hmem⟩ := preserveNet_mem h hn
  simp only [preserveKey, ho] at ht
  have hp : ¬ (isNormKey key = true ∧ pol = .reset) := by
    rintro ⟨h1, h2⟩
    rcases hpol with h3 | h3
    · rw [h3] at h2; cases h2
    · rw [hnk h3] at h1; cases h1
  have hfull : preserveT pol .full (isNormKey key) o n = some t := by
    cases mode with
    | full => exact ht
    | shrink => rw [← preserveT_shrink_eq_full pol _ o n hr (hm rfl)]; exact ht
  obtain ⟨t', ht', hs, hw, hin, hout⟩ := preserveT_common_box pol (isNormKey key) o n hwo hwn hr hp
  rw [hfull] at ht'
  cases ht'
  exact ⟨t, hmem, hs, hw, hin, hout⟩

/-- **Repaired behaviour** (`normPolicy = slice`): for every parameter list, every key present
    before and after, every rank and every pair of shapes: inside the component-wise minimum of the
    two shapes the re-created parameter equals the old one, outside it keeps its fresh
    initialisation.  (For `shrink_preserve_parameters` under the side condition that the axes it
    does not slice are unchanged, which `remove_channel/remove_layer/remove_block` guarantee.) -/
theorem C04_common_box : CommonBoxHolds α .slice false := commonBox_aux _ _ (Or.inl rfl)

/-- **Current code** (`normPolicy = reset`): the same for every key that does not contain "norm".
    Missing for the full statement: keys containing "norm" (see the witness below). -/
theorem C04_common_box_partial : CommonBoxHolds α .reset true := commonBox_aux _ _ (Or.inr rfl)

/-- under the current policy the full statement is false: a LayerNorm weight `[5, 7]` of a layer
    grown from 2 to 3 units comes out as the fresh `[1, 1, 1]` -/
theorem C04_common_box_reset_witness : ¬ CommonBoxHolds Nat .reset false := by
  intro H
  obtain ⟨t, hmem, _, _, hin, _⟩ := H .full
    [("mlp_layer_norm_1.weight", ⟨[2], [5, 7]⟩)] [("mlp_layer_norm_1.weight", ⟨[3], [1, 1, 1]⟩)]
    [("mlp_layer_norm_1.weight", ⟨[3], [1, 1, 1]⟩)] (by decide)
    "mlp_layer_norm_1.weight" ⟨[2], [5, 7]⟩ ⟨[3], [1, 1, 1]⟩ (by decide) (by simp)
    (by intro h; cases h) (by unfold Tensor.WF; decide) (by unfold Tensor.WF; decide) rfl
    (by intro h; cases h)
  simp only [List.mem_singleton, Prod.mk.injEq, true_and] at hmem
  subst hmem
  have := hin [0] (by decide)
  revert this
  decide

/-- outside the common box a re-created parameter keeps the new initialisation (either policy; for
    a norm key under `reset` the *whole* tensor keeps it) -/
theorem C04_outside_box_fresh (pol : NormPolicy) (old new res : Params α)
    (h : preserveNet pol .full old new = some res) (key : String) (o n : Tensor α)
    (ho : lookup old key = some o) (hn : (key, n) ∈ new) (hwo : o.WF) (hwn : n.WF)
    (hr : o.shape.length = n.shape.length) :
    ∃ t, (key, t) ∈ res ∧ t.shape = n.shape ∧
      ∀ idx, inBounds (boxMin o.shape n.shape) idx = false → t.get idx = n.get idx := by
  obtain ⟨t, ht, hmem⟩ := preserveNet_mem h hn
  simp only [preserveKey, ho] at ht
  by_cases hp : isNormKey key = true ∧ pol = .reset
  · by_cases hs : o.shape = n.shape
    · obtain ⟨t', ht', hs', _, _, hout⟩ :=
        preserveT_common_box .slice (isNormKey key) o n hwo hwn hr (by simp)
      rw [preserveT_same_shape _ _ _ _ _ hs] at ht ht'
      cases ht; cases ht'
      exact ⟨_, hmem, hs', hout⟩
    · rw [hp.1, hp.2, preserveT_norm_reset _ _ _ hs] at ht
      cases ht
      exact ⟨_, hmem, rfl, fun _ _ => rfl⟩
  · obtain ⟨t', ht', hs', _, _, hout⟩ := preserveT_common_box pol (isNormKey key) o n hwo hwn hr hp
    rw [ht] at ht'; cases ht'
    exact ⟨_, hmem, hs', hout⟩

/-- a parameter whose name does not occur in the old network (added layer) stays freshly
    initialised; a name that only the old network has (removed layer) does not appear -/
theorem C04_missing_key_fresh (pol : NormPolicy) (mode : Mode) (old new res : Params α)
    (h : preserveNet pol mode old new = some res) :
    res.map Prod.fst = new.map Prod.fst ∧
    ∀ (key : String) (n : Tensor α), lookup old key = none → (key, n) ∈ new → (key, n) ∈ res := by
  refine ⟨preserveNet_keys h, ?_⟩
  intro key n ho hn
  obtain ⟨t, ht, hmem⟩ := preserveNet_mem h hn
  simp only [preserveKey, ho, Option.some.injEq] at ht
  rw [ht]; exact hmem

/-- the provenance map printed by the driver (computed from key class and the two shapes only) is
    exactly what happens to the data: both raise together, otherwise the result has the new shape
    and element `k` is `old[j]` where the map says `old j` and the fresh value where it says `fresh` -/
theorem C04_provenance_sound (pol : NormPolicy) (mode : Mode) (norm : Bool) (old new : Tensor α)
    (ho : old.WF) (hn : new.WF) :
    match provT pol mode norm old.shape new.shape, preserveT pol mode norm old new with
    | none, none => True
    | some p, some t => t.shape = new.shape ∧ t.data = applyProv p old.data new.data
    | _, _ => False := provT_spec pol mode norm old new ho hn

/-! ## an unchanged architecture computes the same function -/

/-- keys are pairwise distinct (`named_parameters()` of a torch module) -/
def Functional (ps : Params α) : Prop := ∀ kt ∈ ps, lookup ps kt.1 = some kt.2

theorem functional_of_nodup (ps : Params α) (h : (ps.map Prod.fst).Nodup) : Functional ps :=
  lookup_of_nodup h

/-- same names and same shapes, in the same order -/
def SameArch (a b : Params α) : Prop :=
  a.map (fun kt => (kt.1, kt.2.shape)) = b.map (fun kt => (kt.1, kt.2.shape))

/-- **Repaired behaviour** (`bufPolicy = carry`, either norm policy, either mode): if the re-created
    network has the same parameter and buffer names and shapes as the old one, the state after
    `recreate_network` *is* the old state — hence any function of the state (the forward pass on
    any input, in any mode) is identical. -/
theorem C04_noop_same_state (pol : NormPolicy) (mode : Mode) (old fresh : NetState α)
    (hfp : Functional old.params) (hfb : Functional old.buffers)
    (hp : SameArch old.params fresh.params) (hb : SameArch old.buffers fresh.buffers) :
    recreate pol .carry mode old fresh = some old ∧
    ∀ {β : Type} (F : NetState α → β), (recreate pol .carry mode old fresh).map F = some (F old) := by
  have h1 := preserveNet_noop pol mode old.params hfp old.params fresh.params (fun _ h => h) hp
  have h2 := preserveNet_noop .slice mode old.buffers hfb old.buffers fresh.buffers (fun _ h => h) hb
  have : recreate pol .carry mode old fresh = some old := by
    simp [recreate, h1, h2]
  exact ⟨this, fun F => by rw [this]; rfl⟩

/-- **Current code** (`bufPolicy = fresh`): the parameters after a shape-preserving
    `recreate_network` are exactly the old ones; the buffers are the freshly initialised ones.  So
    the state — and any function of it — is unchanged for modules without buffers (MLP, LSTM, SimBa
    and their networks; NoisyLinear in eval mode reads no buffer).  Missing for the full statement:
    modules with BatchNorm (CNN with `layer_norm=True`, ResNet, MultiInput with an image member). -/
theorem C04_noop_same_state_partial (pol : NormPolicy) (mode : Mode) (old fresh : NetState α)
    (hfp : Functional old.params) (hp : SameArch old.params fresh.params) :
    recreate pol .fresh mode old fresh = some { params := old.params, buffers := fresh.buffers } ∧
    (fresh.buffers = old.buffers →
      ∀ {β : Type} (F : NetState α → β), (recreate pol .fresh mode old fresh).map F = some (F old)) := by
  have h1 := preserveNet_noop pol mode old.params hfp old.params fresh.params (fun _ h => h) hp
  have : recreate pol .fresh mode old fresh = some { params := old.params, buffers := fresh.buffers } := by
    simp [recreate, h1]
  refine ⟨this, ?_⟩
  intro hb β F
  rw [this, hb]
  rfl

/-- under the current buffer policy the full statement is false: BatchNorm running mean `[3]`
    of an unchanged layer is `[0]` after `recreate_network` -/
theorem C04_noop_buffers_witness :
    ¬ ∀ (old fresh : NetState Nat), Functional old.params → Functional old.buffers →
        SameArch old.params fresh.params → SameArch old.buffers fresh.buffers →
        recreate .reset .fresh .full old fresh = some old := by
  intro H
  have := H ⟨[("bn.weight", ⟨[1], [2]⟩)], [("bn.running_mean", ⟨[1], [3]⟩)]⟩
            ⟨[("bn.weight", ⟨[1], [1]⟩)], [("bn.running_mean", ⟨[1], [0]⟩)]⟩
            (by intro kt h; simp at h; subst h; decide) (by intro kt h; simp at h; subst h; decide)
            (by unfold SameArch; decide) (by unfold SameArch; decide)
  revert this
  decide

/-! ## rank mismatch and the shrink variant, as coded -/

/-- same-named parameters of different rank: `zip` truncates to the shorter rank and torch
    broadcasts or raises; whatever happens, the result (if any) has the new shape and size and
    every element is either the fresh one or *some* element of the old tensor.  No common-box
    guarantee is claimed (there is no common index range). -/
theorem C04_rank_mismatch (pol : NormPolicy) (norm : Bool) (old new : Tensor α)
    (hr : old.shape.length ≠ new.shape.length) (hp : ¬ (norm = true ∧ pol = .reset)) :
    preserveT pol .full norm old new = assign (min old.shape.length new.shape.length) old new ∧
    ∀ t, preserveT pol .full norm old new = some t →
      t.shape = new.shape ∧ t.data.length = new.data.length ∧
      ∀ (k : Nat) (v : α), t.data[k]? = some v →
        new.data[k]? = some v ∨ ∃ j : Nat, old.data[j]? = some v := by
  have hs : old.shape ≠ new.shape := fun e => hr (by rw [e])
  have e : preserveT pol .full norm old new = assign (min old.shape.length new.shape.length) old new := by
    simp [preserveT, hs, hp, hr]
  exact ⟨e, fun t ht => assign_elems _ old new t (e ▸ ht)⟩

/-- for equal ranks the single code path of the source (`zip` + `setitem`) *is* the common-box
    copy: the case split of the model is faithful -/
theorem C04_equal_rank_is_box (old new : Tensor α) (hl : old.shape.length = new.shape.length) :
    assign (min old.shape.length new.shape.length) old new = some (copyBox old new) :=
  assign_full_rank old new hl

/-- `shrink_preserve_parameters` coincides with `preserve_parameters` whenever the axes it takes
    whole (2, 3, …: kernel height/width) are unchanged -/
theorem C04_shrink_eq_preserve (pol : NormPolicy) (norm : Bool) (old new : Tensor α)
    (hl : old.shape.length = new.shape.length) (ht : old.shape.drop 2 = new.shape.drop 2) :
    preserveT pol .shrink norm old new = preserveT pol .full norm old new :=
  preserveT_shrink_eq_full pol norm old new hl ht

/-! ## cloning -/

/-- if `cls(**init_dict)` rebuilds the same architecture (names and shapes of parameters and
    buffers — C03's obligation, re-checked on the implementation by the harness), the clone's state
    equals the original's state, value for value: any function of the state is identical -/
theorem C04_clone_same_state (fresh self : NetState α)
    (hfp : Functional self.params) (hfb : Functional self.buffers)
    (hp : sameKeysShapes fresh.params self.params = true)
    (hb : sameKeysShapes fresh.buffers self.buffers = true) :
    clone fresh self = self ∧ ∀ {β : Type} (F : NetState α → β), F (clone fresh self) = F self := by
  have : clone fresh self = self := by
    simp [clone, loadState, loadStrict_same _ _ hfp hp, loadStrict_same _ _ hfb hb]
  exact ⟨this, fun F => by rw [this]⟩

/-- as coded: when the rebuilt architecture differs, `load_state_dict` raises, the `RuntimeError`
    is swallowed and the clone silently keeps its fresh weights -/
theorem C04_clone_mismatch_keeps_fresh (fresh self : NetState α)
    (h : sameKeysShapes fresh.params self.params = false) : clone fresh self = fresh := by
  simp [clone, loadState, loadStrict_mismatch _ _ h]

/-- **Repaired** `EvolvableWrapper` clone (`EvolvableDistribution.clone` loading its own state):
    with the same names the clone's parameters are the original's, wrapper parameters included -/
theorem C04_wrapper_clone (isWrapped : String → Bool) (fresh self : Params α)
    (hf : Functional self) (hk : fresh.map Prod.fst = self.map Prod.fst) :
    cloneWrapper true isWrapped fresh self = self :=
  cloneWrapper_map_eq true isWrapped self fresh self hk hf (fun _ _ => Or.inr rfl)

/-- **Current code** (`loadOwn = false`): only the wrapped network's entries are carried over, so the
    clone equals the original when the wrapper owns no parameter (discrete action spaces).
    Missing for the full statement: the wrapper's own parameters (`log_std` of a Box action space). -/
theorem C04_wrapper_clone_partial (isWrapped : String → Bool) (fresh self : Params α)
    (hf : Functional self) (hk : fresh.map Prod.fst = self.map Prod.fst)
    (hall : ∀ kt ∈ self, isWrapped kt.1 = true) :
    cloneWrapper false isWrapped fresh self = self :=
  cloneWrapper_map_eq false isWrapped self fresh self hk hf (fun kt h => Or.inl (hall kt h))

/-- the learned `log_std = [7]` of the original is `[0]` (its initial value) in the clone -/
theorem C04_wrapper_clone_witness :
    cloneWrapper false (fun k => k != "log_std")
      [("log_std", (⟨[1], [0]⟩ : Tensor Nat)), ("net.w", ⟨[1], [1]⟩)]
      [("log_std", ⟨[1], [7]⟩), ("net.w", ⟨[1], [5]⟩)] ≠
      [("log_std", ⟨[1], [7]⟩), ("net.w", ⟨[1], [5]⟩)] := by decide

/-! ## configuration and live network stay in step along any call sequence -/

/-- **As coded on HEAD** (`early = false`): after *any* sequence of outermost mutation calls -
    accepted, refused at a limit (configuration unchanged), or aborted by an exception at any
    point - the depth counter is back at 0 and the live network is the one the configuration
    (`init_dict`, every constructor option included) describes.  Hence `clone()` and
    `reinit_from_mutated`, which rebuild from `init_dict`, rebuild the architecture whose weights
    they load (`C04_clone_same_state` applies). -/
theorem C04_context_in_sync (c : Ctx) (h : c.inSync = true) (es : List Ev) :
    (Ctx.run false c es).inSync = true := by
  induction es generalizing c with
  | nil => exact h
  | cons e rest ih =>
    apply ih
    simp only [Ctx.inSync, Bool.and_eq_true, beq_iff_eq] at h
    simp [Ctx.call, Ctx.inSync, h.1]

/-- the variant that returns from `__exit__` before the bookkeeping when an exception escapes is
    wrong: one aborted call, then one valid mutation - the configuration moved, the network did not -/
theorem C04_context_early_return_witness :
    (Ctx.run true ⟨0, 0, 0⟩ [⟨false, true⟩, ⟨true, false⟩]).inSync = false := by decide

/-! ## non-vacuity: concrete states satisfy the hypotheses, with the expected results -/

/-- a `[2,3]` weight grown to `[3,4]`: rows 0–1 / columns 0–2 are the old values, the rest fresh -/
example : preserveNet .slice .full [("w", ⟨[2, 3], [1, 2, 3, 4, 5, 6]⟩)]
      [("w", ⟨[3, 4], [0, 0, 0, 0, 0, 0, 0, 0, 0, 0, 0, 0]⟩), ("b", ⟨[3], [9, 9, 9]⟩)] =
    some [("w", ⟨[3, 4], [1, 2, 3, 0, 4, 5, 6, 0, 0, 0, 0, 0]⟩), ("b", ⟨[3], [9, 9, 9]⟩)] := by decide
/-- shrinking `[3,4]` to `[2,3]` keeps the leading corner -/
example : preserveT .reset .full false (⟨[3, 4], [1, 2, 3, 4, 5, 6, 7, 8, 9, 10, 11, 12]⟩ : Tensor Nat)
      ⟨[2, 3], [0, 0, 0, 0, 0, 0]⟩ = some ⟨[2, 3], [1, 2, 3, 5, 6, 7]⟩ := by decide
/-- norm key: reset under the current policy, sliced under the repaired one -/
example : preserveT .reset .full (isNormKey "mlp_layer_norm_1.weight") (⟨[2], [5, 7]⟩ : Tensor Nat)
      ⟨[3], [1, 1, 1]⟩ = some ⟨[3], [1, 1, 1]⟩ := by decide
example : preserveT .slice .full (isNormKey "mlp_layer_norm_1.weight") (⟨[2], [5, 7]⟩ : Tensor Nat)
      ⟨[3], [1, 1, 1]⟩ = some ⟨[3], [5, 7, 1]⟩ := by decide
/-- `bn1.weight` (ResNet) does not contain "norm" and is sliced by the current code -/
example : isNormKey "resnet_residual_block_1.bn1.weight" = false := by decide
/-- rank mismatch as coded: `[3]` into `[2,3]` raises, `[2,1]`-shaped old into `[2,3]`… broadcasts -/
example : preserveT .slice .full false (⟨[3], [1, 2, 3]⟩ : Tensor Nat) ⟨[2, 3], [0, 0, 0, 0, 0, 0]⟩ = none := by decide
example : preserveT .slice .full false (⟨[3], [1, 2, 3]⟩ : Tensor Nat) ⟨[2, 2], [0, 0, 0, 0]⟩ =
    some ⟨[2, 2], [1, 2, 1, 2]⟩ := by decide
/-- shrink variant with a changed kernel axis: raises (3≠2) or broadcasts (1→2) -/
example : preserveT .slice .shrink false (⟨[1, 1, 3], [1, 2, 3]⟩ : Tensor Nat) ⟨[1, 1, 2], [0, 0]⟩ = none := by decide
example : preserveT .slice .shrink false (⟨[2, 1, 1], [7, 8]⟩ : Tensor Nat) ⟨[1, 1, 2], [0, 0]⟩ =
    some ⟨[1, 1, 2], [7, 7]⟩ := by decide
/-- hypotheses of the no-op theorem on a concrete state -/
example : SameArch [("w", (⟨[2], [1, 2]⟩ : Tensor Nat))] [("w", ⟨[2], [0, 0]⟩)] := by unfold SameArch; decide
example : clone (α := Nat) ⟨[("w", ⟨[2], [0, 0]⟩)], []⟩ ⟨[("w", ⟨[2], [4, 5]⟩)], []⟩ = ⟨[("w", ⟨[2], [4, 5]⟩)], []⟩ := by decide
example : clone (α := Nat) ⟨[("w", ⟨[3], [0, 0, 0]⟩)], []⟩ ⟨[("w", ⟨[2], [4, 5]⟩)], []⟩ = ⟨[("w", ⟨[3], [0, 0, 0]⟩)], []⟩ := by decide

/-! ## the same statements over the definitions generated from the source text

`Gen/PreserveGen.lean` is written by `harness/py2lean_preserve.py` from the source of
`preserve_parameters`, `shrink_preserve_parameters`, `clone`, the `recreate_*` methods and
`reinit_from_mutated` on every run; `Proofs/PreserveGenEq.lean` proves it equal to the model with the
switches `NormPolicy.slice`, `BufPolicy.carry`.  A network is its `named_parameters()` and
`named_buffers()`; `DistinctNames` (the names of one module's tensors are pairwise distinct) is what
torch guarantees. -/
section source_translation
open PreserveGen

/-- the names of a module's parameters and buffers are pairwise distinct -/
abbrev DistinctNames (n : PyNet α) : Prop := (keys (n.named_parameters ++ n.named_buffers)).Nodup

/-- every tensor (parameter or buffer) of the network, by name -/
abbrev tensorsOf (n : PyNet α) : List (String × PyTensor α) := n.named_parameters ++ n.named_buffers

theorem mem_allT {n : PyNet α} {key : String} {t : Tensor α} (h : (key, t) ∈ allT n) :
    (key, ofM t) ∈ tensorsOf n := by
  simp only [allT, toMs, List.mem_map] at h
  obtain ⟨kt, hm, e⟩ := h
  obtain ⟨rfl, rfl⟩ := Prod.mk.inj e
  exact hm

theorem allT_mem {n : PyNet α} {key : String} {t : PyTensor α} (h : (key, t) ∈ tensorsOf n) :
    (key, toM t) ∈ allT n := by
  simp only [allT, toMs, List.mem_map]
  exact ⟨(key, t), h, rfl⟩

/-- **`EvolvableModule.preserve_parameters` as written in the source**: every tensor — parameter or
    buffer, norm layers included — that exists before and after (same rank) keeps its values on the
    common index range and has the fresh network's values outside it. -/
theorem C04_source_translation_common_box (old new res : PyNet α) (ho : DistinctNames old)
    (hn : DistinctNames new) (h : EvolvableModule.preserve_parameters old new = some res)
    (key : String) (o n : PyTensor α) (hko : pyLookup (tensorsOf old) key = some o)
    (hkn : (key, n) ∈ tensorsOf new) (hwo : (toM o).WF) (hwn : (toM n).WF)
    (hr : o.shape.length = n.shape.length) :
    ∃ t, (key, t) ∈ tensorsOf res ∧ t.shape = n.shape ∧ (toM t).WF ∧
      (∀ idx, inBounds (boxMin o.shape n.shape) idx = true → (toM t).get idx = (toM o).get idx) ∧
      (∀ idx, inBounds (boxMin o.shape n.shape) idx = false → (toM t).get idx = (toM n).get idx) := by
  obtain ⟨t, hm, hs, hw, hin, hout⟩ := C04_common_box .full (allT old) (allT new) (allT res)
    (gen_preserve_parameters_all old new res ho hn h) key (toM o) (toM n)
    (by rw [allT, lookup_toMs, hko]; rfl) (allT_mem hkn) (fun h => by cases h) hwo hwn hr
    (fun h => by cases h)
  exact ⟨ofM t, mem_allT hm, hs, hw, hin, hout⟩

/-- **`EvolvableCNN.shrink_preserve_parameters` as written in the source**: the same, when the axes it
    does not slice (2, 3, …) are unchanged. -/
theorem C04_source_translation_shrink_common_box (old new res : PyNet α) (ho : DistinctNames old)
    (hn : DistinctNames new) (h : EvolvableCNN.shrink_preserve_parameters old new = some res)
    (key : String) (o n : PyTensor α) (hko : pyLookup (tensorsOf old) key = some o)
    (hkn : (key, n) ∈ tensorsOf new) (hwo : (toM o).WF) (hwn : (toM n).WF)
    (hr : o.shape.length = n.shape.length) (hd : o.shape.drop 2 = n.shape.drop 2) :
    ∃ t, (key, t) ∈ tensorsOf res ∧ t.shape = n.shape ∧ (toM t).WF ∧
      (∀ idx, inBounds (boxMin o.shape n.shape) idx = true → (toM t).get idx = (toM o).get idx) ∧
      (∀ idx, inBounds (boxMin o.shape n.shape) idx = false → (toM t).get idx = (toM n).get idx) := by
  obtain ⟨t, hm, hs, hw, hin, hout⟩ := C04_common_box .shrink (allT old) (allT new) (allT res)
    (gen_shrink_preserve_parameters_all old new res ho hn h) key (toM o) (toM n)
    (by rw [allT, lookup_toMs, hko]; rfl) (allT_mem hkn) (fun h => by cases h) hwo hwn hr
    (fun _ => hd)
  exact ⟨ofM t, mem_allT hm, hs, hw, hin, hout⟩

/-- equal shapes ⇒ the WHOLE tensor is carried over (`param.data = old_param.data`), either function -/
theorem C04_source_translation_equal_shape_whole (old new res : PyNet α) (ho : DistinctNames old)
    (hn : DistinctNames new)
    (h : EvolvableModule.preserve_parameters old new = some res ∨
         EvolvableCNN.shrink_preserve_parameters old new = some res)
    (key : String) (o n : PyTensor α) (hko : pyLookup (tensorsOf old) key = some o)
    (hkn : (key, n) ∈ tensorsOf new) (hs : o.shape = n.shape) : (key, o) ∈ tensorsOf res := by
  have hl : lookup (allT old) key = some (toM o) := by rw [allT, lookup_toMs, hko]; rfl
  have hs' : (toM o).shape = (toM n).shape := hs
  rcases h with h | h
  · obtain ⟨t, ht, hm⟩ := preserveNet_mem (gen_preserve_parameters_all old new res ho hn h) (allT_mem hkn)
    simp only [preserveKey, hl, preserveT_same_shape _ _ _ _ _ hs', Option.some.injEq] at ht
    subst ht; exact mem_allT hm
  · obtain ⟨t, ht, hm⟩ := preserveNet_mem (gen_shrink_preserve_parameters_all old new res ho hn h) (allT_mem hkn)
    simp only [preserveKey, hl, preserveT_same_shape _ _ _ _ _ hs', Option.some.injEq] at ht
    subst ht; exact mem_allT hm

/-- names only the new network has are untouched; the result has exactly the new network's names -/
theorem C04_source_translation_missing_key_fresh (old new res : PyNet α) (ho : DistinctNames old)
    (hn : DistinctNames new) (h : EvolvableModule.preserve_parameters old new = some res) :
    keys (tensorsOf res) = keys (tensorsOf new) ∧
    ∀ (key : String) (n : PyTensor α), pyLookup (tensorsOf old) key = none → (key, n) ∈ tensorsOf new →
      (key, n) ∈ tensorsOf res := by
  obtain ⟨hk, hm⟩ := C04_missing_key_fresh .slice .full (allT old) (allT new) (allT res)
    (gen_preserve_parameters_all old new res ho hn h)
  refine ⟨?_, fun key n hko hkn => ?_⟩
  · simpa [allT, keys_toMs] using hk
  · exact mem_allT (hm key (toM n) (by rw [allT, lookup_toMs, hko]; rfl) (allT_mem hkn))

/-- **an unchanged architecture** (same names and shapes of parameters and buffers): both carry functions
    return the old network's state, all of it — any function of the state is unchanged -/
theorem C04_source_translation_noop_same_state (old fresh : PyNet α) (hs : SameArchNet old fresh)
    (ho : DistinctNames old) :
    EvolvableModule.preserve_parameters old fresh = some old ∧
    EvolvableCNN.shrink_preserve_parameters old fresh = some old ∧
    ∀ {β : Type} (F : PyNet α → β), (EvolvableModule.preserve_parameters old fresh).map F = some (F old) := by
  have h1 := gen_preserve_parameters_noop old fresh hs ho
  exact ⟨h1, gen_shrink_preserve_parameters_noop old fresh hs ho, fun F => by rw [h1]; rfl⟩

/-- **which state goes where**: `EvolvableCNN.recreate_network` and `EvolvableNetwork.recreate_encoder`
    are the model's `recreate` with the repaired switches, old = the live `self.model` / `self.encoder`,
    new = the network just built, `shrink_params` selecting the shrink variant -/
theorem C04_source_translation_recreate_is_model (live fresh : PyNet α) (shrink : Bool)
    (ho : DistinctNames live) (hn : DistinctNames fresh)
    (h1 : ∀ kt ∈ (toState fresh).params, lookup (toState live).buffers kt.1 = none)
    (h2 : ∀ kt ∈ (toState fresh).buffers, lookup (toState live).params kt.1 = none) :
    (EvolvableCNN.recreate_network live shrink fresh).map toState =
      recreate .slice .carry (if shrink then .shrink else .full) (toState live) (toState fresh) ∧
    (EvolvableNetwork.recreate_encoder live fresh).map toState =
      recreate .slice .carry .full (toState live) (toState fresh) := by
  rw [gen_cnn_recreate_network_eq live fresh shrink ho hn, gen_recreate_encoder_eq live fresh ho hn,
    recreateMerged_eq_recreate _ _ _ h1 h2, recreateMerged_eq_recreate _ _ _ h1 h2]
  exact ⟨rfl, rfl⟩

/-- the two parts of a multi-input encoder are each carried over from their own predecessor; an
    unchanged architecture keeps both states -/
theorem C04_source_translation_multi_input (fnet dense f0 f1 : PyNet α) :
    EvolvableMultiInput.recreate_network fnet dense f0 f1 =
      (match EvolvableModule.preserve_parameters fnet f0, EvolvableModule.preserve_parameters dense f1 with
       | some a, some b => some (a, b)
       | _, _ => none) ∧
    (SameArchNet fnet f0 → SameArchNet dense f1 → DistinctNames fnet → DistinctNames dense →
      EvolvableMultiInput.recreate_network fnet dense f0 f1 = some (fnet, dense)) := by
  have e : EvolvableMultiInput.recreate_network fnet dense f0 f1 =
      (match EvolvableModule.preserve_parameters fnet f0, EvolvableModule.preserve_parameters dense f1 with
       | some a, some b => some (a, b)
       | _, _ => none) := by
    simp only [EvolvableMultiInput.recreate_network]
    cases EvolvableModule.preserve_parameters fnet f0 <;>
      cases EvolvableModule.preserve_parameters dense f1 <;> rfl
  refine ⟨e, fun s1 s2 d1 d2 => ?_⟩
  rw [e, gen_preserve_parameters_noop fnet f0 s1 d1, gen_preserve_parameters_noop dense f1 s2 d2]

/-- **cloning / re-initialising from the mutated network**: when `cls(**init_dict)` rebuilds the same
    architecture, `clone()` and `reinit_from_mutated` return the source network's state — any function
    of the state is identical -/
theorem C04_source_translation_clone_same_state (self fresh : PyNet α) (hs : SameArchNet fresh self)
    (hd : DistinctNames self) :
    EvolvableModule.clone self fresh = some self ∧
    Mutations.reinit_from_mutated self fresh = some self ∧
    ∀ {β : Type} (F : PyNet α → β), (EvolvableModule.clone self fresh).map F = some (F self) := by
  have h1 := gen_clone_eq self fresh hs hd
  exact ⟨h1, gen_reinit_from_mutated_eq self fresh hs hd, fun F => by rw [h1]; rfl⟩

/-- non-vacuity: the hypotheses hold on a concrete pair and the generated function computes the
    expected tensors (a `[2,3]` weight grown to `[3,4]`, an added bias, a resized running mean) -/
example : DistinctNames (⟨[("w", ⟨[2, 3], [1, 2, 3, 4, 5, 6]⟩)], [("m", ⟨[2], [7, 8]⟩)]⟩ : PyNet Nat) := by decide
example : EvolvableModule.preserve_parameters
      (⟨[("w", ⟨[2, 3], [1, 2, 3, 4, 5, 6]⟩)], [("m", ⟨[2], [7, 8]⟩)]⟩ : PyNet Nat)
      ⟨[("w", ⟨[3, 4], [0, 0, 0, 0, 0, 0, 0, 0, 0, 0, 0, 0]⟩), ("b", ⟨[3], [9, 9, 9]⟩)], [("m", ⟨[3], [0, 0, 0]⟩)]⟩ =
    some ⟨[("w", ⟨[3, 4], [1, 2, 3, 0, 4, 5, 6, 0, 0, 0, 0, 0]⟩), ("b", ⟨[3], [9, 9, 9]⟩)], [("m", ⟨[3], [7, 8, 0]⟩)]⟩ := by
  have : ∀ a b : Option (PyNet Nat), a.map toState = b.map toState → a = b := by
    intro a b h
    cases a <;> cases b <;> simp at h ⊢
    exact toState_inj h
  apply this
  decide

end source_translation

end Preserve

/-! # lists of networks (multi-agent) and the mutation decorator

`Gen/PreserveMaGen.lean` is written by `harness/py2lean_preservema.py` from the list branch of
`Mutations.load_state_dicts / reinit_from_mutated / _apply_arch_mutation`, the clone comprehension of
`get_offspring_eval_modules` (agilerl/hpo/mutation.py) and from `MutationContext` / `_mutation_wrapper`
(agilerl/modules/base.py); `Proofs/PreserveMaGenEq.lean` proves it equal to `Model/Preserve.lean`
(`loadList`, `reinitList`, `applyList`, `Deco.*`).  A list of networks is a list of states; all theorems hold for
every number of sub-agents, every key / shape configuration (different per sub-agent) and every data type. -/

namespace Preserve
variable {α : Type}

/-! ## lists of networks (multi-agent algorithms): every statement position by position -/
section lists
variable {β γ δ σ κ ο : Type}

theorem zipInPlace_get (f : β → γ → Option β) : ∀ (xs : List β) (ys : List γ) (r : List β),
    zipInPlace f xs ys = some r →
    r.length = xs.length ∧ ∀ (i : Nat) (x : β), xs[i]? = some x →
      ∃ a, r[i]? = some a ∧ (∀ y, ys[i]? = some y → f x y = some a) ∧ (ys[i]? = none → a = x)
  | [], ys, r, h => by
    cases ys <;> simp [zipInPlace] at h <;> subst h <;> simp
  | x :: xs, [], r, h => by
    simp only [zipInPlace, Option.some.injEq] at h; subst h
    exact ⟨rfl, fun i x' hx => ⟨x', hx, by simp, fun _ => rfl⟩⟩
  | x :: xs, y :: ys, r, h => by
    simp only [zipInPlace] at h
    cases h1 : f x y with
    | none => simp [h1] at h
    | some a =>
      cases h2 : zipInPlace f xs ys with
      | none => simp [h1, h2] at h
      | some r' =>
        simp only [h1, h2, Option.some.injEq] at h; subst h
        obtain ⟨hl, hg⟩ := zipInPlace_get f xs ys r' h2
        refine ⟨by simp [hl], fun i x' hx => ?_⟩
        cases i with
        | zero => simp at hx; subst hx; exact ⟨a, by simp, by simpa using h1, by simp⟩
        | succ i => simpa using hg i x' (by simpa using hx)

theorem zipM_get (f : β → γ → Option δ) : ∀ (xs : List β) (ys : List γ) (r : List δ),
    zipM f xs ys = some r → xs.length = ys.length →
    r.length = xs.length ∧ ∀ (i : Nat) (x : β) (y : γ), xs[i]? = some x → ys[i]? = some y →
      ∃ a, r[i]? = some a ∧ f x y = some a
  | [], [], r, h, _ => by simp [zipM] at h; subst h; simp
  | [], _ :: _, _, _, hl => by simp at hl
  | _ :: _, [], _, _, hl => by simp at hl
  | x :: xs, y :: ys, r, h, hl => by
    simp only [zipM] at h
    cases h1 : f x y with
    | none => simp [h1] at h
    | some a =>
      cases h2 : zipM f xs ys with
      | none => simp [h1, h2] at h
      | some r' =>
        simp only [h1, h2, Option.some.injEq] at h; subst h
        obtain ⟨hl', hg⟩ := zipM_get f xs ys r' h2 (by simpa using hl)
        refine ⟨by simp [hl'], fun i x' y' hx hy => ?_⟩
        cases i with
        | zero => simp at hx hy; subst hx; subst hy; exact ⟨a, by simp, h1⟩
        | succ i => simpa using hg i x' y' (by simpa using hx) (by simpa using hy)

/-- **`Mutations.load_state_dicts`, any number of sub-agents**: module `i` afterwards is module `i` loaded from state
    dict `i` — and from nothing else; modules beyond the shorter list keep their state; the order is kept. -/
theorem C04_list_load_positionwise (rcp : Params α → Params α) (strip : Bool) (mods : List (NetState α))
    (sds : List (Params α)) (res : List (NetState α)) (h : loadList rcp strip mods sds = some res) :
    res.length = mods.length ∧ ∀ (i : Nat) (m : NetState α), mods[i]? = some m →
      ∃ r, res[i]? = some r ∧
        (∀ sd, sds[i]? = some sd → loadLoose m (if strip then rcp sd else sd) = some r) ∧
        (sds[i]? = none → r = m) :=
  zipInPlace_get _ mods sds res h

theorem zipWith_snd_get : ∀ (xs : List β) (ys : List γ) (i : Nat), xs.length = ys.length →
    (List.zipWith (fun _ n => n) xs ys)[i]? = ys[i]?
  | [], [], _, _ => rfl
  | [], _ :: _, _, h => by simp at h
  | _ :: _, [], _, h => by simp at h
  | x :: xs, y :: ys, i, h => by
    cases i with
    | zero => rfl
    | succ i => simpa using zipWith_snd_get xs ys i (by simpa using h)

/-- **targets / shared networks of sub-agent `i` are re-created from sub-agent `i`'s evaluation network only**
    (`Mutations.reinit_from_mutated` on a list): element `i` of the result is the fresh network `i` (built from
    offspring `i`'s `init_dict`) loaded with offspring `i`'s state dict; lengths and order are kept. -/
theorem C04_list_reinit_positionwise (rcp : Params α → Params α) (offs fresh res : List (NetState α))
    (hl : fresh.length = offs.length) (h : reinitList rcp false offs fresh = some res) :
    res.length = offs.length ∧ ∀ (i : Nat) (o f : NetState α), offs[i]? = some o → fresh[i]? = some f →
      ∃ r, res[i]? = some r ∧ loadLoose f (stateDict o) = some r := by
  obtain ⟨h1, h2⟩ := zipInPlace_get _ _ _ _ h
  have hz : (List.zipWith (fun (_ : NetState α) (n : NetState α) => n) offs fresh).length = offs.length := by
    simp [hl]
  refine ⟨by rw [h1, hz], fun i o f ho hf => ?_⟩
  obtain ⟨a, ha, hm⟩ := h2 i f (by rw [zipWith_snd_get offs fresh i hl.symm]; exact hf)
  refine ⟨a, ha, ?_⟩
  simpa using hm.1 (stateDict o) (by simp [ho])

/-- **no cross-agent mixing**: two runs that agree on sub-agent `i` (its offspring and its fresh network) agree on
    sub-agent `i`'s re-created network, whatever the other sub-agents' networks are. -/
theorem C04_list_reinit_no_cross_agent (rcp : Params α → Params α) (offs offs' fresh fresh' res res' : List (NetState α))
    (hl : fresh.length = offs.length) (hl' : fresh'.length = offs'.length)
    (h : reinitList rcp false offs fresh = some res) (h' : reinitList rcp false offs' fresh' = some res')
    (i : Nat) (hi : i < offs.length) (ho : offs[i]? = offs'[i]?) (hf : fresh[i]? = fresh'[i]?) :
    res[i]? = res'[i]? := by
  obtain ⟨o, hoi⟩ : ∃ o, offs[i]? = some o := ⟨offs[i], by simp [hi]⟩
  obtain ⟨f, hfi⟩ : ∃ f, fresh[i]? = some f := ⟨fresh[i]'(by omega), by simp [show i < fresh.length by omega]⟩
  obtain ⟨r, hr, e⟩ := (C04_list_reinit_positionwise rcp offs fresh res hl h).2 i o f hoi hfi
  obtain ⟨r', hr', e'⟩ := (C04_list_reinit_positionwise rcp offs' fresh' res' hl' h').2 i o f (ho ▸ hoi) (hf ▸ hfi)
  rw [hr, hr', ← Option.some.injEq, ← e, ← e']

/-- the method list / keyword list `_apply_arch_mutation` works with -/
def expandMeth (n : Nat) : Option String ⊕ List (Option String) → List (Option String)
  | .inl m => List.replicate n m
  | .inr l => l

def expandKw (n : Nat) (empty : κ) : Option (List κ) → List κ
  | none => List.replicate n empty
  | some l => l

theorem applyLoop_get (call : ο → String → κ → Option (ο × Option κ)) (clear : ο → ο) (lastAttr : ο → Option String)
    (empty : κ) (ms : List (Option String)) (ks : List κ) : ∀ (nets : List ο) (j : Nat)
    (out : List ο × List (Option String) × List κ), applyLoop call clear lastAttr empty ms ks j nets = some out →
    out.1.length = nets.length ∧ out.2.1.length = nets.length ∧ out.2.2.length = nets.length ∧
    ∀ (i : Nat) (o : ο), nets[i]? = some o →
      ∃ a, applyAt call clear lastAttr empty ms ks (j + i) o = some a ∧
        out.1[i]? = some a.1 ∧ out.2.1[i]? = some a.2.1 ∧ out.2.2[i]? = some a.2.2
  | [], j, out, h => by simp [applyLoop] at h; subst h; simp
  | o :: os, j, out, h => by
    simp only [applyLoop] at h
    cases h1 : applyAt call clear lastAttr empty ms ks j o with
    | none => simp [h1] at h
    | some a =>
      cases h2 : applyLoop call clear lastAttr empty ms ks (j + 1) os with
      | none => simp [h1, h2] at h
      | some r =>
        simp only [h1, h2, Option.some.injEq] at h; subst h
        obtain ⟨l1, l2, l3, hg⟩ := applyLoop_get call clear lastAttr empty ms ks os (j + 1) r h2
        refine ⟨by simp [l1], by simp [l2], by simp [l3], fun i o' ho' => ?_⟩
        cases i with
        | zero => simp at ho'; subst ho'; exact ⟨a, by simpa using h1, by simp, by simp, by simp⟩
        | succ i =>
          obtain ⟨b, hb, e1, e2, e3⟩ := hg i o' (by simpa using ho')
          exact ⟨b, by rw [← hb]; congr 1; omega, by simpa using e1, by simpa using e2, by simpa using e3⟩

/-- **the architecture mutation of a list of networks works sub-agent by sub-agent** (`_apply_arch_mutation`): network
    `i` afterwards, the applied method `i` and the returned keyword dict `i` are the outcome of ONE dynamic call on
    network `i` with method `i` and keyword dict `i` (`applyAt`) — no other sub-agent's network enters; lengths and
    order are kept; a `None` method leaves the network as it is (only the record of the last mutation is cleared). -/
theorem C04_list_apply_positionwise (call : ο → String → κ → Option (ο × Option κ)) (clear : ο → ο)
    (lastAttr : ο → Option String) (empty : κ) (nets : List ο) (meth : Option String ⊕ List (Option String))
    (kws : Option (List κ)) (out : List ο × List (Option String) × List κ)
    (h : applyList call clear lastAttr empty nets meth kws = some out) :
    out.1.length = nets.length ∧ out.2.1.length = nets.length ∧ out.2.2.length = nets.length ∧
    ∀ (i : Nat) (o : ο), nets[i]? = some o →
      ∃ a, applyAt call clear lastAttr empty
          (expandMeth nets.length meth) (expandKw nets.length empty kws) i o = some a ∧
        out.1[i]? = some a.1 ∧ out.2.1[i]? = some a.2.1 ∧ out.2.2[i]? = some a.2.2 := by
  have e : applyList call clear lastAttr empty nets meth kws =
      applyLoop call clear lastAttr empty (expandMeth nets.length meth) (expandKw nets.length empty kws) 0 nets := by
    cases meth <;> cases kws <;> rfl
  rw [e] at h
  have := applyLoop_get call clear lastAttr empty _ _ nets 0 out h
  simpa using this

/-- one method for all sub-agents (`mut_method` a string): sub-agent `i` receives exactly that method with its own
    keyword dict, and the method recorded for it is read from ITS network -/
theorem C04_list_apply_single_method (call : ο → String → κ → Option (ο × Option κ)) (clear : ο → ο)
    (lastAttr : ο → Option String) (empty : κ) (nets : List ο) (s : String)
    (out : List ο × List (Option String) × List κ)
    (h : applyList call clear lastAttr empty nets (.inl (some s)) none = some out)
    (i : Nat) (o : ο) (ho : nets[i]? = some o) :
    ∃ r, call o s empty = some r ∧ out.1[i]? = some r.1 ∧ out.2.1[i]? = some (lastAttr r.1) ∧
      out.2.2[i]? = some (r.2.getD empty) := by
  obtain ⟨_, _, _, hg⟩ := C04_list_apply_positionwise call clear lastAttr empty nets _ _ out h
  obtain ⟨a, ha, e1, e2, e3⟩ := hg i o ho
  have hi : i < nets.length := by
    rcases Nat.lt_or_ge i nets.length with h | h
    · exact h
    · simp [List.getElem?_eq_none h] at ho
  simp only [applyAt, expandMeth, expandKw, List.getElem?_replicate, hi, if_true] at ha
  cases hc : call o s empty with
  | none => simp [hc] at ha
  | some r =>
    simp only [hc, Option.some.injEq] at ha; subst ha
    exact ⟨r, rfl, e1, e2, e3⟩

/-- `recreate_network` of every sub-agent's network: `freshs[i]` is the network built for sub-agent `i`'s new
    architecture -/
def recreateList (pol : NormPolicy) (bp : BufPolicy) (mode : Mode) (olds freshs : List (NetState α)) :
    Option (List (NetState α)) := zipM (recreate pol bp mode) olds freshs

theorem recreate_params {pol : NormPolicy} {bp : BufPolicy} {mode : Mode} {old fresh r : NetState α}
    (h : recreate pol bp mode old fresh = some r) : preserveNet pol mode old.params fresh.params = some r.params := by
  simp only [recreate] at h
  cases hp : preserveNet pol mode old.params fresh.params with
  | none => simp [hp] at h
  | some ps =>
    simp only [hp] at h
    cases bp with
    | fresh => simp at h; subst h; rfl
    | carry =>
      cases hb : preserveNet .slice mode old.buffers fresh.buffers with
      | none => simp [hb] at h
      | some bs => simp [hb] at h; subst h; rfl

/-- **(i) common-box preservation and freshness outside it, element by element**: after the architecture mutation
    of a list-valued network attribute (any number of sub-agents, any keys and shapes, different architectures per
    sub-agent allowed), every parameter of sub-agent `i` that exists before and after keeps sub-agent `i`'s OLD values
    on the common index range and sub-agent `i`'s FRESH values outside it. -/
theorem C04_list_common_box (mode : Mode) (olds freshs res : List (NetState α)) (hl : olds.length = freshs.length)
    (h : recreateList .slice .carry mode olds freshs = some res) :
    res.length = olds.length ∧
    ∀ (i : Nat) (old fresh : NetState α), olds[i]? = some old → freshs[i]? = some fresh →
      ∃ r, res[i]? = some r ∧ recreate .slice .carry mode old fresh = some r ∧
        ∀ (key : String) (o n : Tensor α), lookup old.params key = some o → (key, n) ∈ fresh.params →
          o.WF → n.WF → o.shape.length = n.shape.length → (mode = .shrink → o.shape.drop 2 = n.shape.drop 2) →
          ∃ t, (key, t) ∈ r.params ∧ t.shape = n.shape ∧ t.WF ∧
            (∀ idx, inBounds (boxMin o.shape n.shape) idx = true → t.get idx = o.get idx) ∧
            (∀ idx, inBounds (boxMin o.shape n.shape) idx = false → t.get idx = n.get idx) := by
  obtain ⟨h1, h2⟩ := zipM_get _ olds freshs res h hl
  refine ⟨h1, fun i old fresh ho hf => ?_⟩
  obtain ⟨r, hr, e⟩ := h2 i old fresh ho hf
  refine ⟨r, hr, e, fun key o n hko hkn hwo hwn hrk hm => ?_⟩
  exact C04_common_box mode old.params fresh.params r.params (recreate_params e) key o n hko hkn
    (fun h => by cases h) hwo hwn hrk hm

/-- **(iii) a shape-preserving mutation leaves every sub-agent's state identical**: if every fresh network has the
    names and shapes of the network it replaces, the list after `recreate_network` IS the old list — any function of
    any sub-agent's state is unchanged. -/
theorem C04_list_noop_same_state (pol : NormPolicy) (mode : Mode) : ∀ (olds freshs : List (NetState α)),
    AllPairs (fun (o f : NetState α) => Functional o.params ∧ Functional o.buffers ∧ SameArch o.params f.params ∧
      SameArch o.buffers f.buffers) olds freshs →
    recreateList pol .carry mode olds freshs = some olds
  | [], [], _ => rfl
  | [], _ :: _, h => by cases h
  | _ :: _, [], h => by cases h
  | o :: os, f :: fs, h => by
    obtain ⟨⟨a, b, c, d⟩, rest⟩ := h
    have ih := C04_list_noop_same_state pol mode os fs rest
    simp only [recreateList] at ih ⊢
    simp [zipM, (C04_noop_same_state pol mode o f a b c d).1, ih]

end lists
end Preserve

namespace Preserve.Deco

/-! ## the mutation decorator: every advertised mutation method is followed by exactly one `recreate_network` -/

/-- number of `recreate_network` calls in a log -/
def recreations (l : List DEv) : Nat := (l.filter fun e => match e with | .recreate _ => true | .hook => false).length

theorem recreations_append (a b : List DEv) : recreations (a ++ b) = recreations a + recreations b := by
  simp [recreations]

/-- **inner calls are silent**: a wrapped method entered while another one is running (`add_layer` falling back on
    `add_node`, depth ≥ 1) never re-creates the network and never calls the hook on its way out; it restores the depth
    and leaves the record of the method entered last as the body left it. -/
theorem C04_decorator_inner_silent (b : Mod) (meth : Meth) (nested : Option (Option String)) (wl : Option String)
    (methodOf : String → Meth) (hd : 2 ≤ b.depth) :
    exit b meth nested wl methodOf = some { b with depth := b.depth - 1 } := by
  have : b.depth - 1 ≠ 0 := by omega
  simp [exit, this]

/-- **the outermost call re-creates exactly once, last**: when the outermost wrapped method of a module returns
    (depth back at 1 before `__exit__`) and the method entered last is one of this module's own (`a`, no dot; the module
    is not a wrapper), `__exit__` calls `recreate_network` exactly once — after everything the body did — with the
    decorator's keyword arguments that `recreate_network` accepts, then the hook if one is registered; it records `a`
    and the bound method `a`. -/
theorem C04_decorator_outermost_recreates_once (b : Mod) (meth : Meth) (nested : Option (Option String))
    (wl : Option String) (methodOf : String → Meth) (a : String)
    (hd : b.depth = 1) (ha : b.lastAttr = some a) (hdot : dotted a = false) (hw : b.isWrapper = false) :
    ∃ m1, exit b meth nested wl methodOf = some m1 ∧ m1.depth = 0 ∧ m1.lastAttr = some a ∧
      m1.last = some (methodOf a) ∧
      m1.log = b.log ++ [DEv.recreate (meth.kwargs.filter fun c => decide (c.1 ∈ b.recreateParams))]
                ++ (if b.hasHook then [DEv.hook] else []) ∧
      recreations m1.log = recreations b.log + 1 := by
  have hr : resolve b nested wl = some (some a) := by simp [resolve, ha, hdot, hw]
  have he : exit b meth nested wl methodOf = some { b with
      depth := 0, lastAttr := some a, last := some (methodOf a),
      log := b.log ++ [DEv.recreate (meth.kwargs.filter fun c => decide (c.1 ∈ b.recreateParams))]
                ++ (if b.hasHook then [DEv.hook] else []) } := by
    simp [exit, hd, hr, recreates, hdot, hw]
  refine ⟨_, he, rfl, rfl, rfl, rfl, ?_⟩
  simp only [recreations_append]
  cases b.hasHook <;> simp [recreations]

/-- **never more than once, and not at all** for a call that applied nothing (every method refused:
    `last_mutation_attr` is None when the body returns), for a wrapper module, for an inner call, and when the resolved
    name is a NESTED module's method (dotted: that module re-creates itself in its own `__exit__`) -/
theorem C04_decorator_at_most_once (b : Mod) (meth : Meth) (nested : Option (Option String)) (wl : Option String)
    (methodOf : String → Meth) (m1 : Mod) (h : exit b meth nested wl methodOf = some m1) :
    recreations m1.log ≤ recreations b.log + 1 ∧
    ((b.depth ≠ 1 ∨ b.isWrapper = true ∨ (b.lastAttr = none ∧ b.isWrapper = false) ∨
        (∀ f, resolve b nested wl = some (some f) → dotted f = true)) →
      recreations m1.log = recreations b.log) := by
  simp only [exit] at h
  split at h
  · next hne =>
    simp at h; subst h
    exact ⟨by simp, fun _ => rfl⟩
  · next hz =>
    cases hr : resolve b nested wl with
    | none => simp [hr] at h
    | some fin =>
      simp only [hr, Option.some.injEq] at h; subst h
      simp only [recreations_append]
      have hh : recreations (if b.hasHook = true then [DEv.hook] else []) = 0 := by
        cases b.hasHook <;> simp [recreations]
      refine ⟨?_, fun hc => ?_⟩
      · rw [hh]; split <;> simp [recreations]
      · have : recreates b fin = false := by
          cases fin with
          | none => rfl
          | some f =>
            simp only [recreates]
            rcases hc with hc | hc | ⟨hc, hw⟩ | hc
            · exact absurd (by omega) hc
            · simp [hc]
            · simp [resolve, hc, hw] at hr
            · simp [hc f rfl]
        simp [this, hh, recreations]

end Preserve.Deco

namespace Preserve.Deco

/-- what a raw mutation method does to its module's bookkeeping: any sequence of calls of the module's own wrapped
    methods (advertised, so the raw method runs), each with such a body again (`add_layer` → `add_node` → …) -/
inductive Calls where
  | done
  | call (attr : String) (meth : Meth) (inner : Calls) (rest : Calls)

/-- the wrapped calls of a body, executed with the model's `enter` / `exit` -/
def runCalls (methodOf : String → Meth) (nested : Option (Option String)) (wl : Option String) : Calls → Mod → Option Mod
  | .done, m => some m
  | .call attr meth inner rest, m =>
    match runCalls methodOf nested wl inner (enter m meth attr) with
    | none => none
    | some b =>
      match exit b meth nested wl methodOf with
      | none => none
      | some m1 => runCalls methodOf nested wl rest m1

/-- the method entered last in a body -/
def lastEntered : Calls → Option String
  | .done => none
  | .call attr _ inner rest => ((lastEntered rest).orElse fun _ => lastEntered inner).orElse fun _ => some attr

theorem runCalls_silent (methodOf : String → Meth) (nested : Option (Option String)) (wl : Option String) :
    ∀ (t : Calls) (m : Mod), 1 ≤ m.depth →
      ∃ m', runCalls methodOf nested wl t m = some m' ∧ m'.depth = m.depth ∧ m'.log = m.log ∧
        m'.isWrapper = m.isWrapper ∧ m'.hasHook = m.hasHook ∧ m'.recreateParams = m.recreateParams ∧
        m'.lastAttr = (lastEntered t).orElse fun _ => m.lastAttr
  | .done, m, _ => by
    exact ⟨m, rfl, rfl, rfl, rfl, rfl, rfl, by simp [lastEntered]⟩
  | .call attr meth inner rest, m, hd => by
    obtain ⟨b, hb, b1, b2, b3, b4, b5, b6⟩ := runCalls_silent methodOf nested wl inner (enter m meth attr)
      (by simp [enter]; omega)
    have hbd : 2 ≤ b.depth := by rw [b1]; simp [enter]; omega
    have he := C04_decorator_inner_silent b meth nested wl methodOf hbd
    obtain ⟨r, hr, r1, r2, r3, r4, r5, r6⟩ := runCalls_silent methodOf nested wl rest { b with depth := b.depth - 1 }
      (by simp; omega)
    have hrun : runCalls methodOf nested wl (.call attr meth inner rest) m = some r := by
      simp [runCalls, hb, he, hr]
    have hl : r.lastAttr = (lastEntered (.call attr meth inner rest)).orElse fun _ => m.lastAttr := by
      rw [r6]; simp only [b6, lastEntered, enter]
      cases lastEntered rest <;> cases lastEntered inner <;> simp
    refine ⟨r, hrun, ?_, ?_, ?_, ?_, ?_, hl⟩
    · rw [r1]; simp [b1, enter]
    · rw [r2]; simp [b2, enter]
    · rw [r3]; simp [b3, enter]
    · rw [r4]; simp [b4, enter]
    · rw [r5]; simp [b5, enter]

/-- **(iv) every advertised mutation method is followed by exactly one carry-over**: an outermost call (depth 0) of an
    advertised method `attr` of the module itself, whose raw body makes ANY tree of further wrapped calls of the
    module's own methods: nothing is re-created while the body runs, and on the way out `recreate_network` — which
    builds the new network and carries the old parameters over (`Gen/PreserveGen`'s `recreate_*`) — is called exactly
    once, last; the recorded method is the one entered last. -/
theorem C04_decorator_exactly_one_recreate (methodOf : String → Meth) (nested : Option (Option String))
    (wl : Option String) (t : Calls) (m : Mod) (meth : Meth) (attr : String)
    (hd : m.depth = 0) (hw : m.isWrapper = false)
    (hdot : dotted ((lastEntered t).getD attr) = false) :
    ∃ b m1, runCalls methodOf nested wl t (enter m meth attr) = some b ∧ b.log = m.log ∧
      exit b meth nested wl methodOf = some m1 ∧ m1.depth = 0 ∧
      m1.lastAttr = some ((lastEntered t).getD attr) ∧ m1.last = some (methodOf ((lastEntered t).getD attr)) ∧
      m1.log = m.log ++ [DEv.recreate (meth.kwargs.filter fun c => decide (c.1 ∈ m.recreateParams))]
                ++ (if m.hasHook then [DEv.hook] else []) ∧
      recreations m1.log = recreations m.log + 1 := by
  obtain ⟨b, hb, b1, b2, b3, b4, b5, b6⟩ := runCalls_silent methodOf nested wl t (enter m meth attr)
    (by simp [enter, hd])
  have ha : b.lastAttr = some ((lastEntered t).getD attr) := by
    rw [b6]; cases lastEntered t <;> simp [enter]
  obtain ⟨m1, h1, h2, h3, h4, h5, h6⟩ := C04_decorator_outermost_recreates_once b meth nested wl methodOf _
    (by rw [b1]; simp [enter, hd]) ha hdot (by rw [b3]; simpa [enter] using hw)
  refine ⟨b, m1, hb, by rw [b2]; rfl, h1, h2, h3, h4, ?_, ?_⟩
  · rw [h5, b2, b4, b5]; rfl
  · rw [h6, b2]; rfl

/-- a disabled method (not advertised, module not inside a wrapper) is a no-op: the record is cleared and nothing is
    re-created; a dotted attribute is forwarded to the nested module's own wrapped method -/
theorem C04_decorator_disabled_noop {ρ : Type} (retNone : ρ) (m : Mod) (meth : Meth) (attr : String)
    (bodyOut nestedOut : Mod × ρ) (nested : Option (Option String)) (wl : Option String) (methodOf : String → Meth)
    (hd : m.depth = 0) (hw : m.isWrapper = false) (hna : attr ∉ m.methods) (hf : m.forwarded = false) :
    ∃ m1, exit (wrapBody retNone (enter m meth attr) attr bodyOut nestedOut).1 meth nested wl methodOf = some m1 ∧
      m1.lastAttr = none ∧ m1.depth = 0 ∧ recreations m1.log = recreations m.log := by
  have e : (wrapBody retNone (enter m meth attr) attr bodyOut nestedOut).1 =
      { m with depth := 1, last := none, lastAttr := none } := by
    simp [wrapBody, enter, hna, hf, hd]
  rw [e]
  have hr : resolve { m with depth := 1, last := none, lastAttr := none } nested wl = some none := by
    simp [resolve, hw]
  have he : exit { m with depth := 1, last := none, lastAttr := none } meth nested wl methodOf =
      some { m with depth := 0, last := none, lastAttr := none,
                    log := m.log ++ [] ++ (if m.hasHook then [DEv.hook] else []) } := by
    simp [exit, hr, recreates]
  refine ⟨_, he, rfl, rfl, ?_⟩
  simp only [recreations_append]
  cases m.hasHook <;> simp [recreations]

end Preserve.Deco

namespace Preserve
section source_translation_ma
open PreserveGen PreserveMaGen
variable {α σ κ : Type}

theorem getElem?_map_toState (l : List (PyNet α)) (i : Nat) : (l.map toState)[i]? = (l[i]?).map toState := by
  simp

/-- **`Mutations.reinit_from_mutated` on a list, as written in the source**: the re-created shared / target network of
    sub-agent `i` is the fresh network `i` (non-strictly) loaded with the state dict of the mutated evaluation network
    `i` — and of no other sub-agent; as many networks as sub-agents, in the same order. -/
theorem C04_source_translation_list_reinit_positionwise (rcp : SD α → SD α) (offs fresh res : List (PyNet α))
    (hl : fresh.length = offs.length) (h : Mutations.reinit_from_mutated_list rcp offs false fresh = some res) :
    res.length = offs.length ∧ ∀ (i : Nat) (o f : PyNet α), offs[i]? = some o → fresh[i]? = some f →
      ∃ r, res[i]? = some r ∧ loadLoose (toState f) (stateDict (toState o)) = some (toState r) := by
  have e := gen_reinit_from_mutated_list_eq rcp (fun p => toMs (rcp (ofMs p))) (fun sd => by rw [ofMs_toMs]) false offs fresh
  rw [h] at e
  obtain ⟨h1, h2⟩ := C04_list_reinit_positionwise _ (offs.map toState) (fresh.map toState) (res.map toState)
    (by simp [hl]) e.symm
  refine ⟨by simpa using h1, fun i o f ho hf => ?_⟩
  obtain ⟨r, hr, hm⟩ := h2 i (toState o) (toState f) (by simp [ho]) (by simp [hf])
  rw [getElem?_map_toState] at hr
  cases hri : res[i]? with
  | none => simp [hri] at hr
  | some r' =>
    simp only [hri, Option.map_some, Option.some.injEq] at hr
    exact ⟨r', rfl, by rw [hr]; exact hm⟩

theorem load_loop_same (rcp : SD α → SD α) : ∀ (offs fresh : List (PyNet α)),
    AllPairs (fun f s => SameArchNet f s ∧ (keys (s.named_parameters ++ s.named_buffers)).Nodup) fresh offs →
    Mutations.load_state_dicts_loop0 rcp false (List.zip (pyFreshEach offs fresh) (offs.map fun c => pyStateDict c)) =
      some offs ∧ (pyFreshEach offs fresh).length = offs.length
  | [], [], _ => ⟨rfl, rfl⟩
  | [], _ :: _, h => by cases h
  | _ :: _, [], h => by cases h
  | o :: os, f :: fs, h => by
    obtain ⟨⟨h1, h2⟩, rest⟩ := h
    obtain ⟨ih, il⟩ := load_loop_same rcp os fs rest
    simp only [pyFreshEach] at ih il
    simp [pyFreshEach, Mutations.load_state_dicts_loop0, pyLoadStateDict_same false f o h1 h2, ih, il]

/-- **targets are re-created from the matching online network**: when every `type(o_i)(**o_i.init_dict)` rebuilds
    the architecture of `o_i` (C03), the list returned by `reinit_from_mutated` IS the list of the mutated evaluation
    networks' states, sub-agent by sub-agent, in order — any function of any element's state is identical. -/
theorem C04_source_translation_list_reinit_same_arch (rcp : SD α → SD α) (offs fresh : List (PyNet α))
    (h : AllPairs (fun f s => SameArchNet f s ∧ DistinctNames s) fresh offs) :
    Mutations.reinit_from_mutated_list rcp offs false fresh = some offs := by
  obtain ⟨h1, h2⟩ := load_loop_same rcp offs fresh h
  simp [Mutations.reinit_from_mutated_list, Mutations.load_state_dicts, h1, ← h2]

/-- **the offspring of a list of evaluation networks** (`get_offspring_eval_modules`): with the same architectures
    position by position, clone `i` has the state of network `i` -/
theorem C04_source_translation_list_offspring_clones (selfs fresh : List (PyNet α))
    (h : AllPairs (fun f s => SameArchNet f s ∧ DistinctNames s) fresh selfs) :
    get_offspring_eval_modules_list selfs fresh = some selfs := gen_offspring_list_same selfs fresh h

/-- **`Mutations._apply_arch_mutation` on a list, as written in the source**: sub-agent `i`'s network afterwards, the
    method recorded for it and the keyword dict returned for it come from ONE dynamic call on network `i` with method
    `i` and keyword dict `i`; nothing of sub-agent `j ≠ i` enters; lengths and order are kept. -/
theorem C04_source_translation_list_apply_positionwise (call : PyObj σ → String → κ → Option (PyObj σ × Option κ))
    (empty : κ) (nets : List (PyObj σ)) (meth : PyMeths) (kws : Option (List κ))
    (out : List (PyObj σ) × List (Option String) × List κ)
    (h : Mutations._apply_arch_mutation_list call empty nets meth kws = some out) :
    out.1.length = nets.length ∧ out.2.1.length = nets.length ∧ out.2.2.length = nets.length ∧
    ∀ (i : Nat) (o : PyObj σ), nets[i]? = some o →
      ∃ a, applyAt call pyClear (·.last_mutation_attr) empty
          (expandMeth nets.length (methsToSum meth)) (expandKw nets.length empty kws) i o = some a ∧
        out.1[i]? = some a.1 ∧ out.2.1[i]? = some a.2.1 ∧ out.2.2[i]? = some a.2.2 := by
  rw [gen_apply_arch_mutation_list_eq] at h
  exact C04_list_apply_positionwise call pyClear (·.last_mutation_attr) empty nets _ kws out h

/-- the sampled method (a string) is applied to EVERY sub-agent's network, each with an empty keyword dict, and the
    method recorded for sub-agent `i` is `last_mutation_attr` of ITS network after ITS call -/
theorem C04_source_translation_list_apply_single_method (call : PyObj σ → String → κ → Option (PyObj σ × Option κ))
    (empty : κ) (nets : List (PyObj σ)) (s : String) (out : List (PyObj σ) × List (Option String) × List κ)
    (h : Mutations._apply_arch_mutation_list call empty nets (.one (some s)) none = some out)
    (i : Nat) (o : PyObj σ) (ho : nets[i]? = some o) :
    ∃ r, call o s empty = some r ∧ out.1[i]? = some r.1 ∧ out.2.1[i]? = some r.1.last_mutation_attr ∧
      out.2.2[i]? = some (r.2.getD empty) := by
  rw [gen_apply_arch_mutation_list_eq] at h
  exact C04_list_apply_single_method call pyClear (·.last_mutation_attr) empty nets s out h i o ho

open Deco in
/-- **the decorator as written in the source: an advertised mutation method is followed by exactly one
    `recreate_network`**.  An outermost call (`_mutation_depth = 0`) of `wrapped` for an advertised method of the module
    itself, whose raw method returns with the depth restored, having re-created nothing, the method entered last being
    one of the module's own (`a`): `wrapped` returns the method's result, `recreate_network` was called exactly once,
    after the body, with the decorator's keyword arguments that it accepts, then the hook; the record names `a`. -/
theorem C04_source_translation_decorator_exactly_one_recreate
    (getattr : PyMod → String → Option PyMod) (wrapped : PyMod → PyMod) (tbl : String → PyMeth)
    (body : PyMod → PyMeth → PyMod × PyRes κ) (nested : PyMod → String → PyMod × PyRes κ)
    (m : PyMod) (meth : PyMeth) (attr a : String)
    (hadv : attr ∈ m.mutation_methods) (hnd : pyStrContains "." attr = false)
    (hb1 : (body (MutationContext.__enter__ m meth attr) meth).1._mutation_depth = 1)
    (hb2 : (body (MutationContext.__enter__ m meth attr) meth).1.last_mutation_attr = some a)
    (hb3 : (body (MutationContext.__enter__ m meth attr) meth).1.is_wrapper = false)
    (ha : pyStrContains "." a = false) :
    ∃ m1, _mutation_wrapper.wrapped getattr wrapped (fun _ s => tbl s) body nested m meth attr =
        some (m1, (body (MutationContext.__enter__ m meth attr) meth).2) ∧
      m1._mutation_depth = 0 ∧ m1.last_mutation_attr = some a ∧
      (toMod m1).log = (toMod (body (MutationContext.__enter__ m meth attr) meth).1).log ++
        [DEv.recreate (meth._recreate_kwargs.filter fun c =>
          decide (c.1 ∈ (body (MutationContext.__enter__ m meth attr) meth).1.recreate_params))] ++
        (if (body (MutationContext.__enter__ m meth attr) meth).1.has_hook then [DEv.hook] else []) ∧
      recreations (toMod m1).log = recreations (toMod (body (MutationContext.__enter__ m meth attr) meth).1).log + 1 := by
  have hout : pyWrapOut body nested m meth attr = body (MutationContext.__enter__ m meth attr) meth := by
    have : attr ∈ (MutationContext.__enter__ m meth attr).mutation_methods := hadv
    simp [pyWrapOut, this, hnd]
  generalize hbo : body (MutationContext.__enter__ m meth attr) meth = bo at *
  obtain ⟨m1', h1, h2, h3, h4, h5, h6⟩ := C04_decorator_outermost_recreates_once (toMod bo.1) (toMeth meth)
    (nestedOf getattr (decr bo.1)) (wrapped (decr bo.1)).last_mutation_attr (fun s => toMeth (tbl s)) a
    hb1 hb2 (by rw [← gen_dotted_eq]; exact ha) hb3
  have he := gen_exit_eq getattr wrapped tbl bo.1 meth attr
  rw [h1] at he
  cases hx : MutationContext.__exit__ getattr wrapped (fun _ s => tbl s) bo.1 meth attr with
  | none => simp [hx] at he
  | some m1 =>
    simp only [hx, Option.map_some, Option.some.injEq] at he
    refine ⟨m1, by rw [gen_wrapped_eq, hout, hx]; rfl, ?_, ?_, ?_, ?_⟩
    · have : (toMod m1).depth = 0 := by rw [he]; exact h2
      exact this
    · have : (toMod m1).lastAttr = some a := by rw [he]; exact h3
      exact this
    · rw [he, h5]; rfl
    · rw [he, h6]

end source_translation_ma
end Preserve

namespace Preserve
/-! ## non-vacuity for the list / decorator theorems -/

/-- three sub-agents with DIFFERENT shapes and weights: every target takes its own sub-agent's values -/
example : reinitList (α := Nat) id false
      [⟨[("w", ⟨[1], [5]⟩)], []⟩, ⟨[("w", ⟨[2], [6, 7]⟩)], []⟩, ⟨[("w", ⟨[1], [8]⟩)], []⟩]
      [⟨[("w", ⟨[1], [0]⟩)], []⟩, ⟨[("w", ⟨[2], [0, 0]⟩)], []⟩, ⟨[("w", ⟨[1], [0]⟩)], []⟩] =
    some [⟨[("w", ⟨[1], [5]⟩)], []⟩, ⟨[("w", ⟨[2], [6, 7]⟩)], []⟩, ⟨[("w", ⟨[1], [8]⟩)], []⟩] := by decide
/-- a fresh network of the wrong size for sub-agent 1: torch raises -/
example : reinitList (α := Nat) id false
      [⟨[("w", ⟨[1], [5]⟩)], []⟩, ⟨[("w", ⟨[2], [6, 7]⟩)], []⟩]
      [⟨[("w", ⟨[1], [0]⟩)], []⟩, ⟨[("w", ⟨[1], [0]⟩)], []⟩] = none := by decide
/-- `recreate_network` per sub-agent: sub-agent 0 grows 2→3, sub-agent 1 is unchanged -/
example : recreateList (α := Nat) .slice .carry .full
      [⟨[("w", ⟨[2], [5, 6]⟩)], []⟩, ⟨[("w", ⟨[1], [9]⟩)], []⟩]
      [⟨[("w", ⟨[3], [0, 0, 0]⟩)], []⟩, ⟨[("w", ⟨[1], [0]⟩)], []⟩] =
    some [⟨[("w", ⟨[3], [5, 6, 0]⟩)], []⟩, ⟨[("w", ⟨[1], [9]⟩)], []⟩] := by decide
/-- `_apply_arch_mutation` with a fake call that records the method in the network: `None` skips sub-agent 1 -/
example : applyList (ο := List String × Option String) (κ := Nat)
      (fun o s k => some ((o.1 ++ [s], some s), some (k + 1))) (fun o => (o.1, none)) (·.2) 0
      [([], none), ([], some "x"), ([], none)] (.inr [some "add_node", none, some "add_layer"]) none =
    some ([(["add_node"], some "add_node"), ([], none), (["add_layer"], some "add_layer")],
          [some "add_node", none, some "add_layer"], [1, 0, 1]) := by decide
/-- `add_layer` at its limit falls back on `add_node` (a nested wrapped call): one `recreate_network`, recorded `add_node` -/
example : (Deco.exit
      ((Deco.runCalls (fun a => ⟨a, []⟩) none none (.call "add_node" ⟨"add_node", []⟩ .done .done)
        (Deco.enter ⟨0, none, none, ["add_layer", "add_node"], false, false, false, ["shrink_params"], []⟩
          ⟨"add_layer", [("shrink_params", "False"), ("other", "1")]⟩ "add_layer")).getD
        ⟨0, none, none, [], false, false, false, [], []⟩)
      ⟨"add_layer", [("shrink_params", "False"), ("other", "1")]⟩ none none (fun a => ⟨a, []⟩)).map
        (fun m => (m.depth, m.lastAttr, m.log)) =
    some (0, some "add_node", [Deco.DEv.recreate [("shrink_params", "False")]]) := by decide
example : Deco.dotted "encoder.add_node" = true ∧ Deco.dotted "add_node" = false := by decide
example : Deco.splitDot "encoder.feature_net.add_node" = ["encoder", "feature_net", "add_node"] := by decide
/-- a nested module's method: the parent records `encoder.<what the encoder applied>` and re-creates nothing itself -/
example : (Deco.exit ⟨1, none, some "encoder.add_layer", ["encoder.add_layer"], false, false, false, [], []⟩
      ⟨"encoder.add_layer", []⟩ (some (some "add_node")) none (fun a => ⟨a, []⟩)).map (fun m => (m.lastAttr, m.log)) =
    some (some "encoder.add_node", []) := by decide

end Preserve
