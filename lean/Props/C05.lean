import Mathlib.Data.List.Nodup
import Mathlib.Tactic.IntervalCases
import Proofs.TournamentSelect

/-!
# C05 — tournament selection keeps the fittest and builds a well-formed generation

Model: `Model/Tournament.lean` (`TournamentSelection._elitism / _tournament / select`).
Every theorem quantifies over all configurations the constructor accepts, all populations
(any size ≥ 1, also different from `population_size`; any indices, also repeated or negative; any
fitness histories — ties, negative values, unequal lengths, shorter than the evaluation window),
all random draws, and *every* ranking `np.argsort(·).argsort()` may return (`IsRanking`), so
nothing depends on how the sort breaks ties.

Means: `key w a : Option Rat` is `np.mean(a.fitness[-w:])` with `none` = NaN for a never
evaluated agent; `kle` is numpy's sort order (NaN on top).  For evaluated populations
(`Evaluated`) the statements are about the exact rational mean `meanLast`.
-/
namespace Tournament

/-- every agent has been evaluated at least once (always true inside the training loops, which
    call `agent.test` on every member before selecting) -/
def Evaluated (pop : List Agent) : Prop := ∀ a ∈ pop, a.fitness ≠ []

/-- exact mean of the last `w` scores -/
def meanLast (w : Nat) (a : Agent) : Rat :=
  (lastN w a.fitness).sum / ((lastN w a.fitness).length : Rat)

theorem key_eq_meanLast {w : Nat} (hw : 0 < w) {a : Agent} (h : a.fitness ≠ []) :
    key w a = some (meanLast w a) := by
  unfold key meanLast mean?
  have hlen : (lastN w a.fitness).length ≠ 0 := by
    have : 0 < a.fitness.length := List.length_pos_iff.mpr h
    simp [lastN]; omega
  split
  · next heq => rw [heq] at hlen; simp at hlen
  · rfl

theorem keys_getD (w : Nat) (pop : List Agent) {i : Nat} (hi : i < pop.length) :
    (keys w pop).getD i none = key w (pop.getD i default) := by
  simp [keys, List.getD_eq_getElem?_getD, hi]

/-- **The elite has the highest mean.**  The position `select` clones as elite is a member of the
    population whose mean of the last `eval_loop` scores is ≥ that of every member — for every
    ranking numpy may produce, ties included — and the returned elite is an exact copy of it
    (fitness, marker, *and index*). -/
theorem C05_elite_max_mean (c : Cfg) (hv : c.valid) (pop : List Agent) (hne : pop ≠ [])
    (rank : List Nat) (hr : IsRanking (keys c.evalLoop pop) rank) :
    elitePos rank < pop.length ∧
    eliteOf rank pop = pop.getD (elitePos rank) default ∧
    (∀ a ∈ pop, kle (key c.evalLoop a) (key c.evalLoop (pop.getD (elitePos rank) default)) = true) ∧
    (Evaluated pop → ∀ a ∈ pop,
        meanLast c.evalLoop a ≤ meanLast c.evalLoop (pop.getD (elitePos rank) default)) := by
  have hkne : keys c.evalLoop pop ≠ [] := by simpa [keys] using hne
  have hlen : (keys c.evalLoop pop).length = pop.length := by simp [keys]
  obtain ⟨hlt, _, hmax⟩ := elitePos_spec hr hkne
  rw [hlen] at hlt
  have hk : ∀ a ∈ pop, kle (key c.evalLoop a) (key c.evalLoop (pop.getD (elitePos rank) default)) = true := by
    intro a ha
    obtain ⟨i, hi, rfl⟩ := List.getElem_of_mem ha
    have := hmax i (by rw [hlen]; exact hi)
    rw [keys_getD _ _ hi, keys_getD _ _ hlt] at this
    simpa [List.getD_eq_getElem?_getD, hi] using this
  refine ⟨hlt, by simp [eliteOf, cloneAs_self], hk, ?_⟩
  intro hev a ha
  have := hk a ha
  rw [key_eq_meanLast hv.2.2 (hev a ha), key_eq_meanLast hv.2.2 (hev _ (getD_mem hlt))] at this
  exact kle_some.mp this

/-- **Size.**  The new population has exactly `population_size` members, with elitism on or off,
    whatever the size of the old population; `population_size - 1` resp. `population_size` of them
    come from tournaments. -/
theorem C05_size (c : Cfg) (hv : c.valid) (rank : List Nat) (pop : List Agent) (draws : Nat → List Nat) :
    (newPop c rank pop draws).length = c.popSize ∧
    (tournChildren c rank pop draws).length = (if c.elitism then c.popSize - 1 else c.popSize) := by
  exact ⟨newPop_length c hv rank pop draws, by simp [selSize]⟩

/-- **With elitism the first member is the elite**: an exact copy of the best agent, carrying the
    best agent's own index (the code calls `elite.clone()` without a new index), and equal to the
    elite that `select` returns. -/
theorem C05_first_is_elite (c : Cfg) (he : c.elitism = true) (rank : List Nat) (pop : List Agent)
    (draws : Nat → List Nat) :
    (newPop c rank pop draws).head? = some (pop.getD (elitePos rank) default) ∧
    (newPop c rank pop draws).head? = some (eliteOf rank pop) ∧
    ((plan c rank pop draws).2.head?.map (·.parent)) = some (elitePos rank) := by
  simp [newPop, plan, he, Child.build, eliteOf, cloneAs_self]

/-- **Every other member is a copy of the best-ranked drawn agent.**  Member `t` after the elite
    slot is the clone, with index `max_id + 1 + t`, of `winner rank (draws t)`; that parent is one
    of the drawn positions, no drawn position has a larger rank, hence none has a larger mean; the
    clone carries the parent's fitness history and marker unchanged. -/
theorem C05_winner_best_drawn (c : Cfg) (hv : c.valid) (pop : List Agent) (rank : List Nat)
    (hr : IsRanking (keys c.evalLoop pop) rank) (draws : Nat → List Nat) (t : Nat) (ht : t < selSize c)
    (hne : draws t ≠ []) (hrange : ∀ d ∈ draws t, d < pop.length) :
    let off := if c.elitism then 1 else 0
    let p := winner rank (draws t)
    (newPop c rank pop draws)[off + t]? = some ((pop.getD p default).cloneAs (maxId pop + 1 + (t : Int))) ∧
    ((newPop c rank pop draws)[off + t]?.map (·.fitness)) = some (pop.getD p default).fitness ∧
    p ∈ draws t ∧
    (∀ d ∈ draws t, rank.getD d 0 ≤ rank.getD p 0) ∧
    (∀ d ∈ draws t, kle (key c.evalLoop (pop.getD d default)) (key c.evalLoop (pop.getD p default)) = true) ∧
    (Evaluated pop → ∀ d ∈ draws t,
        meanLast c.evalLoop (pop.getD d default) ≤ meanLast c.evalLoop (pop.getD p default)) := by
  intro off p
  have hlen : (keys c.evalLoop pop).length = pop.length := by simp [keys]
  obtain ⟨hmem, hrank, hkey⟩ := winner_spec hr (draws t) hne (by rw [hlen]; exact hrange)
  have hget : (newPop c rank pop draws)[off + t]? =
      some ((pop.getD p default).cloneAs (maxId pop + 1 + (t : Int))) := by
    simp only [off, newPop, plan]
    cases c.elitism
    · simp [tournChildren, Child.build, ht, p]
    · simp only [if_true, List.map_cons]
      rw [Nat.add_comm, List.getElem?_cons_succ]
      simp [tournChildren, Child.build, ht, p]
  have hk : ∀ d ∈ draws t,
      kle (key c.evalLoop (pop.getD d default)) (key c.evalLoop (pop.getD p default)) = true := by
    intro d hd
    have := hkey d hd
    rwa [keys_getD _ _ (hrange d hd), keys_getD _ _ (hrange _ hmem)] at this
  refine ⟨hget, by rw [hget]; rfl, hmem, hrank, hk, ?_⟩
  intro hev d hd
  have := hk d hd
  rw [key_eq_meanLast hv.2.2 (hev _ (getD_mem (hrange d hd))),
      key_eq_meanLast hv.2.2 (hev _ (getD_mem (hrange _ hmem)))] at this
  exact kle_some.mp this

/-- **Tie-breaking is irrelevant** for what the property talks about: two different valid rankings
    of the same population may pick different elites and different tournament winners, but always
    ones with the same mean.  (This is why the correspondence compares the parent's mean and not
    the parent's identity.) -/
theorem C05_tie_breaking_irrelevant (w : Nat) (pop : List Agent) (hne : pop ≠ []) (r1 r2 : List Nat)
    (h1 : IsRanking (keys w pop) r1) (h2 : IsRanking (keys w pop) r2)
    (ds : List Nat) (hds : ds ≠ []) (hrange : ∀ d ∈ ds, d < pop.length) :
    key w (pop.getD (elitePos r1) default) = key w (pop.getD (elitePos r2) default) ∧
    key w (pop.getD (winner r1 ds) default) = key w (pop.getD (winner r2 ds) default) := by
  have hkne : keys w pop ≠ [] := by simpa [keys] using hne
  have hlen : (keys w pop).length = pop.length := by simp [keys]
  obtain ⟨e1, _, m1⟩ := elitePos_spec h1 hkne
  obtain ⟨e2, _, m2⟩ := elitePos_spec h2 hkne
  obtain ⟨w1, _, k1⟩ := winner_spec h1 ds hds (by rw [hlen]; exact hrange)
  obtain ⟨w2, _, k2⟩ := winner_spec h2 ds hds (by rw [hlen]; exact hrange)
  rw [hlen] at e1 e2
  constructor
  · have a := m1 _ (by rw [hlen]; exact e2)
    have b := m2 _ (by rw [hlen]; exact e1)
    rw [keys_getD _ _ e1, keys_getD _ _ e2] at a b
    exact kle_antisymm b a
  · have a := k1 _ w2
    have b := k2 _ w1
    rw [keys_getD _ _ (hrange _ w1), keys_getD _ _ (hrange _ w2)] at a b
    exact kle_antisymm b a

/-- **Fresh, distinct indices.**  In one new population all indices are pairwise distinct — even
    if the old population had repeated indices —, every tournament child's index is larger than
    every index of the old population, and with elitism the first member keeps an old index (the
    elite's). -/
theorem C05_indices_fresh_distinct (c : Cfg) (pop : List Agent) (hne : pop ≠ [])
    (rank : List Nat) (hr : IsRanking (keys c.evalLoop pop) rank) (draws : Nat → List Nat) :
    ((newPop c rank pop draws).map (·.index)).Nodup ∧
    (∀ ch ∈ tournChildren c rank pop draws, ∀ a ∈ pop, a.index < ch.index) ∧
    (newPop c rank pop draws).map (·.index) =
      (if c.elitism then [(pop.getD (elitePos rank) default).index] else []) ++
      (List.range (selSize c)).map (fun (t : Nat) => maxId pop + 1 + (t : Int)) := by
  have hkne : keys c.evalLoop pop ≠ [] := by simpa [keys] using hne
  have hlt := (elitePos_spec hr hkne).1
  rw [show (keys c.evalLoop pop).length = pop.length by simp [keys]] at hlt
  refine ⟨newPop_indices_nodup c rank pop draws hlt, ?_, newPop_indices c rank pop draws⟩
  intro ch hch a ha
  obtain ⟨t, _, rfl⟩ := List.mem_map.mp hch
  have := le_maxId pop a ha
  simp only
  omega

/-- **Distinct forever.**  Start from any non-empty population with pairwise distinct indices and
    call `select` any number of times with one selector.  Between calls the agents may be changed
    arbitrarily (evaluation, training, mutation) and the next call may even be given a re-indexed
    or completely unrelated non-empty population; each call runs with any valid ranking and any
    draws.  After every call the indices are pairwise distinct, the population is never empty and
    has exactly `population_size` members.  (Nothing carries over from earlier calls: the result
    of `select` is a function of the population it is given.) -/
theorem C05_indices_distinct_forever (c : Cfg) (hv : c.valid) (p q : List Agent)
    (hreach : Reach c p q) (hne : p ≠ []) (hnd : (p.map (·.index)).Nodup) :
    (q.map (·.index)).Nodup ∧ q ≠ [] ∧ (q = p ∨ q.length = c.popSize) := by
  induction hreach with
  | refl => exact ⟨hnd, hne, Or.inl rfl⟩
  | @step q q' rank draws _ hq'ne hrank _ =>
    have hlen := newPop_length c hv rank q' draws
    refine ⟨(C05_indices_fresh_distinct c q' hq'ne rank hrank draws).1, ?_, Or.inr hlen⟩
    intro e
    have := hv.2.1
    rw [e] at hlen; simp at hlen; omega

/-- **The old population is left untouched** (model level): `select` only allocates.  In the
    store after `select` every old address still holds the same agent; the returned elite and the
    members of the new population live at addresses that did not exist before and are pairwise
    different (so no member is the same object as a parent, as the elite, or as another member);
    each holds the agent `newPop` describes. -/
theorem C05_old_population_untouched (c : Cfg) (hv : c.valid) (rank : List Nat) (store : List Agent)
    (draws : Nat → List Nat) :
    let r := selectHeap c rank store draws
    (∀ a, a < store.length → r.1[a]? = store[a]?) ∧
    r.1.take store.length = store ∧
    store.length ≤ r.2.1 ∧ (∀ a ∈ r.2.2, store.length ≤ a) ∧
    (r.2.1 :: r.2.2).Nodup ∧
    r.1[r.2.1]? = some (eliteOf rank store) ∧
    r.2.2.length = c.popSize ∧
    (∀ k, k < c.popSize → (r.2.2[k]?.bind (r.1[·]?)) = (newPop c rank store draws)[k]?) := by
  intro r
  have hl := newPop_length c hv rank store draws
  have hstore : r.1 = store ++ [eliteOf rank store] ++ newPop c rank store draws := rfl
  refine ⟨?_, ?_, ?_, ?_, ?_, ?_, ?_, ?_⟩
  · intro a ha
    rw [hstore, List.append_assoc, List.getElem?_append_left ha]
  · rw [hstore, List.append_assoc, List.take_left]
  · exact Nat.le_refl _
  · intro a ha
    simp only [r, selectHeap, List.mem_map, List.mem_range] at ha
    obtain ⟨k, _, rfl⟩ := ha; omega
  · simp only [r, selectHeap, List.nodup_cons, List.mem_map, List.mem_range, not_exists, not_and]
    refine ⟨by intro k _; omega, ?_⟩
    refine List.Nodup.map ?_ List.nodup_range
    intro a b h; simp only at h; omega
  · simp [r, selectHeap]
  · simp [r, selectHeap, hl]
  · intro k hk
    simp only [r, selectHeap, hl, List.getElem?_map, List.getElem?_range hk, Option.map_some,
      Option.bind_some]
    rw [List.getElem?_append_right (by simp)]
    congr 1
    simp

/-- **The hypotheses are satisfiable for every population**: the stable ranking used by the
    driver is a valid ranking, so all theorems above apply to what the driver computes. -/
theorem C05_ranking_exists (w : Nat) (pop : List Agent) :
    IsRanking (keys w pop) (stableRank (keys w pop)) := stableRank_isRanking _

/-- The executable test `isRankingB` (the driver's `ranking` op, which the harness feeds with the
    rank array numpy really returned) decides exactly the specification `IsRanking`. -/
theorem C05_ranking_test_sound (ks : List Key) (rank : List Nat) :
    isRankingB ks rank = true ↔ IsRanking ks rank := isRankingB_iff ks rank

/-! ### non-vacuity: a concrete 4-agent population with a three-way tie at the top -/

def exPop : List Agent :=
  [ { index := 0, fitness := [1, 2, 3],  tag := 10 },      -- mean of last 2 = 5/2
    { index := 1, fitness := [4, 1],     tag := 11 },      -- 5/2
    { index := 2, fitness := [-2, 1],    tag := 12 },      -- -1/2
    { index := 7, fitness := [5/2],      tag := 13 } ]     -- 5/2 (shorter than the window)
def exCfg : Cfg := { tsize := 2, elitism := true, popSize := 4, evalLoop := 2 }
def exDraws : Nat → List Nat := fun t => [[2, 1], [2, 2], [0, 3]].getD t []

example : exCfg.valid := by decide
example : keys 2 exPop = [some (5/2), some (5/2), some (-1/2), some (5/2)] := by decide +kernel
example : stableRank (keys 2 exPop) = [1, 2, 0, 3] := by decide +kernel
example : Evaluated exPop := by intro a ha; simp [exPop] at ha; rcases ha with rfl | rfl | rfl | rfl <;> simp
/-- a second valid ranking of the same population that breaks the tie the other way round -/
example : IsRanking (keys 2 exPop) [3, 1, 0, 2] := by
  refine ⟨by decide +kernel, ?_, ?_⟩ <;> intro i j hi hj <;>
    (have hi' : i < 4 := by simpa [keys, exPop] using hi) <;>
    (have hj' : j < 4 := by simpa [keys, exPop] using hj) <;>
    interval_cases i <;> interval_cases j <;> decide +kernel
example : elitePos (stableRank (keys 2 exPop)) = 3 ∧ elitePos [3, 1, 0, 2] = 0 := by decide +kernel
example : (newPop exCfg (stableRank (keys 2 exPop)) exPop exDraws).map (fun a => (a.index, a.tag))
    = [(7, 13), (8, 11), (9, 12), (10, 13)] := by decide +kernel
example : (newPop exCfg [3, 1, 0, 2] exPop exDraws).map (fun a => (a.index, a.tag))
    = [(0, 10), (8, 11), (9, 12), (10, 10)] := by decide +kernel
example : (newPop { exCfg with elitism := false } (stableRank (keys 2 exPop)) exPop
    (fun t => [[2, 1], [2, 2], [0, 3], [0, 1]].getD t [])).map (fun a => (a.index, a.tag))
    = [(8, 11), (9, 12), (10, 13), (11, 11)] := by decide +kernel
/-- a never-evaluated agent (NaN mean) is ranked on top by numpy's sort order: the elite theorem
    for exact means needs `Evaluated` -/
example : elitePos (stableRank (keys 2 (exPop ++ [{ index := 9, fitness := [] }]))) = 4 := by
  decide +kernel
/-- one selector, two unrelated populations: after serving `exPop` (indices 0,1,2,7 → children
    8,9,10) it is handed a population with indices 4..7 whose best agent has index 7; the children
    are numbered from that population's own maximum: 7 (elite), 8, 9, 10 -/
def exPopB : List Agent :=
  [ { index := 4, fitness := [0] }, { index := 5, fitness := [1] },
    { index := 6, fitness := [1, 0] }, { index := 7, fitness := [2] } ]
example : (newPop exCfg (stableRank (keys 2 exPopB)) exPopB exDraws).map (·.index) = [7, 8, 9, 10] := by
  decide +kernel
example : Reach exCfg exPop (newPop exCfg (stableRank (keys 2 exPopB)) exPopB exDraws) :=
  Reach.step (Reach.step (Reach.refl _) (by decide) (C05_ranking_exists 2 exPop) (draws := exDraws))
    (by decide) (C05_ranking_exists 2 exPopB)
example : Reach exCfg exPop (newPop exCfg (stableRank (keys 2 exPop)) exPop exDraws) :=
  Reach.step (Reach.refl _) (by decide) (C05_ranking_exists 2 exPop)

end Tournament
