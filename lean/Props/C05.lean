import Mathlib.Data.List.Nodup
import Mathlib.Tactic.IntervalCases
import Proofs.TournamentSelect
import Proofs.TournGenEq
import Proofs.PopGenEq

/-!
# C05 — tournament selection keeps the fittest and builds a well-formed generation

Model: `Model/Tournament.lean` (`TournamentSelection._elitism / _tournament / select`).
Every theorem quantifies over all configurations the constructor accepts, all populations
(any size ≥ 1, also different from `population_size`; any indices, also repeated or negative; any
fitness histories — ties, negative values, unequal lengths, shorter than the evaluation window),
all random draws, and *every* ranking `np.argsort(·).argsort()` may return (`IsRanking`), so
nothing depends on how the sort breaks ties.

Means: `key w a : Option Rat` is `np.mean(a.fitness[-w:])` with `none` = NaN for a never
evaluated agent; `kle` is numpy's sort order (NaN on top).  For evaluated populations
(`Evaluated`) the statements are about the exact rational mean `meanLast`.
-/
namespace Tournament

/-- every agent has been evaluated at least once (always true inside the training loops, which
    call `agent.test` on every member before selecting) -/
def Evaluated (pop : List Agent) : Prop := ∀ a ∈ pop, a.fitness ≠ []

/-- exact mean of the last `w` scores -/
def meanLast (w : Nat) (a : Agent) : Rat :=
  (lastN w a.fitness).sum / ((lastN w a.fitness).length : Rat)

theorem key_eq_meanLast {w : Nat} (hw : 0 < w) {a : Agent} (h : a.fitness ≠ []) :
    key w a = some (meanLast w a) := by
  unfold key meanLast mean?
  have hlen : (lastN w a.fitness).length ≠ 0 := by
    have : 0 < a.fitness.length := List.length_pos_iff.mpr h
    simp [lastN]; omega
  split
  · next heq => rw [heq] at hlen; simp at hlen
  · rfl

theorem keys_getD (w : Nat) (pop : List Agent) {i : Nat} (hi : i < pop.length) :
    (keys w pop).getD i none = key w (pop.getD i default) := by
  simp [keys, List.getD_eq_getElem?_getD, hi]

/-- **The elite has the highest mean.**  The position `select` clones as elite is a member of the
    population whose mean of the last `eval_loop` scores is ≥ that of every member — for every
    ranking numpy may produce, ties included — and the returned elite is an exact copy of it
    (fitness, marker, *and index*). -/
theorem C05_elite_max_mean (c : Cfg) (hv : c.valid) (pop : List Agent) (hne : pop ≠ [])
    (rank : List Nat) (hr : IsRanking (keys c.evalLoop pop) rank) :
    elitePos rank < pop.length ∧
    eliteOf rank pop = pop.getD (elitePos rank) default ∧
    (∀ a ∈ pop, kle (key c.evalLoop a) (key c.evalLoop (pop.getD (elitePos rank) default)) = true) ∧
    (Evaluated pop → ∀ a ∈ pop,
        meanLast c.evalLoop a ≤ meanLast c.evalLoop (pop.getD (elitePos rank) default)) := by
  have hkne : keys c.evalLoop pop ≠ [] := by simpa [keys] using hne
  have hlen : (keys c.evalLoop pop).length = pop.length := by simp [keys]
  obtain ⟨hlt, _, hmax⟩ := elitePos_spec hr hkne
  rw [hlen] at hlt
  have hk : ∀ a ∈ pop, kle (key c.evalLoop a) (key c.evalLoop (pop.getD (elitePos rank) default)) = true := by
    intro a ha
    obtain ⟨i, hi, rfl⟩ := List.getElem_of_mem ha
    have := hmax i (by rw [hlen]; exact hi)
    rw [keys_getD _ _ hi, keys_getD _ _ hlt] at this
    simpa [List.getD_eq_getElem?_getD, hi] using this
  refine ⟨hlt, by simp [eliteOf, cloneAs_self], hk, ?_⟩
  intro hev a ha
  have := hk a ha
  rw [key_eq_meanLast hv.2.2 (hev a ha), key_eq_meanLast hv.2.2 (hev _ (getD_mem hlt))] at this
  exact kle_some.mp this

/-- **Size.**  The new population has exactly `population_size` members, with elitism on or off,
    whatever the size of the old population; `population_size - 1` resp. `population_size` of them
    come from tournaments. -/
theorem C05_size (c : Cfg) (hv : c.valid) (rank : List Nat) (pop : List Agent) (draws : Nat → List Nat) :
    (newPop c rank pop draws).length = c.popSize ∧
    (tournChildren c rank pop draws).length = (if c.elitism then c.popSize - 1 else c.popSize) := by
  exact ⟨newPop_length c hv rank pop draws, by simp [selSize]⟩

/-- **With elitism the first member is the elite**: an exact copy of the best agent, carrying the
    best agent's own index (the code calls `elite.clone()` without a new index), and equal to the
    elite that `select` returns. -/
theorem C05_first_is_elite (c : Cfg) (he : c.elitism = true) (rank : List Nat) (pop : List Agent)
    (draws : Nat → List Nat) :
    (newPop c rank pop draws).head? = some (pop.getD (elitePos rank) default) ∧
    (newPop c rank pop draws).head? = some (eliteOf rank pop) ∧
    ((plan c rank pop draws).2.head?.map (·.parent)) = some (elitePos rank) := by
  simp [newPop, plan, he, Child.build, eliteOf, cloneAs_self]

/-- **Every other member is a copy of the best-ranked drawn agent.**  Member `t` after the elite
    slot is the clone, with index `max_id + 1 + t`, of `winner rank (draws t)`; that parent is one
    of the drawn positions, no drawn position has a larger rank, hence none has a larger mean; the
    clone carries the parent's fitness history and marker unchanged. -/
theorem C05_winner_best_drawn (c : Cfg) (hv : c.valid) (pop : List Agent) (rank : List Nat)
    (hr : IsRanking (keys c.evalLoop pop) rank) (draws : Nat → List Nat) (t : Nat) (ht : t < selSize c)
    (hne : draws t ≠ []) (hrange : ∀ d ∈ draws t, d < pop.length) :
    let off := if c.elitism then 1 else 0
    let p := winner rank (draws t)
    (newPop c rank pop draws)[off + t]? = some ((pop.getD p default).cloneAs (maxId pop + 1 + (t : Int))) ∧
    ((newPop c rank pop draws)[off + t]?.map (·.fitness)) = some (pop.getD p default).fitness ∧
    p ∈ draws t ∧
    (∀ d ∈ draws t, rank.getD d 0 ≤ rank.getD p 0) ∧
    (∀ d ∈ draws t, kle (key c.evalLoop (pop.getD d default)) (key c.evalLoop (pop.getD p default)) = true) ∧
    (Evaluated pop → ∀ d ∈ draws t,
        meanLast c.evalLoop (pop.getD d default) ≤ meanLast c.evalLoop (pop.getD p default)) := by
  intro off p
  have hlen : (keys c.evalLoop pop).length = pop.length := by simp [keys]
  obtain ⟨hmem, hrank, hkey⟩ := winner_spec hr (draws t) hne (by rw [hlen]; exact hrange)
  have hget : (newPop c rank pop draws)[off + t]? =
      some ((pop.getD p default).cloneAs (maxId pop + 1 + (t : Int))) := by
    simp only [off, newPop, plan]
    cases c.elitism
    · simp [tournChildren, Child.build, ht, p]
    · simp only [if_true, List.map_cons]
      rw [Nat.add_comm, List.getElem?_cons_succ]
      simp [tournChildren, Child.build, ht, p]
  have hk : ∀ d ∈ draws t,
      kle (key c.evalLoop (pop.getD d default)) (key c.evalLoop (pop.getD p default)) = true := by
    intro d hd
    have := hkey d hd
    rwa [keys_getD _ _ (hrange d hd), keys_getD _ _ (hrange _ hmem)] at this
  refine ⟨hget, by rw [hget]; rfl, hmem, hrank, hk, ?_⟩
  intro hev d hd
  have := hk d hd
  rw [key_eq_meanLast hv.2.2 (hev _ (getD_mem (hrange d hd))),
      key_eq_meanLast hv.2.2 (hev _ (getD_mem (hrange _ hmem)))] at this
  exact kle_some.mp this

/-- **Tie-breaking is irrelevant** for what the property talks about: two different valid rankings
    of the same population may pick different elites and different tournament winners, but always
    ones with the same mean.  (This is why the correspondence compares the parent's mean and not
    the parent's identity.) -/
theorem C05_tie_breaking_irrelevant (w : Nat) (pop : List Agent) (hne : pop ≠ []) (r1 r2 : List Nat)
    (h1 : IsRanking (keys w pop) r1) (h2 : IsRanking (keys w pop) r2)
    (ds : List Nat) (hds : ds ≠ []) (hrange : ∀ d ∈ ds, d < pop.length) :
    key w (pop.getD (elitePos r1) default) = key w (pop.getD (elitePos r2) default) ∧
    key w (pop.getD (winner r1 ds) default) = key w (pop.getD (winner r2 ds) default) := by
  have hkne : keys w pop ≠ [] := by simpa [keys] using hne
  have hlen : (keys w pop).length = pop.length := by simp [keys]
  obtain ⟨e1, _, m1⟩ := elitePos_spec h1 hkne
  obtain ⟨e2, _, m2⟩ := elitePos_spec h2 hkne
  obtain ⟨w1, _, k1⟩ := winner_spec h1 ds hds (by rw [hlen]; exact hrange)
  obtain ⟨w2, _, k2⟩ := winner_spec h2 ds hds (by rw [hlen]; exact hrange)
  rw [hlen] at e1 e2
  constructor
  · have a := m1 _ (by rw [hlen]; exact e2)
    have b := m2 _ (by rw [hlen]; exact e1)
    rw [keys_getD _ _ e1, keys_getD _ _ e2] at a b
    exact kle_antisymm b a
  · have a := k1 _ w2
    have b := k2 _ w1
    rw [keys_getD _ _ (hrange _ w1), keys_getD _ _ (hrange _ w2)] at a b
    exact kle_antisymm b a

/-- **Fresh, distinct indices.**  In one new population all indices are pairwise distinct — even
    if the old population had repeated indices —, every tournament child's index is larger than
    every index of the old population, and with elitism the first member keeps an old index (the
    elite's). -/
theorem C05_indices_fresh_distinct (c : Cfg) (pop : List Agent) (hne : pop ≠ [])
    (rank : List Nat) (hr : IsRanking (keys c.evalLoop pop) rank) (draws : Nat → List Nat) :
    ((newPop c rank pop draws).map (·.index)).Nodup ∧
    (∀ ch ∈ tournChildren c rank pop draws, ∀ a ∈ pop, a.index < ch.index) ∧
    (newPop c rank pop draws).map (·.index) =
      (if c.elitism then [(pop.getD (elitePos rank) default).index] else []) ++
      (List.range (selSize c)).map (fun (t : Nat) => maxId pop + 1 + (t : Int)) := by
  have hkne : keys c.evalLoop pop ≠ [] := by simpa [keys] using hne
  have hlt := (elitePos_spec hr hkne).1
  rw [show (keys c.evalLoop pop).length = pop.length by simp [keys]] at hlt
  refine ⟨newPop_indices_nodup c rank pop draws hlt, ?_, newPop_indices c rank pop draws⟩
  intro ch hch a ha
  obtain ⟨t, _, rfl⟩ := List.mem_map.mp hch
  have := le_maxId pop a ha
  simp only
  omega

/-- **Distinct forever.**  Start from any non-empty population with pairwise distinct indices and
    call `select` any number of times with one selector.  Between calls the agents may be changed
    arbitrarily (evaluation, training, mutation) and the next call may even be given a re-indexed
    or completely unrelated non-empty population; each call runs with any valid ranking and any
    draws.  After every call the indices are pairwise distinct, the population is never empty and
    has exactly `population_size` members.  (Nothing carries over from earlier calls: the result
    of `select` is a function of the population it is given.) -/
theorem C05_indices_distinct_forever (c : Cfg) (hv : c.valid) (p q : List Agent)
    (hreach : Reach c p q) (hne : p ≠ []) (hnd : (p.map (·.index)).Nodup) :
    (q.map (·.index)).Nodup ∧ q ≠ [] ∧ (q = p ∨ q.length = c.popSize) := by
  induction hreach with
  | refl => exact ⟨hnd, hne, Or.inl rfl⟩
  | @step q q' rank draws _ hq'ne hrank _ =>
    have hlen := newPop_length c hv rank q' draws
    refine ⟨(C05_indices_fresh_distinct c q' hq'ne rank hrank draws).1, ?_, Or.inr hlen⟩
    intro e
    have := hv.2.1
    rw [e] at hlen; simp at hlen; omega

/-- **The old population is left untouched** (model level): `select` only allocates.  In the
    store after `select` every old address still holds the same agent; the returned elite and the
    members of the new population live at addresses that did not exist before and are pairwise
    different (so no member is the same object as a parent, as the elite, or as another member);
    each holds the agent `newPop` describes. -/
theorem C05_old_population_untouched (c : Cfg) (hv : c.valid) (rank : List Nat) (store : List Agent)
    (draws : Nat → List Nat) :
    let r := selectHeap c rank store draws
    (∀ a, a < store.length → r.1[a]? = store[a]?) ∧
    r.1.take store.length = store ∧
    store.length ≤ r.2.1 ∧ (∀ a ∈ r.2.2, store.length ≤ a) ∧
    (r.2.1 :: r.2.2).Nodup ∧
    r.1[r.2.1]? = some (eliteOf rank store) ∧
    r.2.2.length = c.popSize ∧
    (∀ k, k < c.popSize → (r.2.2[k]?.bind (r.1[·]?)) = (newPop c rank store draws)[k]?) := by
  intro r
  have hl := newPop_length c hv rank store draws
  have hstore : r.1 = store ++ [eliteOf rank store] ++ newPop c rank store draws := rfl
  refine ⟨?_, ?_, ?_, ?_, ?_, ?_, ?_, ?_⟩
  · intro a ha
    rw [hstore, List.append_assoc, List.getElem?_append_left ha]
  · rw [hstore, List.append_assoc, List.take_left]
  · exact Nat.le_refl _
  · intro a ha
    simp only [r, selectHeap, List.mem_map, List.mem_range] at ha
    obtain ⟨k, _, rfl⟩ := ha; omega
  · simp only [r, selectHeap, List.nodup_cons, List.mem_map, List.mem_range, not_exists, not_and]
    refine ⟨by intro k _; omega, ?_⟩
    refine List.Nodup.map ?_ List.nodup_range
    intro a b h; simp only at h; omega
  · simp [r, selectHeap]
  · simp [r, selectHeap, hl]
  · intro k hk
    simp only [r, selectHeap, hl, List.getElem?_map, List.getElem?_range hk, Option.map_some,
      Option.bind_some]
    rw [List.getElem?_append_right (by simp)]
    congr 1
    simp

/-- **The hypotheses are satisfiable for every population**: the stable ranking used by the
    driver is a valid ranking, so all theorems above apply to what the driver computes. -/
theorem C05_ranking_exists (w : Nat) (pop : List Agent) :
    IsRanking (keys w pop) (stableRank (keys w pop)) := stableRank_isRanking _

/-- The executable test `isRankingB` (the driver's `ranking` op, which the harness feeds with the
    rank array numpy really returned) decides exactly the specification `IsRanking`. -/
theorem C05_ranking_test_sound (ks : List Key) (rank : List Nat) :
    isRankingB ks rank = true ↔ IsRanking ks rank := isRankingB_iff ks rank

/-! ## source translation

`harness/py2lean_tourn.py` translates the source text of `TournamentSelection.{__init__, _tournament,
_elitism, select}` (`agilerl/hpo/tournament.py` of the tree under test) into `Gen/TournGen.lean` on every
run of the check; `Proofs/TournGenEq.lean` proves the generated definitions equal to the model
functions.  The statements below mention the GENERATED functions only (`TournGen.TournamentSelection.*`
through `toGen c`, the model's configuration as the generated record), so a change of the source that
alters their meaning breaks them.

Runtime values are explicit parameters: `s0 s1 s2` = the results of the three `np.argsort` calls,
`draws t` = the `np.random.randint` result of tournament `t`, `clone` = `agent.clone(index, wrap)`.
`NumpyOk` is what numpy guarantees about them (sorting permutations with ties in any order; draws of
`tournament_size` positions of the population).  `clone` is ANY function unless stated: what it does
to an agent is property C01; where indices are concerned the hypothesis is that `clone(index)` sets
the index and `clone()` keeps it. -/
section source_translation
open TournGen

/-- every generated definition equals the hand-written model function, for all inputs -/
theorem C05_source_translation_equalities (c : Cfg) (hv : c.valid) (pop : List Agent) (hne : pop ≠ [])
    (s0 s1 s2 : List Nat) (draws : Nat → List Nat) (ok : NumpyOk c pop s0 s1 s2 draws) :
    TournamentSelection.__init__ c.tsize c.elitism c.popSize c.evalLoop = some (toGen c) ∧
    (∀ rank ds, (toGen c)._tournament rank ds =
      if ds.length = c.tsize ∧ ∀ d ∈ ds, d < rank.length then some (winner rank ds) else none) ∧
    (∀ clone, (toGen c)._elitism (opsWith clone) pop s0 s1 s2 =
      some (clone (pop.getD (elitePos s1) default) none true, s1, maxId pop)) ∧
    IsRanking (keys c.evalLoop pop) s1 ∧
    (toGen c).select (opsWith modelClone) pop s0 s1 s2 draws = some (eliteOf s1 pop, newPop c s1 pop draws) := by
  refine ⟨by rw [gen_init_eq, if_pos hv], gen_tournament_eq c hv, ?_, ok.ranking,
    (gen_select_eq c hv pop hne s0 s1 s2 draws ok.h0 ok.h1 ok.h2 ok.hd).1⟩
  intro clone
  exact (gen_elitism_eq clone c hv pop hne s0 s1 s2 ok.h0 ok.h1 ok.h2).1

/-- the constructor's four assertions: exactly the configurations with positive tournament size,
    population size and evaluation window are accepted (any integers, also negative), and the fields
    are the arguments -/
theorem C05_source_translation_init (t : Int) (e : Bool) (p w : Int) :
    (TournamentSelection.__init__ t e p w).isSome = true ↔ (0 < t ∧ 0 < p ∧ 0 < w) := by
  constructor
  · intro h
    obtain ⟨s, hs⟩ := Option.isSome_iff_exists.mp h
    obtain ⟨h1, h2, h3, _⟩ := (gen_init_iff t e p w s).mp hs
    exact ⟨h1, h2, h3⟩
  · rintro ⟨h1, h2, h3⟩
    rw [(gen_init_iff t e p w _).mpr ⟨h1, h2, h3, rfl⟩]
    rfl

/-- the translated `select` does not raise on a non-empty population, and **the new population has
    exactly `population_size` members** — for any `clone`, any ties, any draws -/
theorem C05_source_translation_size (clone : Agent → Option Int → Bool → Agent) (c : Cfg) (hv : c.valid)
    (pop : List Agent) (hne : pop ≠ []) (s0 s1 s2 : List Nat) (draws : Nat → List Nat)
    (ok : NumpyOk c pop s0 s1 s2 draws) :
    ∃ elite new, (toGen c).select (opsWith clone) pop s0 s1 s2 draws = some (elite, new) ∧
      new.length = c.popSize := by
  refine ⟨_, _, gen_select_eq_clone clone c hv pop hne s0 s1 s2 draws ok.h0 ok.h1 ok.h2 ok.hd, ?_⟩
  have := hv.2.1
  cases he : c.elitism <;> simp [selSize, he]
  omega

/-- **the elite is a best agent and, with elitism, comes first**: whatever the translated `select`
    returns as elite is `clone()` of a member of the population whose mean of the last `eval_loop`
    scores is ≥ that of every member (for every tie order numpy may produce); with elitism on, the
    first member of the new population is `clone(wrap=False)` of that returned elite -/
theorem C05_source_translation_elite (clone : Agent → Option Int → Bool → Agent) (c : Cfg) (hv : c.valid)
    (pop : List Agent) (hne : pop ≠ []) (s0 s1 s2 : List Nat) (draws : Nat → List Nat)
    (ok : NumpyOk c pop s0 s1 s2 draws) (elite : Agent) (new : List Agent)
    (h : (toGen c).select (opsWith clone) pop s0 s1 s2 draws = some (elite, new)) :
    ∃ best ∈ pop, elite = clone best none true ∧
      (∀ a ∈ pop, kle (key c.evalLoop a) (key c.evalLoop best) = true) ∧
      (Evaluated pop → ∀ a ∈ pop, meanLast c.evalLoop a ≤ meanLast c.evalLoop best) ∧
      (c.elitism = true → new.head? = some (clone elite none false)) := by
  rw [gen_select_eq_clone clone c hv pop hne s0 s1 s2 draws ok.h0 ok.h1 ok.h2 ok.hd] at h
  simp only [Option.some.injEq, Prod.mk.injEq] at h
  obtain ⟨h1, h2⟩ := h
  obtain ⟨hlt, _, hk, hm⟩ := C05_elite_max_mean c hv pop hne s1 ok.ranking
  refine ⟨pop.getD (elitePos s1) default, getD_mem hlt, h1.symm, hk, hm, ?_⟩
  intro he
  rw [← h2, ← h1]
  simp [he]

/-- **every other member is a clone of a tournament winner = the best-ranked of its draws, with the
    next fresh id**: member `t` after the elite slot is `clone(max_id + 1 + t, wrap=False)` of the
    population member at position `p`, where `p` is one of the positions drawn for tournament `t`
    and no drawn position has a larger rank, hence none has a larger mean -/
theorem C05_source_translation_winner (clone : Agent → Option Int → Bool → Agent) (c : Cfg) (hv : c.valid)
    (pop : List Agent) (hne : pop ≠ []) (s0 s1 s2 : List Nat) (draws : Nat → List Nat)
    (ok : NumpyOk c pop s0 s1 s2 draws) (elite : Agent) (new : List Agent)
    (h : (toGen c).select (opsWith clone) pop s0 s1 s2 draws = some (elite, new))
    (t : Nat) (ht : t < selSize c) :
    ∃ p ∈ draws t, p < pop.length ∧
      new[(if c.elitism then 1 else 0) + t]? =
        some (clone (pop.getD p default) (some (maxId pop + 1 + (t : Int))) false) ∧
      (∀ d ∈ draws t, s1.getD d 0 ≤ s1.getD p 0) ∧
      (∀ d ∈ draws t, kle (key c.evalLoop (pop.getD d default)) (key c.evalLoop (pop.getD p default)) = true) ∧
      (Evaluated pop → ∀ d ∈ draws t,
        meanLast c.evalLoop (pop.getD d default) ≤ meanLast c.evalLoop (pop.getD p default)) := by
  rw [gen_select_eq_clone clone c hv pop hne s0 s1 s2 draws ok.h0 ok.h1 ok.h2 ok.hd] at h
  simp only [Option.some.injEq, Prod.mk.injEq] at h
  obtain ⟨_, h2⟩ := h
  obtain ⟨hdl, hdr⟩ := ok.hd t ht
  have hdne : draws t ≠ [] := by
    intro e; rw [e] at hdl; have := hv.1; simp at hdl; omega
  obtain ⟨_, _, hmem, hrank, hk, hm⟩ := C05_winner_best_drawn c hv pop s1 ok.ranking draws t ht hdne hdr
  refine ⟨winner s1 (draws t), hmem, hdr _ hmem, ?_, hrank, hk, hm⟩
  rw [← h2]
  cases c.elitism
  · simp [tournChildren, ht]
  · simp only [if_true, List.singleton_append]
    rw [Nat.add_comm, List.getElem?_cons_succ]
    simp [tournChildren, ht]

/-- **new ids are `max_id + 1, max_id + 2, …` — consecutive, distinct, above every old id.**  If
    `clone(index)` sets the index and `clone()` keeps it (C01), the indices of the new population are
    the elite's own index (with elitism) followed by `max_id + 1 + t` for `t = 0 … selection_size-1`;
    they are pairwise distinct and every tournament child's index exceeds every old index -/
theorem C05_source_translation_indices (clone : Agent → Option Int → Bool → Agent)
    (hclone : ∀ a i w, (clone a i w).index = i.getD a.index)
    (c : Cfg) (hv : c.valid) (pop : List Agent) (hne : pop ≠ []) (s0 s1 s2 : List Nat)
    (draws : Nat → List Nat) (ok : NumpyOk c pop s0 s1 s2 draws) (elite : Agent) (new : List Agent)
    (h : (toGen c).select (opsWith clone) pop s0 s1 s2 draws = some (elite, new)) :
    new.map (·.index) =
      (if c.elitism then [(pop.getD (elitePos s1) default).index] else []) ++
      (List.range (selSize c)).map (fun (t : Nat) => maxId pop + 1 + (t : Int)) ∧
    (new.map (·.index)).Nodup ∧
    (∀ t, t < selSize c → ∀ a ∈ pop, a.index < maxId pop + 1 + (t : Int)) := by
  rw [gen_select_eq_clone clone c hv pop hne s0 s1 s2 draws ok.h0 ok.h1 ok.h2 ok.hd] at h
  simp only [Option.some.injEq, Prod.mk.injEq] at h
  obtain ⟨_, h2⟩ := h
  have hidx : new.map (·.index) = (newPop c s1 pop draws).map (·.index) := by
    rw [← h2, newPop_indices]
    cases c.elitism <;>
      simp [tournChildren, hclone, List.map_map, Function.comp_def]
  obtain ⟨hnd, _, heq⟩ := C05_indices_fresh_distinct c pop hne s1 ok.ranking draws
  refine ⟨by rw [hidx]; exact heq, by rw [hidx]; exact hnd, ?_⟩
  intro t _ a ha
  have := le_maxId pop a ha
  omega

/-- the same over the model's `clone` (index replaced, everything else — fitness history, marker —
    copied): what the translated `select` returns is exactly the model's `(eliteOf, newPop)`, so every
    theorem of this file about `newPop` / `eliteOf` holds for the translated code -/
theorem C05_source_translation_select_is_model (c : Cfg) (hv : c.valid) (pop : List Agent) (hne : pop ≠ [])
    (s0 s1 s2 : List Nat) (draws : Nat → List Nat) (ok : NumpyOk c pop s0 s1 s2 draws) :
    (toGen c).select (opsWith modelClone) pop s0 s1 s2 draws = some (eliteOf s1 pop, newPop c s1 pop draws) ∧
    (newPop c s1 pop draws).length = c.popSize ∧
    ((newPop c s1 pop draws).map (·.index)).Nodup ∧
    eliteOf s1 pop = pop.getD (elitePos s1) default :=
  ⟨(gen_select_eq c hv pop hne s0 s1 s2 draws ok.h0 ok.h1 ok.h2 ok.hd).1, newPop_length c hv s1 pop draws,
   (C05_indices_fresh_distinct c pop hne s1 ok.ranking draws).1,
   (C05_elite_max_mean c hv pop hne s1 ok.ranking).2.1⟩

/-- a value numpy cannot return is not a result of the call: with a first sort parameter that is not
    a sorting permutation of the means the translated `select` has no result -/
theorem C05_source_translation_guard (clone : Agent → Option Int → Bool → Agent) (c : Cfg) (hv : c.valid)
    (pop : List Agent) (s0 s1 s2 : List Nat) (draws : Nat → List Nat)
    (h : ¬ IsArgsort keyLe (keys c.evalLoop pop) s0) :
    (toGen c).select (opsWith clone) pop s0 s1 s2 draws = none :=
  gen_select_bad_sort clone c hv pop s0 s1 s2 draws h

end source_translation

/-! ## the initial population: `create_population` / `EvolvableAlgorithm.population`

`Tournament.initialPop n` is the population both functions build as far as selection is concerned: `n` members that
have never been evaluated, member `i` constructed with `index = i`.  It discharges the hypothesis "the indices of the
first population are distinct" of `C05_indices_distinct_forever`. -/

/-- **Base case.**  The initial population of any size has exactly that many members, member `k` carries index `k`,
    and the indices are pairwise distinct. -/
theorem C05_initial_population_indices (n : Nat) :
    (initialPop n).length = n ∧
    (initialPop n).map (·.index) = (List.range n).map Int.ofNat ∧
    ((initialPop n).map (·.index)).Nodup ∧
    (∀ k, k < n → ((initialPop n)[k]?.map (·.index)) = some (Int.ofNat k)) := by
  have hidx : (initialPop n).map (·.index) = (List.range n).map Int.ofNat := by
    simp [initialPop, Function.comp_def]
  refine ⟨by simp [initialPop], hidx, ?_, ?_⟩
  · rw [hidx]
    exact List.Nodup.map (fun a b h => by simpa using h) List.nodup_range
  · intro k hk
    simp [initialPop, hk]

/-- **Base case + induction.**  Build a population of `n ≥ 1` agents with `create_population` and call `select` any
    number of times (one selector; anything may happen to the agents between the calls, see `Reach`): after every
    call the indices are pairwise distinct — no hypothesis about the first population is left. -/
theorem C05_initial_population_then_generations_distinct (c : Cfg) (hv : c.valid) (n : Nat) (hn : 0 < n)
    (q : List Agent) (hreach : Reach c (initialPop n) q) :
    (q.map (·.index)).Nodup ∧ q ≠ [] ∧ (q = initialPop n ∨ q.length = c.popSize) := by
  refine C05_indices_distinct_forever c hv (initialPop n) q hreach ?_ (C05_initial_population_indices n).2.2.1
  intro e
  have := (C05_initial_population_indices n).1
  rw [e] at this; simp at this; omega

section source_translation_population
open TournGen

/-! ### the same over the population translated from the source text

`harness/py2lean_pop.py` translates `create_population` (`agilerl/utils/utils.py`, every `algo == "…"` branch) and the
classmethod `EvolvableAlgorithm.population` (`agilerl/algorithms/core/base.py`) of the tree under test into
`Gen/PopGen.lean`: the list of members, each the provenance term of the expression that builds it (`PopGen.Val`), the
loop bound and the `index=` argument as integer expressions.  `PopGen.toAgent` reads a member as a Tournament agent
through the `index` argument of its constructor call (no reading if there is none).  `PopGen.algos` are the literals
`algo` is compared with.  A dropped `index=idx`, `index=idx + 1`, `range(population_size - 1)`, a second `append`
change the generated text and these statements stop checking. -/

/-- **`create_population` builds a well-formed first generation, in every branch**: for every algorithm name the
    function knows and every `population_size` (any integer) the translated function returns `population_size`
    members (none for a size ≤ 0), member `k` is constructed with `index = k`, so the indices are exactly
    `0 … population_size-1` in order and pairwise distinct.  For a name it does not know it returns the empty list. -/
theorem C05_source_translation_initial_population_distinct (algo : String) (n : Int) :
    (algo ∈ PopGen.algos →
      (PopGen.create_population algo n).map PopGen.toAgent = (initialPop n.toNat).map some ∧
      (PopGen.create_population algo n).length = n.toNat ∧
      (PopGen.create_population algo n).map PopGen.Val.indexOf =
        (List.range n.toNat).map (fun k => some (Int.ofNat k)) ∧
      ((PopGen.create_population algo n).map PopGen.Val.indexOf).Nodup) ∧
    (algo ∉ PopGen.algos → PopGen.create_population algo n = []) := by
  refine ⟨fun h => ?_, fun h => PopGen.gen_create_population_unknown algo h n⟩
  have e := PopGen.gen_create_population_eq algo h n
  have hlen : (PopGen.create_population algo n).length = n.toNat := by
    have := congrArg List.length e
    simpa [(C05_initial_population_indices n.toNat).1] using this
  have hidx : (PopGen.create_population algo n).map PopGen.Val.indexOf =
      (List.range n.toNat).map (fun k => some (Int.ofNat k)) := by
    have := congrArg (List.map (Option.map (·.index))) e
    simpa [PopGen.toAgent, initialPop, Function.comp_def, Option.map_map] using this
  refine ⟨e, hlen, hidx, ?_⟩
  rw [hidx]
  exact List.Nodup.map (fun a b h => by simpa using h) List.nodup_range

/-- the classmethod `EvolvableAlgorithm.population(size, …)`, with and without `wrapper_cls`: `size` members, member
    `k` constructed with `index = k` (a wrapped member is read through the agent it wraps) -/
theorem C05_source_translation_population_classmethod_distinct (wrapperGiven : Bool) (n : Int) :
    (PopGen.population wrapperGiven n).map PopGen.toAgent = (initialPop n.toNat).map some ∧
    (PopGen.population wrapperGiven n).length = n.toNat ∧
    ((PopGen.population wrapperGiven n).map PopGen.Val.indexOf).Nodup := by
  have e := PopGen.gen_population_eq wrapperGiven n
  have hlen : (PopGen.population wrapperGiven n).length = n.toNat := by
    have := congrArg List.length e
    simpa [(C05_initial_population_indices n.toNat).1] using this
  have hidx : (PopGen.population wrapperGiven n).map PopGen.Val.indexOf =
      (List.range n.toNat).map (fun k => some (Int.ofNat k)) := by
    have := congrArg (List.map (Option.map (·.index))) e
    simpa [PopGen.toAgent, initialPop, Function.comp_def, Option.map_map] using this
  refine ⟨e, hlen, ?_⟩
  rw [hidx]
  exact List.Nodup.map (fun a b h => by simpa using h) List.nodup_range

/-- generations produced by the TRANSLATED `select` (`Gen/TournGen.lean`), one selector: each call is given any
    non-empty population `q'` (the previous generation after evaluation / training / mutation, or any other), the
    values numpy returned for it, and yields `new` -/
inductive GenReach (c : Cfg) : List Agent → List Agent → Prop
  | refl (p : List Agent) : GenReach c p p
  | step {p q q' new : List Agent} {elite : Agent} {s0 s1 s2 : List Nat} {draws : Nat → List Nat} :
      GenReach c p q → q' ≠ [] → NumpyOk c q' s0 s1 s2 draws →
      (toGen c).select (opsWith modelClone) q' s0 s1 s2 draws = some (elite, new) → GenReach c p new

theorem GenReach.toReach {c : Cfg} (hv : c.valid) {p q : List Agent} (h : GenReach c p q) : Reach c p q := by
  induction h with
  | refl => exact Reach.refl _
  | @step q q' new elite s0 s1 s2 draws _ hne ok hsel ih =>
    rw [(gen_select_eq c hv q' hne s0 s1 s2 draws ok.h0 ok.h1 ok.h2 ok.hd).1] at hsel
    simp only [Option.some.injEq, Prod.mk.injEq] at hsel
    rw [← hsel.2]
    exact Reach.step ih hne ok.ranking

/-- **`create_population` followed by any number of generations of `select` keeps the indices distinct** — both
    ends translated from the source: the first generation is what the translated `create_population` returns for a
    known algorithm name and a size ≥ 1, every later generation is what the translated `select` returns.  After every
    generation the indices are pairwise distinct, the population is non-empty and (after the first `select`) has
    `population_size` members. -/
theorem C05_source_translation_create_population_then_select_distinct (algo : String) (h : algo ∈ PopGen.algos)
    (n : Int) (hn : 0 < n) (pop : List Agent)
    (hpop : (PopGen.create_population algo n).map PopGen.toAgent = pop.map some)
    (c : Cfg) (hv : c.valid) (q : List Agent) (hreach : GenReach c pop q) :
    (q.map (·.index)).Nodup ∧ q ≠ [] ∧ (q = pop ∨ q.length = c.popSize) := by
  have e := (C05_source_translation_initial_population_distinct algo n).1 h
  have hp : pop = initialPop n.toNat := by
    have := hpop.symm.trans e.1
    exact (List.map_injective_iff.mpr (Option.some_injective _)) this
  subst hp
  exact C05_initial_population_then_generations_distinct c hv n.toNat (by omega) q (hreach.toReach hv)

end source_translation_population

/-! ### non-vacuity: a concrete 4-agent population with a three-way tie at the top -/

def exPop : List Agent :=
  [ { index := 0, fitness := [1, 2, 3],  tag := 10 },      -- mean of last 2 = 5/2
    { index := 1, fitness := [4, 1],     tag := 11 },      -- 5/2
    { index := 2, fitness := [-2, 1],    tag := 12 },      -- -1/2
    { index := 7, fitness := [5/2],      tag := 13 } ]     -- 5/2 (shorter than the window)
def exCfg : Cfg := { tsize := 2, elitism := true, popSize := 4, evalLoop := 2 }
def exDraws : Nat → List Nat := fun t => [[2, 1], [2, 2], [0, 3]].getD t []

example : exCfg.valid := by decide
example : keys 2 exPop = [some (5/2), some (5/2), some (-1/2), some (5/2)] := by decide +kernel
example : stableRank (keys 2 exPop) = [1, 2, 0, 3] := by decide +kernel
example : Evaluated exPop := by intro a ha; simp [exPop] at ha; rcases ha with rfl | rfl | rfl | rfl <;> simp
/-- a second valid ranking of the same population that breaks the tie the other way round -/
example : IsRanking (keys 2 exPop) [3, 1, 0, 2] := by
  refine ⟨by decide +kernel, ?_, ?_⟩ <;> intro i j hi hj <;>
    (have hi' : i < 4 := by simpa [keys, exPop] using hi) <;>
    (have hj' : j < 4 := by simpa [keys, exPop] using hj) <;>
    interval_cases i <;> interval_cases j <;> decide +kernel
example : elitePos (stableRank (keys 2 exPop)) = 3 ∧ elitePos [3, 1, 0, 2] = 0 := by decide +kernel
example : (newPop exCfg (stableRank (keys 2 exPop)) exPop exDraws).map (fun a => (a.index, a.tag))
    = [(7, 13), (8, 11), (9, 12), (10, 13)] := by decide +kernel
example : (newPop exCfg [3, 1, 0, 2] exPop exDraws).map (fun a => (a.index, a.tag))
    = [(0, 10), (8, 11), (9, 12), (10, 10)] := by decide +kernel
example : (newPop { exCfg with elitism := false } (stableRank (keys 2 exPop)) exPop
    (fun t => [[2, 1], [2, 2], [0, 3], [0, 1]].getD t [])).map (fun a => (a.index, a.tag))
    = [(8, 11), (9, 12), (10, 13), (11, 11)] := by decide +kernel
/-- a never-evaluated agent (NaN mean) is ranked on top by numpy's sort order: the elite theorem
    for exact means needs `Evaluated` -/
example : elitePos (stableRank (keys 2 (exPop ++ [{ index := 9, fitness := [] }]))) = 4 := by
  decide +kernel
/-- one selector, two unrelated populations: after serving `exPop` (indices 0,1,2,7 → children
    8,9,10) it is handed a population with indices 4..7 whose best agent has index 7; the children
    are numbered from that population's own maximum: 7 (elite), 8, 9, 10 -/
def exPopB : List Agent :=
  [ { index := 4, fitness := [0] }, { index := 5, fitness := [1] },
    { index := 6, fitness := [1, 0] }, { index := 7, fitness := [2] } ]
example : (newPop exCfg (stableRank (keys 2 exPopB)) exPopB exDraws).map (·.index) = [7, 8, 9, 10] := by
  decide +kernel
example : Reach exCfg exPop (newPop exCfg (stableRank (keys 2 exPopB)) exPopB exDraws) :=
  Reach.step (Reach.step (Reach.refl _) (by decide) (C05_ranking_exists 2 exPop) (draws := exDraws))
    (by decide) (C05_ranking_exists 2 exPopB)
example : Reach exCfg exPop (newPop exCfg (stableRank (keys 2 exPop)) exPop exDraws) :=
  Reach.step (Reach.refl _) (by decide) (C05_ranking_exists 2 exPop)

/-- the translated `create_population` on concrete sizes: indices 0, 1, 2; a wrapped DDPG member is read through the
    agent it wraps; a size ≤ 0 and an unknown name build nobody; the classmethod with a wrapper -/
example : (PopGen.create_population "TD3" 3).map PopGen.Val.indexOf = [some 0, some 1, some 2] := by decide +kernel
example : (PopGen.create_population "DDPG" 2).map PopGen.Val.indexOf = [some 0, some 1] := by decide +kernel
example : (PopGen.create_population "DQN" (-4)) = [] ∧ PopGen.create_population "SAC" 4 = [] := by decide +kernel
example : (PopGen.population true 2).map PopGen.Val.indexOf = [some 0, some 1] := by decide +kernel
example : "Rainbow DQN" ∈ PopGen.algos ∧ "GRPO" ∈ PopGen.algos := by decide +kernel
example : (PopGen.create_population "PPO" 4).map PopGen.toAgent = (initialPop 4).map some := by decide +kernel
example : Reach exCfg (initialPop 4) (newPop exCfg (stableRank (keys 2 exPopB)) exPopB exDraws) :=
  Reach.step (Reach.refl _) (by decide) (C05_ranking_exists 2 exPopB)

end Tournament
