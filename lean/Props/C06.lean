import Proofs.HpMutPop
import Proofs.HpMutGenEq
import Proofs.PopGenEq

/-!
# C06 — hyperparameter mutation stays in its configured range and takes effect

Model: `Model/HpMut.lean`.  `mutate1` is `RLParameter.mutate`, `sample` is
`HyperparameterConfig.sample`, `Pop.mutate` is `Mutations.rl_hyperparam_mutation` on one member
of a population whose members refer to `HyperparameterConfig` objects in a heap
(`create_population`: one object for everybody; `clone()`: a deep copy), `Spec.*` is the property
written as a program without configuration objects.

`Sem.own` / `allOpts = true` are the repaired semantics the theorems are about;
`Sem.cached` / `allOpts = false` are the code as found (defects D2, D19) — kept in the model with
concrete witness theorems showing that they violate the property.
-/
namespace HpMut

/-! ## one `RLParameter.mutate` -/

/-- the result is the current value times the chosen factor (`coin < 1/2`: shrink, else grow),
    clamped to `[min, max]`, converted to the number type — for every input whatsoever -/
theorem C06_is_scaled_clipped (p : Param) (v coin : Rat) :
    mutate1 p v coin =
      cast p.dtype (min (max (v * (if coin < 1/2 then p.shrink else p.grow)) p.lo) p.hi) := by
  rw [mutate1_eq, clip_eq_min_max]; rfl

/-- float hyperparameters: inside `[min, max]` for all values, factors and bounds `min ≤ max` -/
theorem C06_in_range (p : Param) (v coin : Rat) (hb : p.lo ≤ p.hi) (hf : p.dtype = .float) :
    p.lo ≤ mutate1 p v coin ∧ mutate1 p v coin ≤ p.hi := by
  have := mutate1_range p v coin hb
  simpa [rangeLo, rangeHi, hf, cast] using this

/-- integer hyperparameters, exact statement: the result is an integer `z` with
    `int(min) ≤ z ≤ int(max)` (`int` truncates toward zero).  Hence `min ≤ z` whenever `min` is
    integral or `≤ 0`, and `z ≤ max` whenever `max` is integral or `≥ 0`; a positive non-integral
    `min` (negative non-integral `max`) can be undershot (overshot) by less than one. -/
theorem C06_in_range_int (p : Param) (v coin : Rat) (hb : p.lo ≤ p.hi) (hi : p.dtype = .int) :
    ∃ z : Int, mutate1 p v coin = (z : Rat) ∧ trunc p.lo ≤ z ∧ z ≤ trunc p.hi ∧
      ((p.lo ≤ 0 ∨ ∃ m : Int, p.lo = m) → p.lo ≤ (z : Rat)) ∧
      ((0 ≤ p.hi ∨ ∃ m : Int, p.hi = m) → (z : Rat) ≤ p.hi) ∧
      p.lo - 1 < (z : Rat) ∧ (z : Rat) < p.hi + 1 := by
  have hr := mutate1_range p v coin hb
  rw [mutate1_eq] at hr ⊢
  simp only [rangeLo, rangeHi, hi, cast] at hr ⊢
  obtain ⟨h1, h2⟩ := hr
  have h1' : trunc p.lo ≤ trunc (clip p.lo p.hi (v * factor p coin)) := by exact_mod_cast h1
  have h2' : trunc (clip p.lo p.hi (v * factor p coin)) ≤ trunc p.hi := by exact_mod_cast h2
  have lo_gt : p.lo - 1 < ((trunc p.lo : Int) : Rat) := by
    by_cases h0 : 0 ≤ p.lo
    · rw [trunc_of_nonneg h0]
      have := Rat.lt_floor_add_one p.lo
      push_cast at this; linarith
    · have := le_trunc_of_nonpos (le_of_lt (not_le.mp h0)); linarith
  have hi_lt : ((trunc p.hi : Int) : Rat) < p.hi + 1 := by
    by_cases h0 : 0 ≤ p.hi
    · have := trunc_le_of_nonneg h0; linarith
    · rw [trunc_of_neg (not_le.mp h0)]
      have := Rat.lt_floor_add_one (-p.hi)
      push_cast at this ⊢; linarith
  refine ⟨_, rfl, h1', h2', ?_, ?_, lt_of_lt_of_le lo_gt h1, lt_of_le_of_lt h2 hi_lt⟩
  · rintro (h0 | ⟨m, hm⟩)
    · exact le_trans (le_trunc_of_nonpos h0) h1
    · have : ((trunc p.lo : Int) : Rat) = p.lo := by rw [hm, trunc_intCast]
      exact le_trans (le_of_eq this.symm) h1
  · rintro (h0 | ⟨m, hm⟩)
    · exact le_trans h2 (trunc_le_of_nonneg h0)
    · have : ((trunc p.hi : Int) : Rat) = p.hi := by rw [hm, trunc_intCast]
      exact le_trans h2 (le_of_eq this)

/-- the caveat is real: `min = 1.5`, value 2, shrink ½ ↦ `int(1.5) = 1 < min` -/
theorem C06_in_range_int_nonintegral_min_witness :
    ¬ ((3/2 : Rat) ≤ mutate1 { lo := 3/2, hi := 10, shrink := 1/2, grow := 2, dtype := .int } 2 0) := by
  decide +kernel

/-- `HyperparameterConfig.sample` returns the head of the permutation, a configured index -/
theorem C06_sample_is_configured (n : Nat) (perm : List Nat) (k : Nat) (h : sample n perm = some k) :
    k < n ∧ perm.head? = some k := by
  unfold sample at h
  cases perm with
  | nil => simp at h
  | cons x r =>
    simp only at h
    split at h
    · next hx => cases h; exact ⟨hx, rfl⟩
    · simp at h

/-! ## one mutation inside a population -/

/-- exactly one hyperparameter of exactly one agent can change: every other agent is untouched
    (attributes, configuration address and optimizers), the population keeps its size, and the
    mutated agent keeps every attribute other than `k`.  Holds for both semantics and both
    optimizer modes, valid indices or not. -/
theorem C06_one_changes (sem : Sem) (ao : Bool) (P : Pop) (i k : Nat) (coin : Rat) :
    (P.mutate sem ao i k coin).agents.length = P.agents.length ∧
    (∀ j, j ≠ i → (P.mutate sem ao i k coin).agents[j]? = P.agents[j]?) ∧
    (∀ a a', P.agents[i]? = some a → (P.mutate sem ao i k coin).agents[i]? = some a' →
      a'.cfg = a.cfg ∧ a'.attrs.length = a.attrs.length ∧
      ∀ k', k' ≠ k → a'.attrs[k']? = a.attrs[k']?) := by
  refine ⟨mutate_agents_length sem ao P i k coin, mutate_other_agents sem ao P i k coin, ?_⟩
  intro a a' hi hi'
  cases hc : P.heap[a.cfg]? with
  | none =>
    have : P.mutate sem ao i k coin = P := by unfold Pop.mutate; simp only [hi, hc]
    rw [this, hi] at hi'; cases hi'; exact ⟨rfl, rfl, fun _ _ => rfl⟩
  | some c =>
    cases hp : c.params[k]? with
    | none =>
      have : P.mutate sem ao i k coin = P := by unfold Pop.mutate; simp only [hi, hc, hp]
      rw [this, hi] at hi'; cases hi'; exact ⟨rfl, rfl, fun _ _ => rfl⟩
    | some p =>
      cases hv : a.attrs[k]? with
      | none =>
        have : P.mutate sem ao i k coin = P := by unfold Pop.mutate; simp only [hi, hc, hp, hv]
        rw [this, hi] at hi'; cases hi'; exact ⟨rfl, rfl, fun _ _ => rfl⟩
      | some own =>
        rw [mutate_self sem ao P i k coin a c p own hi hc hp hv] at hi'
        cases hi'
        refine ⟨rfl, by simp, ?_⟩
        intro k' hk
        simp only [List.getElem?_set_ne (Ne.symm hk)]

/-- repaired semantics, one step: the new value of the sampled hyperparameter is the AGENT'S OWN
    current value pushed through `RLParameter.mutate` — whatever the cache holds -/
theorem C06_uses_own_value_step (ao : Bool) (P : Pop) (i k : Nat) (coin : Rat) (a : Agent) (c : Config)
    (p : Param) (own : Rat) (hi : P.agents[i]? = some a) (hc : P.heap[a.cfg]? = some c)
    (hp : c.params[k]? = some p) (hv : a.attrs[k]? = some own) :
    ∃ a', (P.mutate .own ao i k coin).agents[i]? = some a' ∧
      a'.attrs[k]? = some (mutate1 p own coin) := by
  refine ⟨_, mutate_self .own ao P i k coin a c p own hi hc hp hv, ?_⟩
  have hk : k < a.attrs.length := by
    rcases List.getElem?_eq_some_iff.mp hv with ⟨h, _⟩; exact h
  simp only [List.getElem?_set_self hk]

/-- repaired semantics, all histories: for every population whose agents refer to configuration
    objects carrying the parameters `ps` — in particular the initial one in which all agents share
    ONE object — and every sequence of mutations, clones and selections, what can be observed
    (every attribute and every optimizer learning rate of every agent) is exactly the run of the
    specification, in which each mutation starts from the mutated agent's own current value and
    configuration objects do not exist.  Sharing and the cached value are unobservable. -/
theorem C06_uses_own_value (ps : List Param) (P : Pop) (h : WF ps P) (ops : List Op) :
    (P.run .own true ops).obs = Spec.run ps P.obs ops :=
  (run_refines ps ops P h).1

/-- … instantiated at `create_population`'s population (one shared configuration object) -/
theorem C06_uses_own_value_initial (ps : List Param) (n : Nat) (attrs : List Rat) (opts : List Opt)
    (ops : List Op) :
    ((Pop.initial ps n attrs opts).run .own true ops).obs =
      Spec.run ps (List.replicate n { attrs := attrs, opts := opts }) ops := by
  rw [C06_uses_own_value ps _ (wf_initial ps n attrs opts) ops]
  simp [Pop.initial, Pop.obs, Agent.obs]

/-- the code as found (cached base value, D2) violates it on the smallest example: default
    factors, three fresh agents sharing the configuration, agents 0 and 1 both grow —
    agent 1 ends at 1.44 × its own value instead of 1.2 × -/
theorem C06_cached_uses_foreign_value_witness :
    let p : Param := { lo := 1/100, hi := 100, shrink := 4/5, grow := 6/5, dtype := .float }
    let P := Pop.initial [p] 3 [1] [{ lr := 0, groups := [1] }]
    let ops := [Op.mutate 0 0 (3/4), Op.mutate 1 0 (3/4)]
    (P.run .cached true ops).obs ≠ Spec.run [p] P.obs ops ∧
    ((P.run .cached true ops).agents.map (·.attrs)) = [[6/5], [36/25], [1]] ∧
    ((P.run .own true ops).agents.map (·.attrs)) = [[6/5], [6/5], [1]] := by
  decide +kernel

/-- what remains true of the cached variant: it agrees with the repaired one whenever the cache
    entry is empty or holds the agent's own value (e.g. a population of one) -/
theorem C06_cached_agrees_when_cache_is_own_partial (ao : Bool) (P : Pop) (i k : Nat) (coin : Rat)
    (a : Agent) (c : Config) (own : Rat) (hi : P.agents[i]? = some a) (hc : P.heap[a.cfg]? = some c)
    (hv : a.attrs[k]? = some own) (hcache : c.cache.getD k none = none ∨ c.cache.getD k none = some own) :
    P.mutate .cached ao i k coin = P.mutate .own ao i k coin := by
  unfold Pop.mutate
  simp only [hi, hc, hv]
  cases hp : c.params[k]? with
  | none => rfl
  | some p =>
    have : (c.cache.getD k none).getD own = own := by
      rcases hcache with h | h <;> rw [h] <;> rfl
    simp only [this]

/-! ## the new learning rate reaches the optimizers -/

/-- after mutating attribute `k` of agent `i` (repaired semantics): the agent's attribute holds
    the new value, it has the same optimizers with the same lr names and group counts, every
    group of every optimizer whose lr name is `k` carries the new value, every other optimizer
    is unchanged -/
theorem C06_lr_reaches_optimizers (P : Pop) (i k : Nat) (coin : Rat) (a : Agent) (c : Config)
    (p : Param) (own : Rat) (hi : P.agents[i]? = some a) (hc : P.heap[a.cfg]? = some c)
    (hp : c.params[k]? = some p) (hv : a.attrs[k]? = some own) :
    ∃ a', (P.mutate .own true i k coin).agents[i]? = some a' ∧
      a'.attrs[k]? = some (mutate1 p own coin) ∧
      a'.opts.length = a.opts.length ∧
      ∀ (j : Nat) (o : Opt), a.opts[j]? = some o → ∃ o' : Opt, a'.opts[j]? = some o' ∧ o'.lr = o.lr ∧
        o'.groups.length = o.groups.length ∧
        (o.lr = k → ∀ g ∈ o'.groups, g = mutate1 p own coin) ∧ (o.lr ≠ k → o' = o) := by
  obtain ⟨a', h1, h2⟩ := C06_uses_own_value_step true P i k coin a c p own hi hc hp hv
  have hself := mutate_self .own true P i k coin a c p own hi hc hp hv
  rw [hself] at h1
  cases h1
  refine ⟨_, hself, h2, ?_, ?_⟩
  · simp [updOpts_true, updAll_length]
  · intro j o hj
    simp only [updOpts_true, updAll_getElem?, hj, Option.map_some]
    refine ⟨_, rfl, ?_⟩
    by_cases hk : o.lr = k
    · rw [if_pos hk]
      obtain ⟨e1, e2, e3⟩ := setLr_groups o (mutate1 p own coin)
      exact ⟨e1, e2, fun _ => e3, fun h => absurd hk h⟩
    · rw [if_neg hk]
      exact ⟨rfl, rfl, fun h => absurd h hk, fun _ => rfl⟩

/-- the code as found (only the first matching optimizer is rebuilt, D19) violates it: a TD3-like
    agent (`actor_optimizer` on attribute 0, `critic_1_optimizer` and `critic_2_optimizer` on
    attribute 1) keeps the old learning rate in its third optimizer -/
theorem C06_first_optimizer_only_witness :
    let p : Param := { lo := 1/100, hi := 100, shrink := 4/5, grow := 6/5, dtype := .float }
    let opts : List Opt := [{ lr := 0, groups := [1] }, { lr := 1, groups := [2] }, { lr := 1, groups := [2] }]
    let P := Pop.initial [p, p] 1 [1, 2] opts
    ((P.mutate .own false 0 1 (3/4)).agents.map (fun a => a.opts.map (·.groups))) = [[[1], [12/5], [2]]] ∧
    ((P.mutate .own true 0 1 (3/4)).agents.map (fun a => a.opts.map (·.groups))) = [[[1], [12/5], [12/5]]] := by
  decide +kernel

/-! ## drift over generations -/

/-- every configured hyperparameter of every agent stays in `[dtype(min), dtype(max)]` along every
    sequence of mutations, clones and selections (repaired semantics, any sharing structure) -/
theorem C06_stays_in_range (ps : List Param) (hps : ∀ p ∈ ps, p.lo ≤ p.hi) (P : Pop) (h : WF ps P)
    (h0 : ∀ a ∈ P.agents, AttrsInRange ps a.attrs) (ops : List Op) :
    ∀ a ∈ (P.run .own true ops).agents, AttrsInRange ps a.attrs := by
  intro a ha
  have hobs : a.obs ∈ (P.run .own true ops).obs := List.mem_map_of_mem ha
  rw [C06_uses_own_value ps P h ops] at hobs
  refine spec_run_range ps hps ops P.obs ?_ a.obs hobs
  intro b hb
  simp only [Pop.obs, List.mem_map] at hb
  obtain ⟨a0, ha0, rfl⟩ := hb
  exact h0 a0 ha0

/-! ## the new value is what the agent subsequently uses — along every continuation -/

/-- `save_checkpoint` → `load_checkpoint` into a twin / `load`: nothing observable moves — every
    attribute and the learning rate of every parameter group come back by value -/
theorem C06_checkpoint_roundtrip_unobservable (ps : List Param) (P : Pop) (h : WF ps P) (i : Nat) :
    (P.reload i).obs = P.obs ∧ WF ps (P.reload i) :=
  reload_refines ps P h i

/-- `create_population`'s population is lr-coherent when every optimizer was built from the
    attribute it is registered on -/
theorem C06_initial_population_coherent (ps : List Param) (n : Nat) (attrs : List Rat) (opts : List Opt)
    (h : ∀ o ∈ opts, ∀ g ∈ o.groups, attrs[o.lr]? = some g) :
    ∀ a ∈ (Pop.initial ps n attrs opts).agents, Coherent a.obs := by
  intro a ha
  simp only [Pop.initial, List.mem_replicate] at ha
  rw [ha.2]
  exact h

/-- lr-coherence — every parameter group of every optimizer an agent steps carries the agent's
    current value of that optimizer's learning-rate attribute — holds for every agent after every
    sequence of hyper-parameter mutations, clones, selections and checkpoint round trips
    (repaired semantics; learning steps and the other mutation kinds do not touch the model state) -/
theorem C06_lr_coherent_along_every_continuation (ps : List Param) (P : Pop) (h : WF ps P)
    (h0 : ∀ a ∈ P.agents, Coherent a.obs) (ops : List Op) :
    ∀ a ∈ (P.run .own true ops).agents, Coherent a.obs := by
  intro a ha
  have hobs : a.obs ∈ (P.run .own true ops).obs := List.mem_map_of_mem ha
  rw [C06_uses_own_value ps P h ops] at hobs
  refine spec_run_coherent ps ops P.obs ?_ a.obs hobs
  intro b hb
  simp only [Pop.obs, List.mem_map] at hb
  obtain ⟨a0, ha0, rfl⟩ := hb
  exact h0 a0 ha0

/-- the first-optimizer-only variant (D19) is NOT coherent after one mutation: same witness -/
theorem C06_first_optimizer_only_incoherent_witness :
    let p : Param := { lo := 1/100, hi := 100, shrink := 4/5, grow := 6/5, dtype := .float }
    let opts : List Opt := [{ lr := 0, groups := [1] }, { lr := 1, groups := [2] }, { lr := 1, groups := [2] }]
    let P := Pop.initial [p, p] 1 [1, 2] opts
    ((P.mutate .own false 0 1 (3/4)).agents.map
        (fun a => a.opts.map (fun o => o.groups.map (fun g => decide (a.attrs[o.lr]? = some g))))) =
      [[[true], [true], [false]]] := by
  decide +kernel

/-! ## the same theorems over the definitions translated from the source text

`harness/py2lean_hpmut.py` translates `RLParameter.mutate` and `HyperparameterConfig.sample` of
`agilerl/algorithms/core/registry.py` (the tree under test) into `Gen/HpMutGen.lean` before every run
of the gate; `Proofs/HpMutGenEq.lean` proves the generated definitions equal to `mutate1` / `sample`.
`RLParameter.mutate min max shrink grow dtype value rand0` is the method with the six dataclass fields
and the draw `torch.rand(1).item()` as arguments; it returns `(returned value, self.value afterwards)`,
`none` = the assertion `self.value is not None` fails.  `HyperparameterConfig.sample config perm0`
takes the dict as an association list and the draw `torch.randperm(len(config))`.  The statements
below mention the generated functions only, so a change of the source that alters their meaning
breaks them. -/
section source_translation
open HpMutGen

/-- every generated definition equals the hand-written model function, for all inputs -/
theorem C06_source_translation_equalities (lo hi sh gr : Rat) (d : DType) (coin : Rat)
    {κ ν : Type} (cfg : List (κ × ν)) (perm : List Nat) :
    (∀ v, RLParameter.mutate lo hi sh gr (toGen d) (some v) coin =
      some (mutate1 ⟨lo, hi, sh, gr, d⟩ v coin, some (mutate1 ⟨lo, hi, sh, gr, d⟩ v coin))) ∧
    RLParameter.mutate lo hi sh gr (toGen d) none coin = none ∧
    (∀ q, (toGen d).apply q = cast d q) ∧
    (∀ a b, HpMutGen.pyMin a b = HpMut.pyMin a b) ∧ (∀ a b, HpMutGen.pyMax a b = HpMut.pyMax a b) ∧
    HyperparameterConfig.sample cfg perm =
      (if perm.length = cfg.length then (sample cfg.length perm).bind (fun k => cfg[k]?) else none) :=
  ⟨fun v => gen_mutate_eq' lo hi sh gr d v coin, gen_mutate_none ⟨lo, hi, sh, gr, d⟩ coin,
   gen_apply_eq d, gen_pyMin_eq, gen_pyMax_eq, gen_sample_eq cfg perm⟩

/-- `C06_is_scaled_clipped` over the translated method: for every value, bounds, factors, number
    type and draw it returns (and stores) the value times the chosen factor, clamped, converted -/
theorem C06_source_translation_is_scaled_clipped (lo hi sh gr : Rat) (d : DType) (v coin : Rat) :
    RLParameter.mutate lo hi sh gr (toGen d) (some v) coin =
      some ((toGen d).apply (min (max (v * (if coin < 1/2 then sh else gr)) lo) hi),
            some ((toGen d).apply (min (max (v * (if coin < 1/2 then sh else gr)) lo) hi))) := by
  rw [gen_mutate_eq', C06_is_scaled_clipped, gen_apply_eq]

/-- `C06_in_range` over the translated method (`dtype = float`) -/
theorem C06_source_translation_in_range (lo hi sh gr v coin : Rat) (hb : lo ≤ hi) :
    ∃ r, RLParameter.mutate lo hi sh gr .float (some v) coin = some (r, some r) ∧ lo ≤ r ∧ r ≤ hi :=
  ⟨_, gen_mutate_eq' lo hi sh gr .float v coin, C06_in_range ⟨lo, hi, sh, gr, .float⟩ v coin hb rfl⟩

/-- `C06_in_range_int` over the translated method (`dtype = int`; `pyInt` is Python's `int()`) -/
theorem C06_source_translation_in_range_int (lo hi sh gr v coin : Rat) (hb : lo ≤ hi) :
    ∃ z : Int, RLParameter.mutate lo hi sh gr .int (some v) coin = some ((z : Rat), some (z : Rat)) ∧
      pyInt lo ≤ z ∧ z ≤ pyInt hi ∧
      ((lo ≤ 0 ∨ ∃ m : Int, lo = m) → lo ≤ (z : Rat)) ∧
      ((0 ≤ hi ∨ ∃ m : Int, hi = m) → (z : Rat) ≤ hi) ∧
      lo - 1 < (z : Rat) ∧ (z : Rat) < hi + 1 := by
  obtain ⟨z, hz, h⟩ := C06_in_range_int ⟨lo, hi, sh, gr, .int⟩ v coin hb rfl
  refine ⟨z, ?_, h⟩
  have := gen_mutate_eq' lo hi sh gr .int v coin
  rw [hz] at this
  exact this

/-- drift: feeding `self.value` back through the translated method any number of times (one draw
    per generation) keeps a float hyperparameter in `[min, max]` — from ANY start value -/
theorem C06_source_translation_stays_in_range (lo hi sh gr : Rat) (hb : lo ≤ hi) (coins : List Rat)
    (hne : coins ≠ []) (v : Rat) :
    ∃ r, coins.foldl (fun val c => (RLParameter.mutate lo hi sh gr .float val c).bind (·.2)) (some v)
        = some r ∧ lo ≤ r ∧ r ≤ hi := by
  induction coins generalizing v with
  | nil => exact absurd rfl hne
  | cons c cs ih =>
    obtain ⟨r, hr, h1, h2⟩ := C06_source_translation_in_range lo hi sh gr v c hb
    simp only [List.foldl_cons, hr, Option.bind_some]
    cases cs with
    | nil => exact ⟨r, rfl, h1, h2⟩
    | cons c' cs' => exact ih (by simp) r

/-- `C06_sample_is_configured` over the translated method: what it returns is the entry of the
    configuration at the head of the permutation, a valid index -/
theorem C06_source_translation_sample_is_configured {κ ν : Type} (cfg : List (κ × ν)) (perm : List Nat)
    (name : κ) (param : ν) (h : HyperparameterConfig.sample cfg perm = some (name, param)) :
    ∃ k, k < cfg.length ∧ perm.head? = some k ∧ cfg[k]? = some (name, param) := by
  rw [gen_sample_eq] at h
  split at h
  · cases hs : sample cfg.length perm with
    | none => rw [hs] at h; cases h
    | some k =>
      rw [hs] at h
      obtain ⟨h1, h2⟩ := C06_sample_is_configured _ _ _ hs
      exact ⟨k, h1, h2, h⟩
  · cases h

/-- … and every configured hyperparameter can be returned: for a permutation draw of the right length
    whose head is `k < len(config)` the method returns the `k`-th entry (no IndexError) -/
theorem C06_source_translation_sample_total {κ ν : Type} (cfg : List (κ × ν)) (k : Nat) (rest : List Nat)
    (hk : k < cfg.length) (hl : (k :: rest).length = cfg.length) :
    HyperparameterConfig.sample cfg (k :: rest) = some cfg[k] := by
  rw [gen_sample_eq, if_pos hl]
  simp [sample, hk]

end source_translation

/-! ## the initial population: which configuration objects `create_population` / `population()` hand out

`Pop.initialWith prov` is the population both functions build as far as hyper-parameter mutation is concerned: `n`
identical agents that refer to ONE configuration object (`prov = .shared`: `hp_config=hp_config`, the code as it is)
or to a private one each (`.perAgent`, e.g. `copy.deepcopy(hp_config)`).  Either way it satisfies the hypothesis `WF`
of the refinement theorem `C06_uses_own_value`. -/

/-- **Base case of the refinement, either sharing class.**  The initial population is well-formed, all members
    look the same, and under the repaired semantics every history of mutations, clones, selections and checkpoint
    round trips is the run of the cache-free specification on `n` independent agents. -/
theorem C06_initial_population_configs (prov : CfgProv) (ps : List Param) (n : Nat) (attrs : List Rat)
    (opts : List Opt) (ops : List Op) :
    WF ps (Pop.initialWith prov ps n attrs opts) ∧
    ((Pop.initialWith prov ps n attrs opts).run .own true ops).obs =
      Spec.run ps (List.replicate n { attrs := attrs, opts := opts }) ops := by
  refine ⟨wf_initialWith prov ps n attrs opts, ?_⟩
  rw [C06_uses_own_value ps _ (wf_initialWith prov ps n attrs opts) ops, obs_initialWith]

/-- which members share: one object for everybody, or nobody with anybody -/
theorem C06_initial_population_sharing (prov : CfgProv) (ps : List Param) (n : Nat) (attrs : List Rat)
    (opts : List Opt) :
    (prov = .shared → ∀ a ∈ (Pop.initialWith prov ps n attrs opts).agents, a.cfg = 0) ∧
    (prov = .perAgent → ((Pop.initialWith prov ps n attrs opts).agents.map (·.cfg)).Nodup) := by
  constructor
  · rintro rfl a ha
    have := cfg_initialWith .shared ps n attrs opts
    have hm : a.cfg ∈ (Pop.initialWith .shared ps n attrs opts).agents.map (·.cfg) := List.mem_map_of_mem ha
    rw [this] at hm
    exact (List.mem_replicate.mp hm).2
  · rintro rfl
    rw [cfg_initialWith]
    exact List.nodup_range

/-- the as-found semantics on the SHARED initial population is the witness `C06_cached_uses_foreign_value_witness`;
    the same two mutations on a population with PRIVATE configuration objects are harmless even as found: sharing
    is what made the cached value a neighbour's -/
theorem C06_private_configs_cached_agrees_witness :
    let p : Param := { lo := 1/100, hi := 100, shrink := 4/5, grow := 6/5, dtype := .float }
    let ops := [Op.mutate 0 0 (3/4), Op.mutate 1 0 (3/4), Op.mutate 0 0 (3/4)]
    ((Pop.initialWith .perAgent [p] 3 [1] []).run .cached true ops).obs =
      ((Pop.initialWith .perAgent [p] 3 [1] []).run .own true ops).obs ∧
    ((Pop.initialWith .shared [p] 3 [1] []).run .cached true ops).obs ≠
      ((Pop.initialWith .shared [p] 3 [1] []).run .own true ops).obs := by
  decide +kernel

section source_translation_population

/-! ### the same over the population translated from the source text

`harness/py2lean_pop.py` translates `create_population` and `EvolvableAlgorithm.population` of the tree under test into
`Gen/PopGen.lean`; every constructor argument of every member is a provenance term (`PopGen.Val`), `PopGen.Val.share`
says how the objects that different members receive are related, `PopGen.cfgProv` reads the `hp_config` argument
(`.shared` for a bare parameter / `d["k"]` of one, `.perAgent` for a `copy.deepcopy(…)`; `copy.copy`, `hp_config[idx]`,
a conditional with different arms have NO reading, and the statements below stop checking). -/

/-- **every branch of `create_population` hands out `hp_config` in a way the repaired semantics covers**: for every
    algorithm name the function knows and every `population_size`, all members' `hp_config` arguments have one and
    the same sharing class `prov`, the model population with that class has `population_size` members, is well-formed,
    and every history from it refines the cache-free specification — i.e. the hypothesis `WF` of `C06_uses_own_value`
    is discharged from the source text. -/
theorem C06_source_translation_initial_population_configs (algo : String) (h : algo ∈ PopGen.algos) (n : Int)
    (ps : List Param) (attrs : List Rat) (opts : List Opt) :
    ∃ prov : CfgProv,
      (PopGen.create_population algo n).map PopGen.cfgProv = List.replicate n.toNat (some prov) ∧
      (PopGen.create_population algo n).length = (Pop.initialWith prov ps n.toNat attrs opts).agents.length ∧
      WF ps (Pop.initialWith prov ps n.toNat attrs opts) ∧
      ∀ ops : List Op, ((Pop.initialWith prov ps n.toNat attrs opts).run .own true ops).obs =
        Spec.run ps (List.replicate n.toNat { attrs := attrs, opts := opts }) ops := by
  obtain ⟨prov, hp⟩ := PopGen.gen_create_population_cfg algo h n
  have hrep : (PopGen.create_population algo n).map PopGen.cfgProv = List.replicate n.toNat (some prov) := by
    rw [hp, PopGen.map_const_pyRange]
  refine ⟨prov, hrep, ?_, (C06_initial_population_configs prov ps n.toNat attrs opts []).1,
    fun ops => (C06_initial_population_configs prov ps n.toNat attrs opts ops).2⟩
  have hl := congrArg List.length hrep
  have ho := congrArg List.length (obs_initialWith prov ps n.toNat attrs opts)
  simp only [List.length_map, List.length_replicate, Pop.obs] at hl ho
  omega

/-- the classmethod `EvolvableAlgorithm.population(size, …, hp_config=…)` (the configuration travels in `**kwargs`) -/
theorem C06_source_translation_population_classmethod_configs (wrapperGiven : Bool) (n : Int)
    (ps : List Param) (attrs : List Rat) (opts : List Opt) :
    ∃ prov : CfgProv,
      (PopGen.population wrapperGiven n).map PopGen.cfgProv = List.replicate n.toNat (some prov) ∧
      WF ps (Pop.initialWith prov ps n.toNat attrs opts) ∧
      ∀ ops : List Op, ((Pop.initialWith prov ps n.toNat attrs opts).run .own true ops).obs =
        Spec.run ps (List.replicate n.toNat { attrs := attrs, opts := opts }) ops := by
  obtain ⟨prov, hp⟩ := PopGen.gen_population_cfg wrapperGiven n
  refine ⟨prov, ?_, (C06_initial_population_configs prov ps n.toNat attrs opts []).1,
    fun ops => (C06_initial_population_configs prov ps n.toNat attrs opts ops).2⟩
  rw [hp, PopGen.map_const_pyRange]

/-- **the generated sharing table is what Lean derives from the translated code**, and in the tree under test every
    branch passes `hp_config` (and `net_config`, where the constructor takes one) as ONE object to every member — the
    repair of the compounding defect is the semantics (`Sem.own`), not a private copy; a user-supplied `actor_network`
    is one object for every member in every branch but GRPO's, which deep-copies it. -/
theorem C06_source_translation_sharing_table :
    PopGen.sharingTable = PopGen.derivedTable ∧
    (∀ row ∈ PopGen.sharingTable, ∀ s, row.2.2.lookup "hp_config" = some s → PopGen.provOf s ≠ none) :=
  ⟨PopGen.gen_sharing_table_eq, by decide +kernel⟩

end source_translation_population

/-! ## non-vacuity -/

/-- default factors, `lr`-like float parameter and an integer `batch_size` with bounds 8..512 -/
def exLr : Param := { lo := 1/16384, hi := 1/64, shrink := 4/5, grow := 6/5, dtype := .float }
def exBs : Param := { lo := 8, hi := 512, shrink := 4/5, grow := 6/5, dtype := .int }
/-- DDPG-like agent: attributes [lr, batch_size], one optimizer with two groups on lr -/
def exPop : Pop := Pop.initial [exLr, exBs] 3 [1/1024, 64] [{ lr := 0, groups := [1/1024, 1/1024] }]

example : exLr.lo ≤ exLr.hi ∧ exBs.lo ≤ exBs.hi := by decide +kernel
example : WF [exLr, exBs] exPop := wf_initial _ _ _ _
example : ∀ a ∈ exPop.agents, AttrsInRange [exLr, exBs] a.attrs := by
  intro a ha
  simp only [exPop, Pop.initial, List.mem_replicate] at ha
  rw [ha.2]
  intro k p x hp hx
  match k with
  | 0 => simp at hp hx; subst hp; subst hx; decide +kernel
  | 1 => simp at hp hx; subst hp; subst hx; decide +kernel
  | (n + 2) => simp at hp
-- grow, clipped at max; shrink of an int truncates 51.2 to 51; clip at the integer minimum
example : mutate1 exLr (1/64) (3/4) = 1/64 := by decide +kernel
example : mutate1 exBs 64 0 = 51 := by decide +kernel
example : mutate1 exBs 9 (1/4) = 8 := by decide +kernel
example : mutate1 exBs (-7) (1/4) = 8 := by decide +kernel
-- a history with mutation of a shared-config population, selection and further mutation
example :
    ((exPop.run .own true [.mutate 0 0 (3/4), .mutate 1 0 (3/4), .mutate 2 1 0, .select [1, 1, 2],
        .mutate 0 0 (1/4), .clone 2, .mutate 3 1 (3/4)]).agents.map (·.attrs)) =
      [[3/3200, 64], [3/2560, 64], [1/1024, 51], [1/1024, 61]] := by decide +kernel
example :
    ((exPop.run .own true [.mutate 0 0 (3/4)]).agents.map (fun a => a.opts.map (·.groups))) =
      [[[3/2560, 3/2560]], [[1/1024, 1/1024]], [[1/1024, 1/1024]]] := by decide +kernel
-- … and continued through a checkpoint round trip: the reloaded agent mutates from its own value
example :
    ((exPop.run .own true [.mutate 0 0 (3/4), .reload 0, .mutate 0 0 (3/4), .reload 1]).agents.map
        (fun a => (a.attrs, a.opts.map (·.groups)))) =
      [([9/6400, 64], [[9/6400, 9/6400]]), ([1/1024, 64], [[1/1024, 1/1024]]),
       ([1/1024, 64], [[1/1024, 1/1024]])] := by decide +kernel
example : ∀ a ∈ exPop.agents, Coherent a.obs :=
  C06_initial_population_coherent _ _ _ _ (by decide +kernel)
example : sample 2 [1, 0] = some 1 := by decide
-- the translated methods on the same data
example : HpMutGen.RLParameter.mutate exBs.lo exBs.hi exBs.shrink exBs.grow (toGen exBs.dtype) (some 64) 0
    = some (51, some 51) := by decide +kernel
example : HpMutGen.RLParameter.mutate exLr.lo exLr.hi exLr.shrink exLr.grow (toGen exLr.dtype) (some (1/64)) (3/4)
    = some (1/64, some (1/64)) := by decide +kernel
example : HpMutGen.HyperparameterConfig.sample [("lr", exLr), ("batch_size", exBs)] [1, 0]
    = some ("batch_size", exBs) := by decide +kernel

-- the initial population read off the translated `create_population`: every member's `hp_config` is the one shared
-- object (HEAD), the model population for it, and a history on it
example : (PopGen.create_population "TD3" 3).map PopGen.cfgProv = [some .shared, some .shared, some .shared] := by
  decide +kernel
example : (PopGen.population false 2).map PopGen.cfgProv = [some .shared, some .shared] := by decide +kernel
example : Pop.initialWith .shared [exLr, exBs] 3 [1/1024, 64] [{ lr := 0, groups := [1/1024, 1/1024] }] = exPop := rfl
example : ((Pop.initialWith .perAgent [exLr, exBs] 3 [1/1024, 64] []).agents.map (·.cfg)) = [0, 1, 2] := by
  decide +kernel
example :
    (((Pop.initialWith .perAgent [exLr, exBs] 3 [1/1024, 64] []).run .own true
        [.mutate 0 0 (3/4), .mutate 1 0 (3/4), .select [1, 1, 0], .mutate 0 0 (1/4)]).agents.map (·.attrs)) =
      [[3/3200, 64], [3/2560, 64], [3/2560, 64]] := by decide +kernel

end HpMut
