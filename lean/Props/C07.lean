import Proofs.HeapCkptAlias
import Proofs.CkptGenEq
import Proofs.CkptHelpGenEq

/-!
# C07 — a saved checkpoint restores an equivalent agent

Model: `Model/Heap.lean` (cells with identity, agents = attribute → cells) extended by
`Model/HeapCkpt.lean`: `save` serialises an agent by value (`Blob` = attribute → values),
`load` builds a new agent from a blob, `loadInto` re-builds every attribute of an existing agent
from it; each restored cell is filled according to a `Fill` (`saved` | `from k c` | `init v`), so
both the repaired code (every cell `saved`) and the current behaviour for tensors that are in no
`state_dict()` (`init`: DQN's hook-built target, the critics' copy of a shared encoder) are
expressible.  Worlds range over every history (`CReachable`) of clone / write / rebind / discard
(C01) and spawn / load / loadInto operations, from any rule table and any initial agent.
-/
namespace HeapCkpt
open Heap CkptGenEq

/-- **Round trip, values.**  Save agent `i` of any world; whatever happens afterwards (the
    original trains on, is mutated, is discarded — a crash —, other agents come and go: `w2` is
    *any* later world), loading the file with every cell restored gives an agent whose view
    (weights incl. targets, optimizer moments and steps, hyper-parameters, registry, score lists)
    is exactly the original's view at the time of the save. -/
theorem C07_roundtrip_values (w : World) (i : Nat) (b : Blob) (hs : save w i = some b) (w2 : World) :
    view (load w2 b []) w2.agents.length = view w i := by
  unfold save at hs
  rw [hs]
  unfold load
  rw [restoredVals_all_saved]
  exact spawn_view_new w2 b

/-- **Round trip, cell by cell, for any fill specification** (the exact statement for the current
    code): the restored attribute has the saved number of cells; a `saved` cell holds the
    original's value, a re-derived cell (`from k' c'`) holds the original's value *of the source
    cell*, an `init v'` cell holds `v'`, i.e. nothing related to the original. -/
theorem C07_roundtrip_cells (w : World) (i : Nat) (b : Blob) (hs : save w i = some b) (w2 : World)
    (sp : Spec) (k c : Nat) (vs : List Nat) (v : Nat) (hk : b[k]? = some vs) (hc : vs[c]? = some v) :
    ∃ R rs, view (load w2 b sp) w2.agents.length = some R ∧ view w i = some b ∧
      R.length = b.length ∧ R[k]? = some rs ∧ rs.length = vs.length ∧
      rs[c]? = some (match cellFill sp k c with
                     | .saved => v
                     | .from k' c' => blobVal b k' c'
                     | .init v' => v') := by
  obtain ⟨rs, h1, h2, h3⟩ := restoredVals_cell b sp k c vs v hk hc
  refine ⟨restoredVals b sp, rs, spawn_view_new w2 _, hs, restoredVals_length b sp, h1, h2, ?_⟩
  rw [h3]
  cases hf : cellFill sp k c with
  | saved => simp [fillVal, blobVal_eq b k c vs v hk hc]
  | «from» k' c' => simp [fillVal]
  | init v' => simp [fillVal]

/-- a re-derived cell (hook run after the weights were loaded) is faithful exactly when the
    original had the two cells in step at the time of the save (target = online network,
    critic's encoder copy = actor's encoder) -/
theorem C07_rederived_faithful_iff_synced (b : Blob) (sp : Spec) (k c k' c' : Nat)
    (vs' : List Nat) (v v' : Nat)
    (hk' : b[k']? = some vs') (hc' : vs'[c']? = some v') (hf : cellFill sp k c = .from k' c') :
    fillVal b k c (cellFill sp k c) = v ↔ v' = v := by
  rw [hf]
  simp [fillVal, blobVal_eq b k' c' vs' v' hk' hc']

/-- **Round trip, separation.**  In every reachable world the restored agent consists of cells
    allocated by this very `load`: the invariants of C01 (well-formed, owned) still hold, the
    world stays reachable, no cell of the restored agent is reached by any other agent — not even
    through the attributes that `clone` would pass by reference —, and nobody else's view changes. -/
theorem C07_roundtrip_fresh (rules : List Rule) (w : World) (hw : CReachable rules w) (b : Blob) (sp : Spec) :
    let w' := load w b sp
    let n := w.agents.length
    WF w' ∧ Owned w' ∧ CReachable rules w' ∧
    (∃ an, w'.agents[n]? = some (some an) ∧
      (∀ (k : Nat) (ck : List Nat) (a : Nat), an[k]? = some ck → a ∈ ck → w.heap.length ≤ a) ∧
      ∀ (m : Nat) (am : Agent) (l : Nat) (cl : List Nat) (a : Nat), m ≠ n →
        w'.agents[m]? = some (some am) → am[l]? = some cl → a ∈ cl →
        ∀ (k : Nat) (ck : List Nat), an[k]? = some ck → a ∉ ck) ∧
    (∀ m, m < n → view w' m = view w m) := by
  intro w' n
  obtain ⟨hwf, how, _⟩ := creachable_inv hw
  have hreach : CReachable rules w' := creachable_capply hw (COp.load b sp)
  refine ⟨spawn_wf w _ hwf, spawn_owned w _ hwf how, hreach, ?_, fun m hm => spawn_view_old w _ hwf m hm⟩
  refine ⟨(allocAll w.heap (restoredVals b sp)).2, ?_, fun k ck a hck ha => spawn_fresh w _ k ck a hck ha, ?_⟩
  · show (w.agents ++ [some (allocAll w.heap (restoredVals b sp)).2])[w.agents.length]? = _
    rw [List.getElem?_append_right (Nat.le_refl _)]; simp
  · intro m am l cl a hm ham hcl ha k ck hck hak
    have ham' : (w.agents ++ [some (allocAll w.heap (restoredVals b sp)).2])[m]? = some (some am) := ham
    rcases getElem?_snoc _ _ _ _ ham' with hold | ⟨hmn, _⟩
    · have h1 : a < w.heap.length := hwf m am l cl a hold hcl ha
      have h2 := spawn_fresh w _ k ck a hck hak
      omega
    · exact hm hmn

/-- the executable alias listing the harness compares against never mentions the restored agent -/
theorem C07_no_alias_pairs (rules : List Rule) (w : World) (hw : CReachable rules w) (b : Blob) (sp : Spec)
    (i k j l : Nat) (h : (i, k, j, l) ∈ aliasPairs (load w b sp)) :
    i ≠ w.agents.length ∧ j ≠ w.agents.length := by
  obtain ⟨hwf, _, _⟩ := creachable_inv hw
  obtain ⟨ai, aj, ck, cl, a, hi, hj, hij, hck, hcl, hak, hal⟩ := mem_aliasPairs _ i k j l h
  have hi' : (w.agents ++ [some (allocAll w.heap (restoredVals b sp)).2])[i]? = some (some ai) := hi
  have hj' : (w.agents ++ [some (allocAll w.heap (restoredVals b sp)).2])[j]? = some (some aj) := hj
  have hjlt := lt_of_getElem?_some hj'
  simp only [List.length_append, List.length_cons, List.length_nil] at hjlt
  refine ⟨by omega, ?_⟩
  intro hjn
  rcases getElem?_snoc _ _ _ _ hj' with hold | ⟨_, hnew⟩
  · have := lt_of_getElem?_some hold; omega
  · cases hnew
    have h2 := spawn_fresh w _ l cl a hcl hal
    rcases getElem?_snoc _ _ _ _ hi' with hiold | ⟨hin, _⟩
    · have h1 : a < w.heap.length := hwf i ai k ck a hiold hck hak
      omega
    · omega

/-- **Loading into an existing agent.**  `load_checkpoint` on a live agent `j` replaces what `j`
    observes by the file's contents, in cells nobody knew before; every third agent — the agent
    that was saved included — observes exactly what it observed before (frame), and the
    invariants survive. -/
theorem C07_load_into_existing (rules : List Rule) (w w' : World) (hw : CReachable rules w) (b : Blob)
    (sp : Spec) (j : Nat) (h : loadInto w b sp j = some w') :
    view w' j = some (restoredVals b sp) ∧ (sp = [] → view w' j = some b) ∧
    (∀ m, m ≠ j → view w' m = view w m) ∧
    WF w' ∧ Owned w' ∧ CReachable rules w' ∧
    (∃ aj, w'.agents[j]? = some (some aj) ∧
      ∀ (k : Nat) (ck : List Nat) (a : Nat), aj[k]? = some ck → a ∈ ck → w.heap.length ≤ a) := by
  obtain ⟨hwf, how, _⟩ := creachable_inv hw
  have hreach : CReachable rules w' := by
    have := creachable_capply hw (COp.loadInto b sp j)
    simpa [capply, h] using this
  refine ⟨loadInto_view_self w w' b sp j h, ?_, fun m hm => loadInto_view_other w w' b sp j h hwf m hm,
    loadInto_wf w w' b sp j h hwf, loadInto_owned w w' b sp j h hwf how, hreach, ?_⟩
  · intro hsp
    rw [loadInto_view_self w w' b sp j h, hsp, restoredVals_all_saved]
  · obtain ⟨ag, hag, _, rfl⟩ := loadInto_spec w w' b sp j h
    refine ⟨(allocAll w.heap (restoredVals b sp)).2, ?_, fun k ck a hck ha => spawn_fresh w _ k ck a hck ha⟩
    simp [List.getElem?_set_self (lt_of_getElem?_some hag)]

/-- both load paths agree: loading the file of agent `i` into an existing agent `j` (from any
    later world `w2`) makes `j` observe exactly what `i` observed when it was saved -/
theorem C07_load_into_roundtrip (w : World) (i : Nat) (b : Blob) (hs : save w i = some b)
    (w2 w' : World) (j : Nat) (h : loadInto w2 b [] j = some w') : view w' j = view w i := by
  unfold save at hs
  rw [hs, loadInto_view_self w2 w' b [] j h, restoredVals_all_saved]

/-- train agents `i` and `j` alternately on the same batches -/
def trainBoth {β} (step : World → Nat → β → World) (i j : Nat) (bs : List β) (w : World) : World :=
  bs.foldl (fun w b => step (step w i b) j b) w

/-- **Same future.**  Let `step w i b` be a learning step of agent `i` on batch `b` such that, on
    the worlds satisfying an invariant `Inv` it preserves, (1) the new view of `i` is a function
    `learnStep` of its old view and the batch only, (2) no other agent's view changes (C01 frame).
    Then two distinct agents with equal views — the original and its restored copy — still have
    equal views after *any* sequence of identical batches. -/
theorem C07_same_future {β} (learnStep : List (List Nat) → β → List (List Nat))
    (step : World → Nat → β → World) (Inv : World → Prop)
    (hInv : ∀ w i b, Inv w → Inv (step w i b))
    (hOwn : ∀ w i b, Inv w → view (step w i b) i = (view w i).map (fun v => learnStep v b))
    (hFrame : ∀ w i m b, Inv w → m ≠ i → view (step w i b) m = view w m)
    (w : World) (hw : Inv w) (i j : Nat) (hij : i ≠ j) (heq : view w i = view w j) (bs : List β) :
    view (trainBoth step i j bs w) i = view (trainBoth step i j bs w) j ∧ Inv (trainBoth step i j bs w) := by
  induction bs generalizing w with
  | nil => exact ⟨heq, hw⟩
  | cons b rest ih =>
    have h1 : Inv (step w i b) := hInv w i b hw
    have h2 : Inv (step (step w i b) j b) := hInv _ j b h1
    apply ih (step (step w i b) j b) h2
    rw [hFrame (step w i b) j i b h1 hij, hOwn w i b hw, hOwn (step w i b) j b h1,
      hFrame w i j b hw (fun e => hij e.symm), heq]

/-- **Current code, DQN.**  The target network's tensors are in no state dict and the hook that
    builds them runs before the weights are loaded (`init`): the restored agent does not observe
    what the original observed. -/
theorem C07_unrepaired_target_witness :
    let w := (World.init [Rule.fresh, Rule.resync 0, Rule.fresh] [2, 2, 1])
    ∃ b, save w 0 = some b ∧
      view (load w b [((1, 0), Fill.init 900), ((1, 1), Fill.init 901)]) 1 ≠ view w 0 := by
  decide

/-- **Current code, shared encoders.**  Attribute 1 (a critic) = [head cell, copy of the actor's
    encoder]; the copy is not restored from the file: views differ, although a hook run *after*
    the weights (`from 0 0`) would have reproduced the original, which had the copy in step. -/
theorem C07_unrepaired_shared_encoder_witness :
    let w0 := (World.init [Rule.fresh, Rule.fresh] [2, 2])
    ∃ w, w0.write 0 1 1 1 = some w ∧ ∃ b, save w 0 = some b ∧
      view (load w b [((1, 1), Fill.init 900)]) 1 ≠ view w 0 ∧
      view (load w b [((1, 1), Fill.from 0 0)]) 1 = view w 0 := by
  decide

/-! ### non-vacuity -/

/-- a history with training, a clone, an architecture mutation (rebind), a save, more training of
    the original, a load into a new agent, a separately built agent and a load into it -/
example :
    let rules := [Rule.fresh, Rule.resync 0, Rule.fresh, Rule.byRef]
    let w := crun (World.init rules [2, 2, 1, 1])
      [COp.heap (Op.write 0 0 0 50), COp.heap (Op.clone 0), COp.heap (Op.rebind 0 0 [7, 8, 9])]
    ∃ b, save w 0 = some b ∧ b = [[7, 8, 9], [3, 4], [5], [6]] ∧
      let w2 := crun w [COp.heap (Op.write 0 0 1 60), COp.load b [], COp.spawn [[1], [2], [3], [4]],
                        COp.loadInto b [] 3]
      view w2 0 = some [[7, 60, 9], [3, 4], [5], [6]] ∧ view w2 2 = some b ∧ view w2 3 = some b ∧
      aliasPairs w2 = [(0, 3, 1, 3)] := by
  decide

example : CReachable [Rule.fresh, Rule.resync 0]
    (crun (World.init [Rule.fresh, Rule.resync 0] [2, 2]) [COp.load [[1, 2], [3, 4]] [], COp.loadInto [[5, 6], [7, 8]] [] 0]) :=
  ⟨_, _, rfl⟩

/-- the hypotheses of `C07_same_future` are satisfiable: a learning step that re-binds the agent to
    new cells holding `learnStep view batch` (invariant: well-formedness) -/
example :
    let learnStep : List (List Nat) → Nat → List (List Nat) := fun v b => v.map (fun vs => vs.map (· + b))
    let step : World → Nat → Nat → World := fun w i b =>
      (loadInto w (learnStep ((view w i).getD []) b) [] i).getD w
    (∀ w i b, WF w → WF (step w i b)) ∧
    (∀ w i b, WF w → view (step w i b) i = (view w i).map (fun v => learnStep v b)) ∧
    (∀ w i m b, WF w → m ≠ i → view (step w i b) m = view w m) := by
  intro learnStep step
  refine ⟨fun w i b hwf => ?_, fun w i b hwf => ?_, fun w i m b hwf hm => ?_⟩
  · show WF ((loadInto w _ [] i).getD w)
    cases hl : loadInto w (learnStep ((view w i).getD []) b) [] i with
    | none => exact hwf
    | some w' => exact loadInto_wf w w' _ _ i hl hwf
  · show view ((loadInto w _ [] i).getD w) i = _
    cases hag : w.agents[i]? with
    | none => simp [loadInto, view, hag]
    | some o =>
      cases o with
      | none => simp [loadInto, view, hag]
      | some ag =>
        have hv : view w i = some (ag.map (vals w.heap)) := by simp [view, hag]
        have hl : loadInto w (learnStep ((view w i).getD []) b) [] i =
            some { w with heap := (allocAll w.heap (restoredVals (learnStep ((view w i).getD []) b) [])).1,
                          agents := w.agents.set i (some (allocAll w.heap (restoredVals (learnStep ((view w i).getD []) b) [])).2) } := by
          simp [loadInto, hag, hv, learnStep]
        rw [hl, Option.getD_some, loadInto_view_self w _ _ [] i hl, restoredVals_all_saved, hv]
        rfl
  · show view ((loadInto w _ [] i).getD w) m = _
    cases hl : loadInto w (learnStep ((view w i).getD []) b) [] i with
    | none => rfl
    | some w' => exact loadInto_view_other w w' _ _ i hl hwf m hm

/-- … and its conclusion on a concrete pair original / restored -/
example :
    let w := World.init [Rule.fresh, Rule.fresh] [2, 1]
    ∃ b, save w 0 = some b ∧ view (load w b []) 1 = view (load w b []) 0 := by
  decide

/-! ## source translation (`Gen/CkptGen.lean`, generated by harness/py2lean_ckpt.py from
    agilerl/algorithms/core/base.py, agilerl/wrappers/agent.py)

  The theorems above take the fill specification `sp` as a parameter; "the repaired code restores every cell"
  is the instance `sp = []`.  Here `sp` is COMPUTED from the tables translated from the source text:
  `genFate path cls part` (save ∘ load for one part of one attribute class, obtained by evaluating the generated
  guarded steps of `load_checkpoint` / `load` / `AgentWrapper.load_checkpoint` against the generated save tables of
  `get_checkpoint_dict` / `AgentWrapper.save_checkpoint`) and `specOf` (a cell whose part is not `saved` becomes an
  `init` exception).  `Layout` says, per attribute group, its class and the part each cell belongs to. -/

/-- the generated tables are the model's tables: rule table of saving, fate of every part on the three load
    paths, phase order of the three load methods, wrapper merge order -/
theorem C07_source_translation_tables :
    (∀ k, Saved.ofGen (CkptGen.ckptRule (AKind.toGen k)) = ckptRule k) ∧
    genFate = fate ∧
    CkptGen.load_checkpoint_phases.map Phase.ofGen = loadCheckpointPhases ∧
    CkptGen.load_phases.map Phase.ofGen = loadPhases ∧
    CkptGen.wrapper_load_checkpoint_phases.map Phase.ofGen = wrapperLoadCheckpointPhases ∧
    (∀ agentHas, ∀ k ∈ ["wrapper_cls", "wrapper_init_dict", "wrapper_attrs", "learn", "get_action", "network_info", "registry", ""],
      heldSource (CkptGen.wrapper_file agentHas k) = wrapperFile agentHas k) :=
  ⟨gen_ckptRule_eq, gen_fate_eq, gen_load_checkpoint_phases_eq, gen_load_phases_eq,
   gen_wrapper_load_checkpoint_phases_eq, gen_wrapper_merge_eq⟩

/-- **Every attribute group of the heap model is saved by value and comes back** — by the GENERATED rule table
    and fate table: whatever `Heap.Kind` a group has (network, re-synchronised target, optimizer, list, registry,
    tensor, array, other object, callable, immutable), `get_checkpoint_dict` writes a non-empty list of its parts by
    value, and each of its parts is `saved` on both load paths and on the wrapper's path. -/
theorem C07_source_translation_every_group_saved (k : Heap.Kind) :
    savesByValue (CkptGen.ckptRule (AKind.toGen (akindOf k))) = true ∧
    ∀ p, ∀ q ∈ (clsOf k).parts, genFate p (clsOf k) q = .saved := by
  constructor
  · cases k <;> simp only [akindOf] <;> decide +kernel
  · intro p q hq
    rw [gen_fate_eq]
    cases k <;> cases p <;> simp only [clsOf] at hq ⊢ <;> revert q <;> decide

/-- **Round trip, values, with the generated table** (new-agent path `Algo.load`): for every layout of savable
    attribute groups the restored agent's view is the original's view at save time, whatever happened in between. -/
theorem C07_source_translation_roundtrip_values (lay : Layout) (hlay : lay.Savable .new) (junk : Nat → Nat → Nat)
    (w : World) (i : Nat) (b : Blob) (hs : save w i = some b) (w2 : World) :
    view (loadBy (genFate .new) junk lay w2 b) w2.agents.length = view w i := by
  unfold loadBy
  rw [gen_spec_eq .new junk lay hlay]
  exact C07_roundtrip_values w i b hs w2

/-- … and for the in-place path `load_checkpoint` (also through the wrapper, `p = .wrapperInplace`): loading the
    file of agent `i` into an existing agent `j` makes `j` observe what `i` observed when it was saved, every
    third agent observes what it observed before, and `j` lives in cells nobody knew. -/
theorem C07_source_translation_load_into (p : LoadPath) (lay : Layout) (hlay : lay.Savable p)
    (junk : Nat → Nat → Nat) (rules : List Rule) (w : World) (i : Nat) (b : Blob) (hs : save w i = some b)
    (w2 w' : World) (hw2 : CReachable rules w2) (j : Nat) (h : loadIntoBy (genFate p) junk lay w2 b j = some w') :
    view w' j = view w i ∧ (∀ m, m ≠ j → view w' m = view w2 m) ∧ WF w' ∧ Owned w' ∧ CReachable rules w' ∧
    ∃ aj, w'.agents[j]? = some (some aj) ∧
      ∀ (k : Nat) (ck : List Nat) (a : Nat), aj[k]? = some ck → a ∈ ck → w2.heap.length ≤ a := by
  unfold loadIntoBy at h
  rw [gen_spec_eq p junk lay hlay] at h
  obtain ⟨_, _, h3, h4, h5, h6, h7⟩ := C07_load_into_existing rules w2 w' hw2 b [] j h
  exact ⟨C07_load_into_roundtrip w i b hs w2 w' j h, h3, h4, h5, h6, h7⟩

/-- **Separation with the generated table**: load the same file twice (agents `n` and `n+1`).  Each restored agent
    consists of cells allocated by its own `load`; no cell of either is reached by the original, by any other
    agent, or by the other restored agent; nobody's view changes; the world stays reachable. -/
theorem C07_source_translation_fresh (lay : Layout) (junk : Nat → Nat → Nat) (rules : List Rule) (w : World)
    (hw : CReachable rules w) (b : Blob) :
    let w1 := loadBy (genFate .new) junk lay w b
    let w2 := loadBy (genFate .new) junk lay w1 b
    let n := w.agents.length
    CReachable rules w2 ∧ WF w2 ∧ Owned w2 ∧
    (∀ m, m < n → view w2 m = view w m) ∧ view w2 n = view w1 n ∧
    ∃ a1 a2, w2.agents[n]? = some (some a1) ∧ w2.agents[n + 1]? = some (some a2) ∧
      (∀ (k : Nat) (ck : List Nat) (a : Nat), a1[k]? = some ck → a ∈ ck → w.heap.length ≤ a) ∧
      (∀ (k : Nat) (ck : List Nat) (a : Nat), a2[k]? = some ck → a ∈ ck → w1.heap.length ≤ a) ∧
      ∀ (m : Nat) (am : Agent) (l : Nat) (cl : List Nat) (a : Nat), m ≠ n + 1 →
        w2.agents[m]? = some (some am) → am[l]? = some cl → a ∈ cl →
        ∀ (k : Nat) (ck : List Nat), a2[k]? = some ck → a ∉ ck := by
  intro w1 w2 n
  have hn1 : w1.agents.length = n + 1 := by
    show (w.agents ++ [_]).length = _
    simp [n]
  obtain ⟨_, _, hr1, ⟨a1, ha1, hfresh1, _⟩, hview1⟩ := C07_roundtrip_fresh rules w hw b (specOf (genFate .new) junk lay)
  obtain ⟨hwf2, hown2, hr2, ⟨a2, ha2, hfresh2, hsep2⟩, hview2⟩ :=
    C07_roundtrip_fresh rules w1 hr1 b (specOf (genFate .new) junk lay)
  rw [hn1] at ha2 hsep2 hview2
  refine ⟨hr2, hwf2, hown2, fun m hm => ?_, hview2 n (by omega), a1, a2, ?_, ha2, hfresh1, hfresh2, hsep2⟩
  · exact (hview2 m (by omega)).trans (hview1 m hm)
  · show (w1.agents ++ [_])[n]? = _
    rw [List.getElem?_append_left (by omega)]
    exact ha1

/-- **Round trip, then continue = continue.**  Let `step` be a learning step as in `C07_same_future` (a function of
    the agent's own view, frame for the others, preserving `Inv`).  Save agent `i`, load the file with the
    generated table into a new agent: original and restored agent have equal views after ANY sequence of identical
    batches. -/
theorem C07_source_translation_same_future {β} (lay : Layout) (hlay : lay.Savable .new) (junk : Nat → Nat → Nat)
    (learnStep : List (List Nat) → β → List (List Nat)) (step : World → Nat → β → World) (Inv : World → Prop)
    (hInv : ∀ w i b, Inv w → Inv (step w i b))
    (hOwn : ∀ w i b, Inv w → view (step w i b) i = (view w i).map (fun v => learnStep v b))
    (hFrame : ∀ w i m b, Inv w → m ≠ i → view (step w i b) m = view w m)
    (rules : List Rule) (w : World) (hw : CReachable rules w) (i : Nat) (hi : i < w.agents.length) (b : Blob)
    (hs : save w i = some b) (hI : Inv (loadBy (genFate .new) junk lay w b)) (bs : List β) :
    let w' := loadBy (genFate .new) junk lay w b
    let j := w.agents.length
    view (trainBoth step i j bs w') i = view (trainBoth step i j bs w') j := by
  intro w' j
  have h1 : view w' j = view w i := C07_source_translation_roundtrip_values lay hlay junk w i b hs w
  have h2 : view w' i = view w i := by
    obtain ⟨_, _, _, _, hview⟩ := C07_roundtrip_fresh rules w hw b (specOf (genFate .new) junk lay)
    exact hview i hi
  exact (C07_same_future learnStep step Inv hInv hOwn hFrame w' hI i j (by omega) (by rw [h1, h2]) bs).1

/-- the order facts the repaired code relies on, read off the GENERATED phase lists of both load paths: networks
    are rebuilt and bound before the hooks run, the hooks run before the weights and the detached tensors are
    written (so nothing a hook installs survives in place of a saved value), optimizers are rebuilt after the
    networks and their state is loaded after that, the remaining attributes come last -/
theorem C07_source_translation_phase_order :
    ∀ l ∈ [CkptGen.load_checkpoint_phases, CkptGen.load_phases],
      ∀ ab ∈ [(CkptGen.Phase.buildNetworks, CkptGen.Phase.setNetworks), (.setNetworks, .hook), (.hook, .loadWeights),
              (.hook, .loadDetached), (.setNetworks, .buildOptimizers), (.buildOptimizers, .loadOptState),
              (.loadOptState, .setAttributes), (.loadWeights, .setAttributes)],
        ab.1 ∈ l ∧ ab.2 ∈ l ∧ l.idxOf ab.1 < l.idxOf ab.2 := by
  decide +kernel

/-- the table matters: a load path that never loads the optimizer state (fate `lost` for `optState`, everything
    else as generated) does NOT give back the saved view -/
theorem C07_source_translation_table_matters :
    let f : Cls → Part → Fate := fun c q => if q = .optState then .lost else genFate .new c q
    let lay : Layout := [(.evolvable .evolvableModule, [.weights, .detached]), (.evolvable .optimizerWrapper, [.optState])]
    let w := World.init [Rule.fresh, Rule.fresh] [2, 1]
    ∃ b, save w 0 = some b ∧ view (loadBy f (fun _ _ => 900) lay w b) 1 ≠ view w 0 ∧
      view (loadBy (genFate .new) (fun _ _ => 900) lay w b) 1 = view w 0 := by
  decide +kernel

/-- non-vacuity: a concrete savable layout (network with detached tensors, optimizer, list, wrapper attribute) -/
example : Layout.Savable .new
    [(.evolvable .evolvableModule, [.weights, .detached]), (.evolvable .optimizerWrapper, [.optState]),
     (.plain, [.value]), (.wrapperAttr, [.value])] := by
  intro cp hcp
  simp only [List.mem_cons, List.not_mem_nil, or_false] at hcp
  rcases hcp with rfl | rfl | rfl | rfl <;> decide

/-! ## the checkpoint helpers on module trees (`HeapCkpt.Mod`; `Gen/CkptHelpGen.lean` generated by
    harness/py2lean_ckpthelp.py from agilerl/utils/algo_utils.py)

  The theorems above treat "a network's detached tensors are written to the file and written back" as one `saved`
  entry of the fate table.  Here the helper BODIES are inside the model: a module is its `named_modules()` list
  (every nesting depth), per sub-module the tensors `state_dict()` lists and `vars()`. -/
section helpers
open HeapCkpt.Mod CkptHelpGenEq

/-- **(ii) what `get_detached_tensors` collects** — for every module tree (compiled or not) whose public tensor
    attributes have pairwise distinct dotted names: exactly the tensor-valued entries of `vars(sub)` with a public
    name, of every sub-module `named_modules()` lists (every nesting depth), keyed `prefix.name` (`name` at the
    root), each once, in order; nothing `state_dict()` lists is collected (those are not in `vars()`). -/
theorem C07_helpers_detached_exact (b : Bool) (t : Tree) (hnd : ((publicEntries t).map (·.1)).Nodup) :
    getDetached (b, t) = publicEntries t ∧
    ∀ key v, (key, v) ∈ getDetached (b, t) ↔
      ∃ ps ∈ t, ∃ nv ∈ ps.2.2, pyIsTensor nv.2 = true ∧ pyStartsWith nv.1 ['_'] = false ∧
        key = dotKey ps.1 nv.1 ∧ v = nv.2 := by
  refine ⟨getDetached_eq b t hnd, fun key v => ?_⟩
  rw [getDetached_eq b t hnd]
  unfold publicEntries
  simp only [List.mem_flatMap, List.mem_filterMap]
  constructor
  · rintro ⟨ps, hps, nv, hnv, h⟩
    by_cases hc : (pyIsTensor nv.2 && !(pyStartsWith nv.1 ['_'])) = true
    · simp only [hc, if_true, Option.some.injEq, Prod.mk.injEq] at h
      simp only [Bool.and_eq_true, Bool.not_eq_true'] at hc
      exact ⟨ps, hps, nv, hnv, hc.1, hc.2, h.1.symm, h.2.symm⟩
    · simp [hc] at h
  · rintro ⟨ps, hps, nv, hnv, h1, h2, rfl, rfl⟩
    exact ⟨ps, hps, nv, hnv, by simp [h1, h2]⟩

/-- the underscore filter is a real restriction of the code: a tensor attribute whose name starts with `_` is in no
    state dict and is NOT collected (no module of AgileRL has one; the harness compares with an independent walk) -/
theorem C07_helpers_detached_misses_private_witness :
    let t : Tree := [([], ([], [(['_','b','u','f'], some ([2], 7)), (['s','u','p'], some ([2], 8))]))]
    getDetached (false, t) = [(['s','u','p'], some ([2], 8))] := by
  decide

/-- **(i) round trip of the detached tensors, cell by cell.**  `saved` is any module tree; `f1` is the freshly built
    module after the hooks and `load_state_dict` — all that is assumed about it is that every location where `saved`
    holds a public detached tensor holds SOME tensor of the same shape (a parameter, a buffer or a hook-installed
    tensor: `getattr` finds all three).  Then `load_detached_tensors(f1, get_detached_tensors(saved))` does not raise,
    every such location holds the saved tensor afterwards, every other location (in particular everything
    `load_state_dict` wrote) is untouched. -/
theorem C07_helpers_roundtrip_detached (b : Bool) (saved f1 : Tree)
    (hdot : ∀ x ∈ publicLocs saved, ∀ c ∈ x.1.2, c ≠ '.')
    (hnd : ((publicLocs saved).map (·.1)).Nodup)
    (hkeys : ((publicEntries saved).map (·.1)).Nodup)
    (htgt : ∀ x ∈ publicLocs saved, ∃ cur, tensorAt f1 x.1.1 x.1.2 = some cur ∧ cur.1 = x.2.1) :
    ∃ r, loadDetached (false, f1) (some (getDetached (b, saved))) = .ok (false, r) ∧
      (∀ x ∈ publicLocs saved, tensorAt r x.1.1 x.1.2 = some x.2) ∧
      (∀ p n, (p, n) ∉ (publicLocs saved).map (·.1) → tensorAt r p n = tensorAt f1 p n) := by
  obtain ⟨r, hr, hall, hframe, _⟩ := loop_spec (publicLocs saved) f1 hdot hnd htgt
  rw [getDetached_eq b saved hkeys, publicEntries_eq_locs]
  cases hL : publicLocs saved with
  | nil =>
    refine ⟨f1, rfl, by simp, fun _ _ _ => rfl⟩
  | cons x rest =>
    rw [hL] at hr hall hframe
    refine ⟨r, ?_, hall, hframe⟩
    unfold loadDetached
    simpa [pyOptDictTruthy] using hr

/-- **(i)+(iii) every tensor reachable from the module has the saved value, whatever the hooks installed.**  The load
    paths run `mutation_hook()` BEFORE `load_state_dict` and `load_detached_tensors`
    (`C07_source_translation_phase_order`).  Let `hook` be ANY function on the fresh module and `lsd` torch's
    `load_state_dict`, of which only its contract on this architecture is used (`hreg`: afterwards every tensor the
    saved state dict lists is in place; `htgt`: the locations of the saved detached tensors hold tensors of the saved
    shapes).  Then after `load_detached_tensors` EVERY tensor of the saved module — registered or detached — is at its
    location with its saved value: the saved value wins at every cell, no value a hook derived from the fresh
    (randomly initialised) networks survives.  That is what the property needs: a hook-derived value is faithful
    only if the original had the two tensors in step at save time (`C07_rederived_faithful_iff_synced`), which a
    critic's encoder copy or a target network in general has not. -/
theorem C07_helpers_roundtrip_all_tensors (b : Bool) (saved fresh : Tree) (hook lsd : Tree → Tree)
    (hdot : ∀ x ∈ publicLocs saved, ∀ c ∈ x.1.2, c ≠ '.')
    (hnd : ((publicLocs saved ++ regLocs saved).map (·.1)).Nodup)
    (hkeys : ((publicEntries saved).map (·.1)).Nodup)
    (hreg : ∀ x ∈ regLocs saved, tensorAt (lsd (hook fresh)) x.1.1 x.1.2 = some x.2)
    (htgt : ∀ x ∈ publicLocs saved, ∃ cur, tensorAt (lsd (hook fresh)) x.1.1 x.1.2 = some cur ∧ cur.1 = x.2.1) :
    ∃ r, loadDetached (false, lsd (hook fresh)) (some (getDetached (b, saved))) = .ok (false, r) ∧
      ∀ x ∈ publicLocs saved ++ regLocs saved, tensorAt r x.1.1 x.1.2 = some x.2 := by
  rw [List.map_append] at hnd
  obtain ⟨hnd1, _, hdisj⟩ := List.nodup_append.mp hnd
  obtain ⟨r, hr, hall, hframe⟩ := C07_helpers_roundtrip_detached b saved (lsd (hook fresh)) hdot hnd1 hkeys htgt
  refine ⟨r, hr, fun x hx => ?_⟩
  rcases List.mem_append.mp hx with h | h
  · exact hall x h
  · rw [hframe x.1.1 x.1.2 (fun hin => hdisj _ hin _ (List.mem_map_of_mem h) rfl)]
    exact hreg x h

/-- **(iii) the order matters**: the same steps with the hook LAST (a hook that re-derives the critic's encoder copy
    `enc.w` from the restored actor value 5, as `share_encoder_parameters` does) lose the saved value 9 of the copy,
    which was out of step with the actor at save time; the order of the code restores 9 whatever the hook wrote. -/
theorem C07_helpers_hook_last_witness :
    let saved : Tree := [([], ([(['h'], ([1], 3))], [])), (['e','n','c'], ([], [(['w'], some ([2], 9))]))]
    let fresh : Tree := [([], ([(['h'], ([1], 0))], [])), (['e','n','c'], ([], [(['w'], some ([2], 1))]))]
    let hook : Tree → Tree := fun t => treeCopy t ['e','n','c'] ['w'] ([2], 5)
    let lsd : Tree → Tree := fun t => treeCopy t [] ['h'] ([1], 3)
    loadDetached (false, lsd (hook fresh)) (some (getDetached (false, saved))) = .ok (false, saved) ∧
    loadDetached (false, lsd fresh) (some (getDetached (false, saved))) = .ok (false, saved) ∧
    tensorAt (hook saved) ['e','n','c'] ['w'] = some ([2], 5) ∧ tensorAt saved ['e','n','c'] ['w'] = some ([2], 9) := by
  refine ⟨?_, ?_, ?_, ?_⟩ <;> rfl

/-- as coded, a saved tensor whose location holds no tensor of the same shape in the receiver is SKIPPED silently
    (left as constructed), and a dotted name whose sub-module does not exist raises AttributeError -/
theorem C07_helpers_load_mismatch_witness :
    let f : Tree := [([], ([], [(['w'], some ([3], 1))]))]
    loadDetached (false, f) (some [(['w'], some ([2], 9))]) = .ok (false, f) ∧
    loadDetached (false, f) (some [(['x'], some ([2], 9))]) = .ok (false, f) ∧
    loadDetached (false, f) (some [(['m','.','w'], some ([2], 9))]) = .error "AttributeError" ∧
    loadDetached (false, f) none = .ok (false, f) ∧ loadDetached (true, f) (some []) = .ok (true, f) := by
  refine ⟨?_, ?_, ?_, ?_, ?_⟩ <;> rfl

/-- **(iv) dotted names are exact**: `key.rpartition(".")` gives back (prefix, name) of the key
    `get_detached_tensors` built (attribute names have no dot), distinct locations have distinct keys; and
    `remove_compile_prefix` strips exactly `_orig_mod.` from every key of a compiled module's state dict, keeps a
    state dict without such keys, and keeps the entries' order and values (`pyDictOf sd = sd` for distinct keys). -/
theorem C07_helpers_dotted_names_exact :
    (∀ p n : Name, (∀ c ∈ n, c ≠ '.') →
      (pyRpartition (dotKey p n) '.').1 = p ∧ (pyRpartition (dotKey p n) '.').2.2 = n) ∧
    (∀ p n p' n' : Name, (∀ c ∈ n, c ≠ '.') → (∀ c ∈ n', c ≠ '.') → dotKey p n = dotKey p' n' → p = p' ∧ n = n') ∧
    (∀ sd : Dict Tensor, removeCompilePrefix (sd.map fun e => (origMod ++ '.' :: e.1, e.2)) = .ok (pyDictOf sd)) ∧
    (∀ sd : Dict Tensor, (∀ e ∈ sd, pyStartsWith e.1 origMod = false) → removeCompilePrefix sd = .ok (pyDictOf sd)) ∧
    (∀ sd : Dict Tensor, (sd.map (·.1)).Nodup → pyDictOf sd = sd) :=
  ⟨rpartition_dotKey, dotKey_inj, removeCompilePrefix_compiled, removeCompilePrefix_plain, pyDictOf_nodup⟩

/-- the state dict of a compiled module is the state dict of `_orig_mod` under the prefix (torch), so
    `remove_compile_prefix(m.state_dict())` of a compiled module is the uncompiled module's state dict -/
theorem C07_helpers_compiled_state_dict_witness :
    let t : Tree := [([], ([(['h'], ([1], 3))], [])), (['e','n','c'], ([(['w'], ([2], 9))], []))]
    removeCompilePrefix (pyStateDict (true, t)) = .ok (pyStateDict (false, t)) ∧
    getDetached (true, t) = getDetached (false, t) := by
  refine ⟨?_, ?_⟩ <;> rfl

/-- … but the test is `startswith("_orig_mod")`, not "first path component is `_orig_mod`": a key of an UNcompiled
    module whose first component merely starts with these characters loses that component, and the bare key
    `_orig_mod` raises IndexError (no module of AgileRL has such names) -/
theorem C07_helpers_compile_prefix_inexact_witness :
    removeCompilePrefix [(['_','o','r','i','g','_','m','o','d','e','l','.','w'], 1)] = .ok [(['w'], 1)] ∧
    removeCompilePrefix [(['_','o','r','i','g','_','m','o','d'], 1)] = .error "IndexError" := by
  refine ⟨?_, ?_⟩ <;> rfl

/-! non-vacuity: a nested tree (root with a registered head, `enc` with a hook-installed copy, `enc.sub` two levels
    down with a plain tensor attribute and a private one), torch's `load_state_dict` as `pyLoadStateDict` -/
example :
    let saved : Tree := [([], ([(['h'], ([1], 3))], [(['t','r'], none)])),
                         (['e','n','c'], ([], [(['w'], some ([2], 9))])),
                         (['e','n','c','.','s','u','b'], ([(['b'], ([1], 4))], [(['k'], some ([3], 6)), (['_','p'], some ([1], 2))]))]
    let fresh : Tree := [([], ([(['h'], ([1], 0))], [(['t','r'], none)])),
                         (['e','n','c'], ([(['w'], ([2], 1))], [])),
                         (['e','n','c','.','s','u','b'], ([(['b'], ([1], 0))], [(['k'], some ([3], 0)), (['_','p'], some ([1], 0))]))]
    let hook : Tree → Tree := fun t => t.map fun ps =>
      if ps.1 == ['e','n','c'] then (ps.1, ([], [(['w'], some ([2], 5))])) else ps
    ∃ f1, pyLoadStateDict (false, hook fresh) (pyStateDict (false, saved)) = .ok (false, f1) ∧
      (∀ x ∈ publicLocs saved, ∀ c ∈ x.1.2, c ≠ '.') ∧
      ((publicLocs saved ++ regLocs saved).map (·.1)).Nodup ∧ ((publicEntries saved).map (·.1)).Nodup ∧
      (∀ x ∈ regLocs saved, tensorAt f1 x.1.1 x.1.2 = some x.2) ∧
      (∀ x ∈ publicLocs saved, ∃ cur, tensorAt f1 x.1.1 x.1.2 = some cur ∧ cur.1 = x.2.1) ∧
      publicLocs saved = [((['e','n','c'], ['w']), ([2], 9)), ((['e','n','c','.','s','u','b'], ['k']), ([3], 6))] := by
  refine ⟨_, rfl, ?_⟩
  decide

/-! ### the same over the GENERATED helpers -/

/-- the three generated functions are the model's, for all inputs -/
theorem C07_source_translation_helpers_eq :
    (∀ m, CkptHelpGen.get_detached_tensors m = getDetached m) ∧
    (∀ m d, CkptHelpGen.load_detached_tensors m d = loadDetached m d) ∧
    (∀ sd : Dict Tensor, CkptHelpGen.remove_compile_prefix sd = removeCompilePrefix sd) :=
  ⟨gen_get_detached_tensors_eq, gen_load_detached_tensors_eq, gen_remove_compile_prefix_eq⟩

/-- (ii) over the generated `get_detached_tensors` -/
theorem C07_source_translation_helpers_detached_exact (b : Bool) (t : Tree)
    (hnd : ((publicEntries t).map (·.1)).Nodup) :
    CkptHelpGen.get_detached_tensors (b, t) = publicEntries t ∧
    ∀ key v, (key, v) ∈ CkptHelpGen.get_detached_tensors (b, t) ↔
      ∃ ps ∈ t, ∃ nv ∈ ps.2.2, pyIsTensor nv.2 = true ∧ pyStartsWith nv.1 ['_'] = false ∧
        key = dotKey ps.1 nv.1 ∧ v = nv.2 := by
  rw [gen_get_detached_tensors_eq]
  exact C07_helpers_detached_exact b t hnd

/-- (i)+(iii) over the generated `get_detached_tensors` / `load_detached_tensors`: save → fresh construct → hooks →
    `load_state_dict` → `load_detached_tensors` puts the saved value at every tensor of the module, registered or
    detached, whatever the hooks installed -/
theorem C07_source_translation_helpers_roundtrip (b : Bool) (saved fresh : Tree) (hook lsd : Tree → Tree)
    (hdot : ∀ x ∈ publicLocs saved, ∀ c ∈ x.1.2, c ≠ '.')
    (hnd : ((publicLocs saved ++ regLocs saved).map (·.1)).Nodup)
    (hkeys : ((publicEntries saved).map (·.1)).Nodup)
    (hreg : ∀ x ∈ regLocs saved, tensorAt (lsd (hook fresh)) x.1.1 x.1.2 = some x.2)
    (htgt : ∀ x ∈ publicLocs saved, ∃ cur, tensorAt (lsd (hook fresh)) x.1.1 x.1.2 = some cur ∧ cur.1 = x.2.1) :
    ∃ r, CkptHelpGen.load_detached_tensors (false, lsd (hook fresh))
          (some (CkptHelpGen.get_detached_tensors (b, saved))) = .ok (false, r) ∧
      ∀ x ∈ publicLocs saved ++ regLocs saved, tensorAt r x.1.1 x.1.2 = some x.2 := by
  rw [gen_get_detached_tensors_eq, gen_load_detached_tensors_eq]
  exact C07_helpers_roundtrip_all_tensors b saved fresh hook lsd hdot hnd hkeys hreg htgt

/-- (iv) over the generated `remove_compile_prefix` -/
theorem C07_source_translation_helpers_compile_prefix :
    (∀ sd : Dict Tensor, CkptHelpGen.remove_compile_prefix (sd.map fun e => (origMod ++ '.' :: e.1, e.2)) = .ok (pyDictOf sd)) ∧
    (∀ sd : Dict Tensor, (∀ e ∈ sd, pyStartsWith e.1 origMod = false) →
      CkptHelpGen.remove_compile_prefix sd = .ok (pyDictOf sd)) := by
  simp only [gen_remove_compile_prefix_eq]
  exact ⟨removeCompilePrefix_compiled, removeCompilePrefix_plain⟩

/-- the generated code on the concrete nested module: hook last loses the saved copy, the coded order keeps it -/
theorem C07_source_translation_helpers_order_witness :
    let saved : Tree := [([], ([(['h'], ([1], 3))], [])), (['e','n','c'], ([], [(['w'], some ([2], 9))]))]
    let fresh : Tree := [([], ([(['h'], ([1], 0))], [])), (['e','n','c'], ([], [(['w'], some ([2], 1))]))]
    let hook : Tree → Tree := fun t => treeCopy t ['e','n','c'] ['w'] ([2], 5)
    let lsd : Tree → Tree := fun t => treeCopy t [] ['h'] ([1], 3)
    CkptHelpGen.load_detached_tensors (false, lsd (hook fresh))
        (some (CkptHelpGen.get_detached_tensors (false, saved))) = .ok (false, saved) ∧
    CkptHelpGen.load_detached_tensors (false, lsd fresh)
        (some (CkptHelpGen.get_detached_tensors (false, saved))) = .ok (false, saved) ∧
    tensorAt (hook saved) ['e','n','c'] ['w'] = some ([2], 5) ∧ tensorAt saved ['e','n','c'] ['w'] = some ([2], 9) := by
  refine ⟨?_, ?_, ?_, ?_⟩ <;> rfl

end helpers
end HeapCkpt
