import Proofs.HeapCkptAlias
import Proofs.CkptGenEq

/-!
# C07 — a saved checkpoint restores an equivalent agent

Model: `Model/Heap.lean` (cells with identity, agents = attribute → cells) extended by
`Model/HeapCkpt.lean`: `save` serialises an agent by value (`Blob` = attribute → values),
`load` builds a new agent from a blob, `loadInto` re-builds every attribute of an existing agent
from it; each restored cell is filled according to a `Fill` (`saved` | `from k c` | `init v`), so
both the repaired code (every cell `saved`) and the current behaviour for tensors that are in no
`state_dict()` (`init`: DQN's hook-built target, the critics' copy of a shared encoder) are
expressible.  Worlds range over every history (`CReachable`) of clone / write / rebind / discard
(C01) and spawn / load / loadInto operations, from any rule table and any initial agent.
-/
namespace HeapCkpt
open Heap CkptGenEq

/-- **Round trip, values.**  Save agent `i` of any world; whatever happens afterwards (the
    original trains on, is mutated, is discarded — a crash —, other agents come and go: `w2` is
    *any* later world), loading the file with every cell restored gives an agent whose view
    (weights incl. targets, optimizer moments and steps, hyper-parameters, registry, score lists)
    is exactly the original's view at the time of the save. -/
theorem C07_roundtrip_values (w : World) (i : Nat) (b : Blob) (hs : save w i = some b) (w2 : World) :
    view (load w2 b []) w2.agents.length = view w i := by
  unfold save at hs
  rw [hs]
  unfold load
  rw [restoredVals_all_saved]
  exact spawn_view_new w2 b

/-- **Round trip, cell by cell, for any fill specification** (the exact statement for the current
    code): the restored attribute has the saved number of cells; a `saved` cell holds the
    original's value, a re-derived cell (`from k' c'`) holds the original's value *of the source
    cell*, an `init v'` cell holds `v'`, i.e. nothing related to the original. -/
theorem C07_roundtrip_cells (w : World) (i : Nat) (b : Blob) (hs : save w i = some b) (w2 : World)
    (sp : Spec) (k c : Nat) (vs : List Nat) (v : Nat) (hk : b[k]? = some vs) (hc : vs[c]? = some v) :
    ∃ R rs, view (load w2 b sp) w2.agents.length = some R ∧ view w i = some b ∧
      R.length = b.length ∧ R[k]? = some rs ∧ rs.length = vs.length ∧
      rs[c]? = some (match cellFill sp k c with
                     | .saved => v
                     | .from k' c' => blobVal b k' c'
                     | .init v' => v') := by
  obtain ⟨rs, h1, h2, h3⟩ := restoredVals_cell b sp k c vs v hk hc
  refine ⟨restoredVals b sp, rs, spawn_view_new w2 _, hs, restoredVals_length b sp, h1, h2, ?_⟩
  rw [h3]
  cases hf : cellFill sp k c with
  | saved => simp [fillVal, blobVal_eq b k c vs v hk hc]
  | «from» k' c' => simp [fillVal]
  | init v' => simp [fillVal]

/-- a re-derived cell (hook run after the weights were loaded) is faithful exactly when the
    original had the two cells in step at the time of the save (target = online network,
    critic's encoder copy = actor's encoder) -/
theorem C07_rederived_faithful_iff_synced (b : Blob) (sp : Spec) (k c k' c' : Nat)
    (vs' : List Nat) (v v' : Nat)
    (hk' : b[k']? = some vs') (hc' : vs'[c']? = some v') (hf : cellFill sp k c = .from k' c') :
    fillVal b k c (cellFill sp k c) = v ↔ v' = v := by
  rw [hf]
  simp [fillVal, blobVal_eq b k' c' vs' v' hk' hc']

/-- **Round trip, separation.**  In every reachable world the restored agent consists of cells
    allocated by this very `load`: the invariants of C01 (well-formed, owned) still hold, the
    world stays reachable, no cell of the restored agent is reached by any other agent — not even
    through the attributes that `clone` would pass by reference —, and nobody else's view changes. -/
theorem C07_roundtrip_fresh (rules : List Rule) (w : World) (hw : CReachable rules w) (b : Blob) (sp : Spec) :
    let w' := load w b sp
    let n := w.agents.length
    WF w' ∧ Owned w' ∧ CReachable rules w' ∧
    (∃ an, w'.agents[n]? = some (some an) ∧
      (∀ (k : Nat) (ck : List Nat) (a : Nat), an[k]? = some ck → a ∈ ck → w.heap.length ≤ a) ∧
      ∀ (m : Nat) (am : Agent) (l : Nat) (cl : List Nat) (a : Nat), m ≠ n →
        w'.agents[m]? = some (some am) → am[l]? = some cl → a ∈ cl →
        ∀ (k : Nat) (ck : List Nat), an[k]? = some ck → a ∉ ck) ∧
    (∀ m, m < n → view w' m = view w m) := by
  intro w' n
  obtain ⟨hwf, how, _⟩ := creachable_inv hw
  have hreach : CReachable rules w' := creachable_capply hw (COp.load b sp)
  refine ⟨spawn_wf w _ hwf, spawn_owned w _ hwf how, hreach, ?_, fun m hm => spawn_view_old w _ hwf m hm⟩
  refine ⟨(allocAll w.heap (restoredVals b sp)).2, ?_, fun k ck a hck ha => spawn_fresh w _ k ck a hck ha, ?_⟩
  · show (w.agents ++ [some (allocAll w.heap (restoredVals b sp)).2])[w.agents.length]? = _
    rw [List.getElem?_append_right (Nat.le_refl _)]; simp
  · intro m am l cl a hm ham hcl ha k ck hck hak
    have ham' : (w.agents ++ [some (allocAll w.heap (restoredVals b sp)).2])[m]? = some (some am) := ham
    rcases getElem?_snoc _ _ _ _ ham' with hold | ⟨hmn, _⟩
    · have h1 : a < w.heap.length := hwf m am l cl a hold hcl ha
      have h2 := spawn_fresh w _ k ck a hck hak
      omega
    · exact hm hmn

/-- the executable alias listing the harness compares against never mentions the restored agent -/
theorem C07_no_alias_pairs (rules : List Rule) (w : World) (hw : CReachable rules w) (b : Blob) (sp : Spec)
    (i k j l : Nat) (h : (i, k, j, l) ∈ aliasPairs (load w b sp)) :
    i ≠ w.agents.length ∧ j ≠ w.agents.length := by
  obtain ⟨hwf, _, _⟩ := creachable_inv hw
  obtain ⟨ai, aj, ck, cl, a, hi, hj, hij, hck, hcl, hak, hal⟩ := mem_aliasPairs _ i k j l h
  have hi' : (w.agents ++ [some (allocAll w.heap (restoredVals b sp)).2])[i]? = some (some ai) := hi
  have hj' : (w.agents ++ [some (allocAll w.heap (restoredVals b sp)).2])[j]? = some (some aj) := hj
  have hjlt := lt_of_getElem?_some hj'
  simp only [List.length_append, List.length_cons, List.length_nil] at hjlt
  refine ⟨by omega, ?_⟩
  intro hjn
  rcases getElem?_snoc _ _ _ _ hj' with hold | ⟨_, hnew⟩
  · have := lt_of_getElem?_some hold; omega
  · cases hnew
    have h2 := spawn_fresh w _ l cl a hcl hal
    rcases getElem?_snoc _ _ _ _ hi' with hiold | ⟨hin, _⟩
    · have h1 : a < w.heap.length := hwf i ai k ck a hiold hck hak
      omega
    · omega

/-- **Loading into an existing agent.**  `load_checkpoint` on a live agent `j` replaces what `j`
    observes by the file's contents, in cells nobody knew before; every third agent — the agent
    that was saved included — observes exactly what it observed before (frame), and the
    invariants survive. -/
theorem C07_load_into_existing (rules : List Rule) (w w' : World) (hw : CReachable rules w) (b : Blob)
    (sp : Spec) (j : Nat) (h : loadInto w b sp j = some w') :
    view w' j = some (restoredVals b sp) ∧ (sp = [] → view w' j = some b) ∧
    (∀ m, m ≠ j → view w' m = view w m) ∧
    WF w' ∧ Owned w' ∧ CReachable rules w' ∧
    (∃ aj, w'.agents[j]? = some (some aj) ∧
      ∀ (k : Nat) (ck : List Nat) (a : Nat), aj[k]? = some ck → a ∈ ck → w.heap.length ≤ a) := by
  obtain ⟨hwf, how, _⟩ := creachable_inv hw
  have hreach : CReachable rules w' := by
    have := creachable_capply hw (COp.loadInto b sp j)
    simpa [capply, h] using this
  refine ⟨loadInto_view_self w w' b sp j h, ?_, fun m hm => loadInto_view_other w w' b sp j h hwf m hm,
    loadInto_wf w w' b sp j h hwf, loadInto_owned w w' b sp j h hwf how, hreach, ?_⟩
  · intro hsp
    rw [loadInto_view_self w w' b sp j h, hsp, restoredVals_all_saved]
  · obtain ⟨ag, hag, _, rfl⟩ := loadInto_spec w w' b sp j h
    refine ⟨(allocAll w.heap (restoredVals b sp)).2, ?_, fun k ck a hck ha => spawn_fresh w _ k ck a hck ha⟩
    simp [List.getElem?_set_self (lt_of_getElem?_some hag)]

/-- both load paths agree: loading the file of agent `i` into an existing agent `j` (from any
    later world `w2`) makes `j` observe exactly what `i` observed when it was saved -/
theorem C07_load_into_roundtrip (w : World) (i : Nat) (b : Blob) (hs : save w i = some b)
    (w2 w' : World) (j : Nat) (h : loadInto w2 b [] j = some w') : view w' j = view w i := by
  unfold save at hs
  rw [hs, loadInto_view_self w2 w' b [] j h, restoredVals_all_saved]

/-- train agents `i` and `j` alternately on the same batches -/
def trainBoth {β} (step : World → Nat → β → World) (i j : Nat) (bs : List β) (w : World) : World :=
  bs.foldl (fun w b => step (step w i b) j b) w

/-- **Same future.**  Let `step w i b` be a learning step of agent `i` on batch `b` such that, on
    the worlds satisfying an invariant `Inv` it preserves, (1) the new view of `i` is a function
    `learnStep` of its old view and the batch only, (2) no other agent's view changes (C01 frame).
    Then two distinct agents with equal views — the original and its restored copy — still have
    equal views after *any* sequence of identical batches. -/
theorem C07_same_future {β} (learnStep : List (List Nat) → β → List (List Nat))
    (step : World → Nat → β → World) (Inv : World → Prop)
    (hInv : ∀ w i b, Inv w → Inv (step w i b))
    (hOwn : ∀ w i b, Inv w → view (step w i b) i = (view w i).map (fun v => learnStep v b))
    (hFrame : ∀ w i m b, Inv w → m ≠ i → view (step w i b) m = view w m)
    (w : World) (hw : Inv w) (i j : Nat) (hij : i ≠ j) (heq : view w i = view w j) (bs : List β) :
    view (trainBoth step i j bs w) i = view (trainBoth step i j bs w) j ∧ Inv (trainBoth step i j bs w) := by
  induction bs generalizing w with
  | nil => exact ⟨heq, hw⟩
  | cons b rest ih =>
    have h1 : Inv (step w i b) := hInv w i b hw
    have h2 : Inv (step (step w i b) j b) := hInv _ j b h1
    apply ih (step (step w i b) j b) h2
    rw [hFrame (step w i b) j i b h1 hij, hOwn w i b hw, hOwn (step w i b) j b h1,
      hFrame w i j b hw (fun e => hij e.symm), heq]

/-- **Current code, DQN.**  The target network's tensors are in no state dict and the hook that
    builds them runs before the weights are loaded (`init`): the restored agent does not observe
    what the original observed. -/
theorem C07_unrepaired_target_witness :
    let w := (World.init [Rule.fresh, Rule.resync 0, Rule.fresh] [2, 2, 1])
    ∃ b, save w 0 = some b ∧
      view (load w b [((1, 0), Fill.init 900), ((1, 1), Fill.init 901)]) 1 ≠ view w 0 := by
  decide

/-- **Current code, shared encoders.**  Attribute 1 (a critic) = [head cell, copy of the actor's
    encoder]; the copy is not restored from the file: views differ, although a hook run *after*
    the weights (`from 0 0`) would have reproduced the original, which had the copy in step. -/
theorem C07_unrepaired_shared_encoder_witness :
    let w0 := (World.init [Rule.fresh, Rule.fresh] [2, 2])
    ∃ w, w0.write 0 1 1 1 = some w ∧ ∃ b, save w 0 = some b ∧
      view (load w b [((1, 1), Fill.init 900)]) 1 ≠ view w 0 ∧
      view (load w b [((1, 1), Fill.from 0 0)]) 1 = view w 0 := by
  decide

/-! ### non-vacuity -/

/-- a history with training, a clone, an architecture mutation (rebind), a save, more training of
    the original, a load into a new agent, a separately built agent and a load into it -/
example :
    let rules := [Rule.fresh, Rule.resync 0, Rule.fresh, Rule.byRef]
    let w := crun (World.init rules [2, 2, 1, 1])
      [COp.heap (Op.write 0 0 0 50), COp.heap (Op.clone 0), COp.heap (Op.rebind 0 0 [7, 8, 9])]
    ∃ b, save w 0 = some b ∧ b = [[7, 8, 9], [3, 4], [5], [6]] ∧
      let w2 := crun w [COp.heap (Op.write 0 0 1 60), COp.load b [], COp.spawn [[1], [2], [3], [4]],
                        COp.loadInto b [] 3]
      view w2 0 = some [[7, 60, 9], [3, 4], [5], [6]] ∧ view w2 2 = some b ∧ view w2 3 = some b ∧
      aliasPairs w2 = [(0, 3, 1, 3)] := by
  decide

example : CReachable [Rule.fresh, Rule.resync 0]
    (crun (World.init [Rule.fresh, Rule.resync 0] [2, 2]) [COp.load [[1, 2], [3, 4]] [], COp.loadInto [[5, 6], [7, 8]] [] 0]) :=
  ⟨_, _, rfl⟩

/-- the hypotheses of `C07_same_future` are satisfiable: a learning step that re-binds the agent to
    new cells holding `learnStep view batch` (invariant: well-formedness) -/
example :
    let learnStep : List (List Nat) → Nat → List (List Nat) := fun v b => v.map (fun vs => vs.map (· + b))
    let step : World → Nat → Nat → World := fun w i b =>
      (loadInto w (learnStep ((view w i).getD []) b) [] i).getD w
    (∀ w i b, WF w → WF (step w i b)) ∧
    (∀ w i b, WF w → view (step w i b) i = (view w i).map (fun v => learnStep v b)) ∧
    (∀ w i m b, WF w → m ≠ i → view (step w i b) m = view w m) := by
  intro learnStep step
  refine ⟨fun w i b hwf => ?_, fun w i b hwf => ?_, fun w i m b hwf hm => ?_⟩
  · show WF ((loadInto w _ [] i).getD w)
    cases hl : loadInto w (learnStep ((view w i).getD []) b) [] i with
    | none => exact hwf
    | some w' => exact loadInto_wf w w' _ _ i hl hwf
  · show view ((loadInto w _ [] i).getD w) i = _
    cases hag : w.agents[i]? with
    | none => simp [loadInto, view, hag]
    | some o =>
      cases o with
      | none => simp [loadInto, view, hag]
      | some ag =>
        have hv : view w i = some (ag.map (vals w.heap)) := by simp [view, hag]
        have hl : loadInto w (learnStep ((view w i).getD []) b) [] i =
            some { w with heap := (allocAll w.heap (restoredVals (learnStep ((view w i).getD []) b) [])).1,
                          agents := w.agents.set i (some (allocAll w.heap (restoredVals (learnStep ((view w i).getD []) b) [])).2) } := by
          simp [loadInto, hag, hv, learnStep]
        rw [hl, Option.getD_some, loadInto_view_self w _ _ [] i hl, restoredVals_all_saved, hv]
        rfl
  · show view ((loadInto w _ [] i).getD w) m = _
    cases hl : loadInto w (learnStep ((view w i).getD []) b) [] i with
    | none => rfl
    | some w' => exact loadInto_view_other w w' _ _ i hl hwf m hm

/-- … and its conclusion on a concrete pair original / restored -/
example :
    let w := World.init [Rule.fresh, Rule.fresh] [2, 1]
    ∃ b, save w 0 = some b ∧ view (load w b []) 1 = view (load w b []) 0 := by
  decide

/-! ## source translation (`Gen/CkptGen.lean`, generated by harness/py2lean_ckpt.py from
    agilerl/algorithms/core/base.py, agilerl/wrappers/agent.py)

  The theorems above take the fill specification `sp` as a parameter; "the repaired code restores every cell"
  is the instance `sp = []`.  Here `sp` is COMPUTED from the tables translated from the source text:
  `genFate path cls part` (save ∘ load for one part of one attribute class, obtained by evaluating the generated
  guarded steps of `load_checkpoint` / `load` / `AgentWrapper.load_checkpoint` against the generated save tables of
  `get_checkpoint_dict` / `AgentWrapper.save_checkpoint`) and `specOf` (a cell whose part is not `saved` becomes an
  `init` exception).  `Layout` says, per attribute group, its class and the part each cell belongs to. -/

/-- the generated tables are the model's tables: rule table of saving, fate of every part on the three load
    paths, phase order of the three load methods, wrapper merge order -/
theorem C07_source_translation_tables :
    (∀ k, Saved.ofGen (CkptGen.ckptRule (AKind.toGen k)) = ckptRule k) ∧
    genFate = fate ∧
    CkptGen.load_checkpoint_phases.map Phase.ofGen = loadCheckpointPhases ∧
    CkptGen.load_phases.map Phase.ofGen = loadPhases ∧
    CkptGen.wrapper_load_checkpoint_phases.map Phase.ofGen = wrapperLoadCheckpointPhases ∧
    (∀ agentHas, ∀ k ∈ ["wrapper_cls", "wrapper_init_dict", "wrapper_attrs", "learn", "get_action", "network_info", "registry", ""],
      heldSource (CkptGen.wrapper_file agentHas k) = wrapperFile agentHas k) :=
  ⟨gen_ckptRule_eq, gen_fate_eq, gen_load_checkpoint_phases_eq, gen_load_phases_eq,
   gen_wrapper_load_checkpoint_phases_eq, gen_wrapper_merge_eq⟩

/-- **Every attribute group of the heap model is saved by value and comes back** — by the GENERATED rule table
    and fate table: whatever `Heap.Kind` a group has (network, re-synchronised target, optimizer, list, registry,
    tensor, array, other object, callable, immutable), `get_checkpoint_dict` writes a non-empty list of its parts by
    value, and each of its parts is `saved` on both load paths and on the wrapper's path. -/
theorem C07_source_translation_every_group_saved (k : Heap.Kind) :
    savesByValue (CkptGen.ckptRule (AKind.toGen (akindOf k))) = true ∧
    ∀ p, ∀ q ∈ (clsOf k).parts, genFate p (clsOf k) q = .saved := by
  constructor
  · cases k <;> simp only [akindOf] <;> decide +kernel
  · intro p q hq
    rw [gen_fate_eq]
    cases k <;> cases p <;> simp only [clsOf] at hq ⊢ <;> revert q <;> decide

/-- **Round trip, values, with the generated table** (new-agent path `Algo.load`): for every layout of savable
    attribute groups the restored agent's view is the original's view at save time, whatever happened in between. -/
theorem C07_source_translation_roundtrip_values (lay : Layout) (hlay : lay.Savable .new) (junk : Nat → Nat → Nat)
    (w : World) (i : Nat) (b : Blob) (hs : save w i = some b) (w2 : World) :
    view (loadBy (genFate .new) junk lay w2 b) w2.agents.length = view w i := by
  unfold loadBy
  rw [gen_spec_eq .new junk lay hlay]
  exact C07_roundtrip_values w i b hs w2

/-- … and for the in-place path `load_checkpoint` (also through the wrapper, `p = .wrapperInplace`): loading the
    file of agent `i` into an existing agent `j` makes `j` observe what `i` observed when it was saved, every
    third agent observes what it observed before, and `j` lives in cells nobody knew. -/
theorem C07_source_translation_load_into (p : LoadPath) (lay : Layout) (hlay : lay.Savable p)
    (junk : Nat → Nat → Nat) (rules : List Rule) (w : World) (i : Nat) (b : Blob) (hs : save w i = some b)
    (w2 w' : World) (hw2 : CReachable rules w2) (j : Nat) (h : loadIntoBy (genFate p) junk lay w2 b j = some w') :
    view w' j = view w i ∧ (∀ m, m ≠ j → view w' m = view w2 m) ∧ WF w' ∧ Owned w' ∧ CReachable rules w' ∧
    ∃ aj, w'.agents[j]? = some (some aj) ∧
      ∀ (k : Nat) (ck : List Nat) (a : Nat), aj[k]? = some ck → a ∈ ck → w2.heap.length ≤ a := by
  unfold loadIntoBy at h
  rw [gen_spec_eq p junk lay hlay] at h
  obtain ⟨_, _, h3, h4, h5, h6, h7⟩ := C07_load_into_existing rules w2 w' hw2 b [] j h
  exact ⟨C07_load_into_roundtrip w i b hs w2 w' j h, h3, h4, h5, h6, h7⟩

/-- **Separation with the generated table**: load the same file twice (agents `n` and `n+1`).  Each restored agent
    consists of cells allocated by its own `load`; no cell of either is reached by the original, by any other
    agent, or by the other restored agent; nobody's view changes; the world stays reachable. -/
theorem C07_source_translation_fresh (lay : Layout) (junk : Nat → Nat → Nat) (rules : List Rule) (w : World)
    (hw : CReachable rules w) (b : Blob) :
    let w1 := loadBy (genFate .new) junk lay w b
    let w2 := loadBy (genFate .new) junk lay w1 b
    let n := w.agents.length
    CReachable rules w2 ∧ WF w2 ∧ Owned w2 ∧
    (∀ m, m < n → view w2 m = view w m) ∧ view w2 n = view w1 n ∧
    ∃ a1 a2, w2.agents[n]? = some (some a1) ∧ w2.agents[n + 1]? = some (some a2) ∧
      (∀ (k : Nat) (ck : List Nat) (a : Nat), a1[k]? = some ck → a ∈ ck → w.heap.length ≤ a) ∧
      (∀ (k : Nat) (ck : List Nat) (a : Nat), a2[k]? = some ck → a ∈ ck → w1.heap.length ≤ a) ∧
      ∀ (m : Nat) (am : Agent) (l : Nat) (cl : List Nat) (a : Nat), m ≠ n + 1 →
        w2.agents[m]? = some (some am) → am[l]? = some cl → a ∈ cl →
        ∀ (k : Nat) (ck : List Nat), a2[k]? = some ck → a ∉ ck := by
  intro w1 w2 n
  have hn1 : w1.agents.length = n + 1 := by
    show (w.agents ++ [_]).length = _
    simp [n]
  obtain ⟨_, _, hr1, ⟨a1, ha1, hfresh1, _⟩, hview1⟩ := C07_roundtrip_fresh rules w hw b (specOf (genFate .new) junk lay)
  obtain ⟨hwf2, hown2, hr2, ⟨a2, ha2, hfresh2, hsep2⟩, hview2⟩ :=
    C07_roundtrip_fresh rules w1 hr1 b (specOf (genFate .new) junk lay)
  rw [hn1] at ha2 hsep2 hview2
  refine ⟨hr2, hwf2, hown2, fun m hm => ?_, hview2 n (by omega), a1, a2, ?_, ha2, hfresh1, hfresh2, hsep2⟩
  · exact (hview2 m (by omega)).trans (hview1 m hm)
  · show (w1.agents ++ [_])[n]? = _
    rw [List.getElem?_append_left (by omega)]
    exact ha1

/-- **Round trip, then continue = continue.**  Let `step` be a learning step as in `C07_same_future` (a function of
    the agent's own view, frame for the others, preserving `Inv`).  Save agent `i`, load the file with the
    generated table into a new agent: original and restored agent have equal views after ANY sequence of identical
    batches. -/
theorem C07_source_translation_same_future {β} (lay : Layout) (hlay : lay.Savable .new) (junk : Nat → Nat → Nat)
    (learnStep : List (List Nat) → β → List (List Nat)) (step : World → Nat → β → World) (Inv : World → Prop)
    (hInv : ∀ w i b, Inv w → Inv (step w i b))
    (hOwn : ∀ w i b, Inv w → view (step w i b) i = (view w i).map (fun v => learnStep v b))
    (hFrame : ∀ w i m b, Inv w → m ≠ i → view (step w i b) m = view w m)
    (rules : List Rule) (w : World) (hw : CReachable rules w) (i : Nat) (hi : i < w.agents.length) (b : Blob)
    (hs : save w i = some b) (hI : Inv (loadBy (genFate .new) junk lay w b)) (bs : List β) :
    let w' := loadBy (genFate .new) junk lay w b
    let j := w.agents.length
    view (trainBoth step i j bs w') i = view (trainBoth step i j bs w') j := by
  intro w' j
  have h1 : view w' j = view w i := C07_source_translation_roundtrip_values lay hlay junk w i b hs w
  have h2 : view w' i = view w i := by
    obtain ⟨_, _, _, _, hview⟩ := C07_roundtrip_fresh rules w hw b (specOf (genFate .new) junk lay)
    exact hview i hi
  exact (C07_same_future learnStep step Inv hInv hOwn hFrame w' hI i j (by omega) (by rw [h1, h2]) bs).1

/-- the order facts the repaired code relies on, read off the GENERATED phase lists of both load paths: networks
    are rebuilt and bound before the hooks run, the hooks run before the weights and the detached tensors are
    written (so nothing a hook installs survives in place of a saved value), optimizers are rebuilt after the
    networks and their state is loaded after that, the remaining attributes come last -/
theorem C07_source_translation_phase_order :
    ∀ l ∈ [CkptGen.load_checkpoint_phases, CkptGen.load_phases],
      ∀ ab ∈ [(CkptGen.Phase.buildNetworks, CkptGen.Phase.setNetworks), (.setNetworks, .hook), (.hook, .loadWeights),
              (.hook, .loadDetached), (.setNetworks, .buildOptimizers), (.buildOptimizers, .loadOptState),
              (.loadOptState, .setAttributes), (.loadWeights, .setAttributes)],
        ab.1 ∈ l ∧ ab.2 ∈ l ∧ l.idxOf ab.1 < l.idxOf ab.2 := by
  decide +kernel

/-- the table matters: a load path that never loads the optimizer state (fate `lost` for `optState`, everything
    else as generated) does NOT give back the saved view -/
theorem C07_source_translation_table_matters :
    let f : Cls → Part → Fate := fun c q => if q = .optState then .lost else genFate .new c q
    let lay : Layout := [(.evolvable .evolvableModule, [.weights, .detached]), (.evolvable .optimizerWrapper, [.optState])]
    let w := World.init [Rule.fresh, Rule.fresh] [2, 1]
    ∃ b, save w 0 = some b ∧ view (loadBy f (fun _ _ => 900) lay w b) 1 ≠ view w 0 ∧
      view (loadBy (genFate .new) (fun _ _ => 900) lay w b) 1 = view w 0 := by
  decide +kernel

/-- non-vacuity: a concrete savable layout (network with detached tensors, optimizer, list, wrapper attribute) -/
example : Layout.Savable .new
    [(.evolvable .evolvableModule, [.weights, .detached]), (.evolvable .optimizerWrapper, [.optState]),
     (.plain, [.value]), (.wrapperAttr, [.value])] := by
  intro cp hcp
  simp only [List.mem_cons, List.not_mem_nil, or_false] at hcp
  rcases hcp with rfl | rfl | rfl | rfl <;> decide

end HeapCkpt
