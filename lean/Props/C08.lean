import Proofs.BellmanLemmas
import Proofs.BellmanGenEq
import Proofs.BellmanShapeGenEq

/-!
# C08 — value-based learning uses the Bellman target and really tracks its target network

Model: `Model/Bellman.lean`.  Network outputs, the optimiser, the CQL regulariser and the
target-policy noise are *inputs*; the theorems are about what the learners compute from them:

* a transition marked done never lets its next observation influence the loss
  (`C08_done_masks_next*`, for every learner and every batch),
* the loss of each learner is the stated function of the network outputs
  (`C08_loss_is_definition_*`),
* `soft_update` makes every target weight `τ·online + (1−τ)·previous` — one step, `n` steps in
  closed form, `τ = 1`, and "it really moves" (`C08_soft_update_*`),
* the delayed learners move their targets exactly on the learn steps whose incremented counter
  is a multiple of `policy_freq` (`C08_delay_schedule`).

Everything is over exact rationals, for all batches / weight vectors / step counts.

`C08_source_translation_*` (last section): the same statements over the definitions that
`harness/py2lean_bellman.py` generates on every run from the SOURCE TEXT of the seven learners
(`Gen/BellmanGen.lean`; equalities with this model in `Proofs/BellmanGenEq.lean`).
-/
namespace Bellman

/-! ## done masks the next observation -/

/-- `d = 1` ⇒ the target is the reward, whatever the target network says about `s'` -/
theorem C08_done_masks_next (r γ q' q'' : Rat) :
    y r γ 1 q' = r ∧ y r γ 1 q' = y r γ 1 q'' := by
  rw [y_done, y_done]; exact ⟨rfl, rfl⟩

/-- lifted to batches of targets: rows that agree except for the (online and target) next-state
    values of done rows have the same targets, under the max and the double-Q selector -/
theorem C08_done_masks_next_targets (γ : Rat) (as bs : List QRow)
    (h : List.Forall₂ QRow.SameButDoneNext as bs) :
    targetsDQN γ as = targetsDQN γ bs ∧ targetsDouble γ as = targetsDouble γ bs := by
  constructor
  · refine map_congr_forall₂ _ _ ?_ as bs h
    rintro a b ⟨hr, hd, _, hn⟩
    rw [hr, hd]
    exact y_congr_done _ _ _ _ _ (fun hne => by rw [(hn (hd ▸ hne)).2])
  · refine map_congr_forall₂ _ _ ?_ as bs h
    rintro a b ⟨hr, hd, _, hn⟩
    rw [hr, hd]
    exact y_congr_done _ _ _ _ _ (fun hne => by rw [(hn (hd ▸ hne)).1, (hn (hd ▸ hne)).2])

/-- … and to the loss of DQN (plain and double) and CQN -/
theorem C08_done_masks_next_loss_dqn (γ : Rat) (as bs : List QRow)
    (h : List.Forall₂ QRow.SameButDoneNext as bs) :
    lossDQN γ as = lossDQN γ bs ∧ lossDouble γ as = lossDouble γ bs ∧
    ∀ dbl cql, lossCQN dbl cql γ as = lossCQN dbl cql γ bs := by
  obtain ⟨h1, h2⟩ := C08_done_masks_next_targets γ as bs h
  have hq : as.map (·.q) = bs.map (·.q) :=
    map_congr_forall₂ _ _ (fun a b hab => hab.2.2.1) as bs h
  have e1 : lossDQN γ as = lossDQN γ bs := by unfold lossDQN; rw [h1, hq]
  have e2 : lossDouble γ as = lossDouble γ bs := by unfold lossDouble; rw [h2, hq]
  refine ⟨e1, e2, ?_⟩
  intro dbl cql; unfold lossCQN; rw [e1, e2]

/-- … of DDPG -/
theorem C08_done_masks_next_loss_ddpg (γ : Rat) (as bs : List CRow)
    (h : List.Forall₂ CRow.SameButDoneNext as bs) : lossDDPG γ as = lossDDPG γ bs := by
  have ht : targetsDDPG γ as = targetsDDPG γ bs := by
    refine map_congr_forall₂ _ _ ?_ as bs h
    rintro a b ⟨hr, hd, _, hn⟩
    rw [hr, hd]
    exact y_congr_done _ _ _ _ _ (fun hne => hn (hd ▸ hne))
  have hq : as.map (·.q) = bs.map (·.q) :=
    map_congr_forall₂ _ _ (fun a b hab => hab.2.2.1) as bs h
  unfold lossDDPG; rw [ht, hq]

/-- … of TD3 (twin minimum) -/
theorem C08_done_masks_next_loss_td3 (γ : Rat) (as bs : List TRow)
    (h : List.Forall₂ TRow.SameButDoneNext as bs) : lossTD3 γ as = lossTD3 γ bs := by
  have ht : targetsTD3 γ as = targetsTD3 γ bs := by
    refine map_congr_forall₂ _ _ ?_ as bs h
    rintro a b ⟨hr, hd, _, _, hn⟩
    rw [hr, hd]
    exact y_congr_done _ _ _ _ _ (fun hne => by rw [(hn (hd ▸ hne)).1, (hn (hd ▸ hne)).2])
  have hq1 : as.map (·.q1) = bs.map (·.q1) :=
    map_congr_forall₂ _ _ (fun a b hab => hab.2.2.1) as bs h
  have hq2 : as.map (·.q2) = bs.map (·.q2) :=
    map_congr_forall₂ _ _ (fun a b hab => hab.2.2.2.1) as bs h
  unfold lossTD3; rw [ht, hq1, hq2]

/-- … and of the multi-agent learners, agent by agent -/
theorem C08_done_masks_next_loss_multi_agent (γ : Rat) :
    (∀ as bs : List (List CRow), List.Forall₂ (List.Forall₂ CRow.SameButDoneNext) as bs →
      lossMADDPG γ as = lossMADDPG γ bs) ∧
    (∀ as bs : List (List TRow), List.Forall₂ (List.Forall₂ TRow.SameButDoneNext) as bs →
      lossMATD3 γ as = lossMATD3 γ bs) :=
  ⟨fun as bs h => map_congr_forall₂ _ _ (fun a b => C08_done_masks_next_loss_ddpg γ a b) as bs h,
   fun as bs h => map_congr_forall₂ _ _ (fun a b => C08_done_masks_next_loss_td3 γ a b) as bs h⟩

/-! ## the loss each learner minimises -/

/-- DQN (`double=False`): the mean over the batch of
    `(Q(s,a) − (r + γ(1−d)·max_a' Q⁻(s',a')))²`, where the max really is the greatest of the
    target network's values at `s'` -/
theorem C08_loss_is_definition_dqn (γ : Rat) (rows : List QRow) :
    lossDQN γ rows =
      (rows.map (fun t => (t.q - (t.r + γ * (1 - t.d) * maxL t.nextTg)) ^ 2)).sum
        / (rows.length : Rat) ∧
    ∀ t ∈ rows, t.nextTg ≠ [] → maxL t.nextTg ∈ t.nextTg ∧ ∀ x ∈ t.nextTg, x ≤ maxL t.nextTg := by
  constructor
  · unfold lossDQN targetsDQN; rw [mse_map]; simp only [y, sq]
  · intro t _ hne; exact ⟨maxL_mem _ hne, le_maxL _⟩

/-- double DQN: the bootstrap value is the TARGET network's value at the ONLINE network's
    greedy action (the first maximal one) -/
theorem C08_loss_is_definition_double (γ : Rat) (rows : List QRow) :
    lossDouble γ rows =
      (rows.map (fun t =>
        (t.q - (t.r + γ * (1 - t.d) * gather t.nextTg (argmaxL t.nextOn))) ^ 2)).sum
        / (rows.length : Rat) ∧
    ∀ t ∈ rows, t.nextOn ≠ [] →
      argmaxL t.nextOn < t.nextOn.length ∧
      (∀ x ∈ t.nextOn, x ≤ gather t.nextOn (argmaxL t.nextOn)) ∧
      (∀ j < argmaxL t.nextOn, gather t.nextOn j < gather t.nextOn (argmaxL t.nextOn)) := by
  constructor
  · unfold lossDouble targetsDouble; rw [mse_map]; simp only [y, sq]
  · intro t _ hne
    refine ⟨argmaxL_lt _ hne, ?_, ?_⟩
    · intro x hx; rw [gather_argmaxL _ hne]; exact le_maxL _ _ hx
    · intro j hj; rw [gather_argmaxL _ hne]; exact before_argmaxL_lt _ _ hj

/-- CQN: what `learn` returns is the (opaque) CQL regulariser plus HALF the mean squared TD
    error, with the same target as DQN (plain or double) -/
theorem C08_loss_is_definition_cqn_td (cql γ : Rat) (rows : List QRow) :
    lossCQN false cql γ rows = cql + (1 / 2) *
      ((rows.map (fun t => (t.q - (t.r + γ * (1 - t.d) * maxL t.nextTg)) ^ 2)).sum
        / (rows.length : Rat)) ∧
    lossCQN true cql γ rows = cql + (1 / 2) *
      ((rows.map (fun t =>
        (t.q - (t.r + γ * (1 - t.d) * gather t.nextTg (argmaxL t.nextOn))) ^ 2)).sum
        / (rows.length : Rat)) := by
  unfold lossCQN
  rw [(C08_loss_is_definition_dqn γ rows).1, (C08_loss_is_definition_double γ rows).1]
  exact ⟨by simp, by simp⟩

/-- DDPG critic loss: mean of `(Q(s,a) − (r + γ(1−d)·Q⁻(s', ·)))²` -/
theorem C08_loss_is_definition_ddpg (γ : Rat) (rows : List CRow) :
    lossDDPG γ rows =
      (rows.map (fun t => (t.q - (t.r + γ * (1 - t.d) * t.q')) ^ 2)).sum / (rows.length : Rat) := by
  unfold lossDDPG targetsDDPG; rw [mse_map]; simp only [y, sq]

/-- TD3 critic loss: both critics regress on the same target built from the smaller of the two
    target critics -/
theorem C08_loss_is_definition_td3 (γ : Rat) (rows : List TRow) :
    lossTD3 γ rows =
      (rows.map (fun t => (t.q1 - (t.r + γ * (1 - t.d) * rmin t.n1 t.n2)) ^ 2)).sum
          / (rows.length : Rat) +
      (rows.map (fun t => (t.q2 - (t.r + γ * (1 - t.d) * rmin t.n1 t.n2)) ^ 2)).sum
          / (rows.length : Rat) ∧
    ∀ a b : Rat, rmin a b ≤ a ∧ rmin a b ≤ b ∧ (rmin a b = a ∨ rmin a b = b) := by
  constructor
  · unfold lossTD3 targetsTD3; rw [mse_map, mse_map]; simp only [y, sq]
  · intro a b; exact ⟨rmin_le_left a b, rmin_le_right a b, rmin_eq_or a b⟩

/-- MADDPG: one loss per agent; agent `i`'s loss is the DDPG loss of ITS rows (its reward, its
    done flag, its centralised critic and target critic) and of nothing else -/
theorem C08_loss_is_definition_maddpg (γ : Rat) (agents : List (List CRow)) :
    (lossMADDPG γ agents).length = agents.length ∧
    ∀ (i : Nat) (rows : List _), agents[i]? = some rows →
      (lossMADDPG γ agents)[i]? = some
        ((rows.map (fun t => (t.q - (t.r + γ * (1 - t.d) * t.q')) ^ 2)).sum
          / (rows.length : Rat)) := by
  constructor
  · simp [lossMADDPG]
  · intro i rows h
    simp only [lossMADDPG, List.getElem?_map, h, Option.map_some]
    rw [C08_loss_is_definition_ddpg]

/-- MATD3: per agent the TD3 loss of its own rows -/
theorem C08_loss_is_definition_matd3 (γ : Rat) (agents : List (List TRow)) :
    (lossMATD3 γ agents).length = agents.length ∧
    ∀ (i : Nat) (rows : List _), agents[i]? = some rows →
      (lossMATD3 γ agents)[i]? = some
        ((rows.map (fun t => (t.q1 - (t.r + γ * (1 - t.d) * rmin t.n1 t.n2)) ^ 2)).sum
            / (rows.length : Rat) +
         (rows.map (fun t => (t.q2 - (t.r + γ * (1 - t.d) * rmin t.n1 t.n2)) ^ 2)).sum
            / (rows.length : Rat)) := by
  constructor
  · simp [lossMATD3]
  · intro i rows h
    simp only [lossMATD3, List.getElem?_map, h, Option.map_some]
    rw [(C08_loss_is_definition_td3 γ rows).1]

/-! ## target tracking -/

/-- one soft update: every weight the zip reaches becomes `τ·online + (1−τ)·previous`, and the
    zip reaches exactly the positions both lists have -/
theorem C08_soft_update_step (τ : Rat) (θ θt : List Rat) :
    (blend τ θ θt).length = min θ.length θt.length ∧
    ∀ (i : Nat) (e t : Rat), θ[i]? = some e → θt[i]? = some t →
      (blend τ θ θt)[i]? = some (τ * e + (1 - τ) * t) :=
  ⟨blend_length τ θ θt, fun i e t he ht => blend_getElem? τ θ θt i e t he ht⟩

/-- the vacuity the existing tests have: a target that exposes no tensors to the zip is not
    updated at all, however many soft updates are run -/
theorem C08_soft_update_needs_exposed_tensors (τ : Rat) (θ : List Rat) (n : Nat) :
    blend τ θ [] = [] ∧ softN τ θ n [] = [] := by
  constructor
  · simp [blend]
  · induction n with
    | zero => rfl
    | succ n ih => simp [softN, ih, blend]

/-- `n` soft updates towards fixed online weights: `θ⁻ₙ = θ + (1−τ)ⁿ (θ⁻₀ − θ)` -/
theorem C08_soft_update_n (τ : Rat) (θ θt : List Rat) (h : θ.length = θt.length) (n : Nat) :
    softN τ θ n θt = closedN τ θ n θt ∧
    ∀ (i : Nat) (e t : Rat), θ[i]? = some e → θt[i]? = some t →
      (softN τ θ n θt)[i]? = some (e + (1 - τ) ^ n * (t - e)) := by
  refine ⟨softN_eq_closedN τ θ θt h n, ?_⟩
  intro i e t he ht
  rw [softN_eq_closedN τ θ θt h n]
  exact closedN_getElem? τ θ θt n i e t he ht

/-- `τ = 1` is the hard update: the target becomes the online network -/
theorem C08_soft_update_tau_one (θ θt : List Rat) (h : θ.length = θt.length) :
    blend 1 θ θt = θ ∧ ∀ n, softN 1 θ (n + 1) θt = θ := by
  refine ⟨blend_one θ θt h, ?_⟩
  intro n
  induction n with
  | zero => exact blend_one θ θt h
  | succ n ih =>
    show blend 1 θ (softN 1 θ (n + 1) θt) = θ
    rw [ih]; exact blend_one θ θ rfl

/-- targets really move: with `τ ≠ 0` a weight stays where it was only if it already equalled
    the online weight -/
theorem C08_soft_update_moves (τ e t : Rat) (hτ : τ ≠ 0) :
    τ * e + (1 - τ) * t = t ↔ e = t := by
  constructor
  · intro h
    have h2 : τ * (e - t) = 0 := by linarith
    rcases mul_eq_zero.mp h2 with h3 | h3
    · exact absurd h3 hτ
    · linarith
  · rintro rfl; ring

/-- the policy-delay schedule (`learn_counter += 1; if learn_counter % policy_freq == 0`):
    a learn step entered with counter `c` moves the targets iff `(c+1) % policy_freq = 0`, and
    then by exactly one soft update; the counter always advances by one; with fixed online
    weights, after `n` steps the targets have received exactly `(c+n)/pf − c/pf` soft updates
    (from a fresh agent: `n / policy_freq`) -/
theorem C08_delay_schedule (pf : Nat) (τ : Rat) :
    (∀ c θ t, runTargets pf τ c [θ] t =
        (c + 1, if (c + 1) % pf = 0 then blend τ θ t else t)) ∧
    (∀ θs c t, (runTargets pf τ c θs t).1 = c + θs.length) ∧
    (∀ θ n c t, (runTargets pf τ c (List.replicate n θ) t).2 =
        softN τ θ ((c + n) / pf - c / pf) t) ∧
    (∀ θ n t, (runTargets pf τ 0 (List.replicate n θ) t).2 = softN τ θ (n / pf) t) ∧
    (∀ n c, sched pf c n = (List.range n).map (fun i => decide ((c + i + 1) % pf = 0))) := by
  refine ⟨?_, fun θs c t => runTargets_counter pf τ θs c t,
          fun θ n c t => runTargets_fixed pf τ θ n c t, ?_, ?_⟩
  · intro c θ t
    simp only [runTargets, fires, beq_iff_eq]
  · intro θ n t
    have := runTargets_fixed pf τ θ n 0 t
    simpa using this
  · intro n
    induction n with
    | zero => intro c; rfl
    | succ n ih =>
      intro c
      rw [List.range_succ_eq_map]
      simp only [sched, List.map_cons, List.map_map, ih (c + 1)]
      congr 1
      apply List.map_congr_left
      intro a _
      have : c + 1 + a + 1 = c + Nat.succ a + 1 := by omega
      simp only [Function.comp, this]

/-- with `policy_freq = 1` (and for the learners without delay) every learn step moves the targets -/
theorem C08_delay_schedule_every_step (τ : Rat) (c : Nat) (θ t : List Rat) :
    runTargets 1 τ c [θ] t = (c + 1, blend τ θ t) := by
  simp [runTargets, fires, Nat.mod_one]

/-! ## non-vacuity: concrete batches, weights and schedules -/

-- two rows, the second one done: its next-state values (5, 7) do not enter
example : lossDQN (1/2) [⟨1, 0, 1, [], [2, 3]⟩, ⟨0, 1, 2, [], [5, 7]⟩] = 25/8 := by decide +kernel
example : lossDQN (1/2) [⟨1, 0, 1, [], [2, 3]⟩, ⟨0, 1, 2, [], [-40, 1000]⟩] = 25/8 := by
  decide +kernel
example : List.Forall₂ QRow.SameButDoneNext
    [⟨1, 0, 1, [], [2, 3]⟩, ⟨0, 1, 2, [], [5, 7]⟩] [⟨1, 0, 1, [], [2, 3]⟩, ⟨0, 1, 2, [], [-40, 1000]⟩] := by
  refine .cons ⟨rfl, rfl, rfl, fun _ => ⟨rfl, rfl⟩⟩ (.cons ⟨rfl, rfl, rfl, fun h => absurd rfl h⟩ .nil)
-- … but a live row's next-state values do
example : lossDQN (1/2) [⟨1, 0, 1, [], [2, 5]⟩, ⟨0, 1, 2, [], [5, 7]⟩] ≠ 25/8 := by decide +kernel
-- double-Q: online prefers action 1, whose target value is 1 (not the target's max 9)
example : lossDouble (1/2) [⟨1, 0, 1, [2, 3], [9, 1]⟩] = 1/4 := by decide +kernel
example : lossDQN (1/2) [⟨1, 0, 1, [2, 3], [9, 1]⟩] = 81/4 := by decide +kernel
example : argmaxL [3, 7, 7, 1] = 1 := by decide +kernel
-- twin minimum
example : lossTD3 1 [⟨0, 0, 1, 2, 5, 3⟩] = (1 - 3) ^ 2 + (2 - 3) ^ 2 := by decide +kernel
example : lossMADDPG 1 [[⟨1, 0, 1, 2⟩], [⟨0, 1, 3, 100⟩]] = [4, 9] := by decide +kernel
example : lossCQN false 7 (1/2) [⟨1, 0, 1, [], [2, 3]⟩, ⟨0, 1, 2, [], [5, 7]⟩] = 7 + 25/16 := by
  decide +kernel
-- soft update
example : blend (1/4) [1, 2] [5, 6] = [4, 5] := by decide +kernel
example : softN (1/2) [0, 0] 3 [8, 16] = [1, 2] ∧ closedN (1/2) [0, 0] 3 [8, 16] = [1, 2] := by
  decide +kernel
example : blend 1 [1, 2] [5, 6] = [1, 2] := by decide +kernel
-- policy delay 3 from a fresh agent: steps 3 and 6 move the targets
example : sched 3 0 7 = [false, false, true, false, false, true, false] := by decide +kernel
example : (runTargets 2 (1/2) 0 [[0], [0], [0], [0]] [8]).2 = [2] := by decide +kernel
example : (runTargets 1 (1/2) 0 [[0], [0], [0], [0]] [8]).2 = [1/2] := by decide +kernel

/-! ## source translation: the theorems over the definitions generated from /repo's source text

`BellmanGen.<Learner>.{soft_update, updates_on, learn_nets, target, pred}` are generated from
`agilerl/algorithms/{dqn,cqn,dqn_rainbow,ddpg,td3,maddpg,matd3}.py` on every run.  The inputs of
`target` are passed by the NAMES the translator derives from the source (which network, evaluated on
what), so these statements also pin that the bootstrap value comes from the TARGET network(s) at
the NEXT observation. -/

open BellmanGen in
/-- in the source of every learner the Bellman target of a row marked done is its reward, whatever
    the networks say about the next observation (DQN / CQN plain and double, DDPG, TD3, and per
    agent MADDPG, MATD3) -/
theorem C08_source_translation_done_masks_next (γ r : Rat) :
    (∀ dbl on tg on' tg',
      DQN.target (self_double := dbl) (self_gamma := γ) (reward := r) (done := 1)
        (actor_of_next_obs := on) (actor_target_of_next_obs := tg) = r ∧
      DQN.target (self_double := dbl) (self_gamma := γ) (reward := r) (done := 1)
        (actor_of_next_obs := on) (actor_target_of_next_obs := tg) =
      DQN.target (self_double := dbl) (self_gamma := γ) (reward := r) (done := 1)
        (actor_of_next_obs := on') (actor_target_of_next_obs := tg')) ∧
    (∀ dbl on tg on' tg',
      CQN.target (self_double := dbl) (self_gamma := γ) (reward := r) (done := 1)
        (actor_of_next_obs := on) (actor_target_of_next_obs := tg) = r ∧
      CQN.target (self_double := dbl) (self_gamma := γ) (reward := r) (done := 1)
        (actor_of_next_obs := on) (actor_target_of_next_obs := tg) =
      CQN.target (self_double := dbl) (self_gamma := γ) (reward := r) (done := 1)
        (actor_of_next_obs := on') (actor_target_of_next_obs := tg')) ∧
    (∀ q q',
      DDPG.target (self_gamma := γ) (reward := r) (done := 1)
        (critic_target_of_actor_target_next_obs := q) = r ∧
      DDPG.target (self_gamma := γ) (reward := r) (done := 1)
        (critic_target_of_actor_target_next_obs := q) =
      DDPG.target (self_gamma := γ) (reward := r) (done := 1)
        (critic_target_of_actor_target_next_obs := q')) ∧
    (∀ n1 n2 n1' n2',
      TD3.target (self_gamma := γ) (reward := r) (done := 1)
        (critic_target_1_of_actor_target_next_obs := n1)
        (critic_target_2_of_actor_target_next_obs := n2) = r ∧
      TD3.target (self_gamma := γ) (reward := r) (done := 1)
        (critic_target_1_of_actor_target_next_obs := n1)
        (critic_target_2_of_actor_target_next_obs := n2) =
      TD3.target (self_gamma := γ) (reward := r) (done := 1)
        (critic_target_1_of_actor_target_next_obs := n1')
        (critic_target_2_of_actor_target_next_obs := n2')) ∧
    (∀ q q',
      MADDPG.target (self_gamma := γ) (reward_i := r) (done_i := 1)
        (critic_targets_i_of_actor_targets_next_obs := q) = r ∧
      MADDPG.target (self_gamma := γ) (reward_i := r) (done_i := 1)
        (critic_targets_i_of_actor_targets_next_obs := q) =
      MADDPG.target (self_gamma := γ) (reward_i := r) (done_i := 1)
        (critic_targets_i_of_actor_targets_next_obs := q')) ∧
    (∀ n1 n2 n1' n2',
      MATD3.target (self_gamma := γ) (reward_i := r) (done_i := 1)
        (critic_targets_1_i_of_actor_targets_next_obs := n1)
        (critic_targets_2_i_of_actor_targets_next_obs := n2) = r ∧
      MATD3.target (self_gamma := γ) (reward_i := r) (done_i := 1)
        (critic_targets_1_i_of_actor_targets_next_obs := n1)
        (critic_targets_2_i_of_actor_targets_next_obs := n2) =
      MATD3.target (self_gamma := γ) (reward_i := r) (done_i := 1)
        (critic_targets_1_i_of_actor_targets_next_obs := n1')
        (critic_targets_2_i_of_actor_targets_next_obs := n2')) := by
  refine ⟨?_, ?_, ?_, ?_, ?_, ?_⟩ <;> intros <;>
    simp only [gen_dqn_target_eq, gen_cqn_target_eq, gen_ddpg_target_eq, gen_td3_target_eq,
      gen_maddpg_target_eq, gen_matd3_target_eq, y_done, and_self]

open BellmanGen in
/-- the target the source of each learner hands to its loss IS the Bellman target
    `r + γ(1−d)·q'`, with `q'` = the greatest target-network value (DQN / CQN), the target
    network's value at the online network's first greedy action (double), the target critic's
    value (DDPG; MADDPG per agent with ITS reward and done flag), the smaller of the twin target
    critics (TD3; MATD3 per agent); and the prediction it is compared with is the ONLINE
    network's value (at the action taken for DQN / CQN) -/
theorem C08_source_translation_target_is_bellman (γ r d : Rat) :
    (∀ on tg,
      DQN.target (self_double := false) (self_gamma := γ) (reward := r) (done := d)
        (actor_of_next_obs := on) (actor_target_of_next_obs := tg) = r + γ * (1 - d) * maxL tg ∧
      DQN.target (self_double := true) (self_gamma := γ) (reward := r) (done := d)
        (actor_of_next_obs := on) (actor_target_of_next_obs := tg)
          = r + γ * (1 - d) * gather tg (argmaxL on) ∧
      CQN.target (self_double := false) (self_gamma := γ) (reward := r) (done := d)
        (actor_of_next_obs := on) (actor_target_of_next_obs := tg) = r + γ * (1 - d) * maxL tg ∧
      CQN.target (self_double := true) (self_gamma := γ) (reward := r) (done := d)
        (actor_of_next_obs := on) (actor_target_of_next_obs := tg)
          = r + γ * (1 - d) * gather tg (argmaxL on)) ∧
    (∀ q',
      DDPG.target (self_gamma := γ) (reward := r) (done := d)
        (critic_target_of_actor_target_next_obs := q') = r + γ * (1 - d) * q' ∧
      MADDPG.target (self_gamma := γ) (reward_i := r) (done_i := d)
        (critic_targets_i_of_actor_targets_next_obs := q') = r + γ * (1 - d) * q') ∧
    (∀ n1 n2,
      TD3.target (self_gamma := γ) (reward := r) (done := d)
        (critic_target_1_of_actor_target_next_obs := n1)
        (critic_target_2_of_actor_target_next_obs := n2) = r + γ * (1 - d) * rmin n1 n2 ∧
      MATD3.target (self_gamma := γ) (reward_i := r) (done_i := d)
        (critic_targets_1_i_of_actor_targets_next_obs := n1)
        (critic_targets_2_i_of_actor_targets_next_obs := n2) = r + γ * (1 - d) * rmin n1 n2) ∧
    (∀ (a : Rat) (q : List Rat),
      DQN.pred (action := a) (actor_of_obs := q) = gather q a.floor.toNat ∧
      CQN.pred (action := a) (actor_of_obs := q) = gather q a.floor.toNat) ∧
    (∀ q : Rat,
      DDPG.pred (critic_of_action_obs := q) = q ∧ TD3.pred (critic_1_of_action_obs := q) = q ∧
      TD3.pred1 (critic_2_of_action_obs := q) = q ∧ MADDPG.pred (critics_i_of_action_obs := q) = q ∧
      MATD3.pred (critics_1_i_of_action_obs := q) = q ∧
      MATD3.pred1 (critics_2_i_of_action_obs := q) = q) := by
  refine ⟨?_, ?_, ?_, ?_, fun q => ⟨gen_ddpg_pred_eq q, (gen_td3_pred_eq q q).1, (gen_td3_pred_eq q q).2,
    gen_maddpg_pred_eq q, (gen_matd3_pred_eq q q).1, (gen_matd3_pred_eq q q).2⟩⟩ <;> intros <;>
    simp only [gen_dqn_target_eq, gen_cqn_target_eq, gen_ddpg_target_eq, gen_td3_target_eq,
      gen_maddpg_target_eq, gen_matd3_target_eq, gen_dqn_pred_eq, gen_cqn_pred_eq,
      y, if_true, if_false, Bool.false_eq_true, and_self]

open BellmanGen in
/-- `soft_update` in the source of all seven learners: the network handed in (zipped) first is
    only read, every weight of the second becomes `τ·first + (1−τ)·previous` (equal numbers of
    weights; otherwise the weights the zip does not reach stay), position by position -/
theorem C08_source_translation_soft_update (τ : Rat) (θ θt : List Rat) (h : θ.length = θt.length) :
    DQN.soft_update (self_tau := τ) θ θt = (θ, blend τ θ θt) ∧
    CQN.soft_update (self_tau := τ) θ θt = (θ, blend τ θ θt) ∧
    Rainbow.soft_update (self_tau := τ) θ θt = (θ, blend τ θ θt) ∧
    DDPG.soft_update (self_tau := τ) θ θt = (θ, blend τ θ θt) ∧
    TD3.soft_update (self_tau := τ) θ θt = (θ, blend τ θ θt) ∧
    MADDPG.soft_update (self_tau := τ) θ θt = (θ, blend τ θ θt) ∧
    MATD3.soft_update (self_tau := τ) θ θt = (θ, blend τ θ θt) ∧
    ∀ (i : Nat) (e t : Rat), θ[i]? = some e → θt[i]? = some t →
      (DQN.soft_update (self_tau := τ) θ θt).2[i]? = some (τ * e + (1 - τ) * t) := by
  have hb := blendK_eq_blend τ θ θt (by omega)
  refine ⟨?_, ?_, ?_, ?_, ?_, ?_, ?_, ?_⟩
  · rw [gen_dqn_soft_update_eq, hb]
  · rw [gen_cqn_soft_update_eq, hb]
  · rw [gen_rainbow_soft_update_eq, hb]
  · rw [gen_ddpg_soft_update_eq, hb]
  · rw [gen_td3_soft_update_eq, hb]
  · rw [gen_maddpg_soft_update_eq, hb]
  · rw [gen_matd3_soft_update_eq, hb]
  · intro i e t he ht
    rw [gen_dqn_soft_update_eq, hb]
    exact blend_getElem? τ θ θt i e t he ht

open BellmanGen in
/-- which networks a learn step's soft updates touch, read off the source: exactly the TARGET
    entries of the learner's (online, target) pairs — every other entry of the network state,
    in particular every online network, is left as it was (single-agent learners; for the
    multi-agent ones see `gen_maddpg_soft_updates_eq`, `gen_matd3_soft_updates_eq`: for every
    agent `j < n_agents` and nothing else) -/
theorem C08_source_translation_soft_updates_frame (τ : Rat) (s : Nets) (a : String) (j : Nat) :
    (¬ (a = "actor_target" ∧ j = 0) →
      DQN.soft_updates (self_tau := τ) s a j = s a j ∧ CQN.soft_updates (self_tau := τ) s a j = s a j ∧
      Rainbow.soft_updates (self_tau := τ) s a j = s a j) ∧
    (¬ (a = "actor_target" ∧ j = 0) → ¬ (a = "critic_target" ∧ j = 0) →
      DDPG.soft_updates (self_tau := τ) s a j = s a j) ∧
    (¬ (a = "actor_target" ∧ j = 0) → ¬ (a = "critic_target_1" ∧ j = 0) →
      ¬ (a = "critic_target_2" ∧ j = 0) → TD3.soft_updates (self_tau := τ) s a j = s a j) ∧
    (∀ n, a ≠ "actor_targets" → a ≠ "critic_targets" →
      MADDPG.soft_updates (self_tau := τ) (n_agents := n) s a j = s a j) ∧
    (∀ n, a ≠ "actor_targets" → a ≠ "critic_targets_1" → a ≠ "critic_targets_2" →
      MATD3.soft_updates (self_tau := τ) (n_agents := n) s a j = s a j) := by
  refine ⟨?_, ?_, ?_, ?_, ?_⟩
  · intro h
    simp only [gen_dqn_soft_updates_eq, gen_cqn_soft_updates_eq, gen_rainbow_soft_updates_eq, Nets.put,
      if_neg h, and_self]
  · intro h1 h2
    simp only [gen_ddpg_soft_updates_eq, Nets.put, if_neg h1, if_neg h2]
  · intro h1 h2 h3
    simp only [gen_td3_soft_updates_eq, Nets.put, if_neg h1, if_neg h2, if_neg h3]
  · intro n h1 h2
    simp only [gen_maddpg_soft_updates_eq, maddpgAt, if_neg h1, if_neg h2, ite_self]
  · intro n h1 h2 h3
    simp only [gen_matd3_soft_updates_eq, matd3At, if_neg h1, if_neg h2, if_neg h3, ite_self]

open BellmanGen in
/-- the policy-delay condition as the source states it: DDPG and TD3 run their soft updates on
    the learn steps whose incremented `learn_counter` is a multiple of `policy_freq`; MATD3 decides
    on the incremented counter of the LAST agent of `agent_ids`; DQN, CQN, RainbowDQN and MADDPG
    update on every learn step; every counter advances by one per learn step -/
theorem C08_source_translation_delay_schedule (c pf : Nat) :
    (DDPG.updates_on (self_learn_counter := c) (self_policy_freq := pf) = true ↔ (c + 1) % pf = 0) ∧
    (TD3.updates_on (self_learn_counter := c) (self_policy_freq := pf) = true ↔ (c + 1) % pf = 0) ∧
    (MATD3.updates_on (self_learn_counter_last := c) (self_policy_freq := pf) = true ↔ (c + 1) % pf = 0) ∧
    DQN.updates_on = true ∧ CQN.updates_on = true ∧ Rainbow.updates_on = true ∧ MADDPG.updates_on = true ∧
    DDPG.learn_counter_after (self_learn_counter := c) = c + 1 ∧
    TD3.learn_counter_after (self_learn_counter := c) = c + 1 ∧
    MATD3.learn_counter_after (self_learn_counter_i := c) = c + 1 := by
  refine ⟨?_, ?_, ?_, ?_, ?_, ?_, ?_, gen_ddpg_learn_counter_after_eq c, gen_td3_learn_counter_after_eq c,
    gen_matd3_learn_counter_after_eq c⟩
  · rw [gen_ddpg_updates_on_eq]; exact fires_iff pf c
  · rw [gen_td3_updates_on_eq]; exact fires_iff pf c
  · rw [gen_matd3_updates_on_eq]; exact fires_iff pf c
  · rw [gen_dqn_updates_on_eq 0]; simp [fires]
  · rw [gen_cqn_updates_on_eq 0]; simp [fires]
  · rw [gen_rainbow_updates_on_eq 0]; simp [fires]
  · rw [gen_maddpg_updates_on_eq 0]; simp [fires]

open BellmanGen in
/-- target tracking over ANY number of consecutive learn steps of the generated code (the
    optimiser sets the online weights before each step; here they are held fixed at `θ`): for every
    (online, target) pair of every learner — for MADDPG / MATD3 for every agent `k < n_agents` — the
    step counter advances by `m`, and the target has received exactly `(c+m)/policy_freq − c/policy_freq`
    soft updates (`m` for the learners without delay), i.e. it equals
    `θ + (1−τ)^updates · (previous − θ)`.  For arbitrary online weights per step see
    `gen_*_run_eq` (= `runTargets` of the model). -/
theorem C08_source_translation_target_tracking (τ : Rat) (pf : Nat) (θ : List Rat) (m c : Nat) (s : Nets) :
    (θ.length = (s "actor_target" 0).length →
      (genRun (fun _ s => DQN.learn_nets (self_tau := τ) s) (fun c => c + 1) "actor" 0 c
        (List.replicate m θ) s).2 "actor_target" 0 = closedN τ θ m (s "actor_target" 0) ∧
      (genRun (fun _ s => CQN.learn_nets (self_tau := τ) s) (fun c => c + 1) "actor" 0 c
        (List.replicate m θ) s).2 "actor_target" 0 = closedN τ θ m (s "actor_target" 0) ∧
      (genRun (fun _ s => Rainbow.learn_nets (self_tau := τ) s) (fun c => c + 1) "actor" 0 c
        (List.replicate m θ) s).2 "actor_target" 0 = closedN τ θ m (s "actor_target" 0)) ∧
    (∀ p ∈ [("actor", "actor_target"), ("critic", "critic_target")], θ.length = (s p.2 0).length →
      (genRun (fun c s => DDPG.learn_nets (self_learn_counter := c) (self_policy_freq := pf) (self_tau := τ) s)
        (fun c => DDPG.learn_counter_after (self_learn_counter := c)) p.1 0 c (List.replicate m θ) s).1 = c + m ∧
      (genRun (fun c s => DDPG.learn_nets (self_learn_counter := c) (self_policy_freq := pf) (self_tau := τ) s)
        (fun c => DDPG.learn_counter_after (self_learn_counter := c)) p.1 0 c (List.replicate m θ) s).2 p.2 0
        = closedN τ θ ((c + m) / pf - c / pf) (s p.2 0)) ∧
    (∀ p ∈ [("actor", "actor_target"), ("critic_1", "critic_target_1"), ("critic_2", "critic_target_2")],
      θ.length = (s p.2 0).length →
      (genRun (fun c s => TD3.learn_nets (self_learn_counter := c) (self_policy_freq := pf) (self_tau := τ) s)
        (fun c => TD3.learn_counter_after (self_learn_counter := c)) p.1 0 c (List.replicate m θ) s).1 = c + m ∧
      (genRun (fun c s => TD3.learn_nets (self_learn_counter := c) (self_policy_freq := pf) (self_tau := τ) s)
        (fun c => TD3.learn_counter_after (self_learn_counter := c)) p.1 0 c (List.replicate m θ) s).2 p.2 0
        = closedN τ θ ((c + m) / pf - c / pf) (s p.2 0)) ∧
    (∀ n k, k < n → ∀ p ∈ [("actors", "actor_targets"), ("critics", "critic_targets")],
      θ.length = (s p.2 k).length →
      (genRun (fun _ s => MADDPG.learn_nets (self_tau := τ) (n_agents := n) s) (fun c => c + 1) p.1 k c
        (List.replicate m θ) s).2 p.2 k = closedN τ θ m (s p.2 k)) ∧
    (∀ n k, k < n → ∀ p ∈ [("actors", "actor_targets"), ("critics_1", "critic_targets_1"),
        ("critics_2", "critic_targets_2")], θ.length = (s p.2 k).length →
      (genRun (fun c s => MATD3.learn_nets (self_learn_counter_last := c) (self_policy_freq := pf)
          (self_tau := τ) (n_agents := n) s)
        (fun c => MATD3.learn_counter_after (self_learn_counter_i := c)) p.1 k c (List.replicate m θ) s).1 = c + m ∧
      (genRun (fun c s => MATD3.learn_nets (self_learn_counter_last := c) (self_policy_freq := pf)
          (self_tau := τ) (n_agents := n) s)
        (fun c => MATD3.learn_counter_after (self_learn_counter_i := c)) p.1 k c (List.replicate m θ) s).2 p.2 k
        = closedN τ θ ((c + m) / pf - c / pf) (s p.2 k)) := by
  have one : (c + m) / 1 - c / 1 = m := by simp
  refine ⟨?_, ?_, ?_, ?_, ?_⟩
  · intro h
    have h1 := (gen_dqn_run_fixed τ _ (List.mem_singleton.mpr rfl) θ m c s h).2.2
    have h2 := (gen_cqn_run_fixed τ _ (List.mem_singleton.mpr rfl) θ m c s h).2.2
    have h3 := (gen_rainbow_run_fixed τ _ (List.mem_singleton.mpr rfl) θ m c s h).2.2
    rw [one] at h1 h2 h3
    exact ⟨h1, h2, h3⟩
  · intro p hp h
    have := gen_ddpg_run_fixed τ pf p hp θ m c s h
    exact ⟨this.1, this.2.2⟩
  · intro p hp h
    have := gen_td3_run_fixed τ pf p hp θ m c s h
    exact ⟨this.1, this.2.2⟩
  · intro n k hk p hp h
    have := (gen_maddpg_run_fixed τ n k hk p hp θ m c s h).2.2
    rw [one] at this
    exact this
  · intro n k hk p hp h
    have := gen_matd3_run_fixed τ pf n k hk p hp θ m c s h
    exact ⟨this.1, this.2.2⟩

-- non-vacuity of the source-translation statements: concrete weights, counters, rows (generated code evaluated)
example : BellmanGen.TD3.soft_update (1/4) [1, 2] [5, 6] = ([1, 2], [4, 5]) := by decide +kernel
example : (genRun (fun c s => BellmanGen.DDPG.learn_nets c 2 (1/2) s) (fun c => BellmanGen.DDPG.learn_counter_after c)
    "critic" 0 0 (List.replicate 4 [0]) (fun a _ => if a = "critic_target" then [8] else [1])).2 "critic_target" 0 = [2] := by
  decide +kernel
example : BellmanGen.MATD3.target 1 1 7 5 3 = 7 ∧ BellmanGen.MATD3.target 1 0 7 5 3 = 10 := by decide +kernel

set_option linter.unusedSimpArgs false

/-! ## shapes: the element-wise loss has exactly B entries, entry i built from row i only

`harness/py2lean_bellmanshape.py` executes `learn` of the six learners over tensor SHAPES with torch's broadcasting
rules (`Gen/BellmanShapeGen.lean`; equalities with `tdTargetShape` / `tdLossShape` in `Proofs/BellmanShapeGenEq.lean`).
The batch fields have the shapes the training loops deliver (`reward`, `done`, `action` : `(B, 1)`; checked against
`ReplayBuffer.sample` / `MultiAgentReplayBuffer.sample` by suite `shapes` of harness/c08.py), the network outputs are
`(B, A)` (Q-networks) and `(B, 1)` (critics). -/

open BellmanShapeGen in
/-- for every batch size B ≥ 1 and every number of actions A ≥ 1: in the SOURCE of all six learners prediction,
    target and element-wise loss are `(B, 1)` columns (no axis is enlarged by broadcasting: exactly B loss entries)
    and the loss is a 0-d tensor; DQN also for a flat `(B,)` action vector (its `if actions.ndim == 1` branch) -/
theorem C08_source_translation_loss_shapes (B A : Nat) (hA : 1 ≤ A) :
    (∀ dbl : Bool, ∀ act : Shape, act = [B, 1] ∨ act = [B] →
      DQN.pred_shape (self_double := dbl) (action := act) (reward := [B, 1]) (done := [B, 1])
        (actor_out := [B, A]) (actor_target_out := [B, A]) = some [B, 1] ∧
      DQN.target_shape (self_double := dbl) (action := act) (reward := [B, 1]) (done := [B, 1])
        (actor_out := [B, A]) (actor_target_out := [B, A]) = some [B, 1] ∧
      DQN.loss_elem_shape (self_double := dbl) (action := act) (reward := [B, 1]) (done := [B, 1])
        (actor_out := [B, A]) (actor_target_out := [B, A]) = some [B, 1] ∧
      DQN.loss_shape (self_double := dbl) (action := act) (reward := [B, 1]) (done := [B, 1])
        (actor_out := [B, A]) (actor_target_out := [B, A]) = some []) ∧
    (∀ dbl : Bool,
      CQN.pred_shape (self_double := dbl) (action := [B, 1]) (reward := [B, 1]) (done := [B, 1])
        (actor_out := [B, A]) (actor_target_out := [B, A]) = some [B, 1] ∧
      CQN.target_shape (self_double := dbl) (action := [B, 1]) (reward := [B, 1]) (done := [B, 1])
        (actor_out := [B, A]) (actor_target_out := [B, A]) = some [B, 1] ∧
      CQN.loss_elem_shape (self_double := dbl) (action := [B, 1]) (reward := [B, 1]) (done := [B, 1])
        (actor_out := [B, A]) (actor_target_out := [B, A]) = some [B, 1] ∧
      CQN.loss_shape (self_double := dbl) (action := [B, 1]) (reward := [B, 1]) (done := [B, 1])
        (actor_out := [B, A]) (actor_target_out := [B, A]) = some []) ∧
    (DDPG.pred_shape (reward := [B, 1]) (done := [B, 1]) (critic_out := [B, 1]) (critic_target_out := [B, 1])
        = some [B, 1] ∧
      DDPG.target_shape (reward := [B, 1]) (done := [B, 1]) (critic_out := [B, 1]) (critic_target_out := [B, 1])
        = some [B, 1] ∧
      DDPG.loss_elem_shape (reward := [B, 1]) (done := [B, 1]) (critic_out := [B, 1]) (critic_target_out := [B, 1])
        = some [B, 1] ∧
      DDPG.loss_shape (reward := [B, 1]) (done := [B, 1]) (critic_out := [B, 1]) (critic_target_out := [B, 1])
        = some []) ∧
    (MADDPG.pred_shape (reward := [B, 1]) (done := [B, 1]) (critics_out := [B, 1]) (critic_targets_out := [B, 1])
        = some [B, 1] ∧
      MADDPG.target_shape (reward := [B, 1]) (done := [B, 1]) (critics_out := [B, 1]) (critic_targets_out := [B, 1])
        = some [B, 1] ∧
      MADDPG.loss_elem_shape (reward := [B, 1]) (done := [B, 1]) (critics_out := [B, 1])
        (critic_targets_out := [B, 1]) = some [B, 1] ∧
      MADDPG.loss_shape (reward := [B, 1]) (done := [B, 1]) (critics_out := [B, 1]) (critic_targets_out := [B, 1])
        = some []) ∧
    (TD3.loss_elem_shape (reward := [B, 1]) (done := [B, 1]) (critic_1_out := [B, 1])
        (critic_target_1_out := [B, 1]) (critic_target_2_out := [B, 1]) = some [B, 1] ∧
      TD3.loss_elem1_shape (reward := [B, 1]) (done := [B, 1]) (critic_2_out := [B, 1])
        (critic_target_1_out := [B, 1]) (critic_target_2_out := [B, 1]) = some [B, 1] ∧
      TD3.target_shape (reward := [B, 1]) (done := [B, 1]) (critic_1_out := [B, 1])
        (critic_target_1_out := [B, 1]) (critic_target_2_out := [B, 1]) = some [B, 1] ∧
      TD3.target1_shape (reward := [B, 1]) (done := [B, 1]) (critic_2_out := [B, 1])
        (critic_target_1_out := [B, 1]) (critic_target_2_out := [B, 1]) = some [B, 1] ∧
      TD3.loss_shape (reward := [B, 1]) (done := [B, 1]) (critic_1_out := [B, 1])
        (critic_target_1_out := [B, 1]) (critic_target_2_out := [B, 1]) = some [] ∧
      TD3.loss1_shape (reward := [B, 1]) (done := [B, 1]) (critic_2_out := [B, 1])
        (critic_target_1_out := [B, 1]) (critic_target_2_out := [B, 1]) = some []) ∧
    (MATD3.loss_elem_shape (reward := [B, 1]) (done := [B, 1]) (critics_1_out := [B, 1])
        (critic_targets_1_out := [B, 1]) (critic_targets_2_out := [B, 1]) = some [B, 1] ∧
      MATD3.loss_elem1_shape (reward := [B, 1]) (done := [B, 1]) (critics_2_out := [B, 1])
        (critic_targets_1_out := [B, 1]) (critic_targets_2_out := [B, 1]) = some [B, 1] ∧
      MATD3.target_shape (reward := [B, 1]) (done := [B, 1]) (critics_1_out := [B, 1])
        (critic_targets_1_out := [B, 1]) (critic_targets_2_out := [B, 1]) = some [B, 1] ∧
      MATD3.target1_shape (reward := [B, 1]) (done := [B, 1]) (critics_2_out := [B, 1])
        (critic_targets_1_out := [B, 1]) (critic_targets_2_out := [B, 1]) = some [B, 1] ∧
      MATD3.loss_shape (reward := [B, 1]) (done := [B, 1]) (critics_1_out := [B, 1])
        (critic_targets_1_out := [B, 1]) (critic_targets_2_out := [B, 1]) = some [] ∧
      MATD3.loss1_shape (reward := [B, 1]) (done := [B, 1]) (critics_2_out := [B, 1])
        (critic_targets_1_out := [B, 1]) (critic_targets_2_out := [B, 1]) = some []) := by
  have hn := next_shapes B A hA
  have hg := gather_col B A hA
  have hu : Bellman.sUnsqueeze (-1) (some [B]) = some [B, 1] := by
    simp [Bellman.sUnsqueeze, Bellman.normDim, Bellman.insertAt]
  refine ⟨?_, ?_, ?_, ?_, ?_, ?_⟩
  · intro dbl act hact
    have hp : DQN.pred_shape (self_double := dbl) (action := act) (reward := [B, 1]) (done := [B, 1])
        (actor_out := [B, A]) (actor_target_out := [B, A]) = some [B, 1] := by
      rw [gen_dqn_pred_shape_eq]; rcases hact with h | h <;> subst h <;> simp [hu, hg]
    have ht : DQN.target_shape (self_double := dbl) (action := act) (reward := [B, 1]) (done := [B, 1])
        (actor_out := [B, A]) (actor_target_out := [B, A]) = some [B, 1] := by
      rw [gen_dqn_target_shape_eq]; cases dbl <;> simp [tdTargetShape, hn.1, hn.2, bcast_col_col]
    simp only [DQN.loss_shape, DQN.loss_elem_shape, hp, ht, gen_bcast_eq, gen_sAll_eq, bcast_col_col, Bellman.sAll,
      and_self]
  · intro dbl
    have hp : CQN.pred_shape (self_double := dbl) (action := [B, 1]) (reward := [B, 1]) (done := [B, 1])
        (actor_out := [B, A]) (actor_target_out := [B, A]) = some [B, 1] := by
      rw [gen_cqn_pred_shape_eq]; exact hg
    have ht : CQN.target_shape (self_double := dbl) (action := [B, 1]) (reward := [B, 1]) (done := [B, 1])
        (actor_out := [B, A]) (actor_target_out := [B, A]) = some [B, 1] := by
      rw [gen_cqn_target_shape_eq]; cases dbl <;> simp [tdTargetShape, hn.1, hn.2, bcast_col_col]
    simp only [CQN.loss_shape, CQN.loss_elem_shape, hp, ht, gen_bcast_eq, gen_sAll_eq, bcast_col_col, Bellman.sAll,
      and_self]
  · simp only [DDPG.loss_shape, DDPG.loss_elem_shape, (gen_ddpg_shapes_eq _ _ _ _).1, (gen_ddpg_shapes_eq _ _ _ _).2,
      tdTargetShape, gen_bcast_eq, gen_sAll_eq, bcast_col_col, Bellman.sAll, and_self]
  · simp only [MADDPG.loss_shape, MADDPG.loss_elem_shape, (gen_maddpg_shapes_eq _ _ _ _).1,
      (gen_maddpg_shapes_eq _ _ _ _).2, tdTargetShape, gen_bcast_eq, gen_sAll_eq, bcast_col_col, Bellman.sAll, and_self]
  · have h := gen_td3_shapes_eq [B, 1] [B, 1] [B, 1] [B, 1] [B, 1] [B, 1]
    simp only [TD3.loss_shape, TD3.loss_elem_shape, TD3.loss1_shape, TD3.loss_elem1_shape, h.1, h.2.1, h.2.2.1,
      h.2.2.2, tdTargetShape, gen_bcast_eq, gen_sAll_eq, bcast_col_col, Bellman.sAll, and_self]
  · have h := gen_matd3_shapes_eq [B, 1] [B, 1] [B, 1] [B, 1] [B, 1] [B, 1]
    simp only [MATD3.loss_shape, MATD3.loss_elem_shape, MATD3.loss1_shape, MATD3.loss_elem1_shape, h.1, h.2.1,
      h.2.2.1, h.2.2.2, tdTargetShape, gen_bcast_eq, gen_sAll_eq, bcast_col_col, Bellman.sAll, and_self]


open BellmanShapeGen in
/-- what the SAME source does with the other legal-looking layout: a flat `(B,)` reward (or done) vector against the
    `(B, 1)` network outputs is broadcast by torch to `(B, B)` in every learner — no error, B² loss entries -/
theorem C08_source_translation_flat_reward_broadcasts_witness (B A : Nat) (hA : 1 ≤ A) :
    (∀ dbl : Bool, ∀ r d : Shape, (r = [B] ∧ d = [B, 1]) ∨ (r = [B, 1] ∧ d = [B]) ∨ (r = [B] ∧ d = [B]) →
      DQN.loss_elem_shape (self_double := dbl) (action := [B, 1]) (reward := r) (done := d)
        (actor_out := [B, A]) (actor_target_out := [B, A]) = some [B, B] ∧
      CQN.loss_elem_shape (self_double := dbl) (action := [B, 1]) (reward := r) (done := d)
        (actor_out := [B, A]) (actor_target_out := [B, A]) = some [B, B] ∧
      DDPG.loss_elem_shape (reward := r) (done := d) (critic_out := [B, 1]) (critic_target_out := [B, 1])
        = some [B, B] ∧
      MADDPG.loss_elem_shape (reward := r) (done := d) (critics_out := [B, 1]) (critic_targets_out := [B, 1])
        = some [B, B] ∧
      TD3.loss_elem_shape (reward := r) (done := d) (critic_1_out := [B, 1])
        (critic_target_1_out := [B, 1]) (critic_target_2_out := [B, 1]) = some [B, B] ∧
      MATD3.loss_elem_shape (reward := r) (done := d) (critics_1_out := [B, 1])
        (critic_targets_1_out := [B, 1]) (critic_targets_2_out := [B, 1]) = some [B, B]) ∧
    (some [3, 3] : Option Shape) ≠ some [3, 1] ∧ Bellman.numel [3, 3] = 9 := by
  have hn := next_shapes B A hA
  have hg := gather_col B A hA
  have cf := bcast_col_flat B
  have sq := bcast_sq_col B
  refine ⟨?_, by decide, by decide⟩
  intro dbl r d h
  have hdq : DQN.pred_shape (self_double := dbl) (action := [B, 1]) (reward := r) (done := d)
      (actor_out := [B, A]) (actor_target_out := [B, A]) = some [B, 1] := by
    rw [gen_dqn_pred_shape_eq]; simp [hg]
  have hcq : CQN.pred_shape (self_double := dbl) (action := [B, 1]) (reward := r) (done := d)
      (actor_out := [B, A]) (actor_target_out := [B, A]) = some [B, 1] := by
    rw [gen_cqn_pred_shape_eq]; exact hg
  have h3 := gen_td3_shapes_eq r d [B, 1] [B, 1] [B, 1] [B, 1]
  have h4 := gen_matd3_shapes_eq r d [B, 1] [B, 1] [B, 1] [B, 1]
  simp only [DQN.loss_elem_shape, CQN.loss_elem_shape, DDPG.loss_elem_shape, MADDPG.loss_elem_shape,
    TD3.loss_elem_shape, MATD3.loss_elem_shape, hdq, hcq, gen_dqn_target_shape_eq, gen_cqn_target_shape_eq,
    (gen_ddpg_shapes_eq _ _ _ _).1, (gen_ddpg_shapes_eq _ _ _ _).2, (gen_maddpg_shapes_eq _ _ _ _).1,
    (gen_maddpg_shapes_eq _ _ _ _).2, h3.1, h3.2.2.1, h4.1, h4.2.2.1, gen_bcast_eq, tdTargetShape]
  rcases h with ⟨hr, hd⟩ | ⟨hr, hd⟩ | ⟨hr, hd⟩ <;> subst hr <;> subst hd <;> cases dbl <;>
    simp [hn.1, hn.2, cf.1, cf.2, sq.1, sq.2.1, sq.2.2.1, sq.2.2.2.1, sq.2.2.2.2, bcast_col_col, bcast_flat_flat]

/-- VALUES under broadcasting: the element-wise combination of a `(B, 1)` column with a `(B, 1)` column has B rows of
    one entry, and entry i is `f` of the i-th entries of the two columns — built from row i only -/
theorem C08_elementwise_loss_is_rowwise (f : Rat → Rat → Rat) (B : Nat) (p t : List Rat) :
    bzip2 f (some [B, 1]) p (some [B, 1]) t = (List.range B).map (fun i => [f (p.getD i 0) (t.getD i 0)]) := by
  unfold bzip2
  rw [bcast_col_col]
  simp only [List.range_one, List.map_cons, List.map_nil]
  apply List.map_congr_left
  intro i hi
  have hi' : i < B := List.mem_range.mp hi
  have : (if B = 1 then 0 else i) = i := by split <;> omega
  simp [bread, this]

open BellmanGen in
/-- composition with the per-row translation (`C08_source_translation_target_is_bellman`): with the shapes the
    SOURCE gives prediction and target (`Gen/BellmanShapeGen.lean`, for the batch layout the training loops deliver),
    the element-wise loss tensor of DQN / CQN / DDPG / TD3 (MADDPG, MATD3: per agent, same shapes) over a batch of B
    rows is, row by row, `(pred_i − target_i)²` of the generated per-row prediction and Bellman target of row i:
    exactly B entries, no row meets another row's target -/
theorem C08_source_translation_batch_loss_is_rowwise (γ : Rat) (A : Nat) (hA : 1 ≤ A) :
    (∀ (dbl : Bool) (rows : List (Rat × Rat × Rat × List Rat × List Rat × List Rat)),
      -- a row = (action, reward, done, Q(s), Q(s'), Q⁻(s'))
      let B := rows.length
      let pred := rows.map fun w => DQN.pred (action := w.1) (actor_of_obs := w.2.2.2.1)
      let tgt := rows.map fun w => DQN.target (self_double := dbl) (self_gamma := γ) (reward := w.2.1)
        (done := w.2.2.1) (actor_of_next_obs := w.2.2.2.2.1) (actor_target_of_next_obs := w.2.2.2.2.2)
      bzip2 sqErr
        (BellmanShapeGen.DQN.pred_shape (self_double := dbl) (action := [B, 1]) (reward := [B, 1]) (done := [B, 1])
          (actor_out := [B, A]) (actor_target_out := [B, A])) pred
        (BellmanShapeGen.DQN.target_shape (self_double := dbl) (action := [B, 1]) (reward := [B, 1]) (done := [B, 1])
          (actor_out := [B, A]) (actor_target_out := [B, A])) tgt
        = (List.range B).map fun i => [sqErr (pred.getD i 0) (tgt.getD i 0)]) ∧
    (∀ (rows : List (Rat × Rat × Rat × Rat)),
      -- a row = (reward, done, Q(s, a), Q⁻(s', π⁻(s')))
      let B := rows.length
      let pred := rows.map fun w => DDPG.pred (critic_of_action_obs := w.2.2.1)
      let tgt := rows.map fun w => DDPG.target (self_gamma := γ) (reward := w.1) (done := w.2.1)
        (critic_target_of_actor_target_next_obs := w.2.2.2)
      bzip2 sqErr
        (BellmanShapeGen.DDPG.pred_shape (reward := [B, 1]) (done := [B, 1]) (critic_out := [B, 1])
          (critic_target_out := [B, 1])) pred
        (BellmanShapeGen.DDPG.target_shape (reward := [B, 1]) (done := [B, 1]) (critic_out := [B, 1])
          (critic_target_out := [B, 1])) tgt
        = (List.range B).map fun i => [sqErr (pred.getD i 0) (tgt.getD i 0)]) := by
  refine ⟨?_, ?_⟩
  · intro dbl rows
    have h := (C08_source_translation_loss_shapes rows.length A hA).1 dbl [rows.length, 1] (Or.inl rfl)
    simp only [h.1, h.2.1, C08_elementwise_loss_is_rowwise]
  · intro rows
    have h := (C08_source_translation_loss_shapes rows.length A hA).2.2.1
    simp only [h.1, h.2.1, C08_elementwise_loss_is_rowwise]

/-- and this is what the flat layout would do to the VALUE: with a `(2,)` target against a `(2, 1)` prediction the
    "loss" pairs every sample with every target (4 entries) — a batch that the Bellman loss `mse` scores 0 gets 1/2 -/
theorem C08_flat_target_mixes_rows_witness :
    bzip2 sqErr (some [2, 1]) [0, 1] (some [2]) [0, 1] = [[0, 1], [1, 0]] ∧
    mseBroadcast (some [2, 1]) [0, 1] (some [2]) [0, 1] = 1 / 2 ∧ mse [0, 1] [0, 1] = 0 ∧
    mseBroadcast (some [2, 1]) [0, 1] (some [2, 1]) [0, 1] = mse [0, 1] [0, 1] := by
  have h1 : Bellman.bcast (some [2, 1]) (some [2]) = some [2, 2] := by decide
  have h2 : Bellman.bcast (some [2, 1]) (some [2, 1]) = some [2, 1] := by decide
  simp [bzip2, h1, h2, bread, sqErr, mseBroadcast, mse, List.range_succ]
  norm_num

end Bellman
