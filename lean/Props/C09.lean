import Mathlib.Data.List.Nodup
import Proofs.RingConv
import Proofs.RingGenEq
import Proofs.ReorgGenEq

/-!
# C09 — replay buffers hold exactly the most recent transitions, each one intact

Model: `Model/Ring.lean` (`Buf` = `ReplayBuffer`, `Deq` = the `deque(maxlen)` of
`MultiAgentReplayBuffer`).  Every theorem quantifies over *all* capacities and *all* sequences
of batched additions whose width does not exceed the capacity (the real code rejects wider ones).
-/
namespace Ring

/-- the buffer reached from empty by any sequence of (batched) additions -/
def run (cap : Nat) (ops : List (List Nat)) : Buf := ops.foldl Buf.add (Buf.empty cap)

/-- reported length = min(capacity, number added); cursor and counter follow the count -/
theorem C09_len_is_min (cap : Nat) (hpos : 0 < cap) (ops : List (List Nat))
    (hw : ∀ xs ∈ ops, xs.length ≤ cap) :
    (run cap ops).size = min ops.flatten.length cap ∧
    (run cap ops).cursor = ops.flatten.length % cap ∧
    (run cap ops).counter = ops.flatten.length ∧
    (run cap ops).store.length = cap := by
  obtain ⟨h, hc⟩ := inv_adds cap hpos ops hw
  unfold run
  refine ⟨?_, ?_, h.counter, ?_⟩
  · rw [h.size, hc]
  · rw [h.cursor, hc]
  · rw [h.len, hc]

/-- each of the last `min cap count` transitions is stored, the k-th one in slot `k mod cap` -/
theorem C09_recent_are_stored (cap : Nat) (hpos : 0 < cap) (ops : List (List Nat))
    (hw : ∀ xs ∈ ops, xs.length ≤ cap) (k : Nat) (hk : k < ops.flatten.length)
    (hrecent : ops.flatten.length - k ≤ cap) :
    (run cap ops).store[k % cap]? = some (some ops.flatten[k]) := by
  obtain ⟨h, hc⟩ := inv_adds cap hpos ops hw
  have := h.slots k hk (by rw [hc]; exact hrecent)
  rw [hc] at this; exact this

/-- nothing else is stored: every filled slot holds one of the last `cap` transitions -/
theorem C09_stored_are_recent (cap : Nat) (hpos : 0 < cap) (ops : List (List Nat))
    (hw : ∀ xs ∈ ops, xs.length ≤ cap) (j : Nat) (hj : j < (run cap ops).size) :
    ∃ k, ∃ hk : k < ops.flatten.length, ops.flatten.length - k ≤ cap ∧ k % cap = j ∧
      (run cap ops).store[j]? = some (some ops.flatten[k]) := by
  obtain ⟨_, hc⟩ := inv_adds cap hpos ops hw
  obtain ⟨k, hk, h1, h2, h3⟩ := conv_adds cap hpos ops hw j hj
  exact ⟨k, hk, by rw [← hc]; exact h1, by rw [← hc]; exact h2, h3⟩

/-- a uniform sample (a prefix of a permutation of the filled range) returns only stored,
    recent transitions and — when transition ids are distinct — no duplicates -/
theorem C09_sample_stored_distinct (cap : Nat) (hpos : 0 < cap) (ops : List (List Nat))
    (hw : ∀ xs ∈ ops, xs.length ≤ cap) (perm : List Nat) (n : Nat)
    (hrange : ∀ i ∈ perm, i < (run cap ops).size) (hnd : perm.Nodup) (hids : ops.flatten.Nodup) :
    (∀ x ∈ (run cap ops).sample perm n, ∃ k, ∃ hk : k < ops.flatten.length,
        ops.flatten.length - k ≤ cap ∧ x = some ops.flatten[k]) ∧
    ((run cap ops).sample perm n).Nodup := by
  constructor
  · intro x hx
    simp only [Buf.sample, List.mem_map] at hx
    obtain ⟨i, hi, rfl⟩ := hx
    have hi' := hrange i (List.mem_of_mem_take hi)
    obtain ⟨k, hk, h1, _, h3⟩ := C09_stored_are_recent cap hpos ops hw i hi'
    refine ⟨k, hk, h1, ?_⟩
    simp [List.getD_eq_getElem?_getD, h3]
  · unfold Buf.sample
    refine List.Nodup.map_on ?_ (List.Nodup.sublist (List.take_sublist _ _) hnd)
    intro i hi j hj hij
    have hi' := hrange i (List.mem_of_mem_take hi)
    have hj' := hrange j (List.mem_of_mem_take hj)
    obtain ⟨k1, hk1, _, m1, s1⟩ := C09_stored_are_recent cap hpos ops hw i hi'
    obtain ⟨k2, hk2, _, m2, s2⟩ := C09_stored_are_recent cap hpos ops hw j hj'
    simp only [List.getD_eq_getElem?_getD, s1, s2, Option.getD_some, Option.some.injEq] at hij
    have : k1 = k2 := (List.Nodup.getElem_inj_iff hids).mp hij
    subst this
    exact m1.symm.trans m2

/-- `clear()` empties the buffer; apart from the running counter it is a fresh buffer -/
theorem C09_clear_resets (b : Buf) :
    b.clear.size = 0 ∧ b.clear.contents = [] ∧ { b.clear with counter := 0 } = Buf.empty b.cap := by
  simp [Buf.clear, Buf.contents, Buf.empty]

/-- multi-agent buffer: the bounded deque holds exactly the last `cap` transitions, in order -/
theorem C09_deque_refines_last_n (cap : Nat) (xs : List Nat) :
    ((Deq.empty cap).pushMany xs).items = lastN cap xs ∧
    ((Deq.empty cap).pushMany xs).counter = xs.length := by
  suffices H : ∀ (d : Deq) (hist : List Nat), d.cap = cap → d.items = lastN cap hist →
      d.counter = hist.length →
      (d.pushMany xs).items = lastN cap (hist ++ xs) ∧ (d.pushMany xs).counter = (hist ++ xs).length by
    simpa using H (Deq.empty cap) [] rfl (by simp [Deq.empty, lastN]) rfl
  induction xs with
  | nil => intro d hist _ h1 h2; simpa [Deq.pushMany] using ⟨h1, h2⟩
  | cons x rest ih =>
    intro d hist hc h1 h2
    have := ih (d.push x) (hist ++ [x]) (by simpa [Deq.push] using hc) ?_ ?_
    · simpa [Deq.pushMany, List.append_assoc] using this
    · simp only [Deq.push, h1, hc, lastN, List.length_append, List.length_drop, List.length_cons,
        List.length_nil]
      rw [← List.drop_append_of_le_length (by omega), List.drop_drop]
      congr 1; omega
    · simp [Deq.push, h2]

/-- vectorised multi-agent additions are split per environment without mixing agents or
    environments: entry (env i, agent a) of the result is entry (agent a, env i) of the input -/
theorem C09_reorganize_transpose {α} (numEnv : Nat) (m : List (List α)) (i a : Nat)
    (hi : i < numEnv) (row : List α) (ha : m[a]? = some row) :
    ((reorganize numEnv m)[i]?.bind (·[a]?)) = some row[i]? := by
  simp [reorganize, hi, List.getElem?_map, ha]

/-! ## the same theorems over the definitions generated from the source text

`Gen/RingGen.lean` is written by `harness/py2lean_ring.py` from the source text of
`agilerl/components/replay_buffer.py` (`ReplayBuffer.__init__/__len__/size/add/sample/clear`) and
`agilerl/components/multi_agent_replay_buffer.py` (`MultiAgentReplayBuffer.__init__/__len__/_add/
save_to_memory_single_env/save_to_memory_vect_envs/save_to_memory`) on every run of the check;
`Proofs/RingGenEq.lean` proves that each generated method, on a state meeting the representation invariant,
succeeds and abstracts to the model function.  The theorems below are the C09 theorems with the model
functions replaced by the generated ones: Python integers, Python slice assignment (a row-count mismatch is
`none`), a storage that is `None` until the first `add`, `deque(maxlen)`.  `f` stands for `ReplayBuffer._init`
(assumed: `InitSpec`, it installs `max_size` zero rows), `rp` for `torch.randperm`, `r` for
`_reorganize_dicts` (the per-environment transitions of a vectorised call). -/
section source_translation
open RingGen

/-- the generated buffer reached from the generated `__init__(cap)` by generated `add`s -/
def genRun (f : GBuf → List (Option Nat) → GBuf) (cap : Nat) (ops : List (List Nat)) : Option GBuf :=
  ops.foldlM (fun s xs => ReplayBuffer.add f s (xs.map some)) (ReplayBuffer.init (cap : Int))

/-- no generated `add` of a legal width fails, and the generated state abstracts to the model's `run` -/
theorem C09_source_translation_run (f : GBuf → List (Option Nat) → GBuf) (hf : InitSpec f) (cap : Nat)
    (hpos : 0 < cap) (ops : List (List Nat)) (hw : ∀ xs ∈ ops, xs.length ≤ cap) :
    ∃ st, genRun f cap ops = some st ∧ absBuf st = run cap ops ∧ GenInv st ∧
      (ops ≠ [] → st._storage.isSome) := by
  obtain ⟨st, e, a, i, _, s⟩ := gen_adds_eq f hf ops (ReplayBuffer.init (cap : Int)) (gen_init_inv cap hpos)
    (fun xs hx => by simp only [ReplayBuffer.init]; exact_mod_cast hw xs hx)
  exact ⟨st, e, by rw [a, gen_init_eq]; rfl, i, s⟩

/-- generated code: `len(buffer)` = min(capacity, number added); `_cursor` and `counter` follow the count -/
theorem C09_source_translation_len_is_min (f : GBuf → List (Option Nat) → GBuf) (hf : InitSpec f) (cap : Nat)
    (hpos : 0 < cap) (ops : List (List Nat)) (hw : ∀ xs ∈ ops, xs.length ≤ cap) :
    ∃ st, genRun f cap ops = some st ∧
      ReplayBuffer.len st = ((min ops.flatten.length cap : Nat) : Int) ∧
      ReplayBuffer.size st = ((min ops.flatten.length cap : Nat) : Int) ∧
      st._cursor = ((ops.flatten.length % cap : Nat) : Int) ∧
      st.counter = (ops.flatten.length : Int) ∧
      (∀ s, st._storage = some s → s.length = cap) := by
  obtain ⟨st, e, a, i, _⟩ := C09_source_translation_run f hf cap hpos ops hw
  obtain ⟨h1, h2, h3, h4⟩ := C09_len_is_min cap hpos ops hw
  rw [← a] at h1 h2 h3 h4
  obtain ⟨l1, l2⟩ := gen_len_eq st i
  have hc := i.cursor_nonneg
  have hk := i.counter_nonneg
  refine ⟨st, e, by rw [l1, h1], by rw [l2, h1], ?_, ?_, ?_⟩
  · simp only [absBuf] at h2; omega
  · simp only [absBuf] at h3; omega
  · intro s hs
    simp only [absBuf, hs, Option.getD_some] at h4
    exact h4

/-- generated code: each of the last `min cap count` transitions is stored, the k-th one in row `k mod cap`
    of the storage -/
theorem C09_source_translation_recent_are_stored (f : GBuf → List (Option Nat) → GBuf) (hf : InitSpec f)
    (cap : Nat) (hpos : 0 < cap) (ops : List (List Nat)) (hw : ∀ xs ∈ ops, xs.length ≤ cap) (k : Nat)
    (hk : k < ops.flatten.length) (hrecent : ops.flatten.length - k ≤ cap) :
    ∃ st s, genRun f cap ops = some st ∧ st._storage = some s ∧
      s[k % cap]? = some (some ops.flatten[k]) := by
  obtain ⟨st, e, a, i, hs⟩ := C09_source_translation_run f hf cap hpos ops hw
  have hne : ops ≠ [] := by rintro rfl; simp at hk
  obtain ⟨s, hs'⟩ := Option.isSome_iff_exists.mp (hs hne)
  have := C09_recent_are_stored cap hpos ops hw k hk hrecent
  rw [← a] at this
  simp only [absBuf, hs', Option.getD_some] at this
  exact ⟨st, s, e, hs', this⟩

/-- generated code: nothing else is stored — every row below `len(buffer)` holds one of the last `cap`
    transitions -/
theorem C09_source_translation_stored_are_recent (f : GBuf → List (Option Nat) → GBuf) (hf : InitSpec f)
    (cap : Nat) (hpos : 0 < cap) (ops : List (List Nat)) (hw : ∀ xs ∈ ops, xs.length ≤ cap) :
    ∃ st, genRun f cap ops = some st ∧ ∀ j : Nat, (j : Int) < ReplayBuffer.len st →
      ∃ s k, ∃ hk : k < ops.flatten.length, st._storage = some s ∧ ops.flatten.length - k ≤ cap ∧
        k % cap = j ∧ s[j]? = some (some ops.flatten[k]) := by
  obtain ⟨st, e, a, i, hs⟩ := C09_source_translation_run f hf cap hpos ops hw
  refine ⟨st, e, fun j hj => ?_⟩
  rw [(gen_len_eq st i).1, a] at hj
  obtain ⟨k, hk, h1, h2, h3⟩ := C09_stored_are_recent cap hpos ops hw j (by exact_mod_cast hj)
  have hne : ops ≠ [] := by rintro rfl; simp at hk
  obtain ⟨s, hs'⟩ := Option.isSome_iff_exists.mp (hs hne)
  rw [← a] at h3
  simp only [absBuf, hs', Option.getD_some] at h3
  exact ⟨s, k, hk, hs', h1, h2, h3⟩

/-- generated code: `sample(batch_size)` — a prefix of `randperm(self.size)` gathered from the storage —
    succeeds on a non-empty buffer, returns only stored, recent transitions and, when transition ids are
    distinct, no duplicates.  Assumed about `torch.randperm(n)`: distinct values in `[0, n)`. -/
theorem C09_source_translation_sample_stored_distinct (f : GBuf → List (Option Nat) → GBuf) (hf : InitSpec f)
    (rp : Int → List Int) (hrp : ∀ n, (rp n).Nodup ∧ ∀ i ∈ rp n, 0 ≤ i ∧ i < n)
    (cap : Nat) (hpos : 0 < cap) (ops : List (List Nat)) (hw : ∀ xs ∈ ops, xs.length ≤ cap) (hne : ops ≠ [])
    (n : Int) (hn : 0 ≤ n) (ret : Bool) (hids : ops.flatten.Nodup) :
    ∃ st batch, genRun f cap ops = some st ∧ ReplayBuffer.sample rp st n ret = some batch ∧
      (∀ x ∈ batch, ∃ k, ∃ hk : k < ops.flatten.length,
        ops.flatten.length - k ≤ cap ∧ x = some ops.flatten[k]) ∧
      batch.Nodup := by
  obtain ⟨st, e, a, i, hs⟩ := C09_source_translation_run f hf cap hpos ops hw
  obtain ⟨s, hs'⟩ := Option.isSome_iff_exists.mp (hs hne)
  obtain ⟨hnd, hr⟩ := hrp (ReplayBuffer.size st)
  have hsz := (gen_len_eq st i).2
  have hlen : s.length = cap := by
    have h4 := (C09_len_is_min cap hpos ops hw).2.2.2
    rw [← a] at h4
    simpa only [absBuf, hs', Option.getD_some] using h4
  have hsize_le : (absBuf st).size ≤ cap := by
    rw [a, (C09_len_is_min cap hpos ops hw).1]; exact Nat.min_le_right _ _
  have hrange : ∀ j ∈ rp (ReplayBuffer.size st), 0 ≤ j ∧ j.toNat < s.length := by
    intro j hj
    obtain ⟨h0, h1⟩ := hr j hj
    rw [hsz] at h1
    omega
  have hperm : ∀ j ∈ (rp (ReplayBuffer.size st)).map Int.toNat, j < (run cap ops).size := by
    intro j hj
    obtain ⟨j', hj', rfl⟩ := List.mem_map.mp hj
    obtain ⟨h0, h1⟩ := hr j' hj'
    rw [hsz, a] at h1
    omega
  have hpnd : ((rp (ReplayBuffer.size st)).map Int.toNat).Nodup := by
    refine List.Nodup.map_on ?_ hnd
    intro x hx y hy hxy
    have := (hr x hx).1
    have := (hr y hy).1
    omega
  obtain ⟨c1, c2⟩ := C09_sample_stored_distinct cap hpos ops hw _ n.toNat hperm hpnd hids
  refine ⟨st, _, e, gen_sample_eq rp st s hs' n hn ret hrange, ?_, ?_⟩
  · rw [a]; exact c1
  · rw [a]; exact c2

/-- generated code: `clear()` succeeds, the buffer is empty afterwards and, apart from the running counter,
    it is the buffer the generated `__init__` makes -/
theorem C09_source_translation_clear_resets (st : GBuf) (h : GenInv st) :
    ∃ st', ReplayBuffer.clear st = some st' ∧ ReplayBuffer.len st' = 0 ∧ (absBuf st').contents = [] ∧
      { st' with counter := 0 } = ReplayBuffer.init st.max_size := by
  obtain ⟨st', e, a, i, _, _⟩ := gen_clear_eq st h
  obtain ⟨c1, c2, _⟩ := C09_clear_resets (absBuf st)
  refine ⟨st', e, ?_, by rw [a]; exact c2, ?_⟩
  · rw [(gen_len_eq st' i).1, a, c1]; rfl
  · cases e; rfl

/-- the generated multi-agent buffer reached from the generated `__init__(cap)` by generated
    `save_to_memory(x, is_vectorised=b)` calls -/
def genMaRun (r : Nat → List Nat) (cap : Nat) (calls : List (Nat × Bool)) : Option GDeq :=
  (MultiAgentReplayBuffer.init (cap : Int)).bind
    (fun st => calls.foldlM (fun s c => MultiAgentReplayBuffer.save_to_memory r s c.1 c.2) st)

/-- generated code: after any sequence of single and vectorised `save_to_memory` calls the deque holds
    exactly the last `cap` transitions, in order; `len` and `counter` follow the count -/
theorem C09_source_translation_deque_last_n (r : Nat → List Nat) (cap : Nat) (hpos : 0 < cap)
    (calls : List (Nat × Bool)) :
    ∃ st, genMaRun r cap calls = some st ∧
      st.memory.items = lastN cap (maHist r calls) ∧
      st.counter = ((maHist r calls).length : Int) ∧
      MultiAgentReplayBuffer.len st = ((min cap (maHist r calls).length : Nat) : Int) := by
  obtain ⟨st0, e0, a0, i0⟩ := gen_ma_init_eq cap hpos
  obtain ⟨st, e, a, i⟩ := gen_ma_run_eq r calls st0 i0
  obtain ⟨h1, h2⟩ := C09_deque_refines_last_n cap (maHist r calls)
  rw [a0] at a
  rw [← a] at h1 h2
  have hk := i.counter_nonneg
  refine ⟨st, by simp only [genMaRun, e0, Option.bind_some]; exact e, h1, ?_, ?_⟩
  · simp only [absDeq] at h2; omega
  · rw [gen_ma_len_eq]
    have h1' : st.memory.items = lastN cap (maHist r calls) := h1
    show ((st.memory.items.length : Nat) : Int) = _
    rw [h1']
    simp only [lastN, List.length_drop]
    omega

/-! non-vacuity of the source-translation theorems: the generated functions on concrete histories -/
example : (genRun (fun st _ => { st with _storage := some (List.replicate st.max_size.toNat none), initialized := true })
    3 [[1, 2], [3, 4], [5]]).map (fun st => (st._storage, ReplayBuffer.len st))
    = some (some [some 4, some 5, some 3], 3) := by decide
example : (genMaRun (fun n => [n, n + 1]) 2 [(1, false), (5, true)]).map (fun st => (st.memory.items, st.counter))
    = some ([5, 6], 3) := by decide

end source_translation

/-! ## the per-environment split of vectorised multi-agent experiences and the shape normalisation of single-agent
transitions, brought inside the model

`Model/Ring.lean` (section Reorg): a vectorised experience field is an association list agent ↦ value, a value an
array (list of per-environment rows), a dict of arrays or a tuple of arrays.  `Gen/ReorgGen.lean` is the translation
of `_reorganize_dicts`, `_add`, `save_to_memory*` (multi_agent_replay_buffer.py), of `to_tensordict`,
`to_torch_tensor`, `Transition.__post_init__` (data.py) and of the reshape loop of `ReplayBuffer.add`;
`Proofs/ReorgGenEq.lean` proves generated = model.  All theorems hold for every number of fields, agents,
environments, container kinds and key orders. -/
section reorg
variable {κ α : Type}

/-- **(i) `_reorganize_dicts` is the transpose.**  When the call succeeds, the result has one list per field, each
    with one dict per environment (`n` = length of the first value of the first field), and entry `i` of list `j`
    is exactly column `i` of field `j`: `results[j][i] = fieldCol i args[j]` — nothing lost, nothing duplicated. -/
theorem C09_reorganize_is_transpose (args : List (Field κ α)) (res : List (List (EnvField κ α)))
    (h : reorganizeDicts args = some res) :
    ∃ n, numEntries args = some n ∧ res.length = args.length ∧ (∀ l ∈ res, l.length = n) ∧
      ∀ (j : Nat) (hj : j < args.length) (i : Nat), i < n →
        ∃ d, fieldCol i args[j] = some d ∧ (res[j]?.bind (·[i]?)) = some d := by
  unfold reorganizeDicts at h
  cases hp : perEnv args with
  | none => simp [hp] at h
  | some envs =>
    simp only [hp, Option.some.injEq] at h
    subst h
    obtain ⟨_, hl, n, hn, hen⟩ := perEnv_lengths args envs hp
    obtain ⟨t1, t2⟩ := transposeTo_length args.length envs hl
    refine ⟨n, hn, t1, fun l hl' => by rw [t2 l hl', hen], ?_⟩
    intro j hj i hi
    rw [transposeTo_get args.length envs hl i j hj]
    unfold perEnv at hp
    simp only [hn] at hp
    have g1 := optAll_getElem _ _ hp i (by simpa using hi)
    simp only [List.getElem?_map, List.getElem?_range hi, Option.map_some, envTransition] at g1
    have hi' : i < envs.length := by omega
    rw [List.getElem?_eq_getElem hi'] at g1 ⊢
    have g2 := optAll_getElem _ _ (Option.some.inj g1) j (by simpa using hj)
    simp only [List.getElem?_map, List.getElem?_eq_getElem hj, Option.map_some] at g2
    have hj' : j < envs[i].length := by rw [hl _ (List.getElem_mem _)]; exact hj
    rw [List.getElem?_eq_getElem hj'] at g2
    exact ⟨envs[i][j], Option.some.inj g2, by simp [List.getElem?_eq_getElem hj']⟩

/-- **(i, inside one field)** column `i` of a field keeps the agents and their order, and every agent's entry is
    column `i` of that agent's own value -/
theorem C09_reorganize_keeps_agents (i : Nat) (f : Field κ α) (d : EnvField κ α) (h : fieldCol i f = some d) :
    d.map Prod.fst = f.map Prod.fst ∧
    ∀ (a : Nat) (ha : a < f.length), ∃ e, Val.col i f[a].2 = some e ∧ d[a]? = some (f[a].1, e) := by
  unfold fieldCol at h
  have hlen := optAll_length _ _ h
  simp only [List.length_map] at hlen
  have pt : ∀ (a : Nat) (ha : a < f.length), ∃ e, Val.col i f[a].2 = some e ∧ d[a]? = some (f[a].1, e) := by
    intro a ha
    have g := optAll_getElem _ _ h a (by simpa using ha)
    simp only [List.getElem?_map, List.getElem?_eq_getElem ha, Option.map_some] at g
    cases hc : Val.col i f[a].2 with
    | none => simp [hc] at g; omega
    | some e =>
      simp only [hc, Option.some.injEq] at g
      exact ⟨e, rfl, g.symm⟩
  refine ⟨?_, pt⟩
  apply List.ext_getElem (by simp [hlen])
  intro a h1 h2
  have ha : a < f.length := by simpa using h2
  obtain ⟨e, _, he⟩ := pt a ha
  have hd : a < d.length := by omega
  rw [List.getElem?_eq_getElem hd] at he
  simp [Option.some.inj he]

/-- **(i, inside one value)** an array contributes its row `i`; a dict of arrays contributes, under the same
    sub-keys in the same order, row `i` of each member; a tuple of arrays row `i` of each member in order -/
theorem C09_reorganize_entry (i : Nat) :
    (∀ (rows : List α) (e : Ent κ α), Val.col i (Val.arr rows : Val κ α) = some e ↔ ∃ r, rows[i]? = some r ∧ e = Ent.arr r) ∧
    (∀ (kv : List (κ × List α)) (e : Ent κ α), Val.col i (Val.dict kv : Val κ α) = some e →
      ∃ l, e = Ent.dict l ∧ l.map Prod.fst = kv.map Prod.fst ∧
        ∀ (k : Nat) (hk : k < kv.length), ∃ r, kv[k].2[i]? = some r ∧ l[k]? = some (kv[k].1, r)) ∧
    (∀ (xs : List (List α)) (e : Ent κ α), Val.col i (Val.tup xs : Val κ α) = some e →
      ∃ l, e = Ent.tup l ∧ l.length = xs.length ∧ ∀ (k : Nat) (hk : k < xs.length), xs[k][i]? = l[k]?) := by
  refine ⟨?_, ?_, ?_⟩
  · intro rows e
    show (match rows[i]? with | none => none | some r => some (Ent.arr r)) = some e ↔ _
    cases rows[i]? with
    | none => simp
    | some r => simp [eq_comm]
  · intro kv e h0
    have h : (match optAll (kv.map (fun p => match p.2[i]? with | none => none | some r => some (p.1, r))) with
        | none => none | some l => some (Ent.dict l : Ent κ α)) = some e := h0
    cases ho : optAll (kv.map (fun p => match p.2[i]? with | none => none | some r => some (p.1, r))) with
    | none => simp [ho] at h
    | some l =>
      simp only [ho, Option.some.injEq] at h
      have hlen := optAll_length _ _ ho
      simp only [List.length_map] at hlen
      have pt : ∀ (k : Nat) (hk : k < kv.length), ∃ r, kv[k].2[i]? = some r ∧ l[k]? = some (kv[k].1, r) := by
        intro k hk
        have g := optAll_getElem _ _ ho k (by simpa using hk)
        simp only [List.getElem?_map, List.getElem?_eq_getElem hk, Option.map_some] at g
        cases hc : kv[k].2[i]? with
        | none => simp [hc] at g; omega
        | some r =>
          simp only [hc, Option.some.injEq] at g
          exact ⟨r, rfl, g.symm⟩
      refine ⟨l, h.symm, ?_, pt⟩
      apply List.ext_getElem (by simp [hlen])
      intro a h1 h2
      have ha : a < kv.length := by simpa using h2
      obtain ⟨r, _, hr⟩ := pt a ha
      have hd : a < l.length := by omega
      rw [List.getElem?_eq_getElem hd] at hr
      simp [Option.some.inj hr]
  · intro xs e h0
    have h : (match optAll (xs.map (fun v => v[i]?)) with
        | none => none | some l => some (Ent.tup l : Ent κ α)) = some e := h0
    cases ho : optAll (xs.map (fun v => v[i]?)) with
    | none => simp [ho] at h
    | some l =>
      simp only [ho, Option.some.injEq] at h
      have hlen := optAll_length _ _ ho
      simp only [List.length_map] at hlen
      refine ⟨l, h.symm, hlen, ?_⟩
      intro k hk
      have g := optAll_getElem _ _ ho k (by simpa using hk)
      simpa [List.getElem?_map, List.getElem?_eq_getElem hk] using g

/-- **(iii) the number of environments is read off the first value of the first field only.**  If any array of any
    field and agent has FEWER rows than that, the call raises (IndexError) and nothing is stored … -/
theorem C09_reorganize_short_field_raises (args : List (Field κ α)) (n : Nat) (hn : numEntries args = some n)
    (f : Field κ α) (hf : f ∈ args) (k : κ) (rows : List α) (hk : (k, Val.arr rows) ∈ f) (hshort : rows.length < n) :
    reorganizeDicts args = none ∧ perEnv args = none := by
  have hcol : fieldCol rows.length f = none := by
    unfold fieldCol
    apply optAll_none_of_mem
    refine List.mem_map.mpr ⟨(k, Val.arr rows), hk, ?_⟩
    simp [Val.col]
  have henv : envTransition args rows.length = none := by
    unfold envTransition
    exact optAll_none_of_mem _ (List.mem_map.mpr ⟨f, hf, hcol⟩)
  have hp : perEnv args = none := by
    unfold perEnv
    simp only [hn]
    exact optAll_none_of_mem _ (List.mem_map.mpr ⟨rows.length, List.mem_range.mpr hshort, henv⟩)
  exact ⟨by simp [reorganizeDicts, hp], hp⟩

/-- … but an array with MORE rows is cut silently: here the reward field carries three environments, the state
    field (first) two; the call succeeds, two transitions come out and row `30` is dropped without an error.
    (`save_to_memory` is only called with equally long fields by the training loops; the property's "nothing
    lost" holds under that precondition, stated as `hsame` in `C09_reorganize_nothing_lost`.) -/
theorem C09_reorganize_silent_truncation_witness :
    reorganizeDicts ([[(0, Val.arr [1, 2])], [(0, Val.arr [10, 20, 30])]] : List (Field Nat Nat))
      = some [[[(0, Ent.arr 1)], [(0, Ent.arr 2)]], [[(0, Ent.arr 10)], [(0, Ent.arr 20)]]] := by rfl

/-- **nothing lost**: when every array has exactly `n` rows (`hsame`, stated for plain arrays), every row of every
    array of every field and agent appears in the result, at (field `j`, environment `i`, same agent position) -/
theorem C09_reorganize_nothing_lost (args : List (Field κ α)) (res : List (List (EnvField κ α)))
    (h : reorganizeDicts args = some res) (j : Nat) (hj : j < args.length) (a : Nat) (ha : a < args[j].length)
    (rows : List α) (hv : args[j][a].2 = Val.arr rows) (i : Nat) (hi : i < rows.length)
    (n : Nat) (hn : numEntries args = some n) (hsame : rows.length = n) :
    ∃ d, (res[j]?.bind (·[i]?)) = some d ∧ d[a]? = some (args[j][a].1, Ent.arr rows[i]) := by
  obtain ⟨n', hn', _, _, hall⟩ := C09_reorganize_is_transpose args res h
  have : n' = n := by rw [hn] at hn'; exact (Option.some.inj hn').symm
  subst this
  obtain ⟨d, hd, hr⟩ := hall j hj i (by omega)
  obtain ⟨_, hag⟩ := C09_reorganize_keeps_agents i args[j] d hd
  obtain ⟨e, he, hda⟩ := hag a ha
  rw [hv] at he
  simp only [Val.col, List.getElem?_eq_getElem hi, Option.some.injEq] at he
  exact ⟨d, hr, by rw [hda, ← he]⟩

section source_translation_reorg
open ReorgGen
variable [DecidableEq κ]

/-- **(i) over the generated code**: the translated `_reorganize_dicts` (three nested loops, `maybe_to_array`,
    `results[j].append`) returns, whenever it returns, exactly the transpose; it raises exactly when the model
    says so.  Assumed: `np.array(x)` keeps the content of a row; dict keys are distinct. -/
theorem C09_source_translation_reorg_is_transpose (np : α → α) (isnd : α → Bool) (hnp : ∀ x, np x = x)
    (args : List (Field κ α)) (hkeys : ∀ f ∈ args, (f.map Prod.fst).Nodup) (res : List (List (EnvField κ α)))
    (h : MultiAgentReplayBuffer.reorganize_dicts np isnd args = some res) :
    ∃ n, numEntries args = some n ∧ res.length = args.length ∧ (∀ l ∈ res, l.length = n) ∧
      ∀ (j : Nat) (hj : j < args.length) (i : Nat), i < n →
        ∃ d, fieldCol i args[j] = some d ∧ (res[j]?.bind (·[i]?)) = some d := by
  rw [gen_reorganize_dicts_eq np isnd hnp args hkeys] at h
  exact C09_reorganize_is_transpose args res h

/-- **(iii) over the generated code**: a shorter array anywhere makes the translated call raise; the longer one of
    the witness is cut silently by the translated code as well -/
theorem C09_source_translation_reorg_length_mismatch (np : α → α) (isnd : α → Bool) (hnp : ∀ x, np x = x)
    (args : List (Field κ α)) (hkeys : ∀ f ∈ args, (f.map Prod.fst).Nodup) (n : Nat) (hn : numEntries args = some n)
    (f : Field κ α) (hf : f ∈ args) (k : κ) (rows : List α) (hk : (k, Val.arr rows) ∈ f) (hshort : rows.length < n) :
    MultiAgentReplayBuffer.reorganize_dicts np isnd args = none := by
  rw [gen_reorganize_dicts_eq np isnd hnp args hkeys]
  exact (C09_reorganize_short_field_raises args n hn f hf k rows hk hshort).1

theorem C09_source_translation_reorg_silent_truncation_witness :
    MultiAgentReplayBuffer.reorganize_dicts id (fun _ => true)
      ([[(0, Val.arr [1, 2])], [(0, Val.arr [10, 20, 30])]] : List (Field Nat Nat))
      = some [[[(0, Ent.arr 1)], [(0, Ent.arr 2)]], [[(0, Ent.arr 10)], [(0, Ent.arr 20)]]] := by rfl

/-- **(ii) `save_to_memory_vect_envs` appends exactly `num_envs` transitions in environment order**: the translated
    method (`_reorganize_dicts`, `zip(*…)`, `_add`, `counter += 1`) raises iff the split raises; otherwise the deque
    holds the last `m` of (what it held ++ the per-environment transitions), the counter grows by their number,
    and the number is `numEntries`. -/
theorem C09_source_translation_reorg_vect_appends (np : α → α) (isnd : α → Bool) (hnp : ∀ x, np x = x)
    (st : MA κ α) (m : Nat) (hinv : MAInv st m) (args : List (Field κ α)) (hkeys : ∀ f ∈ args, (f.map Prod.fst).Nodup) :
    (perEnv args = none → MultiAgentReplayBuffer.save_to_memory np isnd st args [] true = none) ∧
    (∀ envs, perEnv args = some envs →
      ∃ st', MultiAgentReplayBuffer.save_to_memory np isnd st args [] true = some st' ∧ MAInv st' m ∧
        st'.memory.items = lastN m (st.memory.items ++ envs) ∧ st'.counter = st.counter + envs.length ∧
        numEntries args = some envs.length) := by
  have g := gen_reorg_vect_eq np isnd hnp st m hinv args hkeys
  constructor
  · intro hp
    rw [hp] at g
    simp [MultiAgentReplayBuffer.save_to_memory, g]
  · intro envs hp
    rw [hp] at g
    obtain ⟨st', e, i, it, c⟩ := g
    obtain ⟨_, _, n, hn, hl⟩ := perEnv_lengths args envs hp
    exact ⟨st', by simp [MultiAgentReplayBuffer.save_to_memory, e], i, it, c, by rw [hn, hl]⟩

/-- a call of `save_to_memory`: vectorised arguments or one transition -/
inductive MACall (κ α : Type) where
  | vect (args : List (Field κ α))
  | single (t : Trans κ α)

/-- what a sequence of calls adds, in order (`none` if a vectorised call raises) -/
def maCallHist : List (MACall κ α) → Option (List (Trans κ α))
  | [] => some []
  | MACall.vect a :: r => match perEnv a, maCallHist r with | some e, some h => some (e ++ h) | _, _ => none
  | MACall.single t :: r => match maCallHist r with | some h => some (t :: h) | none => none

/-- the generated buffer after a sequence of generated `save_to_memory` calls -/
def genReorgRun (np : α → α) (isnd : α → Bool) (st : MA κ α) (calls : List (MACall κ α)) : Option (MA κ α) :=
  calls.foldlM (fun s c => match c with
    | MACall.vect a => MultiAgentReplayBuffer.save_to_memory np isnd s a [] true
    | MACall.single t => MultiAgentReplayBuffer.save_to_memory np isnd s [] t false) st

/-- **(ii) lifted to histories**: after any sequence of single and vectorised calls (none of which raises) the
    buffer holds exactly the last `m` per-environment transitions, each one the transpose column of its call,
    in order of addition; the counter counts them -/
theorem C09_source_translation_reorg_last_n (np : α → α) (isnd : α → Bool) (hnp : ∀ x, np x = x) (m : Nat) :
    ∀ (calls : List (MACall κ α)) (st : MA κ α) (hist : List (Trans κ α)), MAInv st m →
      (∀ c ∈ calls, ∀ a, c = MACall.vect a → ∀ f ∈ a, (f.map Prod.fst).Nodup) →
      maCallHist calls = some hist →
      ∃ st', genReorgRun np isnd st calls = some st' ∧ MAInv st' m ∧
        st'.memory.items = lastN m (st.memory.items ++ hist) ∧ st'.counter = st.counter + hist.length := by
  intro calls
  induction calls with
  | nil =>
    intro st hist hinv _ hh
    simp only [maCallHist, Option.some.injEq] at hh
    subst hh
    refine ⟨st, rfl, hinv, ?_, by simp⟩
    have := hinv.len
    simp only [List.append_nil, lastN]
    have : st.memory.items.length - m = 0 := by omega
    simp [this]
  | cons c rest ih =>
    intro st hist hinv hkeys hh
    cases c with
    | vect a =>
      simp only [maCallHist] at hh
      cases hp : perEnv a with
      | none => simp [hp] at hh
      | some envs =>
        cases hr : maCallHist rest with
        | none => simp [hp, hr] at hh
        | some h' =>
          simp only [hp, hr, Option.some.injEq] at hh
          subst hh
          obtain ⟨st1, e1, i1, it1, c1, _⟩ :=
            (C09_source_translation_reorg_vect_appends np isnd hnp st m hinv a
              (hkeys _ (by simp) a rfl)).2 envs hp
          obtain ⟨st2, e2, i2, it2, c2⟩ := ih st1 h' i1 (fun c hc => hkeys c (List.mem_cons_of_mem _ hc)) hr
          refine ⟨st2, by simp only [genReorgRun, List.foldlM_cons, e1]; exact e2, i2, ?_, ?_⟩
          · rw [it2, it1, lastN_append_lastN, List.append_assoc]
          · rw [c2, c1]; simp only [List.length_append]; push_cast; omega
    | single t =>
      simp only [maCallHist] at hh
      cases hr : maCallHist rest with
      | none => simp [hr] at hh
      | some h' =>
        simp only [hr, Option.some.injEq] at hh
        subst hh
        obtain ⟨st1, e1, i1, it1, c1⟩ := gen_reorg_single_eq np isnd st m hinv t
        obtain ⟨st2, e2, i2, it2, c2⟩ := ih st1 h' i1 (fun c hc => hkeys c (List.mem_cons_of_mem _ hc)) hr
        refine ⟨st2, ?_, i2, ?_, ?_⟩
        · simp only [genReorgRun, List.foldlM_cons, MultiAgentReplayBuffer.save_to_memory, e1]
          exact e2
        · rw [it2, it1, lastN_append_lastN]; simp
        · rw [c2, c1]; simp only [List.length_cons]; push_cast; omega

/-- **(iv) shape normalisation, unvectorised path**: a scalar reward / done (`shape = []`, one number `x`) leaves
    `Transition.__post_init__` with shape `[1]`; after the caller's `unsqueeze(0)` it is `[1, 1]`, `batch_size = [1]`
    is accepted, `add` sees `_n_transitions = 1`, its reshape loop leaves the leaf alone, and the single row is `[x]`:
    exactly one row per add -/
theorem C09_source_translation_reorg_scalar_one_row (t : Transition α) (x y : α)
    (hr : t.reward = { shape := [], data := [x] }) (hd : t.done = { shape := [], data := [y] }) :
    ∃ t', t.post_init = some t' ∧ t'.reward.shape = [1] ∧ t'.done.shape = [1] ∧
      t'.reward.unsqueeze0.batchOk 1 = true ∧ t'.done.unsqueeze0.batchOk 1 = true ∧
      add_n_transitions [1] = some 1 ∧
      add_leaf_top 1 t'.reward.unsqueeze0 = some t'.reward.unsqueeze0 ∧
      t'.reward.unsqueeze0.row 0 = [x] ∧ t'.done.unsqueeze0.row 0 = [y] := by
  obtain ⟨t', e, r1, r2, d1, d2, _⟩ := gen_post_init_eq t
  refine ⟨t', e, ?_, ?_, ?_, ?_, by decide, ?_, ?_, ?_⟩ <;>
    simp [PyT.unsqueeze0, PyT.batchOk, PyT.row, add_leaf_top, PyT.ndim, r1, r2, d1, d2, hr, hd, normLeaf]

/-- **(iv) vectorised path**: a reward of `E` environments (`shape = [E]`) passes `__post_init__` unchanged,
    `batch_size = [E]` is accepted, `add` sees `_n_transitions = E`, the reshape loop makes it `(E, 1)` without
    touching the content, and row `e` is `[rs[e]]`: `E` rows, in environment order -/
theorem C09_source_translation_reorg_vector_rows (t : Transition α) (rs : List α)
    (hr : t.reward = { shape := [rs.length], data := rs }) :
    ∃ t' v, t.post_init = some t' ∧ t'.reward = t.reward ∧ t'.reward.batchOk rs.length = true ∧
      add_n_transitions [rs.length] = some rs.length ∧
      add_leaf_top rs.length t'.reward = some v ∧ add_leaf_nested rs.length t'.reward = some v ∧
      v.shape = [rs.length, 1] ∧ ∀ (e : Nat) (he : e < rs.length), v.row e = [rs[e]] := by
  obtain ⟨t', e, r1, r2, _⟩ := gen_post_init_eq t
  have hrew : t'.reward = t.reward := by
    cases h : t'.reward; cases h2 : t.reward
    simp only [h, h2, hr, normLeaf] at r1 r2 hr
    simp_all
  obtain ⟨v, a1, a2, a3, a4⟩ := gen_add_leaf_eq rs.length t'.reward (by rw [hrew, hr]; simp)
  refine ⟨t', v, e, hrew, by simp [hrew, hr, PyT.batchOk], by simp [add_n_transitions, pyIndex], a1, a2, ?_, ?_⟩
  · rw [a3, hrew, hr]; simp [addLeafShape]
  · intro e he
    have hs : v.shape = [rs.length, 1] := by rw [a3, hrew, hr]; simp [addLeafShape]
    have hdv : v.data = rs := by rw [a4, hrew, hr]
    simp [PyT.row, hs, hdv, List.take_one, he]

/-- **(iv) keys**: a tuple observation of `k` members becomes a TensorDict with keys `tuple_obs_0 … tuple_obs_{k-1}`
    holding the members in order; a dict observation keeps its keys and order -/
theorem C09_source_translation_reorg_obs_keys (xs : List (PyT α)) (kv : List (String × PyT α)) :
    (∃ l, to_tensordict (PyObs.tup xs) = PyObsTD.td l ∧ l.map Prod.fst = tupleKeys xs.length ∧ l.map Prod.snd = xs) ∧
    to_tensordict (PyObs.dict kv) = PyObsTD.td kv :=
  ⟨gen_to_tensordict_tuple_eq xs, rfl⟩

/-! non-vacuity: a concrete vectorised call with a plain, a dict and a tuple member, keys in different orders -/
example : MultiAgentReplayBuffer.reorganize_dicts id (fun _ => false)
    ([[(1, Val.arr [11, 12]), (0, Val.dict [(7, [71, 72]), (5, [51, 52])])], [(0, Val.tup [[1, 2], [3, 4]]), (1, Val.arr [8, 9])]]
      : List (Field Nat Nat))
    = some [[[(1, Ent.arr 11), (0, Ent.dict [(7, 71), (5, 51)])], [(1, Ent.arr 12), (0, Ent.dict [(7, 72), (5, 52)])]],
            [[(0, Ent.tup [1, 3]), (1, Ent.arr 8)], [(0, Ent.tup [2, 4]), (1, Ent.arr 9)]]] := by rfl
example : MAInv ({ memory := { maxlen := some 2, items := [] }, counter := 0 } : MA Nat Nat) 2 := ⟨rfl, by decide⟩
example : ((MultiAgentReplayBuffer.save_to_memory id (fun _ => true)
      ({ memory := { maxlen := some 2, items := [] }, counter := 0 } : MA Nat Nat)
      [[(0, Val.arr [1, 2, 3])], [(0, Val.arr [10, 20, 30])]] [] true).map (fun st => (st.memory.items, st.counter)))
    = some ([[[(0, Ent.arr 2)], [(0, Ent.arr 20)]], [[(0, Ent.arr 3)], [(0, Ent.arr 30)]]], 3) := by rfl

end source_translation_reorg
end reorg

/-! non-vacuity: concrete wrap-around histories satisfy the hypotheses and the conclusions
    are the expected concrete buffers -/
example : (run 3 [[1, 2], [3, 4], [5]]).store = [some 4, some 5, some 3] := by decide
example : (run 3 [[1, 2], [3, 4], [5]]).size = 3 ∧ (run 3 [[1, 2], [3, 4], [5]]).cursor = 2 := by decide
example : ∀ xs ∈ [[1, 2], [3, 4], [5]], xs.length ≤ 3 := by decide
example : ((Deq.empty 2).pushMany [1, 2, 3]).items = [2, 3] := by decide

end Ring
