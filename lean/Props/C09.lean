import Mathlib.Data.List.Nodup
import Proofs.RingConv

/-!
# C09 — replay buffers hold exactly the most recent transitions, each one intact

Model: `Model/Ring.lean` (`Buf` = `ReplayBuffer`, `Deq` = the `deque(maxlen)` of
`MultiAgentReplayBuffer`).  Every theorem quantifies over *all* capacities and *all* sequences
of batched additions whose width does not exceed the capacity (the real code rejects wider ones).
-/
namespace Ring

/-- the buffer reached from empty by any sequence of (batched) additions -/
def run (cap : Nat) (ops : List (List Nat)) : Buf := ops.foldl Buf.add (Buf.empty cap)

/-- reported length = min(capacity, number added); cursor and counter follow the count -/
theorem C09_len_is_min (cap : Nat) (hpos : 0 < cap) (ops : List (List Nat))
    (hw : ∀ xs ∈ ops, xs.length ≤ cap) :
    (run cap ops).size = min ops.flatten.length cap ∧
    (run cap ops).cursor = ops.flatten.length % cap ∧
    (run cap ops).counter = ops.flatten.length ∧
    (run cap ops).store.length = cap := by
  obtain ⟨h, hc⟩ := inv_adds cap hpos ops hw
  unfold run
  refine ⟨?_, ?_, h.counter, ?_⟩
  · rw [h.size, hc]
  · rw [h.cursor, hc]
  · rw [h.len, hc]

/-- each of the last `min cap count` transitions is stored, the k-th one in slot `k mod cap` -/
theorem C09_recent_are_stored (cap : Nat) (hpos : 0 < cap) (ops : List (List Nat))
    (hw : ∀ xs ∈ ops, xs.length ≤ cap) (k : Nat) (hk : k < ops.flatten.length)
    (hrecent : ops.flatten.length - k ≤ cap) :
    (run cap ops).store[k % cap]? = some (some ops.flatten[k]) := by
  obtain ⟨h, hc⟩ := inv_adds cap hpos ops hw
  have := h.slots k hk (by rw [hc]; exact hrecent)
  rw [hc] at this; exact this

/-- nothing else is stored: every filled slot holds one of the last `cap` transitions -/
theorem C09_stored_are_recent (cap : Nat) (hpos : 0 < cap) (ops : List (List Nat))
    (hw : ∀ xs ∈ ops, xs.length ≤ cap) (j : Nat) (hj : j < (run cap ops).size) :
    ∃ k, ∃ hk : k < ops.flatten.length, ops.flatten.length - k ≤ cap ∧ k % cap = j ∧
      (run cap ops).store[j]? = some (some ops.flatten[k]) := by
  obtain ⟨_, hc⟩ := inv_adds cap hpos ops hw
  obtain ⟨k, hk, h1, h2, h3⟩ := conv_adds cap hpos ops hw j hj
  exact ⟨k, hk, by rw [← hc]; exact h1, by rw [← hc]; exact h2, h3⟩

/-- a uniform sample (a prefix of a permutation of the filled range) returns only stored,
    recent transitions and — when transition ids are distinct — no duplicates -/
theorem C09_sample_stored_distinct (cap : Nat) (hpos : 0 < cap) (ops : List (List Nat))
    (hw : ∀ xs ∈ ops, xs.length ≤ cap) (perm : List Nat) (n : Nat)
    (hrange : ∀ i ∈ perm, i < (run cap ops).size) (hnd : perm.Nodup) (hids : ops.flatten.Nodup) :
    (∀ x ∈ (run cap ops).sample perm n, ∃ k, ∃ hk : k < ops.flatten.length,
        ops.flatten.length - k ≤ cap ∧ x = some ops.flatten[k]) ∧
    ((run cap ops).sample perm n).Nodup := by
  constructor
  · intro x hx
    simp only [Buf.sample, List.mem_map] at hx
    obtain ⟨i, hi, rfl⟩ := hx
    have hi' := hrange i (List.mem_of_mem_take hi)
    obtain ⟨k, hk, h1, _, h3⟩ := C09_stored_are_recent cap hpos ops hw i hi'
    refine ⟨k, hk, h1, ?_⟩
    simp [List.getD_eq_getElem?_getD, h3]
  · unfold Buf.sample
    refine List.Nodup.map_on ?_ (List.Nodup.sublist (List.take_sublist _ _) hnd)
    intro i hi j hj hij
    have hi' := hrange i (List.mem_of_mem_take hi)
    have hj' := hrange j (List.mem_of_mem_take hj)
    obtain ⟨k1, hk1, _, m1, s1⟩ := C09_stored_are_recent cap hpos ops hw i hi'
    obtain ⟨k2, hk2, _, m2, s2⟩ := C09_stored_are_recent cap hpos ops hw j hj'
    simp only [List.getD_eq_getElem?_getD, s1, s2, Option.getD_some, Option.some.injEq] at hij
    have : k1 = k2 := (List.Nodup.getElem_inj_iff hids).mp hij
    subst this
    exact m1.symm.trans m2

/-- `clear()` empties the buffer; apart from the running counter it is a fresh buffer -/
theorem C09_clear_resets (b : Buf) :
    b.clear.size = 0 ∧ b.clear.contents = [] ∧ { b.clear with counter := 0 } = Buf.empty b.cap := by
  simp [Buf.clear, Buf.contents, Buf.empty]

/-- multi-agent buffer: the bounded deque holds exactly the last `cap` transitions, in order -/
theorem C09_deque_refines_last_n (cap : Nat) (xs : List Nat) :
    ((Deq.empty cap).pushMany xs).items = lastN cap xs ∧
    ((Deq.empty cap).pushMany xs).counter = xs.length := by
  suffices H : ∀ (d : Deq) (hist : List Nat), d.cap = cap → d.items = lastN cap hist →
      d.counter = hist.length →
      (d.pushMany xs).items = lastN cap (hist ++ xs) ∧ (d.pushMany xs).counter = (hist ++ xs).length by
    simpa using H (Deq.empty cap) [] rfl (by simp [Deq.empty, lastN]) rfl
  induction xs with
  | nil => intro d hist _ h1 h2; simpa [Deq.pushMany] using ⟨h1, h2⟩
  | cons x rest ih =>
    intro d hist hc h1 h2
    have := ih (d.push x) (hist ++ [x]) (by simpa [Deq.push] using hc) ?_ ?_
    · simpa [Deq.pushMany, List.append_assoc] using this
    · simp only [Deq.push, h1, hc, lastN, List.length_append, List.length_drop, List.length_cons,
        List.length_nil]
      rw [← List.drop_append_of_le_length (by omega), List.drop_drop]
      congr 1; omega
    · simp [Deq.push, h2]

/-- vectorised multi-agent additions are split per environment without mixing agents or
    environments: entry (env i, agent a) of the result is entry (agent a, env i) of the input -/
theorem C09_reorganize_transpose {α} (numEnv : Nat) (m : List (List α)) (i a : Nat)
    (hi : i < numEnv) (row : List α) (ha : m[a]? = some row) :
    ((reorganize numEnv m)[i]?.bind (·[a]?)) = some row[i]? := by
  simp [reorganize, hi, List.getElem?_map, ha]

/-! non-vacuity: concrete wrap-around histories satisfy the hypotheses and the conclusions
    are the expected concrete buffers -/
example : (run 3 [[1, 2], [3, 4], [5]]).store = [some 4, some 5, some 3] := by decide
example : (run 3 [[1, 2], [3, 4], [5]]).size = 3 ∧ (run 3 [[1, 2], [3, 4], [5]]).cursor = 2 := by decide
example : ∀ xs ∈ [[1, 2], [3, 4], [5]], xs.length ≤ 3 := by decide
example : ((Deq.empty 2).pushMany [1, 2, 3]).items = [2, 3] := by decide

end Ring
