import Mathlib.Data.List.Nodup
import Proofs.RingConv
import Proofs.RingGenEq

/-!
# C09 — replay buffers hold exactly the most recent transitions, each one intact

Model: `Model/Ring.lean` (`Buf` = `ReplayBuffer`, `Deq` = the `deque(maxlen)` of
`MultiAgentReplayBuffer`).  Every theorem quantifies over *all* capacities and *all* sequences
of batched additions whose width does not exceed the capacity (the real code rejects wider ones).
-/
namespace Ring

/-- the buffer reached from empty by any sequence of (batched) additions -/
def run (cap : Nat) (ops : List (List Nat)) : Buf := ops.foldl Buf.add (Buf.empty cap)

/-- reported length = min(capacity, number added); cursor and counter follow the count -/
theorem C09_len_is_min (cap : Nat) (hpos : 0 < cap) (ops : List (List Nat))
    (hw : ∀ xs ∈ ops, xs.length ≤ cap) :
    (run cap ops).size = min ops.flatten.length cap ∧
    (run cap ops).cursor = ops.flatten.length % cap ∧
    (run cap ops).counter = ops.flatten.length ∧
    (run cap ops).store.length = cap := by
  obtain ⟨h, hc⟩ := inv_adds cap hpos ops hw
  unfold run
  refine ⟨?_, ?_, h.counter, ?_⟩
  · rw [h.size, hc]
  · rw [h.cursor, hc]
  · rw [h.len, hc]

/-- each of the last `min cap count` transitions is stored, the k-th one in slot `k mod cap` -/
theorem C09_recent_are_stored (cap : Nat) (hpos : 0 < cap) (ops : List (List Nat))
    (hw : ∀ xs ∈ ops, xs.length ≤ cap) (k : Nat) (hk : k < ops.flatten.length)
    (hrecent : ops.flatten.length - k ≤ cap) :
    (run cap ops).store[k % cap]? = some (some ops.flatten[k]) := by
  obtain ⟨h, hc⟩ := inv_adds cap hpos ops hw
  have := h.slots k hk (by rw [hc]; exact hrecent)
  rw [hc] at this; exact this

/-- nothing else is stored: every filled slot holds one of the last `cap` transitions -/
theorem C09_stored_are_recent (cap : Nat) (hpos : 0 < cap) (ops : List (List Nat))
    (hw : ∀ xs ∈ ops, xs.length ≤ cap) (j : Nat) (hj : j < (run cap ops).size) :
    ∃ k, ∃ hk : k < ops.flatten.length, ops.flatten.length - k ≤ cap ∧ k % cap = j ∧
      (run cap ops).store[j]? = some (some ops.flatten[k]) := by
  obtain ⟨_, hc⟩ := inv_adds cap hpos ops hw
  obtain ⟨k, hk, h1, h2, h3⟩ := conv_adds cap hpos ops hw j hj
  exact ⟨k, hk, by rw [← hc]; exact h1, by rw [← hc]; exact h2, h3⟩

/-- a uniform sample (a prefix of a permutation of the filled range) returns only stored,
    recent transitions and — when transition ids are distinct — no duplicates -/
theorem C09_sample_stored_distinct (cap : Nat) (hpos : 0 < cap) (ops : List (List Nat))
    (hw : ∀ xs ∈ ops, xs.length ≤ cap) (perm : List Nat) (n : Nat)
    (hrange : ∀ i ∈ perm, i < (run cap ops).size) (hnd : perm.Nodup) (hids : ops.flatten.Nodup) :
    (∀ x ∈ (run cap ops).sample perm n, ∃ k, ∃ hk : k < ops.flatten.length,
        ops.flatten.length - k ≤ cap ∧ x = some ops.flatten[k]) ∧
    ((run cap ops).sample perm n).Nodup := by
  constructor
  · intro x hx
    simp only [Buf.sample, List.mem_map] at hx
    obtain ⟨i, hi, rfl⟩ := hx
    have hi' := hrange i (List.mem_of_mem_take hi)
    obtain ⟨k, hk, h1, _, h3⟩ := C09_stored_are_recent cap hpos ops hw i hi'
    refine ⟨k, hk, h1, ?_⟩
    simp [List.getD_eq_getElem?_getD, h3]
  · unfold Buf.sample
    refine List.Nodup.map_on ?_ (List.Nodup.sublist (List.take_sublist _ _) hnd)
    intro i hi j hj hij
    have hi' := hrange i (List.mem_of_mem_take hi)
    have hj' := hrange j (List.mem_of_mem_take hj)
    obtain ⟨k1, hk1, _, m1, s1⟩ := C09_stored_are_recent cap hpos ops hw i hi'
    obtain ⟨k2, hk2, _, m2, s2⟩ := C09_stored_are_recent cap hpos ops hw j hj'
    simp only [List.getD_eq_getElem?_getD, s1, s2, Option.getD_some, Option.some.injEq] at hij
    have : k1 = k2 := (List.Nodup.getElem_inj_iff hids).mp hij
    subst this
    exact m1.symm.trans m2

/-- `clear()` empties the buffer; apart from the running counter it is a fresh buffer -/
theorem C09_clear_resets (b : Buf) :
    b.clear.size = 0 ∧ b.clear.contents = [] ∧ { b.clear with counter := 0 } = Buf.empty b.cap := by
  simp [Buf.clear, Buf.contents, Buf.empty]

/-- multi-agent buffer: the bounded deque holds exactly the last `cap` transitions, in order -/
theorem C09_deque_refines_last_n (cap : Nat) (xs : List Nat) :
    ((Deq.empty cap).pushMany xs).items = lastN cap xs ∧
    ((Deq.empty cap).pushMany xs).counter = xs.length := by
  suffices H : ∀ (d : Deq) (hist : List Nat), d.cap = cap → d.items = lastN cap hist →
      d.counter = hist.length →
      (d.pushMany xs).items = lastN cap (hist ++ xs) ∧ (d.pushMany xs).counter = (hist ++ xs).length by
    simpa using H (Deq.empty cap) [] rfl (by simp [Deq.empty, lastN]) rfl
  induction xs with
  | nil => intro d hist _ h1 h2; simpa [Deq.pushMany] using ⟨h1, h2⟩
  | cons x rest ih =>
    intro d hist hc h1 h2
    have := ih (d.push x) (hist ++ [x]) (by simpa [Deq.push] using hc) ?_ ?_
    · simpa [Deq.pushMany, List.append_assoc] using this
    · simp only [Deq.push, h1, hc, lastN, List.length_append, List.length_drop, List.length_cons,
        List.length_nil]
      rw [← List.drop_append_of_le_length (by omega), List.drop_drop]
      congr 1; omega
    · simp [Deq.push, h2]

/-- vectorised multi-agent additions are split per environment without mixing agents or
    environments: entry (env i, agent a) of the result is entry (agent a, env i) of the input -/
theorem C09_reorganize_transpose {α} (numEnv : Nat) (m : List (List α)) (i a : Nat)
    (hi : i < numEnv) (row : List α) (ha : m[a]? = some row) :
    ((reorganize numEnv m)[i]?.bind (·[a]?)) = some row[i]? := by
  simp [reorganize, hi, List.getElem?_map, ha]

/-! ## the same theorems over the definitions generated from the source text

`Gen/RingGen.lean` is written by `harness/py2lean_ring.py` from the source text of
`agilerl/components/replay_buffer.py` (`ReplayBuffer.__init__/__len__/size/add/sample/clear`) and
`agilerl/components/multi_agent_replay_buffer.py` (`MultiAgentReplayBuffer.__init__/__len__/_add/
save_to_memory_single_env/save_to_memory_vect_envs/save_to_memory`) on every run of the check;
`Proofs/RingGenEq.lean` proves that each generated method, on a state meeting the representation invariant,
succeeds and abstracts to the model function.  The theorems below are the C09 theorems with the model
functions replaced by the generated ones: Python integers, Python slice assignment (a row-count mismatch is
`none`), a storage that is `None` until the first `add`, `deque(maxlen)`.  `f` stands for `ReplayBuffer._init`
(assumed: `InitSpec`, it installs `max_size` zero rows), `rp` for `torch.randperm`, `r` for
`_reorganize_dicts` (the per-environment transitions of a vectorised call). -/
section source_translation
open RingGen

/-- the generated buffer reached from the generated `__init__(cap)` by generated `add`s -/
def genRun (f : GBuf → List (Option Nat) → GBuf) (cap : Nat) (ops : List (List Nat)) : Option GBuf :=
  ops.foldlM (fun s xs => ReplayBuffer.add f s (xs.map some)) (ReplayBuffer.init (cap : Int))

/-- no generated `add` of a legal width fails, and the generated state abstracts to the model's `run` -/
theorem C09_source_translation_run (f : GBuf → List (Option Nat) → GBuf) (hf : InitSpec f) (cap : Nat)
    (hpos : 0 < cap) (ops : List (List Nat)) (hw : ∀ xs ∈ ops, xs.length ≤ cap) :
    ∃ st, genRun f cap ops = some st ∧ absBuf st = run cap ops ∧ GenInv st ∧
      (ops ≠ [] → st._storage.isSome) := by
  obtain ⟨st, e, a, i, _, s⟩ := gen_adds_eq f hf ops (ReplayBuffer.init (cap : Int)) (gen_init_inv cap hpos)
    (fun xs hx => by simp only [ReplayBuffer.init]; exact_mod_cast hw xs hx)
  exact ⟨st, e, by rw [a, gen_init_eq]; rfl, i, s⟩

/-- generated code: `len(buffer)` = min(capacity, number added); `_cursor` and `counter` follow the count -/
theorem C09_source_translation_len_is_min (f : GBuf → List (Option Nat) → GBuf) (hf : InitSpec f) (cap : Nat)
    (hpos : 0 < cap) (ops : List (List Nat)) (hw : ∀ xs ∈ ops, xs.length ≤ cap) :
    ∃ st, genRun f cap ops = some st ∧
      ReplayBuffer.len st = ((min ops.flatten.length cap : Nat) : Int) ∧
      ReplayBuffer.size st = ((min ops.flatten.length cap : Nat) : Int) ∧
      st._cursor = ((ops.flatten.length % cap : Nat) : Int) ∧
      st.counter = (ops.flatten.length : Int) ∧
      (∀ s, st._storage = some s → s.length = cap) := by
  obtain ⟨st, e, a, i, _⟩ := C09_source_translation_run f hf cap hpos ops hw
  obtain ⟨h1, h2, h3, h4⟩ := C09_len_is_min cap hpos ops hw
  rw [← a] at h1 h2 h3 h4
  obtain ⟨l1, l2⟩ := gen_len_eq st i
  have hc := i.cursor_nonneg
  have hk := i.counter_nonneg
  refine ⟨st, e, by rw [l1, h1], by rw [l2, h1], ?_, ?_, ?_⟩
  · simp only [absBuf] at h2; omega
  · simp only [absBuf] at h3; omega
  · intro s hs
    simp only [absBuf, hs, Option.getD_some] at h4
    exact h4

/-- generated code: each of the last `min cap count` transitions is stored, the k-th one in row `k mod cap`
    of the storage -/
theorem C09_source_translation_recent_are_stored (f : GBuf → List (Option Nat) → GBuf) (hf : InitSpec f)
    (cap : Nat) (hpos : 0 < cap) (ops : List (List Nat)) (hw : ∀ xs ∈ ops, xs.length ≤ cap) (k : Nat)
    (hk : k < ops.flatten.length) (hrecent : ops.flatten.length - k ≤ cap) :
    ∃ st s, genRun f cap ops = some st ∧ st._storage = some s ∧
      s[k % cap]? = some (some ops.flatten[k]) := by
  obtain ⟨st, e, a, i, hs⟩ := C09_source_translation_run f hf cap hpos ops hw
  have hne : ops ≠ [] := by rintro rfl; simp at hk
  obtain ⟨s, hs'⟩ := Option.isSome_iff_exists.mp (hs hne)
  have := C09_recent_are_stored cap hpos ops hw k hk hrecent
  rw [← a] at this
  simp only [absBuf, hs', Option.getD_some] at this
  exact ⟨st, s, e, hs', this⟩

/-- generated code: nothing else is stored — every row below `len(buffer)` holds one of the last `cap`
    transitions -/
theorem C09_source_translation_stored_are_recent (f : GBuf → List (Option Nat) → GBuf) (hf : InitSpec f)
    (cap : Nat) (hpos : 0 < cap) (ops : List (List Nat)) (hw : ∀ xs ∈ ops, xs.length ≤ cap) :
    ∃ st, genRun f cap ops = some st ∧ ∀ j : Nat, (j : Int) < ReplayBuffer.len st →
      ∃ s k, ∃ hk : k < ops.flatten.length, st._storage = some s ∧ ops.flatten.length - k ≤ cap ∧
        k % cap = j ∧ s[j]? = some (some ops.flatten[k]) := by
  obtain ⟨st, e, a, i, hs⟩ := C09_source_translation_run f hf cap hpos ops hw
  refine ⟨st, e, fun j hj => ?_⟩
  rw [(gen_len_eq st i).1, a] at hj
  obtain ⟨k, hk, h1, h2, h3⟩ := C09_stored_are_recent cap hpos ops hw j (by exact_mod_cast hj)
  have hne : ops ≠ [] := by rintro rfl; simp at hk
  obtain ⟨s, hs'⟩ := Option.isSome_iff_exists.mp (hs hne)
  rw [← a] at h3
  simp only [absBuf, hs', Option.getD_some] at h3
  exact ⟨s, k, hk, hs', h1, h2, h3⟩

/-- generated code: `sample(batch_size)` — a prefix of `randperm(self.size)` gathered from the storage —
    succeeds on a non-empty buffer, returns only stored, recent transitions and, when transition ids are
    distinct, no duplicates.  Assumed about `torch.randperm(n)`: distinct values in `[0, n)`. -/
theorem C09_source_translation_sample_stored_distinct (f : GBuf → List (Option Nat) → GBuf) (hf : InitSpec f)
    (rp : Int → List Int) (hrp : ∀ n, (rp n).Nodup ∧ ∀ i ∈ rp n, 0 ≤ i ∧ i < n)
    (cap : Nat) (hpos : 0 < cap) (ops : List (List Nat)) (hw : ∀ xs ∈ ops, xs.length ≤ cap) (hne : ops ≠ [])
    (n : Int) (hn : 0 ≤ n) (ret : Bool) (hids : ops.flatten.Nodup) :
    ∃ st batch, genRun f cap ops = some st ∧ ReplayBuffer.sample rp st n ret = some batch ∧
      (∀ x ∈ batch, ∃ k, ∃ hk : k < ops.flatten.length,
        ops.flatten.length - k ≤ cap ∧ x = some ops.flatten[k]) ∧
      batch.Nodup := by
  obtain ⟨st, e, a, i, hs⟩ := C09_source_translation_run f hf cap hpos ops hw
  obtain ⟨s, hs'⟩ := Option.isSome_iff_exists.mp (hs hne)
  obtain ⟨hnd, hr⟩ := hrp (ReplayBuffer.size st)
  have hsz := (gen_len_eq st i).2
  have hlen : s.length = cap := by
    have h4 := (C09_len_is_min cap hpos ops hw).2.2.2
    rw [← a] at h4
    simpa only [absBuf, hs', Option.getD_some] using h4
  have hsize_le : (absBuf st).size ≤ cap := by
    rw [a, (C09_len_is_min cap hpos ops hw).1]; exact Nat.min_le_right _ _
  have hrange : ∀ j ∈ rp (ReplayBuffer.size st), 0 ≤ j ∧ j.toNat < s.length := by
    intro j hj
    obtain ⟨h0, h1⟩ := hr j hj
    rw [hsz] at h1
    omega
  have hperm : ∀ j ∈ (rp (ReplayBuffer.size st)).map Int.toNat, j < (run cap ops).size := by
    intro j hj
    obtain ⟨j', hj', rfl⟩ := List.mem_map.mp hj
    obtain ⟨h0, h1⟩ := hr j' hj'
    rw [hsz, a] at h1
    omega
  have hpnd : ((rp (ReplayBuffer.size st)).map Int.toNat).Nodup := by
    refine List.Nodup.map_on ?_ hnd
    intro x hx y hy hxy
    have := (hr x hx).1
    have := (hr y hy).1
    omega
  obtain ⟨c1, c2⟩ := C09_sample_stored_distinct cap hpos ops hw _ n.toNat hperm hpnd hids
  refine ⟨st, _, e, gen_sample_eq rp st s hs' n hn ret hrange, ?_, ?_⟩
  · rw [a]; exact c1
  · rw [a]; exact c2

/-- generated code: `clear()` succeeds, the buffer is empty afterwards and, apart from the running counter,
    it is the buffer the generated `__init__` makes -/
theorem C09_source_translation_clear_resets (st : GBuf) (h : GenInv st) :
    ∃ st', ReplayBuffer.clear st = some st' ∧ ReplayBuffer.len st' = 0 ∧ (absBuf st').contents = [] ∧
      { st' with counter := 0 } = ReplayBuffer.init st.max_size := by
  obtain ⟨st', e, a, i, _, _⟩ := gen_clear_eq st h
  obtain ⟨c1, c2, _⟩ := C09_clear_resets (absBuf st)
  refine ⟨st', e, ?_, by rw [a]; exact c2, ?_⟩
  · rw [(gen_len_eq st' i).1, a, c1]; rfl
  · cases e; rfl

/-- the generated multi-agent buffer reached from the generated `__init__(cap)` by generated
    `save_to_memory(x, is_vectorised=b)` calls -/
def genMaRun (r : Nat → List Nat) (cap : Nat) (calls : List (Nat × Bool)) : Option GDeq :=
  (MultiAgentReplayBuffer.init (cap : Int)).bind
    (fun st => calls.foldlM (fun s c => MultiAgentReplayBuffer.save_to_memory r s c.1 c.2) st)

/-- generated code: after any sequence of single and vectorised `save_to_memory` calls the deque holds
    exactly the last `cap` transitions, in order; `len` and `counter` follow the count -/
theorem C09_source_translation_deque_last_n (r : Nat → List Nat) (cap : Nat) (hpos : 0 < cap)
    (calls : List (Nat × Bool)) :
    ∃ st, genMaRun r cap calls = some st ∧
      st.memory.items = lastN cap (maHist r calls) ∧
      st.counter = ((maHist r calls).length : Int) ∧
      MultiAgentReplayBuffer.len st = ((min cap (maHist r calls).length : Nat) : Int) := by
  obtain ⟨st0, e0, a0, i0⟩ := gen_ma_init_eq cap hpos
  obtain ⟨st, e, a, i⟩ := gen_ma_run_eq r calls st0 i0
  obtain ⟨h1, h2⟩ := C09_deque_refines_last_n cap (maHist r calls)
  rw [a0] at a
  rw [← a] at h1 h2
  have hk := i.counter_nonneg
  refine ⟨st, by simp only [genMaRun, e0, Option.bind_some]; exact e, h1, ?_, ?_⟩
  · simp only [absDeq] at h2; omega
  · rw [gen_ma_len_eq]
    have h1' : st.memory.items = lastN cap (maHist r calls) := h1
    show ((st.memory.items.length : Nat) : Int) = _
    rw [h1']
    simp only [lastN, List.length_drop]
    omega

/-! non-vacuity of the source-translation theorems: the generated functions on concrete histories -/
example : (genRun (fun st _ => { st with _storage := some (List.replicate st.max_size.toNat none), initialized := true })
    3 [[1, 2], [3, 4], [5]]).map (fun st => (st._storage, ReplayBuffer.len st))
    = some (some [some 4, some 5, some 3], 3) := by decide
example : (genMaRun (fun n => [n, n + 1]) 2 [(1, false), (5, true)]).map (fun st => (st.memory.items, st.counter))
    = some ([5, 6], 3) := by decide

end source_translation

/-! non-vacuity: concrete wrap-around histories satisfy the hypotheses and the conclusions
    are the expected concrete buffers -/
example : (run 3 [[1, 2], [3, 4], [5]]).store = [some 4, some 5, some 3] := by decide
example : (run 3 [[1, 2], [3, 4], [5]]).size = 3 ∧ (run 3 [[1, 2], [3, 4], [5]]).cursor = 2 := by decide
example : ∀ xs ∈ [[1, 2], [3, 4], [5]], xs.length ≤ 3 := by decide
example : ((Deq.empty 2).pushMany [1, 2, 3]).items = [2, 3] := by decide

end Ring
